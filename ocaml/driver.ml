(* Unverified glue: token reader / printer for [val] and a dispatch loop.
   Input, one request per line:   <entry-int> <int> <val> <val>
   Output, one line per request:  <val>
   val tokens:  i<int> | s<len> cp* | l<len> val* | n | o val                                   *)
open Model

let rec pos_of_int (n : int) : positive =
  if n = 1 then XH else if n land 1 = 0 then XO (pos_of_int (n lsr 1)) else XI (pos_of_int (n lsr 1))
let n_of_int n = if n = 0 then N0 else Npos (pos_of_int n)
let z_of_int n = if n = 0 then Z0 else if n > 0 then Zpos (pos_of_int n) else Zneg (pos_of_int (-n))
let rec int_of_pos = function XH -> 1 | XO p -> 2 * int_of_pos p | XI p -> 2 * int_of_pos p + 1
let int_of_n = function N0 -> 0 | Npos p -> int_of_pos p
let int_of_z = function Z0 -> 0 | Zpos p -> int_of_pos p | Zneg p -> - (int_of_pos p)

let toks = Stdlib.ref ([||] : string array)
let pos = Stdlib.ref 0
let next () = let t = !toks.(!pos) in incr pos; t
let rec rd () : val0 =
  let t = next () in
  let arg () = int_of_string (String.sub t 1 (String.length t - 1)) in
  match t.[0] with
  | 'i' -> VInt (z_of_int (arg ()))
  | 's' -> let k = arg () in VStr (List.init k (fun _ -> n_of_int (int_of_string (next ()))))
  | 'l' -> let k = arg () in VList (List.init k (fun _ -> rd ()))
  | 'n' -> VNone
  | 'o' -> VSome (rd ())
  | _ -> failwith ("bad token " ^ t)

let buf = Buffer.create 65536
let rec pr (v : val0) : unit =
  match v with
  | VInt z -> Buffer.add_string buf ("i" ^ string_of_int (int_of_z z) ^ " ")
  | VStr s -> Buffer.add_string buf ("s" ^ string_of_int (List.length s) ^ " ");
              List.iter (fun c -> Buffer.add_string buf (string_of_int (int_of_n c) ^ " ")) s
  | VList l -> Buffer.add_string buf ("l" ^ string_of_int (List.length l) ^ " "); List.iter pr l
  | VNone -> Buffer.add_string buf "n "
  | VSome x -> Buffer.add_string buf "o "; pr x

let () =
  try
    while true do
      let line = input_line stdin in
      toks := Array.of_list (List.filter (fun s -> s <> "") (String.split_on_char ' ' line));
      pos := 0;
      let entry = z_of_int (int_of_string (next ())) in
      let k = z_of_int (int_of_string (next ())) in
      let a = rd () in
      let b = rd () in
      let r = Model.dispatch entry k a b in
      Buffer.clear buf; pr r; Buffer.add_char buf '\n';
      print_string (Buffer.contents buf); flush stdout
    done
  with End_of_file -> ()

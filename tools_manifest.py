#!/usr/bin/env python3
"""Regenerate MANIFEST.json from the table below (keeps it valid at all times)."""
import json

CLAIMED = {
    "C01": ("6 C01", "answer_spec / L_parse_uri: for every strict converter (any records, any delimiter) and every string, the trie walk of the model equals the naive 'longest registered URI prefix' specification; order irrelevance by permutation invariance of the specification. Tie: differential run of the real curies against the extracted model plus the extracted predicate P_C01 evaluated on the implementation's answers.",
            "the incremental-construction clause is covered by C05's theorems; pytrie is third-party code modelled by its algorithm"),
    "C02": ("6 C02", "A_expand / A_expand_all / partition lemmas: expansion = split at the first delimiter, unique owning record, canonical URI prefix ++ identifier, for all strict converters, delimiters and strings, in every mode; expand_pair / expand_reference / expand_all / expand_pair_all likewise.",
            "standardize_identifier is the identity in the code and in the model"),
    "C03": ("6 C03", "C03_lossless / C03_inverse_1 / C03_inverse_2 / C03_bijection_*: for every strict converter whose prefixes are delimiter-safe, compress is lossless (u in expand_all(compress u), expand(compress u) = standardize_uri u); on prefix-free maps compress and expand are mutually inverse on standard forms. The predicate P_C03 evaluates the same laws on the implementation's own answers.",
            "P_C03 accepting the model on all valid cases is checked at run time (P(model) must be 1), not yet a theorem"),
    "C06": ("6 C06", "C06_prefix / C06_curie / C06_uri (functional characterisation) and the idempotence / meaning-preservation theorems, for all strict converters; standardize_uri idempotence under prefix-freeness, with a vm_compute counterexample showing the hypothesis is needed.",
            "P_C06 accepting the model on all valid cases is checked at run time, not yet a theorem"),
    "C07": ("6 C07", "C07_is_uri_* / C07_is_curie_* / C07_parse / C07_uri_precedence / C07_compress_or_standardize / C07_expand_or_standardize: the derived operations are the stated compositions of the two primitive parsers for every strict converter and string.",
            "P_C07 accepting the model on all valid cases is checked at run time, not yet a theorem"),
    "C08": ("6 C08", "C08_modes_str / C08_modes_pair / C08_modes_strict_only / C08_no_other: for each of the 14 functions, default returns a value or None, passthrough returns the same value or the input, strict returns the same value or raises a library ValueError-derived error, and no other exception escapes; for all strict converters and all strings.",
            "exceptions are compared by family (library ValueError-derived class defined in curies / anything else), not by exact subclass or message"),
    "C20": ("6 C20", "C20_prefix / C20_curie: with the patterns and re methods that the translator reads from w3c.py on every run (GenObl_C20: Gen = W3C by reflexivity), is_w3c_prefix equals the NCName grammar and is_w3c_curie equals the documented CURIE grammar for ALL strings and every whitespace table in which '/' is not whitespace; the derivative matcher is proved correct against a declarative regex semantics (deriv_ok, fullmatch_ok, match_ok). C20_match_refuted documents defect D9.",
            "the control flow of is_w3c_curie (bracket test, strip test, partition) is hand-modelled and tied by the exhaustive correspondence block; semantics of Python's re engine is modelled for the subset {literals, classes, \\s, *, ?, |, groups, ^ and $ at the ends, match/fullmatch}"),
    "C19": ("6 C19", "C19_records (the dictionary-of-sets loop equals the naive specification), C19_set_fun (function of the set of URIs), C19_valid (always a strict converter, via injectivity of decimal numbering), C19_shape_*, C19_cutoff, C19_roundtrip (no cutoff: every learnable URI compresses and expands back), C19_known_skip; for all URI lists, delimiter lists, cutoffs, metaprefixes and alnum tables. Known finding K1 (GitHub issue URIs are skipped on purpose) is excluded in the theorem and shown by C19_github_refuted; the run-time predicate evaluates the property as written, so K1 cases print KNOWN-FINDING.",
            "round trip required only for metaprefixes without ':'; delimiter lists without the empty string; str.isalnum enters as a per-case table computed by the running Python"),
    "C04": ("6 C04", "C04_iff (Converter(records) succeeds iff no string is claimed by two records at different positions), C04_uri_first (DuplicateURIPrefixes before DuplicatePrefixes, non-empty listings), C04_listing, C04_record, C04_unique_owner, C04_bimap / C04_bimap_inverse (mutually inverse bijections), C04_loaders / C04_outcome; for all finite record collections in all orders. The run-time predicate compares outcome, exception class and the clash listing for the constructor and every loader.",
            "loaders are modelled over abstract data (ordered dict items, 3-constructor JSON-LD terms); file reading is runtime"),
    "C05": ("6 C05", "invariant proof: swf (indexes = owner maps of the converter's own pairwise-disjoint records) holds initially (C05_init), is preserved by every accepted add_record / add_prefix (C05_step, via swf_append and swf_merge), hence in every reachable state of every history (C05_reachable); a consistent converter answers every query as a freshly constructed one and as the naive specification (C05_fresh_equiv); rejections raise ValueError only (C05_reject); C05_cases / C05_accept / C05_resolves describe exactly what an accepted call does; for all casefold tables.",
            "mutation is modelled at value level (a rejected call returns no new state); that a rejected call leaves the real object untouched is checked by the correspondence (state re-observed after every step)"),
    "C09": ("6 C09", "C09_raise_or_wf (ValueError or a consistent strict converter), C09_union_grouping (exactly the union of the inputs' prefixes and URI prefixes; co-recorded strings stay together), C09_priority / C09_priority_expand (case-sensitive: every record of the first converter survives with its canonical prefix, URI prefix and pattern, so its prefixes expand as in c1), C09_singleton, C09_fold_distinct (case-insensitive: no two result records hold keys equal up to case), C09_sub / C09_sub_prefixes / C09_sub_uris; by induction over the fold of add_record(merge=True) using the C05 step lemmas; for all casefold tables.",
            "derived converters get the default delimiter ':' (as in the code); inputs use ':' in the generated cases"),
    "C17": ("6 C17", "PARTIAL. Proved: the handler logic shared by both frameworks -- C17_response (every well-formed request gets the specified response), C17_known (known prefix or synonym: 302 to expand of the CURIE, split at the first delimiter, identifiers with '/' or the delimiter passed whole), C17_unknown (422); FAILURE_CODE tied by a generated obligation. Not modelled: Werkzeug / Starlette routing, percent-decoding, Location quoting -- these are exercised by driving the real in-process Flask client and Starlette TestClient on the same requests and comparing both with each other and with the model.",
            "the route contract (non-empty slash-free prefix, non-empty path identifier) is an assumption about the web frameworks validated only by the run"),
    "C18": ("6 C18", "PARTIAL. Proved: C18_answers / C18_answers_expand_all (the triples oracle yields exactly the syntactically valid members of expand_all(compress(u)); nothing for unrecognised URIs or other predicates) and C18_header (handle_header = highest-q supported-or-synonym media type, first listed on ties, default SPARQL XML; via correctness of the stable descending sort, C18_sort_first); the content-type tables are tied by generated obligations. Not modelled: rdflib's SPARQL parser / evaluator / VALUES re-ordering, serialisers, Flask / FastAPI -- exercised by issuing real SPARQL four ways (?s / ?o bound x VALUES inside / after WHERE) through graph.query, Flask GET+POST and FastAPI GET and comparing the bindings and the Content-Type.",
            "FastAPI POST is not exercisable in this sandbox (python-multipart missing); invariance under optional whitespace is checked by the run (OWS-rich generated headers), not yet a theorem; q-values with at most 3 decimals"),
    "C15": ("6 C15", "PARTIAL. Proved on the model of the four reference classes: C15_roundtrip / C15_first_separator / C15_rejects_separator_free (print and parse, first separator only), C15_eq_pair / C15_eq_equivalence / C15_name_never_matters / C15_tuple_is_plain / C15_hash (for ANY hash of the pair), C15_lt_strict_total (strict total lexicographic order), C15_ctx (converter context standardises or rejects), C15_triples. Not modelled: pydantic (frozen, JSON, validation machinery) and csv / file I/O -- exercised on the real classes and real files (CR, LF, tab, quotes, Unicode in identifiers).",
            "the model's observation vector is also the specification (the functions are the definitions of the property's notions); immutability, JSON and file round trips are observed only"),
    "C16": ("6 C16", "PARTIAL. Proved on the model: C16_pd / C16_pd_error (the target column holds the scalar results cell by cell, None = NA, all other cells preserved; an error is the first failing cell's), C16_first_error, C16_file_ok (chosen column converted, missing results -> empty cell, header / other columns / row order preserved), C16_file_atomic (if any row fails, at whatever position, the file is unchanged). The scalar methods are the proved query model. Not modelled: pandas and csv -- exercised with real data frames and real files whose bytes are compared after failing calls.",
            "the model is two-phase by construction, like _file_helper; that the real function does not write before it has read everything is what the byte comparison checks"),
    "C14": ("6 C14", "PARTIAL. Proved: C14_epm / C14_epm_all / C14_epm_fields (Record(**_record_to_dict(r)) = r with sorted synonym lists; pattern '' kept), C14_jsonld (reading the written context, plain or expanded, with or without synonyms, through the loader's term filter gives exactly the written pairs), C14_turtle_string / C14_shacl (backslash escaping is undone by the Turtle short-string lexer for prefix, namespace and pattern over the quantified alphabet), C14_tsv (no quoting, line splits back). Not modelled: json, pathlib, rdflib's Turtle parser and SPARQL engine, csv -- exercised by writing real files with the library's writers and reading them back with its loaders.",
            "turtle_unescape is a model of rdflib's short-string lexer validated only through the real SHACL round trips"),
    "C13": ("6 C13", "C13_prefix_map / C13_prefix_map_behaves, C13_priority (first URI prefix canonical, rest synonyms), C13_reverse (all group members registered, a shortest canonical, nothing invented; via a proved defaultdict-grouping lemma), C13_epm, C13_jsonld / C13_jsonld_terms (exactly the string terms and @prefix dictionaries under non-empty non-@ keys), C13_upgrade_canonical / C13_upgrade_strict (ALWAYS accepted by the strict constructor) / C13_upgrade_order (independent of dictionary order) / C13_upgrade_members (lexicographic minimum canonical, nothing dropped); for all inputs over arbitrary strings. Every loader is the strict constructor applied to these records, so the query theorems apply to the loaded converter.",
            "loading from a str path / Path versus the object is a runtime clause (json, pathlib) checked by the run only; from_rdflib is the prefix-map loader applied to namespaces()"),
    "C12": ("6 C12", "C12_transitive (TransitiveError iff a string is both key and value), per-record theorems C12_curie_same / C12_kept / C12_gain / C12_canonical / C12_clash_noop (+ C12_registered_means), C12_unknown, and for injective mappings C12_remap_uri_ok / C12_rewire_ok (the result is a consistent strict converter: the re-pointed records never clash, by injectivity and the clash test) and C12_idem (rewire twice = once, records equal); for all consistent strict converters and all mappings.",
            "the code works on a private copy of the input converter (value-level model); non-injective mappings are outside the quantifier (the strict constructor may then reject)"),
    "C11": ("6 C11", "C11_main: for every consistent strict converter and every remapping dictionary, remap_curie_prefixes either raises one of the four documented errors or returns a consistent strict converter with the same number of records, the same multiset of (URI prefix, URI synonyms, pattern) and EVERY previously known CURIE prefix still known. Proved by a loop invariant over the main loop (C11_invariant: frame, strictness kept by every step, and 'known or waiting for the applicable pair that takes the name over'), the topological property of the layered ordering (C11_order_topological), its being a permutation (C11_order_perm), unreachability of KeyError via the duplicate-keys check and of fuel exhaustion; C11_applied / C11_skipped_* / C11_old_names_kept describe each pair.",
            "the code works on a private copy of the input converter (value-level model); 'new prefix unused' is read sequentially (at the time the pair is applied)"),
}
NOT_YET = {}

def main():
    props = [json.loads(l) for l in open("properties.jsonl")]
    checks = []
    na = []
    for p in props:
        pid = p["id"]
        if pid in CLAIMED:
            ref, text, note = CLAIMED[pid]
            checks.append({
                "property_id": pid,
                "quick_cmd": f"./check {pid} quick",
                "thorough_cmd": f"./check {pid} thorough",
                "evidence_file": f"/verif/evidence/{pid}.json",
                "replay_cmd_template": "./check replay {path}",
                "engine": "coq-model+correspondence",
                "level_claimed": {"category": "proof", "text": text, "design_ref": f"DESIGN.md section {ref}"},
                "level_note": "Theorems are about the hand-written Gallina model (coq/model), closed under the global context (no axioms); the model is tied to /repo/src by a differential correspondence run (sampling), not by a verified semantics of Python. " + note,
                "technique": "machine-checked proof in Coq 8.16 about an executable model + correspondence check against the extracted model",
            })
        else:
            na.append({"property_id": pid, "reason": NOT_YET.get(pid, "not claimed yet: model, theorems and correspondence check for this property are still under construction in this development (see DESIGN.md section 8.1 build order); the technique applies")})
    m = {
        "version": 1,
        "setup_cmd": "./check setup",
        "hooks": {"guard": "CURIES_VERIF", "enable": "no source hooks are needed: every observation goes through the public API (PYTHONPATH=/repo/src)", "baseline_off_cmd": "cd /repo && /venv/bin/python -m pytest -ra -q -p no:cacheprovider --timeout=900 --continue-on-collection-errors", "source_commits": [], "add_only": True},
        "engines": [{"name": "coq-model+correspondence", "path": "/verif/check", "serves_properties": sorted(CLAIMED), "kind_free_text": "Coq 8.16.1 development (coq/), extraction to OCaml (ocaml/driver), Python correspondence harness (harness/) running the real curies from /repo/src"}],
        "checks": checks,
        "not_applicable": na,
        "notes": "fix: commits in /repo repair the genuine defects listed in known_findings.json (status fixed); see DESIGN.md section 5.",
    }
    json.dump(m, open("MANIFEST.json", "w"), indent=1)

if __name__ == "__main__":
    main()

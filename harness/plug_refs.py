"""C15: references parse, print, compare and hash consistently."""
from __future__ import annotations

import copy
import os
import pickle
import random
import tempfile

from . import qprops
from .codec import Some, plain
from .core import Plugin, ROOT

PREF = ["GO", "go", "a", "", "chebi", "x.y", "a b", "é", "𝔘", "A", "b", "ab", "doi", "p/q", "_", "0"]
IDS = ["1", "", "0000001", "a:b", ":", "::x", "a/b", "x y", "é", "a\rb", "a\nb", "a\tb", 'q"uote', "'", "a,b", "\\", " ", "𝔘", "\r\n", '""', "1:2:3"]
NAMES = ["", "name", "a:b", "é", " x ", "N\nm"]
SEPS = [":", ":", "/", "::", "|", "_"]


def exc_code(e):
    import pydantic

    if isinstance(e, pydantic.ValidationError):
        return [1]
    if isinstance(e, ValueError) and type(e).__module__.startswith("curies"):
        return [1]
    return [2]


def pair_or_exc(f):
    try:
        r = f()
    except Exception as e:
        return exc_code(e)
    return [r.prefix, r.identifier]


class C15(Plugin):
    pid = "C15"
    entry = 15
    prop = 15
    counts = {"quick": 2500, "thorough": 250000}
    runtime_validators = ["tools/textlayer/validate_csv.py"]
    rule = ("case = (prefix without ':', identifier, name, two more (prefix, identifier) pairs, a separator, an arbitrary string to parse, an "
            "optional converter as validation context); identifiers empty / with colons / CR / LF / tab / quotes / commas / backslash / Unicode. "
            "Observed on ReferenceTuple, Reference, NamableReference, NamedReference: curie, from_curie round trip, from_curie with another "
            "separator, string validation, JSON round trip, the 4x4 equality matrix, name-independence, hash agreement (on instances of five provenances: constructor, "
            "model_copy(update) of a used instance with another pair, deepcopy, pickle, model_copy), '<' on all ordered pairs and "
            "sorted(), setattr failing, validation against the converter, write_triples / read_triples round trip on a real file. "
            "Non-trivial: the identifier contains a separator, CR/LF/tab/quote, or a converter context is used.")
    assumptions = ["pydantic (frozen models, JSON, validation errors) and csv / file I/O are runtime: exercised, not modelled",
                   "hash: only agreement between the classes is observed; the theorem is stated for an arbitrary hash of the (prefix, identifier) pair"]

    def known_matchers(self):
        def curie_longer_than_csv_field_limit(case, obs):
            p, i, _, (p2, i2), (p3, i3) = case[:5]
            return any(len(a) + 1 + len(b) > 131072 for a, b in ((p, i), (p2, i2), (p3, i3)))

        return {"curie_longer_than_csv_field_limit": curie_longer_than_csv_field_limit}

    def generate(self, rng, n):
        for _ in range(n):
            p, p2, p3 = (rng.choice([x for x in PREF if ":" not in x]) for _ in range(3))
            if rng.random() < 0.3:
                p2 = p
            if rng.random() < 0.2:
                p3 = p2
            i, i2, i3 = (rng.choice(IDS) for _ in range(3))
            if rng.random() < 0.3:
                i2 = i
            name = rng.choice(NAMES)
            sep = rng.choice(SEPS)
            s = rng.choice([p + sep + i, p + ":" + i, "nodelim", "", sep, ":", rng.choice(IDS), p + sep + sep + i])
            recs = None
            if rng.random() < 0.35:
                rs = qprops.gen_records(rng, rng.randint(1, 3), cps=[x for x in qprops.CP_POOL if ":" not in x])
                if rng.random() < 0.6:
                    if rng.random() < 0.5:
                        rs[0][2] = [x for x in rs[0][2] if x != p] + ([p] if p != rs[0][0] and all(p not in [r[0], *r[2]] for r in rs[1:]) else [])
                    elif all(p not in [r[0], *r[2]] for r in rs):
                        rs[0][0] = p
                recs = Some(rs)
            elif rng.random() < 0.08:
                recs = Some([])      # an empty converter as validation context: every prefix is unknown to it
            yield [p, i, name, [p2, i2], [p3, i3], sep, s, recs]

    def observe(self, case):
        import curies
        from curies import NamableReference, NamedReference, Reference, ReferenceTuple
        from curies.triples import Triple, read_triples, write_triples

        p, i, name, (p2, i2), (p3, i3), sep, s, recs = case
        inst = [ReferenceTuple(p, i), Reference(prefix=p, identifier=i), NamableReference(prefix=p, identifier=i, name=name),
                NamedReference(prefix=p, identifier=i, name=name)]
        cls = [ReferenceTuple, Reference, NamableReference, NamedReference]
        o0 = [x.curie for x in inst]

        def fc(c, text, **kw):
            if c is NamedReference:
                return c.from_curie(text, name, **kw)
            return c.from_curie(text, **kw)

        o1 = [pair_or_exc(lambda c=c, x=x: fc(c, x.curie)) for c, x in zip(cls, inst)]
        o2 = [pair_or_exc(lambda c=c: fc(c, s, **qprops.flags(sep=sep))) for c in cls]
        o3 = [pair_or_exc(lambda c=c: c.model_validate(s)) for c in cls[1:]]
        o4 = []
        for x in inst[1:]:
            try:
                y = type(x).model_validate_json(x.model_dump_json())
                ok = y == x and y.prefix == x.prefix and y.identifier == x.identifier and getattr(y, "name", None) == getattr(x, "name", None)
            except Exception:
                ok = False
            o4.append(int(ok))
        o5 = [[int(a == b) for b in inst] for a in inst]
        o6 = int(NamableReference(prefix=p, identifier=i, name=name) == NamableReference(prefix=p, identifier=i)
                 and NamedReference(prefix=p, identifier=i, name=name) == NamedReference(prefix=p, identifier=i, name=name + "x"))
        r1, r2, r3 = Reference(prefix=p, identifier=i), Reference(prefix=p2, identifier=i2), Reference(prefix=p3, identifier=i3)
        pyd = [Reference, NamableReference, NamedReference]

        def mk_as(c, pp, ii, nn=name, how=0):
            """an instance of class c with the pair (pp, ii).  how = 0: the constructor; 1: model_copy(update=...) of an instance with
            ANOTHER pair that has been hashed, compared, sorted and printed before (whatever an instance remembers of its old pair
            must not come along); 2: copy.deepcopy of a used instance; 3: pickle round trip of a used instance; 4: model_copy()"""
            def direct(a, b):
                return c(prefix=a, identifier=b) if c is Reference else c(prefix=a, identifier=b, name=nn)

            def use(x):
                hash(x), x < x, x == x, x.pair, x.curie, sorted([x, x]), repr(x), str(x), x.model_dump()
                return x
            if how == 1:
                return use(direct(pp + "q", ii + "q")).model_copy(update={"prefix": pp, "identifier": ii})
            if how == 2:
                return copy.deepcopy(use(direct(pp, ii)))
            if how == 3:
                return pickle.loads(pickle.dumps(use(direct(pp, ii))))
            if how == 4:
                return use(direct(pp, ii)).model_copy()
            return direct(pp, ii)

        # equality and hashing depend ONLY on the pair, across the three pydantic classes: equal pairs are equal and hash alike,
        # different pairs are different (also when only the identifier, or only the letter case of the prefix, differs)
        trio = [(p, i), (p2, i2), (p3, i3), (p.swapcase(), i), (p, i + "x")]
        laws = hash(inst[1]) == hash(inst[2]) == hash(inst[3]) and len({inst[1], inst[2], inst[3]}) == 1
        k = 0
        for a in trio:
            for b in trio:
                for ca in pyd:
                    for cb in pyd:
                        # the provenance of x rotates through the five kinds (each kind meets every pair of pairs, 45 combinations)
                        k += 1
                        for how in ((k % 5, (k // 5) % 5) if a == b else (k % 5,)):
                            x, y = mk_as(ca, *a, how=how), mk_as(cb, *b, nn=name + "y")
                            laws = laws and ((x == y) == (a == b)) and ((x != y) == (a != b)) and (a != b or hash(x) == hash(y))
                            laws = laws and x.pair == a and x.curie == a[0] + ":" + a[1]
        o7 = int(bool(laws))

        def lt(a, b):
            """'<' must give the same answer whatever pydantic classes the two references have; -1 if the classes disagree"""
            answers = {bool(mk_as(ca, *a, how=(ia + 3 * ib) % 5) < mk_as(cb, *b, how=(2 * ia + ib) % 5))
                       for ia, ca in enumerate(pyd) for ib, cb in enumerate(pyd)}
            return int(answers.pop()) if len(answers) == 1 else -1

        o8 = [lt((p, i), (p2, i2)), lt((p2, i2), (p, i)), lt((p2, i2), (p3, i3)), lt((p, i), (p3, i3)), lt((p, i), (p, i)),
              [[r.prefix, r.identifier] for r in sorted([r1, NamableReference(prefix=p2, identifier=i2, name=name), NamedReference(prefix=p3, identifier=i3, name=name)])]]
        o9 = []
        for x in inst:
            ok = True
            fields = ["prefix", "identifier"] + (["name"] if hasattr(x, "name") else [])
            before = [getattr(x, f) for f in fields]
            for f in fields:
                for attempt in (lambda: setattr(x, f, "zzz"), lambda: delattr(x, f)):
                    try:
                        attempt()
                        ok = False          # an assignment or deletion went through
                    except Exception:
                        pass
            o9.append(int(ok and [getattr(x, f, None) for f in fields] == before))
        if recs is None:
            o10 = None
        else:
            try:
                c = curies.Converter(qprops.mk_records(recs.v))
                # every route by which a converter can be supplied as validation context must standardise the prefix (or reject
                # an unknown one): from_curie of the three classes, string validation with context, from_reference of every class on
                # every pydantic instance it accepts (also instances that already are of the target class)
                cu = inst[1].curie
                routes = [lambda: Reference.from_curie(cu, converter=c),
                          lambda: NamableReference.from_curie(cu, name, converter=c),
                          lambda: NamedReference.from_curie(cu, name, converter=c),
                          lambda: Reference.model_validate(cu, context=c),
                          lambda: NamableReference.model_validate(cu, context=c)]
                for x in inst[1:]:
                    routes.append(lambda x=x: Reference.from_reference(x, converter=c))
                    routes.append(lambda x=x: NamableReference.from_reference(x, converter=c))
                for x in inst[2:]:
                    routes.append(lambda x=x: NamedReference.from_reference(x, converter=c))
                answers = [pair_or_exc(f) for f in routes]
                o10 = Some(answers[0] if all(a == answers[0] for a in answers) else [-4, [a for a in answers if a != answers[0]][0]])
            except Exception:
                o10 = Some([-3])
        os.makedirs(os.path.join(ROOT, "_build", "tmp"), exist_ok=True)
        fd, path = tempfile.mkstemp(suffix=".tsv", dir=os.path.join(ROOT, "_build", "tmp"))
        os.close(fd)
        try:
            # one triple; the three rotations of it in one file; a custom header; every reference class as reader; a gzipped file
            t1 = Triple(subject=r1, predicate=r2, object=r3)
            want1 = [(r.prefix, r.identifier) for r in (r1, r2, r3)]
            rot = [Triple(subject=a, predicate=b, object=c_) for a, b, c_ in ((r1, r2, r3), (r2, r3, r1), (r3, r1, r2))]
            ok = True
            for triples, kw_w, kw_r, target in (([t1], {}, {}, path), (rot, {}, {}, path), ([t1], {"header": ["s", "p", "o"]}, {}, path),
                                                ([t1], {}, {"reference_cls": NamableReference}, path), (rot, {}, {}, path + ".gz")):
                write_triples(triples, target, **kw_w)
                back = read_triples(target, **kw_r)
                got = [[(t.prefix, t.identifier) for t in (b.subject, b.predicate, b.object)] for b in back]
                exp = [[(t.prefix, t.identifier) for t in (b.subject, b.predicate, b.object)] for b in triples]
                ok = ok and got == exp
                if kw_r:
                    ok = ok and all(type(b.subject) is kw_r["reference_cls"] for b in back)
            o11 = int(ok)
        except Exception:
            o11 = 0
        finally:
            for f in (path, path + ".gz"):
                if os.path.exists(f):
                    os.unlink(f)
        return case, [o0, o1, o2, o3, o4, o5, o6, o7, o8, o9, o10, o11]

    def nontrivial(self, case, obs):
        i = case[1]
        return any(c in i for c in ':\r\n\t"') or case[7] is not None

    def stats(self, case, obs, acc):
        acc["with_converter_context"] = acc.get("with_converter_context", 0) + (case[7] is not None)
        acc["identifier_with_separator"] = acc.get("identifier_with_separator", 0) + (":" in case[1])
        acc["identifier_with_control_char"] = acc.get("identifier_with_control_char", 0) + any(c in case[1] for c in "\r\n\t")

    def sample(self, case, obs):
        return {"prefix": case[0], "identifier": case[1], "name": case[2], "others": case[3:5], "sep": case[5], "string": case[6],
                "context": plain(case[7]), "observed": plain(obs)}

    def explain(self, case, obs, model):
        names = ["curie", "from_curie(curie)", "from_curie(s, sep)", "model_validate(s)", "json round trip", "== matrix", "name ignored",
                 "hash agreement", "< and sorted", "frozen", "converter context", "triples file round trip"]
        return [{"item": n, "impl": plain(a), "model": plain(b)} for n, a, b in zip(names, obs, model or []) if a != b]

"""C20: W3C validators -- exhaustive strings over class representatives, plus random longer strings."""
from __future__ import annotations

import itertools
import random

from .core import Plugin

REPS = ["a", "1", "_", ".", "-", ":", "/", "#", " ", "\t", "\n", "[", "]", "é", "\u0663"]   # U+0663: a non-ASCII decimal digit
SMALL = ["a", "1", ":", "/", " ", "\n", "[", "_"]
ASCII = [chr(i) for i in range(128)]
PUNCT = [c for c in ASCII if 33 <= ord(c) < 127 and not c.isalnum()]
EXOTIC = PUNCT + [" ", " ", "\u001c", "\u0085", "　", "​", "Z", "A", "z", "0", "9", "~", "%", "é", "𝔘", "\r", "\x0b", "\x0c"]


# names that carry a meaning somewhere (XML-reserved, URI schemes, common vocabularies, language keywords): a validator that
# special-cases a NAME rather than a character class is not reached by class representatives
NAMES = ["xml", "XML", "Xml", "xMl", "xmL", "xm", "xmla", "xmlns", "XMLSchema", "xsd", "rdf", "rdfs", "owl", "skos", "dc", "dcterms", "foaf", "http",
         "https", "HTTP", "urn", "ftp", "mailto", "file", "data", "GO", "go", "CHEBI", "chebi", "doi", "DOI", "_", "_1", "a.b", "a-b", "obo.go", "NCBITaxon",
         "UBERON", "MESH", "true", "false", "null", "None", "nan", "NaN", "inf", "id", "ID", "class", "type", "prefix", "base", "ns", "ns1", "nil", "x", "X", "bnode"]


ESCAPES = ["%20", "%2F", "%2f%2F", "%09", "%0A", "%5B", "%5D", "%25", "%C2%A0", "%E3%80%80", "%3A", "%"]


def mk(s: str):
    return [s, "".join(sorted({c for c in s if c.isspace()}))]


class C20(Plugin):
    pid = "C20"
    entry = 20
    prop = 20
    counts = {"quick": 20000, "thorough": 1000000}
    rule = ("every string of length <= 4 (quick) / <= 5 plus length 6 over an 8-symbol sub-alphabet (thorough) over one representative per "
            "character class {letter, digit, '_', '.', '-', ':', '/', '#', space, tab, newline, '[', ']', non-ASCII letter, non-ASCII decimal digit}; nine CURIE shapes around each of 56 well-known names (xml, xmlns, http, urn, rdf, GO, true, null ...); every string of length <= 2 over all 128 ASCII characters and every ASCII character before / inside / after every two-symbol context; plus random "
            "strings of length 5..14 mixing the representatives with all ASCII punctuation, exotic whitespace (U+00A0, U+2028, U+001C, U+0085, U+3000), zero-width "
            "space, other letters and digits. Non-trivial: length >= 2 and at least one character that is not an ASCII letter. "
            "Each case carries the whitespace table (str.isspace) of its own characters.")
    exhaustive_flag = True
    explanation = "the exhaustive block enumerates the finite space completely (exhaustive=true refers to that block only)"

    def exhaustive(self, tier):
        out = []
        top = 4 if tier == "quick" else 5
        for n in range(0, top + 1):
            for t in itertools.product(REPS, repeat=n):
                out.append(mk("".join(t)))
        if tier != "quick":
            for t in itertools.product(SMALL, repeat=6):
                out.append(mk("".join(t)))
        # every ASCII character (controls and all punctuation included), not only the class representatives: every string of
        # length <= 2 over the 128 ASCII characters, and every ASCII character in the middle of / after a two-symbol context
        seen = {c[0] for c in out}
        for n in (1, 2):
            for t in itertools.product(ASCII, repeat=n):
                x = "".join(t)
                if x not in seen:
                    out.append(mk(x))
        for name in NAMES:
            for y in (name, name + ":1", name + ":lang", name + ":", ":" + name, name + ":a:b", name + "://x", name + ":" + name, name + " :1"):
                if y not in seen:
                    seen.add(y)
                    out.append(mk(y))
        # percent-escapes are ordinary characters of a reference: "%20" is not a space, "%2F%2F" is not "//"
        for tok in ESCAPES:
            for a, b in itertools.product(SMALL + [""], repeat=2):
                for y in (a + tok + b, a + b + tok, tok + a + b, "p:" + a + tok + b, a + tok + tok + b):
                    if y not in seen:
                        seen.add(y)
                        out.append(mk(y))
        for x in ASCII:
            for a, b in itertools.product(SMALL, repeat=2):
                for y in (a + x + b, a + b + x, x + a + b):
                    if y not in seen:
                        seen.add(y)
                        out.append(mk(y))
        return out

    def generate(self, rng: random.Random, n: int):
        pool = REPS + EXOTIC + ESCAPES
        for _ in range(n):
            k = rng.randint(5, 14)
            yield mk("".join(rng.choice(pool) for _ in range(k)))

    def observe(self, case):
        from curies.w3c import is_w3c_curie, is_w3c_prefix

        s = case[0]
        case = mk(s)  # the whitespace table always belongs to the string (also after shrinking)
        return case, [int(bool(is_w3c_prefix(s))), int(bool(is_w3c_curie(s)))]

    def nontrivial(self, case, obs):
        s = case[0]
        return len(s) >= 2 and any(not (c.isascii() and c.isalpha()) for c in s)

    def stats(self, case, obs, acc):
        acc["accepted_as_prefix"] = acc.get("accepted_as_prefix", 0) + obs[0]
        acc["accepted_as_curie"] = acc.get("accepted_as_curie", 0) + obs[1]
        k = str(min(len(case[0]), 15))
        h = acc.setdefault("length_hist", {})
        h[k] = h.get(k, 0) + 1

    def sample(self, case, obs):
        return {"string": case[0], "whitespace_in_it": [hex(ord(c)) for c in case[1]], "is_w3c_prefix": obs[0], "is_w3c_curie": obs[1]}

    def explain(self, case, obs, model):
        return {"string": case[0], "impl [is_w3c_prefix, is_w3c_curie]": obs, "model": model}

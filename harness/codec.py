"""Mirror of the Gallina ``val`` codec: i<int> | s<len> cp* | l<len> val* | n | o val."""
from __future__ import annotations


class Some:
    __slots__ = ("v",)

    def __init__(self, v):
        self.v = v

    def __eq__(self, other):
        return isinstance(other, Some) and self.v == other.v

    def __hash__(self):
        return hash(("Some", _freeze(self.v)))

    def __repr__(self):
        return f"Some({self.v!r})"


class Wild:
    """Wildcard observation: an answer the check deliberately does not look at (encoded as the one-code-point string 0x110000,
    which the Gallina comparison treats as equal to anything)."""
    __slots__ = ()

    def __eq__(self, other):
        return isinstance(other, Wild)

    def __hash__(self):
        return hash("Wild")

    def __repr__(self):
        return "WILD"


WILD = Wild()


def _freeze(v):
    if isinstance(v, (list, tuple)):
        return tuple(_freeze(x) for x in v)
    if isinstance(v, Some):
        return ("Some", _freeze(v.v))
    return v


def opt(x, f=lambda y: y):
    return None if x is None else Some(f(x))


def enc(v, out: list[str]) -> None:
    if v is None:
        out.append("n")
    elif isinstance(v, bool):
        out.append("i1" if v else "i0")
    elif isinstance(v, int):
        out.append(f"i{v}")
    elif isinstance(v, str):
        out.append(f"s{len(v)}")
        out.extend(str(ord(c)) for c in v)
    elif isinstance(v, (list, tuple)):
        out.append(f"l{len(v)}")
        for x in v:
            enc(x, out)
    elif isinstance(v, Some):
        out.append("o")
        enc(v.v, out)
    elif isinstance(v, Wild):
        out.append("s1")
        out.append("1114112")
    else:
        raise TypeError(f"cannot encode {type(v)}")


def encode(v) -> str:
    out: list[str] = []
    enc(v, out)
    return " ".join(out)


def decode(text: str):
    toks = text.split()
    pos = 0

    def rd():
        nonlocal pos
        t = toks[pos]
        pos += 1
        c = t[0]
        if c == "i":
            return int(t[1:])
        if c == "s":
            k = int(t[1:])
            s = "".join(chr(int(x)) for x in toks[pos : pos + k])
            pos += k
            return s
        if c == "l":
            return [rd() for _ in range(int(t[1:]))]
        if c == "n":
            return None
        if c == "o":
            return Some(rd())
        raise ValueError(t)

    v = rd()
    assert pos == len(toks), "trailing tokens"
    return v


def plain(v):
    """JSON-friendly rendering for evidence and replay files."""
    if isinstance(v, Some):
        return {"some": plain(v.v)}
    if isinstance(v, (list, tuple)):
        return [plain(x) for x in v]
    if isinstance(v, Wild):
        return {"not_observed": True}
    return v


def unplain(v):
    if isinstance(v, dict) and set(v) == {"not_observed"}:
        return WILD
    if isinstance(v, dict) and set(v) == {"some"}:
        return Some(unplain(v["some"]))
    if isinstance(v, list):
        return [unplain(x) for x in v]
    return v

"""C19: discover."""
from __future__ import annotations

import random

from . import qprops
from . import smallscope as ss
from .codec import Some, plain
from .core import Plugin

BASES = ["http://x.org/", "http://x.org/a_", "http://x.org/a", "https://y.org/ns#", "https://y.org/ns", "urn:z:", "http://x.org/a/b/",
         "é://ü/", "https://github.com/o/r/issues/", "https://github.com/o/r/pull/", "https://github.com/issues_list/", "", "x", "http://x.org/A_",
         "http://x.org/e?id=", "http://x.org/gene_id", "urn::z::", "http://x.org/q__"]
LUIDS = ["1", "2", "3", "0001", "abc", "Z9", "é", "٣", "ⅷ", "a_b", "a-b", "", "a/b", "x#y", "1_2", "²", "𝔘", "12345", "id123", "id456", "a7", "geneid9"]
DELIMS = [None, None, None, ["#", "/", "_"], ["/"], ["_", "/"], ["#"], ["/", "#", "_", ":"], [":"], ["__", "/"], ["/b/", "/"], [],
          ["?id=", "/"], ["_id", "/"], ["::"], ["=", "?id="], ["__"], ["_id"], ["::", ":"],
          # delimiters that end in alphanumeric characters: two delimiters can then both leave an alphanumeric tail on one URI
          ["/id", "/"], ["/", "/id"], ["a", "/"], ["_id", "_"], ["id", "_", "/"], ["/a", "#", "/"]]


class C19(Plugin):
    pid = "C19"
    entry = 19
    prop = 19
    counts = {"quick": 2500, "thorough": 250000}
    rule = ("case = (optional pre-existing converter, delimiter list, cutoff, metaprefix, list of URIs, a permuted copy with repetitions, the "
            "alphanumeric table of the characters used); URIs = base ++ optional delimiter ++ identifier over nested base families (x/, x/a_, x#), "
            "alphanumeric / non-alphanumeric / empty / Unicode-digit identifiers, a dedicated stream of GitHub issue URIs (known finding K1). "
            "Non-trivial: >= 2 distinct URI prefixes are learnt, or a cutoff removes a prefix, or a URI is recognised by the given converter.")
    assumptions = ["delimiter lists contain no empty string (Python raises 'empty separator'); metaprefix arbitrary (round trip required only when it has no ':')"]

    def known_matchers(self):
        def github_issue_uri(case, obs):
            return any(u.startswith("https://github.com") and "issues" in u for u in case[4])

        return {"github_issue_uri": github_issue_uri}

    def generate(self, rng: random.Random, n: int):
        for _ in range(n):
            nb = rng.randint(1, 4)
            bases = rng.sample(BASES, nb)
            if rng.random() < 0.85:
                bases = [b for b in bases if "github.com" not in b] or ["http://x.org/"]
            uris = []
            for _ in range(rng.choice([0, 1, 2, 3, 5, 8, 12, 20])):
                b = rng.choice(bases)
                m = rng.random()
                if m < 0.8:
                    u = b + rng.choice(LUIDS)
                elif m < 0.9:
                    u = b + rng.choice(LUIDS) + rng.choice("#/_") + rng.choice(LUIDS)
                else:
                    u = rng.choice(LUIDS)
                uris.append(u)
            uris2 = list(uris)
            rng.shuffle(uris2)
            uris2 += [rng.choice(uris) for _ in range(rng.randint(0, 3))] if uris else []
            delims = rng.choice(DELIMS)
            cutoff = rng.choice([None, None, None, 0, 1, 2, 2, 3, 5])
            meta = rng.choice(["ns", "ns", "ns", "", "x:", "é", "p_", "1"])
            known = None
            if rng.random() < 0.3:
                recs = qprops.gen_records(rng, rng.randint(1, 3))
                if rng.random() < 0.7 and bases:
                    recs[0][1] = rng.choice(bases)
                # keep it strict
                seen_u = set()
                ok = True
                for r in recs:
                    for u in [r[1], *r[3]]:
                        if u in seen_u:
                            ok = False
                        seen_u.add(u)
                known = recs if ok else None
            yield [Some(known) if known is not None else None, delims or [], Some(cutoff) if cutoff is not None else None, meta, uris, uris2, "", []]

    explanation = ("small-scope block: every list of at most three URIs over {h/a1, h/a2, h/b_1, h/b_2, h#1, k/1, h/a, x} (with a reversed "
                   "copy that repeats its first element), every delimiter list in {default, ['/'], ['_', '/'], ['#', '/', '_']} and every "
                   "cutoff in {none, 1, 2}; the thorough tier runs the whole block (exhaustive=true refers to that block only), the quick "
                   "tier a fixed sample of it")

    def exhaustive(self, tier):
        import itertools as it
        T = ["h/a1", "h/a2", "h/b_1", "h/b_2", "h#1", "k/1", "h/a", "x"]
        cases = []
        for k in (0, 1, 2, 3):
            for us in it.product(T, repeat=k):
                us = list(us)
                us2 = list(reversed(us)) + us[:1]
                for delims in ([], ["/"], ["_", "/"], ["#", "/", "_"]):
                    for cutoff in (None, 1, 2):
                        cases.append([None, delims, Some(cutoff) if cutoff is not None else None, "ns", us, us2, "", []])
        self.exhaustive_flag = tier == "thorough"
        return ss.block(cases, tier, 400)

    def observe(self, case):
        import curies
        from curies.discovery import discover

        known, delims, cutoff, meta, uris, uris2 = case[:6]
        chars = sorted({c for u in uris + uris2 for c in u})
        alnum = "".join(c for c in chars if c.isalnum())
        conv = None
        if known is not None:
            conv = curies.Converter(qprops.mk_records(known.v))
        # "URIs the given converter already recognises" is judged against what converter.is_uri answers on the implementation
        recog = []
        for u in dict.fromkeys(list(uris) + list(uris2)):
            try:
                r = bool(conv.is_uri(u)) if conv is not None else False
            except Exception:
                r = False
            recog.append([u, int(r)])
        case = [known, delims, cutoff, meta, uris, uris2, alnum, recog]

        def one(us):
            try:
                # the argument is Iterable[str]: a list, a tuple, a one-shot generator, a set (any order), a dict view
                kind = (len(us) + len(meta)) % 5
                arg = [list(us), tuple(us), (u for u in us), set(us), dict.fromkeys(us).keys()][kind]
                D = discover(arg, **qprops.flags(delimiters=list(delims) or None, cutoff=cutoff.v if cutoff is not None else None,
                                                      metaprefix=meta, converter=conv))
            except ValueError as e:
                return [1] if type(e).__module__.startswith("curies") else [2]
            except Exception:
                return [2]
            rt = []
            for u in uris:
                x = qprops.outcome(lambda: D.compress(u), qprops.v_ostr)
                if x[0] == 0 and x[1] is not None:
                    y = qprops.outcome(lambda: D.expand(x[1].v), qprops.v_ostr)
                else:
                    y = [0, None]
                rt.append([x, y])
            return [0, [qprops.v_record(r) for r in sorted(D.records, key=lambda r: r.prefix)], rt]

        return case, [one(uris), one(uris2)]

    def nontrivial(self, case, obs):
        o = obs[0]
        if not o or o[0] != 0:
            return False
        known, delims, cutoff, meta, uris, uris2 = case[:6]
        return len(o[1]) >= 2 or (cutoff is not None and cutoff.v >= 2 and len(uris) >= 2) or (known is not None and len(uris) > 0)

    def stats(self, case, obs, acc):
        o = obs[0]
        if o and o[0] == 0:
            h = acc.setdefault("learnt_prefixes_hist", {})
            k = str(min(len(o[1]), 6))
            h[k] = h.get(k, 0) + 1
        acc["with_converter"] = acc.get("with_converter", 0) + (case[0] is not None)
        acc["with_cutoff"] = acc.get("with_cutoff", 0) + (case[2] is not None)
        acc["github_cases"] = acc.get("github_cases", 0) + any("github.com" in u for u in case[4])

    def sample(self, case, obs):
        return {"converter": plain(case[0]), "delimiters": case[1], "cutoff": plain(case[2]), "metaprefix": case[3], "uris": case[4][:8],
                "result_records": plain(obs[0][1]) if obs[0] and obs[0][0] == 0 else plain(obs[0])}

    def explain(self, case, obs, model):
        return {"impl": plain(obs), "model": plain(model)}

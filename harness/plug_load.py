"""C04 (strict construction through the constructor and every loader) and C13 (loaders denote their input)."""
from __future__ import annotations

import json
import os
import random
import tempfile

from . import qprops
from . import smallscope as ss
from .codec import Some, opt, plain
from .core import Plugin, ROOT

LOADERS = ["records", "epm", "prefix_map", "priority", "reverse", "jsonld", "upgrade", "records_reused", "rdflib"]


def rec_to_dict(r):
    p, u, ps, us, pat = r
    d = {"prefix": p, "uri_prefix": u}
    if ps:
        d["prefix_synonyms"] = list(ps)
    if us:
        d["uri_prefix_synonyms"] = list(us)
    if pat is not None:
        d["pattern"] = pat.v
    return d


def gen_input(rng: random.Random, tag: int, clash: bool):
    n = rng.choice([0, 1, 2, 3, 4, 6, 10]) if rng.random() < 0.93 else rng.randint(40, 120)
    if tag in (0, 1, 7):
        recs = qprops.gen_records(rng, n, strict_ok=not clash)
        if tag in (0, 7):
            # Record(...) must be constructible for Converter(records): no self duplicates
            for r in recs:
                r[2] = [x for x in r[2] if x != r[0]]
                r[3] = [x for x in r[3] if x != r[1]]
        return recs
    ps = list(dict.fromkeys(rng.choice(["", "", "", "", "", "@", "@"]) + rng.choice(qprops.CP_POOL) + rng.choice(["", "", "1", "x"]) for _ in range(n)))
    if tag == 5:
        # JSON-LD keys beginning with '@' are keywords and are added separately below
        ps = list(dict.fromkeys(p.lstrip("@") for p in ps))
    us = qprops.uri_family(rng, max(1, 2 * len(ps) + 2))
    if tag == 2:
        if clash:
            return [[p, rng.choice(us[: max(1, len(ps) // 2)])] for p in ps]
        rng.shuffle(us)
        return [[p, us[i]] for i, p in enumerate(ps)]
    if tag == 3:
        out = []
        pool = list(us)
        rng.shuffle(pool)
        for p in ps:
            k = rng.choice([1, 1, 2, 3])
            if clash:
                lst = [rng.choice(us) for _ in range(k)]
                if rng.random() < 0.5:
                    lst = list(dict.fromkeys(lst))
            else:
                lst = [pool.pop() for _ in range(min(k, len(pool)))] or [p + "://"]
            out.append([p, lst])
        return out
    if tag == 4:
        # uri_prefix -> prefix (keys unique); several URI prefixes per prefix, equal lengths for ties
        out = []
        for u in us:
            out.append([u, rng.choice(ps) if ps else "p"])
        return out
    if tag == 5:
        out = []
        for p in ps:
            m = rng.random()
            u = rng.choice(us)
            if m < 0.6:
                out.append([p, [0, u]])
            elif m < 0.8:
                out.append([p, [1, u]])
            else:
                out.append([p, [2]])
        extra = [["@vocab", [0, "http://v/"]], ["@language", [0, "en"]], ["", [0, "http://e/"]], ["@base", [2]], ["@x", [1, "http://q/"]]]
        for e in extra:
            if rng.random() < 0.3:
                out.insert(rng.randint(0, len(out)), e)
        seen = set()
        uniq = []
        for k, t in out:
            if k not in seen:
                uniq.append([k, t])
                seen.add(k)
        if not clash:
            # distinct URI prefixes among the kept terms
            pool = list(us)
            rng.shuffle(pool)
            for e in uniq:
                if e[1][0] in (0, 1) and pool:
                    e[1][1] = pool.pop()
        return uniq
    if tag == 6:
        # non-bijective prefix maps: several CURIE prefixes for one URI prefix
        return [[p, rng.choice(us[: max(1, len(ps) // 2 + 1)])] for p in ps]
    raise ValueError(tag)


def listing(e):
    rows = [[d.record_1.prefix, d.record_2.prefix, d.prefix] for d in e.duplicates]
    rows.sort(key=lambda t: t[0] + "\0" + t[1] + "\0" + t[2])
    return rows


def load(tag, data, d):
    import curies
    from curies import Converter, Record

    if tag == 0:
        recs = qprops.mk_records(data)
        # the signature is Iterable[Record]: a list, or an iterable that can be walked only once
        return Converter(recs if len(data) % 3 == 0 else qprops.one_shot(recs, len(data)), **qprops.flags(delimiter=d))
    if tag == 7:
        return Converter(reused_records(data)[0], **qprops.flags(delimiter=d))
    if tag == 1:
        # the documented inputs: an iterable of dictionaries or of Record objects -- a list, or a one-shot iterator / generator
        k = len(data) % 4
        dicts = [rec_to_dict(r) for r in data]
        if k == 0:
            arg = dicts
        elif k == 1:
            arg = iter(dicts)
        elif k == 2:
            arg = (Record(**x) for x in dicts)
        else:
            arg = [Record(**x) for x in dicts]
        return Converter.from_extended_prefix_map(arg, **qprops.flags(delimiter=d))
    if tag == 2:
        return Converter.from_prefix_map(dict(map(tuple, data)), **qprops.flags(delimiter=d))
    if tag == 3:
        return Converter.from_priority_prefix_map({k: list(v) for k, v in data}, **qprops.flags(delimiter=d))
    if tag == 4:
        return Converter.from_reverse_prefix_map(dict(map(tuple, data)), **qprops.flags(delimiter=d))
    if tag == 5:
        return Converter.from_jsonld({"@context": jsonld_obj(data)}, **qprops.flags(delimiter=d))
    if tag == 6:
        return Converter(curies.upgrade_prefix_map(dict(map(tuple, data))), **qprops.flags(delimiter=d))
    raise ValueError(tag)


def rdflib_graph(data):
    """A graph whose namespace bindings are (as far as rdflib lets them be) the given prefix map; which stock namespaces rdflib
    adds depends on bind_namespaces: none / core / the default set."""
    import rdflib

    kind = ["none", "core", "rdflib"][len(data) % 3]
    g = rdflib.Graph(bind_namespaces=kind)
    for p, u in data:
        try:
            g.bind(p, rdflib.URIRef(u), override=True, replace=True)
        except Exception:
            pass
    return g


def graph_namespaces(g):
    return [[str(p), str(u)] for p, u in g.namespaces()]


def reused_records(data):
    """Record objects with a history: built with half of their synonyms, used in a strict converter (whatever the library
    derives from a record on first use is derived now), then extended to the full synonym lists by the public merge path
    add_prefix(..., merge=True) -- the way synonyms arrive in practice.  Returns (objects, their current contents)."""
    from curies import Converter, Record

    objs = qprops.mk_records([[p, u, list(ps[: len(ps) // 2]), list(us[: len(us) // 2]), pat] for p, u, ps, us, pat in data])
    dummy = Record(prefix="\uf8ffdummy", uri_prefix="\uf8ffdummy://")
    for o, (p, u, ps, us, pat) in zip(objs, data):
        try:
            Converter([o, dummy])
            c1 = Converter([o])
            c1.add_prefix(p, u, prefix_synonyms=list(ps), uri_prefix_synonyms=list(us), merge=True)
        except Exception:
            pass
    now = [[o.prefix, o.uri_prefix, list(o.prefix_synonyms), list(o.uri_prefix_synonyms), opt(o.pattern)] for o in objs]
    return objs, now


# terms that are NOT prefix definitions: an expanded term definition without "@prefix": true in any of its spellings, or a value that
# is neither a string nor a dictionary
OTHER_TERMS = [{"@id": "http://other/", "@type": "@id"}, {"@id": "http://other/"}, {"@id": "http://other/", "@prefix": False},
               {"@id": "http://other/", "@prefix": "true"}, {"@id": "http://other/", "@prefix": 1}, {"@prefix": None, "@id": "http://other/"},
               None, 5, ["http://other/"], {"@reverse": "http://other/"}, {}]


def jsonld_obj(data):
    ctx = {}
    for j, (k, t) in enumerate(data):
        if t[0] == 0:
            ctx[k] = t[1]
        elif t[0] == 1:
            ctx[k] = {"@prefix": True, "@id": t[1]}
        else:
            ctx[k] = OTHER_TERMS[(j + len(k)) % len(OTHER_TERMS)]
    return ctx


def json_payload(tag, data):
    if tag == 1:
        return [rec_to_dict(r) for r in data]
    if tag in (2, 4):
        return dict(map(tuple, data))
    if tag == 3:
        return {k: list(v) for k, v in data}
    if tag == 5:
        return {"@context": jsonld_obj(data)}
    return None


def observe_load(case, files=False):
    import curies
    import pydantic

    (tag, data), d, strs, pairs = case
    if tag == 7:
        try:
            data = reused_records(data)[1]   # the model judges the records by what they contain when the constructor sees them
            case = [[tag, data], d, strs, pairs]
        except pydantic.ValidationError:
            return case, [4, [], []]
    graph = None
    if tag == 8:
        # the input of from_rdflib is what the graph lists as its namespaces when the call is made
        graph = rdflib_graph(data)
        data = graph_namespaces(graph)
        case = [[tag, data], d, strs, pairs]
    try:
        if tag == 8:
            c = curies.Converter.from_rdflib(graph, **qprops.flags(delimiter=d))
            c_m = curies.Converter.from_rdflib(graph.namespace_manager, **qprops.flags(delimiter=d))
            if [qprops.v_record(r) for r in c_m.records] != [qprops.v_record(r) for r in c.records] or graph_namespaces(graph) != data:
                return case, [9, [], []]    # graph and its manager load differently, or the caller's graph was modified
        else:
            c = load(tag, data, d)
    except curies.DuplicateURIPrefixes as e:
        return case, [1, listing(e), []]
    except curies.DuplicatePrefixes as e:
        return case, [2, listing(e), []]
    except pydantic.ValidationError:
        return case, [4, [], []]
    except Exception:
        return case, [3, [], []]
    strs = list(strs) + qprops.derived_strings(c, strs, limit=8)
    case = [[tag, data], d, strs, pairs]
    if files:
        payload = json_payload(tag, data)
        if payload is not None:
            from pathlib import Path

            fn = {1: curies.Converter.from_extended_prefix_map, 2: curies.Converter.from_prefix_map, 3: curies.Converter.from_priority_prefix_map,
                  4: curies.Converter.from_reverse_prefix_map, 5: curies.Converter.from_jsonld}[tag]
            os.makedirs(os.path.join(ROOT, "_build", "tmp"), exist_ok=True)
            # one file name per worker process, rewritten for every case: a loader must read what the file holds NOW
            path = os.path.join(ROOT, "_build", "tmp", f"c13_{os.getpid()}.json")
            try:
                with open(path, "w") as f:
                    json.dump(payload, f, ensure_ascii=(len(json.dumps(payload)) % 2 == 0))
                want = [qprops.v_record(r) for r in c.records]
                for arg in (path, Path(path)):
                    c2 = fn(arg, **qprops.flags(delimiter=d))
                    if [qprops.v_record(r) for r in c2.records] != want or c2.delimiter != c.delimiter:
                        return case, [9, [], []]  # file-vs-object mismatch (runtime-only clause of C13)
            finally:
                if os.path.exists(path):
                    os.unlink(path)
    return case, [0, [], qprops.battery(c, strs, pairs)]


class LoadPlugin(Plugin):
    entry = 4
    keep = qprops.PRIMITIVES   # the methods that define what a converter denotes; derived operations are C03/C06/C07's business
    files = False

    def generate(self, rng, n):
        for _ in range(n):
            tag = rng.choice([0, 1, 2, 3, 4, 5, 6, 7, 7, 8])
            clash = rng.random() < self.clash_rate
            data = gen_input(rng, 2 if tag == 8 else tag, clash)
            d = rng.choice([":", ":", ":", "/", "_"])
            recs_like = []
            if tag in (0, 1, 7):
                recs_like = data
            elif tag in (2, 6, 8):
                recs_like = [[p, u, [], [], None] for p, u in data]
            elif tag == 3:
                recs_like = [[p, us[0], [], us[1:], None] for p, us in data if us]
            elif tag == 4:
                recs_like = [[p, u, [], [], None] for u, p in data]
            elif tag == 5:
                recs_like = [[k, t[1], [], [], None] for k, t in data if t[0] in (0, 1)]
            strs = qprops.gen_strings(rng, recs_like[:8], d, rng.randint(1, 3))
            pairs = qprops.gen_pairs(rng, recs_like[:8], rng.randint(1, 2))
            yield [[tag, data], d, strs, pairs]

    explanation = ("small-scope block: the constructor and from_extended_prefix_map on every ordered pair of records over {a, A, b} x "
                   "{h/, h/a, k#} (one optional synonym on each side; clashes included); every prefix map, reverse prefix map and "
                   "upgrade_prefix_map input of at most three entries and every priority prefix map of at most two entries over the same names; "
                   "the thorough tier runs the whole block (exhaustive=true refers to that block only), the quick tier a fixed sample of it")

    def exhaustive(self, tier):
        import itertools as it
        recs = ss.records()
        strs, pairs = ss.probes(ss.P3, ss.U3)
        cases = []
        for r1 in recs:
            for r2 in recs:
                for tag in (0, 1):
                    cases.append([[tag, [r1, r2]], ":", strs, pairs])
        for m in ss.dicts(ss.P3, ss.U3, 3):
            cases.append([[2, m], ":", strs, pairs])
            cases.append([[6, m], ":", strs, pairs])
        for m in ss.dicts(ss.U3, ss.P3, 3):
            cases.append([[4, m], ":", strs, pairs])
        lists = [[u] for u in ss.U3] + [[u, v] for u, v in it.permutations(ss.U3, 2)] + [[u, u] for u in ss.U3[:1]]
        for k in (1, 2):
            for ks in it.permutations(ss.P3, k):
                for vs in it.product(lists, repeat=k):
                    cases.append([[3, [[a, list(b)] for a, b in zip(ks, vs)]], ":", strs, pairs])
        self.exhaustive_flag = tier == "thorough"
        return ss.block(cases, tier, 500)

    def observe(self, case):
        return observe_load(case, files=self.files)

    def stats(self, case, obs, acc):
        h = acc.setdefault("loader_hist", {})
        k = LOADERS[case[0][0]]
        h[k] = h.get(k, 0) + 1
        o = acc.setdefault("outcome_hist", {})
        o[str(obs[0])] = o.get(str(obs[0]), 0) + 1
        if len(case[0][1]) >= 20:
            acc["large_inputs"] = acc.get("large_inputs", 0) + 1

    def sample(self, case, obs):
        return {"loader": LOADERS[case[0][0]], "input": plain(case[0][1][:6]), "delimiter": case[1], "outcome": obs[0], "listing": plain(obs[1][:4])}

    def explain(self, case, obs, model):
        out = {"loader": LOADERS[case[0][0]], "outcome impl/model": [obs[0], model[0] if model else None]}
        if model and obs[1] != model[1]:
            out["listing impl/model"] = [plain(obs[1][:6]), plain(model[1][:6])]
        if model and len(obs) > 2 and len(model) > 2:
            out["answer diffs"] = [(i, plain(a), plain(b)) for i, (a, b) in enumerate(zip(obs[2], model[2])) if a != b and a != qprops.WILD][:6]
        return out


class C04(LoadPlugin):
    pid = "C04"
    prop = 4
    clash_rate = 0.55
    counts = {"quick": 2500, "thorough": 250000}
    rule = ("case = (loader in {Converter(records), Converter(Record objects that were used by another converter and then extended through "
            "add_prefix(merge=True)), extended prefix map, prefix map, priority map, reverse map, JSON-LD, upgrade_prefix_map}, input, "
            "delimiter, probes); 55 % of the inputs carry an injected clash (canonical/canonical, canonical/synonym, synonym/synonym on the CURIE "
            "side, the URI side, both sides at once, or a record listing its own canonical prefix as a synonym), 7 % have 40-120 entries. "
            "Observed: success, or the exception class with its listing of (record_1.prefix, record_2.prefix, clashing string); on success bimap, "
            "reverse_bimap and the battery. Non-trivial: the input has a clash, or is valid with >= 20 records.")

    def nontrivial(self, case, obs):
        return obs[0] != 0 or len(case[0][1]) >= 20


class C13(LoadPlugin):
    pid = "C13"
    prop = 13
    clash_rate = 0.1
    files = True
    counts = {"quick": 2000, "thorough": 200000}
    rule = ("same case shape as C04 with mostly valid inputs (10 % clashes): prefix maps, priority maps, reverse maps with equal-length ties, "
            "extended prefix maps, JSON-LD contexts with string terms, @prefix dictionaries, other terms, @-keywords and the empty key, non-bijective "
            "prefix maps for upgrade_prefix_map; for the JSON-capable loaders the same data is also written to a file and loaded through a str path "
            "and a Path (both ensure_ascii settings). Non-trivial: >= 2 entries and (a synonym group, a skipped JSON-LD term, or a tie).")
    assumptions = ["file-vs-object equality is a runtime clause (json, pathlib): checked by this run only, no theorem"]

    def nontrivial(self, case, obs):
        tag, data = case[0]
        if len(data) < 2 or obs[0] != 0:
            return False
        if tag == 3:
            return any(len(us) > 1 for _, us in data)
        if tag == 4:
            return len({p for _, p in data}) < len(data)
        if tag == 5:
            return any(t[0] == 2 or k == "" or k.startswith("@") for k, t in data)
        if tag == 6:
            return len({u for _, u in data}) < len(data)
        if tag in (0, 1):
            return any(r[2] or r[3] for r in data)
        return True

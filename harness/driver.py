"""Run the extracted model (ocaml/driver) on encoded requests."""
from __future__ import annotations

import os
import subprocess

from .codec import decode, encode

ROOT = os.path.dirname(os.path.dirname(os.path.abspath(__file__)))
DRIVER = os.path.join(ROOT, "ocaml", "driver")


def run_batch(entry: int, prop: int, pairs, chunk: int = 0, jobs: int = 12):
    """pairs: list of (case, obs) python vals. Returns list of decoded results."""
    from concurrent.futures import ThreadPoolExecutor

    lines = [f"{entry} {prop} {encode(c)} {encode(o)}" for c, o in pairs]
    chunk = chunk or max(1, -(-len(lines) // jobs))
    chunks = [lines[i : i + chunk] for i in range(0, len(lines), chunk)]

    def work(ch):
        p = subprocess.run([DRIVER], input="\n".join(ch) + "\n", capture_output=True, text=True, check=True)
        return p.stdout.splitlines()

    out = []
    with ThreadPoolExecutor(max_workers=jobs) as ex:
        for res in ex.map(work, chunks):
            out.extend(res)
    assert len(out) == len(lines), (len(out), len(lines))
    return [decode(x) for x in out]


class Live:
    """Persistent driver process for shrinking / replay."""

    def __init__(self):
        self.p = subprocess.Popen([DRIVER], stdin=subprocess.PIPE, stdout=subprocess.PIPE, text=True, bufsize=1)

    def ask(self, entry: int, prop: int, case, obs):
        self.p.stdin.write(f"{entry} {prop} {encode(case)} {encode(obs)}\n")
        self.p.stdin.flush()
        return decode(self.p.stdout.readline())

    def close(self):
        try:
            self.p.stdin.close()
            self.p.wait(timeout=5)
        except Exception:
            self.p.kill()

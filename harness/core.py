"""Check runner: build, proof obligations, correspondence, violation protocol, evidence."""
from __future__ import annotations

import fcntl
import hashlib
import itertools
import json
import os
import random
import re
import subprocess
import sys
import time
from concurrent.futures import ProcessPoolExecutor

from . import driver
from .codec import decode, encode, plain, unplain

ROOT = os.path.dirname(os.path.dirname(os.path.abspath(__file__)))
COQ = os.path.join(ROOT, "coq")
OCAML = os.path.join(ROOT, "ocaml")
REPO_SRC = os.environ.get("CURIES_SRC", "/repo/src")
JOBS = int(os.environ.get("VERIF_JOBS", "14"))

TRUSTED_BASE = [
    "Coq 8.16.1 kernel (coqc, full .vo build; no native_compute; vm_compute only in Examples / refuted witnesses / generated obligations)",
    "axioms: none (Print Assumptions under every property theorem must say 'Closed under the global context')",
    "extraction: Require Extraction + ExtrOcamlBasic only (its Extract Inductive bool/option/unit/prod/list/sumbool/sumor and inlined constants); no Extract Constant of ours; N/Z/nat/positive stay Coq inductives; OCaml 4.13.1 ocamlfind ocamlopt",
    "ocaml/driver.ml token reader/printer (unverified glue) and the Gallina val decoders",
    "hand-written Gallina model of the Python source (coq/model/*.v), tied to /repo/src by this correspondence run",
    "translator/gen.py (CPython ast and re._parser) for the generated obligations",
    "Python harness: generators, canonicalisation of observations (sets sorted, exceptions mapped to families)",
    "CPython, pytrie, pydantic (and, where used, pandas / rdflib / Flask / FastAPI) are exercised, not modelled",
]


# which generated sections (translator/gen.py) each property's obligations read
GEN_SECTIONS = {"C17": ["resolver"], "C18": ["mapping", "optimize"], "C19": ["discovery"], "C20": ["w3c"]}
# signature defaults (translator/gen.py DEFAULT_GROUPS): one section per property that speaks about defaulted parameters
for _p in ["C01", "C02", "C03", "C04", "C05", "C06", "C07", "C08", "C09", "C14", "C15", "C16", "C18", "C19"]:
    GEN_SECTIONS.setdefault(_p, []).append(f"defaults_{_p}")


# The translated method bodies (translator/frag.py -> Gen.frag_table) and the files that prove them equal to model/Query.v.
# group -> (the functions whose translation it reads, the groups it builds on); property -> the groups its model functions live in
FRAG_GROUPS = {
    "base": (["_split", "format_curie", "standardize_prefix", "standardize_identifier", "parse_uri"], []),
    "uri": (["compress", "is_uri", "compress_strict"], ["base"]),
    "curie": (["parse_curie", "expand_reference", "expand_pair", "expand", "is_curie", "expand_strict"], ["base"]),
    "all": (["get_record", "expand_pair_all", "expand_all"], ["base", "curie"]),
    "std": (["standardize_curie", "standardize_uri"], ["base", "curie"]),
    "mixed": (["parse", "compress_or_standardize", "expand_or_standardize"], ["base", "uri", "curie"]),
    "shacl": (["_get_shacl_line"], []),
    "epm": (["_record_to_dict"], []),
    "jsonld": (["_get_expanded_term", "_get_jsonld_context"], []),
    "index": (["_index"], []),
    "merge": (["_merge"], []),
    "rewire": (["_get_curie_preferred_or_synonym", "_get_uri_preferred_or_synonym", "rewire", "remap_uri_prefixes"], []),
    "ctor": (["_get_prefix_map", "_get_reverse_prefix_map", "_get_prefix_synmap"], []),
    "triples": (["_expand_pair_all", "triples"], ["base", "curie", "all"]),
    "init": (["__init__"], ["ctor"]),
    "w3c": (["is_w3c_prefix", "_is_w3c_luid", "is_w3c_curie"], []),
}
# Groups whose lemmas are closed by the generic finisher of FragObl_base.v (symbolic evaluation + case split on the semantic cases):
# their proofs do not follow the shape of the source, so a translated function whose proof no longer closes differs from the model.
# The other groups contain loop lemmas whose scripts follow the loop structure of the source (which statement writes which index,
# which list a loop ranges over): there a failing script cannot tell a harmless restructuring from a semantic change, so it is
# recorded (source_tie.unproved) and widens the search, but is not a violation by itself.
FRAG_GENERIC = {"base", "uri", "curie", "std", "mixed"}
FRAG_OF = {"C01": ["base", "uri"], "C02": ["base", "curie", "all"], "C03": ["base", "uri", "curie"], "C06": ["base", "curie", "std"],
           "C07": ["base", "uri", "curie", "mixed"], "C08": ["base", "uri", "curie", "all", "std", "mixed"],
           "C05": ["index", "merge"], "C14": ["shacl", "epm", "jsonld"], "C12": ["rewire"], "C04": ["ctor", "init"], "C18": ["triples"], "C20": ["w3c"]}

BATCH = int(os.environ.get("VERIF_BATCH", "6000"))


def sh(cmd, **kw):
    return subprocess.run(cmd, shell=True, capture_output=True, text=True, **kw)


def log(*a):
    print(*a, file=sys.stderr, flush=True)


# ------------------------------------------------------------------ build
GATE = r"\b(Admitted|admit|Axiom|Axioms|Parameter|Parameters|Conjecture|Conjectures|Abort All|bypass_check|Unset Guard Checking|Unset Positivity Checking|Unset Universe Checking|type-in-type|impredicative-set|Admit Obligations)\b"


def gate():
    bad = []
    for dp, _, fs in os.walk(COQ):
        for f in fs:
            if f.endswith(".v"):
                p = os.path.join(dp, f)
                txt = open(p).read()
                txt = re.sub(r"\(\*.*?\*\)", "", txt, flags=re.S)
                for m in re.finditer(GATE, txt):
                    bad.append(f"{p}: {m.group(0)}")
                if re.search(r"(?m)^\s*(Variable|Variables|Hypothesis|Hypotheses)\b", txt):
                    # only allowed inside sections: crude check that the file opens a Section before
                    first = re.search(r"(?m)^\s*(Variable|Variables|Hypothesis|Hypotheses)\b", txt).start()
                    if "Section" not in txt[:first]:
                        bad.append(f"{p}: Variable/Hypothesis outside a section")
    return bad


def build(force_extract=False):
    """Regenerate Gen.v from /repo, make the Coq development, extract, compile the driver. Serialised by a lock."""
    os.makedirs(os.path.join(ROOT, "_build"), exist_ok=True)
    with open(os.path.join(ROOT, "_build", "lock"), "w") as lk:
        fcntl.flock(lk, fcntl.LOCK_EX)
        t0 = time.time()
        problems = gate()
        if problems:
            return {"ok": False, "stage": "gate", "detail": "\n".join(problems)}
        gen = os.path.join(ROOT, "translator", "gen.py")
        gen_status = {"ok": True, "detail": ""}
        if os.path.exists(gen):
            r = sh(f"/venv/bin/python {gen} {REPO_SRC} {COQ}/gen/Gen.v")
            if r.returncode != 0:
                failed = None
                try:
                    failed = json.load(open(os.path.join(COQ, "gen", "Gen.v.status.json")))
                except Exception:
                    pass
                # failed = {section: reason}: only the properties whose obligations read that section are affected;
                # None = the translator itself crashed (affects every property with generated obligations)
                gen_status = {"ok": False, "detail": (r.stdout + r.stderr)[-2000:], "failed_sections": failed}
        if not os.path.exists(os.path.join(COQ, "Makefile")) or os.path.getmtime(os.path.join(COQ, "_CoqProject")) > os.path.getmtime(os.path.join(COQ, "Makefile")):
            sh("coq_makefile -f _CoqProject -o Makefile", cwd=COQ)
        r = sh(f"timeout 3000 make -k -j{JOBS} 2>&1 | tail -60", cwd=COQ)
        make_out = r.stdout
        # extraction + driver when stale
        ml = os.path.join(OCAML, "gen", "model.ml")
        drv = os.path.join(OCAML, "driver")
        newest_model = max(os.path.getmtime(os.path.join(COQ, "model", f)) for f in os.listdir(os.path.join(COQ, "model")) if f.endswith(".v"))
        newest_model = max(newest_model, os.path.getmtime(os.path.join(COQ, "Extract.v")))
        if force_extract or not os.path.exists(ml) or os.path.getmtime(ml) < newest_model:
            os.makedirs(os.path.join(OCAML, "gen"), exist_ok=True)
            r = sh(f"timeout 600 coqc -Q {COQ} Curies {COQ}/Extract.v", cwd=os.path.join(OCAML, "gen"))
            if r.returncode != 0:
                return {"ok": False, "stage": "extract", "detail": (r.stdout + r.stderr)[-3000:]}
        if not os.path.exists(drv) or os.path.getmtime(drv) < max(os.path.getmtime(ml), os.path.getmtime(os.path.join(OCAML, "driver.ml"))):
            r = sh("ocamlfind ocamlopt -O3 -I gen gen/model.mli gen/model.ml driver.ml -o driver", cwd=OCAML)
            if r.returncode != 0:
                return {"ok": False, "stage": "ocaml", "detail": (r.stdout + r.stderr)[-3000:]}
        return {"ok": True, "make_tail": make_out[-1500:], "gen": gen_status, "wall_s": round(time.time() - t0, 1)}


def obligations(pid: str):
    """Re-check props/<pid>.v (and gen/GenObl_<pid>.v) in this run and parse Print Assumptions."""
    files = [os.path.join(COQ, "props", f"{pid}.v")]
    g = os.path.join(COQ, "gen", f"GenObl_{pid}.v")
    if os.path.exists(g):
        files.insert(0, g)
    total = 0
    done = 0
    broken = []
    axioms = []
    names = []
    for f in files:
        if not os.path.exists(f):
            broken.append(f"{f}: missing")
            total += 1
            continue
        src = re.sub(r"\(\*.*?\*\)", "", open(f).read(), flags=re.S)
        thms = re.findall(r"(?m)^\s*(?:Theorem|Lemma|Example|Corollary)\s+(\w+)", src)
        n = len(re.findall(r"Print Assumptions", src))
        total += n
        with open(os.path.join(ROOT, "_build", "lock"), "w") as lk:
            fcntl.flock(lk, fcntl.LOCK_EX)
            r = sh(f"timeout 900 coqc -Q {COQ} Curies {f}")
        if r.returncode != 0:
            broken.append(f"{os.path.relpath(f, ROOT)}: " + (r.stderr or r.stdout)[-1500:])
            continue
        closed = len(re.findall(r"Closed under the global context", r.stdout))
        ax = re.findall(r"(?ms)^Axioms:\n(.*?)(?=^\S|\Z)", r.stdout)
        for a in ax:
            axioms.append(a.strip())
        done += closed
        names += thms
        if closed < n:
            broken.append(f"{os.path.relpath(f, ROOT)}: {n - closed} theorem(s) depend on axioms: {axioms}")
    # the source tie of the query methods: translated bodies proved equal to the model, group by group.  A group that reads a
    # function the translator could not translate (the source left the fragment of Python that model/PyFrag.v gives a meaning to)
    # is INAPPLICABLE to this tree: the tie falls back to the correspondence alone and the run widens its search; a group whose
    # functions were all translated and whose proof no longer compiles is a broken obligation like any other
    source_tie = None
    if pid in FRAG_OF:
        failed = {}
        try:
            failed = json.load(open(os.path.join(COQ, "gen", "Gen.v.status.json")))
        except Exception as e:
            failed = {"frag": f"no translator status: {e!r}"}
        source_tie = {"proved_groups": [], "inapplicable": {}, "broken": [], "unproved": {}}
        for g in FRAG_OF[pid]:
            fns, deps = FRAG_GROUPS[g]
            needed = [f for d in deps + [g] for f in FRAG_GROUPS[d][0]]
            na = {f: failed[k] for f in needed for k in (f"frag_{f}", "frag") if k in failed}
            if na:
                source_tie["inapplicable"][g] = na
                continue
            f = os.path.join(COQ, "gen", f"FragObl_{g}.v")
            src = re.sub(r"\(\*.*?\*\)", "", open(f).read(), flags=re.S) if os.path.exists(f) else ""
            n = len(re.findall(r"Print Assumptions", src))
            with open(os.path.join(ROOT, "_build", "lock"), "w") as lk:
                fcntl.flock(lk, fcntl.LOCK_EX)
                r = sh(f"timeout 900 coqc -Q {COQ} Curies {f}")
            closed = len(re.findall(r"Closed under the global context", r.stdout)) if r.returncode == 0 else 0
            if r.returncode != 0 or closed < n:
                msg = f"gen/FragObl_{g}.v (the translated bodies of {', '.join(fns)} are no longer proved equal to the model): " + (r.stderr or r.stdout)[-1200:]
                if g in FRAG_GENERIC and not any(d in source_tie["unproved"] for d in deps):
                    total += n
                    broken.append(msg)
                    source_tie["broken"].append(g)
                else:
                    source_tie["unproved"][g] = msg[-600:]
                continue
            total += n
            done += closed
            names += re.findall(r"(?m)^Lemma (frag_\w+)", src)
            source_tie["proved_groups"].append(g)
    return {"obligations": total, "discharged": done, "broken": broken, "axioms": axioms, "theorems": names, "source_tie": source_tie}


# ------------------------------------------------------------------ known findings
def load_known():
    p = os.path.join(ROOT, "known_findings.json")
    if not os.path.exists(p):
        return []
    return json.load(open(p))


# ------------------------------------------------------------------ plugins
class Plugin:
    """One per property. Cases and observations are python vals (see codec)."""

    pid = ""
    entry = 0
    prop = 0
    rule = ""
    counts = {"quick": 1000, "thorough": 20000}

    def corpus(self):
        d = os.path.join(ROOT, "corpus", self.pid)
        out = []
        if os.path.isdir(d):
            for f in sorted(os.listdir(d)):
                if f.endswith(".json"):
                    out.append(unplain(json.load(open(os.path.join(d, f)))["case"]))
        return out

    def generate(self, rng: random.Random, n: int):
        raise NotImplementedError

    def exhaustive(self, tier: str):
        return []

    # the converter methods whose answers this check looks at (None = all); see qprops.KEEP
    keep = None

    def observe(self, case):
        """Run the real implementation: returns (case', obs)."""
        raise NotImplementedError

    def observe_keep(self, case):
        from . import qprops

        qprops.KEEP = self.keep
        try:
            return self.observe(case)
        finally:
            qprops.KEEP = None

    def in_domain(self, case) -> bool:
        """Harness-side domain restrictions that the model's validity predicate does not express (used by the shrinker)."""
        return True

    def nontrivial(self, case, obs) -> bool:
        return True

    def widen(self, rng, tier, budget_s=120.0):
        """The tie or a proof obligation broke and the regular run found no input on which the property itself fails: search wider
        before reporting 'no-failing-input-found' -- the whole small-scope block (not only the quick tier's sample of it) and fresh
        generated cases from another seed, for at most budget_s seconds.  Returns (case, obs, model_obs) of a failing input or None."""
        t0 = time.time()
        known = [k for k in load_known() if k.get("property") == self.pid and k.get("status") == "known"]
        matchers = self.known_matchers()

        def failing(batch):
            obs = observe_all(self, batch)
            res = run_lines([l for _, _, l in obs])
            for (c, o, _), r in zip(obs, res):
                if (o and o[0] == "harness-error") or r in ([-1], [-2]):
                    continue
                same, valid, pm, pi, m = classify(r)
                if valid and pi != 1:
                    exok = excl_ok(r)
                    if any(matchers.get(k.get("matcher")) and exok and matchers[k.get("matcher")](c, o) for k in known):
                        continue
                    return c, o, m
            return None

        try:
            block = self.exhaustive("thorough") if tier == "quick" else []
        except Exception:
            block = []
        rng2 = random.Random(rng.random())
        stream = itertools.chain(block, self.generate(rng2, 4 * self.counts["quick"]))
        while time.time() - t0 < budget_s:
            batch = list(itertools.islice(stream, 1500))
            if not batch:
                break
            hit = failing(batch)
            if hit:
                return hit
        return None

    def known_matchers(self):
        return {}

    def stats(self, case, obs, acc: dict):
        pass


def _observe_worker(args):
    modname, clsname, cases = args
    import importlib
    import logging

    logging.disable(logging.CRITICAL)
    sys.path.insert(0, REPO_SRC)
    mod = importlib.import_module(modname)
    plug = getattr(mod, clsname)()
    out = []
    for c in cases:
        try:
            c2, o = plug.observe_keep(c)
        except Exception as e:  # the harness itself failed on this case
            c2, o = c, ["harness-error", repr(e)]
        out.append((c2, o, f"{plug.entry} {plug.prop} {encode(c2)} {encode(o)}"))
    return out


def observe_all(plug: Plugin, cases, jobs=JOBS):
    n = len(cases)
    if n == 0:
        return []
    chunk = max(1, -(-n // (jobs * 4)))
    parts = [cases[i : i + chunk] for i in range(0, n, chunk)]
    args = [(type(plug).__module__, type(plug).__name__, p) for p in parts]
    out = []
    if jobs <= 1 or n < 8:
        for a in args:
            out.extend(_observe_worker(a))
        return out
    with ProcessPoolExecutor(max_workers=jobs) as ex:
        for res in ex.map(_observe_worker, args):
            out.extend(res)
    return out


def run_lines(lines, jobs=JOBS):
    from concurrent.futures import ThreadPoolExecutor

    if not lines:
        return []
    chunk = max(1, -(-len(lines) // jobs))
    chunks = [lines[i : i + chunk] for i in range(0, len(lines), chunk)]

    def work(ch):
        p = subprocess.run([driver.DRIVER], input="\n".join(ch) + "\n", capture_output=True, text=True)
        if p.returncode != 0:
            raise RuntimeError("driver failed: " + p.stderr[-500:])
        return p.stdout.splitlines()

    out = []
    with ThreadPoolExecutor(max_workers=jobs) as ex:
        for res in ex.map(work, chunks):
            out.extend(res)
    assert len(out) == len(lines)
    return [decode(x) for x in out]


# result of the driver: [same, valid, P(model), P(impl), model_obs_if_different]
def classify(res):
    same, valid, pm, pi, m = res[:5]
    return bool(same), bool(valid), pm, pi, m


def excl_ok(res):
    """Optional 6th element: the predicate with the known findings' clauses excluded, on the implementation."""
    return len(res) < 6 or res[5] == 1


def evaluate_one(plug: Plugin, live: driver.Live, case):
    import logging

    logging.disable(logging.CRITICAL)
    try:
        c2, o = plug.observe_keep(case)
    except Exception:
        return None
    if o and o[0] == "harness-error":
        return None
    r = live.ask(plug.entry, plug.prop, c2, o)
    if r == [-1] or r == [-2]:
        return None
    same, valid, pm, pi, m = classify(r)
    return {"case": c2, "obs": o, "same": same, "valid": valid, "pm": pm, "pi": pi, "model": m, "exok": excl_ok(r)}


def shrink(plug: Plugin, case, pred, budget=400):
    """Greedy structural shrinking: drop list elements / characters anywhere while pred stays true."""
    live = driver.Live()
    spent = 0

    def test(c):
        nonlocal spent
        spent += 1
        try:
            if not plug.in_domain(c):      # the shrinker must not leave the domain the generator draws from
                return False
        except Exception:
            return False
        r = evaluate_one(plug, live, c)
        return r is not None and r["valid"] and pred(r)

    def variants(v):
        # yields smaller variants of v
        if isinstance(v, list):
            for i in range(len(v)):
                yield v[:i] + v[i + 1 :]
            for i in range(len(v)):
                for w in variants(v[i]):
                    yield v[:i] + [w] + v[i + 1 :]
        elif isinstance(v, str) and v:
            if len(v) > 1:
                yield v[: len(v) // 2]
                yield v[len(v) // 2 :]
            for i in range(len(v)):
                yield v[:i] + v[i + 1 :]

    cur = case
    improved = True
    try:
        while improved and spent < budget:
            improved = False
            for cand in variants(cur):
                if spent >= budget:
                    break
                if test(cand):
                    cur = cand
                    improved = True
                    break
    finally:
        live.close()
    return cur


# ------------------------------------------------------------------ extraction cross-check
def coq_val(v) -> str:
    """A python val as a Gallina term of type val."""
    from .codec import Some, Wild

    if v is None:
        return "VNone"
    if isinstance(v, bool):
        return f"(VInt ({int(v)})%Z)"
    if isinstance(v, int):
        return f"(VInt ({v})%Z)"
    if isinstance(v, str):
        return "(VStr [" + "; ".join(str(ord(c)) for c in v) + "]%N)"
    if isinstance(v, (list, tuple)):
        return "(VList [" + "; ".join(coq_val(x) for x in v) + "])"
    if isinstance(v, Some):
        return f"(VSome {coq_val(v.v)})"
    if isinstance(v, Wild):
        return "(VStr [1114112]%N)"
    raise TypeError(type(v))


def extraction_cross_check(plug: Plugin, triples):
    """The extracted OCaml program and the glue of the driver are trusted; this narrows that trust: for a sample of the evaluated
    cases the dispatcher is evaluated INSIDE Coq (vm_compute on the Gallina definition) and must give the value the OCaml driver
    printed.  Returns (ok, detail)."""
    d = os.path.join(ROOT, "_build", "xcheck")
    os.makedirs(d, exist_ok=True)
    f = os.path.join(d, f"XCheck_{plug.pid}.v")
    lines = ["(* GENERATED: the OCaml driver's results on these cases, re-computed by the Coq VM *)",
             "From Coq Require Import List ZArith NArith.", "Import ListNotations.", "From Curies.model Require Import Val Dispatch.", ""]
    for i, (c, o, r) in enumerate(triples):
        lines.append(f"Example x{i} : dispatch ({plug.entry})%Z ({plug.prop})%Z\n  {coq_val(c)}\n  {coq_val(o)}\n  = {coq_val(r)}.")
        lines.append("Proof. vm_compute. reflexivity. Qed.")
    open(f, "w").write("\n".join(lines) + "\n")
    t0 = time.time()
    r = sh(f"ulimit -s unlimited 2>/dev/null; timeout 900 coqc -Q {COQ} Curies -Q {d} XCheck {f}")
    for ext in (".vo", ".vok", ".vos", ".glob"):
        try:
            os.unlink(f[:-2] + ext)
        except OSError:
            pass
    if r.returncode != 0:
        return False, (r.stderr or r.stdout)[-800:]
    return True, f"{len(triples)} cases, {time.time() - t0:.1f}s"


# ------------------------------------------------------------------ the check
def write_replay(pid, tag, payload):
    d = os.path.join(ROOT, "replays")
    os.makedirs(d, exist_ok=True)
    h = hashlib.sha1(json.dumps(payload, sort_keys=True, default=str).encode()).hexdigest()[:10]
    p = os.path.join(d, f"{pid}_{tag}_{h}.json")
    json.dump(payload, open(p, "w"), indent=1, ensure_ascii=True, default=str)
    return p


def seed_for(seed: int, pid: str, tier: str) -> int:
    return int(hashlib.sha256(f"{seed}|{pid}|{tier}".encode()).hexdigest()[:12], 16)


def run_check(plug: Plugin, tier: str, seed: int, level_note=""):
    t0 = time.time()
    pid = plug.pid
    b = build()
    if not b["ok"]:
        # the framework itself does not build: nothing can be concluded
        p = write_replay(pid, "build", {"property": pid, "broken": b})
        print(f"VIOLATION property={pid} replay={p} no-failing-input-found")
        return 1
    obl = obligations(pid)
    chk = None
    if tier == "thorough" and not obl["broken"] and os.environ.get("VERIF_NO_COQCHK") != "1":
        # independent re-check of the property file and everything it depends on (runs beside the correspondence)
        frag_mods = " ".join(f"Curies.gen.FragObl_{g}" for g in (obl.get("source_tie") or {}).get("proved_groups", []))
        chk = subprocess.Popen(f"timeout 1800 coqchk -o -silent -Q {COQ} Curies Curies.props.{pid} {frag_mods}", shell=True,
                               stdout=subprocess.PIPE, stderr=subprocess.STDOUT, text=True)
    rtv = []
    if tier == "thorough" and os.environ.get("VERIF_NO_RUNTIME_VALIDATION") != "1":
        # the models of runtime behaviour this property's theorems lean on (csv, json, the Turtle short-string lexer) are validated
        # against the running interpreter: each script evaluates the Gallina definitions on thousands of generated inputs inside Coq
        # and compares with what CPython / rdflib answer (a test of the runtime model, beside the correspondence of the check)
        for script in getattr(plug, "runtime_validators", []):
            rtv.append((script, subprocess.Popen(["timeout", "3000", "/venv/bin/python", os.path.join(ROOT, script)],
                                                 stdout=subprocess.PIPE, stderr=subprocess.STDOUT, text=True)))
    if not b["gen"]["ok"]:
        failed = b["gen"].get("failed_sections")
        mine = GEN_SECTIONS.get(pid, [])
        if failed is None:
            if mine:
                obl["broken"].append("translator crashed: " + b["gen"]["detail"])
        else:
            for sec in mine:
                if sec in failed:
                    obl["broken"].append(f"translator (fail-closed), section {sec}: {failed[sec]}")
    rng = random.Random(seed_for(seed, pid, tier))
    cases = plug.corpus()
    ncorpus = len(cases)
    exh = plug.exhaustive(tier)
    cases += exh
    n = plug.counts[tier]
    st = obl.get("source_tie")
    escalated = bool(st and (st["inapplicable"] or st["broken"] or st.get("unproved")))
    if escalated and tier == "quick":
        # the query methods of this tree are no longer (all) the ones the model is proved equal to: look harder
        n *= 4
        log(f"[{pid}] source tie: inapplicable {sorted(st['inapplicable'])}, unproved {sorted(st.get('unproved', {}))}, broken {st['broken']}: the run evaluates {n} generated cases instead of {plug.counts[tier]}")
    total_cases = len(cases) + n
    log(f"[{pid}] {total_cases} cases ({ncorpus} corpus, {len(exh)} exhaustive block); observing the implementation ...")
    known = [k for k in load_known() if k.get("property") == pid and k.get("status") == "known"]
    matchers = plug.known_matchers()
    stats = {}
    bad, diff, glue = [], [], []
    nbad = ndiff = bad_dropped = 0
    known_hits = {}
    invalid = 0
    nontriv = set()
    evaluations = 0
    samples = []
    first_case = None
    xsample = []          # (case, obs, driver result) of some evaluated cases, for the extraction cross-check
    xevery = 1
    t_impl = t_model = 0.0
    # the cases are processed in bounded batches (memory stays flat however deep the tier is)
    stream = itertools.chain(cases, plug.generate(rng, n))
    while True:
        batch = list(itertools.islice(stream, BATCH))
        if not batch:
            break
        if first_case is None:
            first_case = batch[0]
        ta = time.time()
        obs = observe_all(plug, batch)
        tb = time.time()
        res = run_lines([l for _, _, l in obs])
        tc = time.time()
        t_impl += tb - ta
        t_model += tc - tb
        for (c, o, _), r in zip(obs, res):
            if o and o[0] == "harness-error":
                if len(glue) < 20:
                    glue.append({"case": plain(c), "error": o[1]})
                continue
            if r == [-1] or r == [-2]:
                if len(glue) < 20:
                    glue.append({"case": plain(c), "error": "case not decodable by the model"})
                continue
            same, valid, pm, pi, m = classify(r)
            if not valid:
                invalid += 1
                continue
            evaluations += 1
            if len(xsample) < 12 or (evaluations % xevery == 0 and len(xsample) < 40):
                xsample.append((c, o, r))
                if len(xsample) == 12:
                    xevery = max(1, total_cases // 28)
            plug.stats(c, o, stats)
            nt = plug.nontrivial(c, o)
            if nt:
                nontriv.add(hashlib.blake2b(encode(c).encode(), digest_size=12).digest())
            if pm != 1 and len(glue) < 20:
                glue.append({"case": plain(c), "error": f"P(model)={pm} on a valid case: theorem/extraction glue mismatch"})
            if pi != 1:
                nbad += 1
                exok = excl_ok(r)
                hit = None
                for kf in known:
                    f = matchers.get(kf.get("matcher"))
                    # a listed finding suppresses a failure only if that is all that fails on this case
                    if f and exok and f(c, o):
                        hit = kf
                        break
                if hit is not None:
                    known_hits[hit["id"]] = known_hits.get(hit["id"], 0) + 1
                elif len(bad) < 400:
                    bad.append((c, o, m, pi, exok))
                else:
                    bad_dropped += 1
            elif not same:
                ndiff += 1
                if len(diff) < 100:
                    diff.append((c, o, m))
            if len(samples) < 3 and nt:
                samples.append(plug.sample(c, o) if hasattr(plug, "sample") else plain(c))
        del obs, res
    log(f"[{pid}] impl {t_impl:.1f}s, model {t_model:.1f}s")
    violations = 0
    printed = []
    rc = 0
    if glue:
        p = write_replay(pid, "glue", {"property": pid, "glue": glue[:5]})
        print(f"VIOLATION property={pid} replay={p} no-failing-input-found")
        log(f"[{pid}] harness/model glue problem: {glue[0]['error']}")
        rc = 1
        violations += 1
    coqchk = None
    if chk is not None:
        out = chk.communicate()[0]
        m_ax = re.search(r"\* Axioms:\s*(.*?)\n\s*\n", out, flags=re.S)
        coqchk = {"cmd": f"coqchk -o -silent -Q coq Curies Curies.props.{pid} {frag_mods}".strip(), "rc": chk.returncode,
                  "axioms": m_ax.group(1).strip() if m_ax else None}
        if chk.returncode != 0 or coqchk["axioms"] != "<none>":
            obl["broken"].append(f"coqchk on props/{pid}: rc={chk.returncode} axioms={coqchk['axioms']} " + out[-800:])
    runtime_validation = []
    for script, proc in rtv:
        out = proc.communicate()[0]
        last = [ln for ln in out.strip().split("\n") if ln.strip()][-1:] or [""]
        runtime_validation.append({"script": script, "rc": proc.returncode, "result": last[0][:300]})
        if proc.returncode != 0:
            obl["broken"].append(f"runtime-model validation {script}: rc={proc.returncode}: {last[0][:300]}")
        else:
            import shutil
            shutil.rmtree(os.path.join(ROOT, "_build", "textlayer", os.path.basename(script)[len("validate_"):-3]), ignore_errors=True)
    if invalid > max(3, 0.02 * (evaluations + invalid)):
        # on the unchanged tree no generated case is outside the validity domain (the cases are rewritten from the implementation's
        # own state before validity is decided): a check must not turn green because its cases stopped counting
        obl["broken"].append(f"{invalid} of {evaluations + invalid} cases fell outside the validity domain of the check (none does on the "
                             "unchanged tree): what the implementation builds is no longer what the generator describes")
    xcheck = None
    if (tier == "thorough" or os.environ.get("VERIF_XCHECK") == "1") and xsample and os.environ.get("VERIF_XCHECK") != "0":
        ok, detail = extraction_cross_check(plug, xsample)
        xcheck = {"cases": len(xsample), "ok": ok, "detail": detail}
        if not ok:
            obl["broken"].append("extraction cross-check (Coq VM vs extracted OCaml driver): " + detail)
    # failing inputs on the implementation
    seen_known = set()
    reported = 0
    for kf in known:
        if kf["id"] in known_hits:
            seen_known.add(kf["id"])
            print(f"KNOWN-FINDING: property={pid} {kf['what']}")
    violations += bad_dropped
    for c, o, m, pi, exok in bad:
        if reported >= 1:
            violations += 1
            continue
        def still_unknown_failure(r):
            # keep shrinking only while the case fails for a reason that no listed finding explains
            if r["pi"] == 1:
                return False
            for kf in known:
                f = matchers.get(kf.get("matcher"))
                if f and r.get("exok") and f(r["case"], r["obs"]):
                    return False
            return True

        small = shrink(plug, c, still_unknown_failure)
        live = driver.Live()
        ev = evaluate_one(plug, live, small)
        live.close()
        payload = {"property": pid, "kind": "property fails on the implementation", "tier": tier, "seed": seed,
                   "case": plain(ev["case"] if ev else small), "impl_obs": plain(ev["obs"] if ev else o),
                   "model_obs": plain(ev["model"] if ev else m), "original_case": plain(c),
                   "explain": plug.explain(ev["case"], ev["obs"], ev["model"]) if ev and hasattr(plug, "explain") else None}
        p = write_replay(pid, "fail", payload)
        print(f"VIOLATION property={pid} replay={p}")
        reported += 1
        violations += 1
        rc = 1
    if rc == 0 and (diff or obl["broken"] or obl["discharged"] < obl["obligations"]):
        # the tie or a proof broke but no failing input yet: widen the search
        extra_bad = None
        try:
            extra_bad = plug.widen(rng, tier)
        except Exception as e:       # the widened search is best effort
            log(f"[{pid}] widened search failed: {e!r}")
        if extra_bad:
            c, o, m = extra_bad
            p = write_replay(pid, "fail", {"property": pid, "kind": "property fails on the implementation (found by the widened search)",
                                           "case": plain(c), "impl_obs": plain(o), "model_obs": plain(m)})
            print(f"VIOLATION property={pid} replay={p}")
        else:
            payload = {"property": pid, "kind": "proof obligation or model/implementation correspondence no longer checks",
                       "broken_obligations": obl["broken"], "tier": tier, "seed": seed}
            if diff:
                c, o, m = diff[0]
                small = shrink(plug, c, lambda r: not r["same"], budget=250)
                live = driver.Live()
                ev = evaluate_one(plug, live, small)
                live.close()
                payload["differing_case"] = plain(ev["case"] if ev else c)
                payload["impl_obs"] = plain(ev["obs"] if ev else o)
                payload["model_obs"] = plain(ev["model"] if ev else m)
                payload["differing_cases_total"] = ndiff
                if ev and hasattr(plug, "explain"):
                    payload["explain"] = plug.explain(ev["case"], ev["obs"], ev["model"])
            p = write_replay(pid, "tie", payload)
            print(f"VIOLATION property={pid} replay={p} no-failing-input-found")
        violations += 1
        rc = 1
    wall = time.time() - t0
    ev = {
        "property_id": pid,
        "tier": tier,
        "seed": seed,
        "level": "proof",
        "coverage": {
            "obligations": obl["obligations"],
            "discharged": obl["discharged"],
            "checker_cmd": f"coqc -Q coq Curies coq/props/{pid}.v (after make -C coq; Print Assumptions parsed)",
            "trusted_base": TRUSTED_BASE,
            "theorems": obl["theorems"],
            "coqchk": coqchk,
            "extraction_cross_check": xcheck,
            "runtime_model_validation": runtime_validation,
            "source_tie": (dict(obl["source_tie"], search_escalated=escalated) if obl.get("source_tie") else None),
            "broken_obligations": obl["broken"],
            "evaluations": evaluations,
            "distinct_nontrivial": len(nontriv),
            "rule": plug.rule,
            "samples": samples or ([plain(first_case)] if first_case is not None else []),
            "corpus_cases": ncorpus,
            "exhaustive_block_cases": len(exh),
            "exhaustive": bool(getattr(plug, "exhaustive_flag", False)) and len(exh) > 0,
            "invalid_cases_skipped": invalid,
            "disagreements_checked": evaluations,
            "model_impl_disagreements": ndiff,
            "property_failures_on_impl": nbad,
            "known_findings_matched": sorted(seen_known),
            "known_finding_cases": known_hits,
            "distribution": stats,
            "explanation": getattr(plug, "explanation", ""),
        },
        "assumptions": getattr(plug, "assumptions", []) + ([level_note] if level_note else []),
        "wall_s": round(wall, 2),
        "violations": violations,
    }
    evdir = os.environ.get("VERIF_EVIDENCE_DIR") or os.path.join(ROOT, "evidence")  # override: developer tools only (seed matrix)
    os.makedirs(evdir, exist_ok=True)
    json.dump(ev, open(os.path.join(evdir, f"{pid}.json"), "w"), indent=1, ensure_ascii=True)
    log(f"[{pid}] {tier}: {evaluations} evaluated, {len(nontriv)} non-trivial, {ndiff} diffs, {nbad} failures, "
        f"obligations {obl['discharged']}/{obl['obligations']}, {wall:.1f}s, rc={rc}")
    return rc

"""C14: written contexts read back to the same converter."""
from __future__ import annotations

import csv
import os
import random
import tempfile

from . import qprops
from .codec import Some, opt, plain
from .core import Plugin, ROOT

FMT = ["extended prefix map", "JSON-LD context", "SHACL", "TSV"]
UNI = ["é", "ü", "𝔘", " ", "\\", "\x00", '"', "'", "<", ">", "\n", "\t", " ", "ß", "{", "}", "/", "#", ":", "a", "B", "1", "_", "-", ".", "?", "=", "&", "%", "|", "^", "`", "~", "*", "+", "$"]
PRINTABLE = [c for c in UNI if c >= " " and c not in '"<>' and c != " "] + ["é", "x", "y", "z", "0", "\\", "\\"]


def rnd(rng, alphabet, lo, hi):
    return "".join(rng.choice(alphabet) for _ in range(rng.randint(lo, hi)))


def gen_recs(rng, alphabet, n, nonempty_prefix=False, no_at=False):
    seen_p, seen_u = set(), set()
    recs = []

    def fresh(seen, lo):
        for _ in range(50):
            s = rnd(rng, alphabet, lo, 6)
            if no_at and s.startswith("@"):
                continue
            if s not in seen:
                seen.add(s)
                return s
        s = "k%d" % len(seen)
        seen.add(s)
        return s

    for _ in range(n):
        p = fresh(seen_p, 1 if nonempty_prefix else 0)
        u = "http://" + fresh(seen_u, 0) + "/"
        seen_u.add(u)
        psyn = [fresh(seen_p, 1 if nonempty_prefix else 0) for _ in range(rng.choice([0, 0, 1, 2]))]
        usyn = ["https://" + fresh(seen_u, 0) + "#" for _ in range(rng.choice([0, 0, 1, 2]))]
        # a pattern is a string (the SHACL / XPath flavour of regular expressions is not Python's): also ones that Python's re does
        # not compile, a lone backslash, and arbitrary printable text
        pat = rng.choice([None, None, None, "^\\d{7}$", "^[A-Z]+\\.\\d+$", "", "\\\\", "a b", "^\\p{Lu}{2}\\d+$", "^\\i\\c*$", "a(b", "[", "*a", "\\",
                          rnd(rng, [c for c in alphabet if c >= " " and c not in '"<>'] or ["a"], 1, 6)])
        recs.append([p, u, psyn, usyn, opt(pat)])
    # a CURIE prefix that, followed by ':', is the beginning of a URI prefix in the same converter (http, https): a reader that
    # treats values as compact IRIs must not resolve them
    if recs and nonempty_prefix and rng.random() < 0.3:
        for name, slot in (("http", 0), ("https", 2)):
            if name not in seen_p and rng.random() < 0.7:
                seen_p.add(name)
                r = recs[rng.randrange(len(recs))]
                if slot == 0:
                    r[0] = name
                else:
                    r[2] = r[2] + [name]
    return recs


class C14(Plugin):
    pid = "C14"
    entry = 14
    prop = 14
    counts = {"quick": 900, "thorough": 80000}
    runtime_validators = ["tools/textlayer/validate_json.py", "tools/textlayer/validate_jsondoc.py", "tools/textlayer/validate_shacl.py"]
    rule = ("case = (strict converter, format in {extended prefix map, JSON-LD context, SHACL, TSV}, include_synonyms, expand); the converter is "
            "built by the constructor, by add_record one by one, or by add_prefix + merges of the synonyms, then written with the library's writer to a real file and read back with the library's loader (rdflib's Turtle parser and SPARQL for SHACL). "
            "EPM content over arbitrary Unicode (U+2028, NUL, quotes, backslash, astral); JSON-LD over non-empty prefixes not starting with '@'; "
            "SHACL / TSV over printable characters without double quote, angle brackets and controls, backslashes included; records with and "
            "without synonyms and patterns, pattern=''. Non-trivial: >= 2 records and (synonyms or a pattern or a backslash).")
    assumptions = ["json, pathlib, rdflib (Turtle, SPARQL) and csv are runtime: exercised, not modelled; the model covers _record_to_dict / Record(**dict), "
                   "the JSON-LD term filter, backslash escaping against a model of the Turtle short-string lexer, and csv minimal quoting",
                   "SHACL with include_synonyms and JSON-LD with include_synonyms are read back with strict=False (several prefixes share one URI prefix)"]

    def generate(self, rng, n):
        for _ in range(n):
            fmt = rng.choices([0, 1, 2, 3], weights=[4, 3, 2, 3])[0]
            k = rng.choice([0, 1, 2, 3, 5]) if fmt != 2 else rng.choice([1, 2, 3])
            if fmt == 0:
                recs = gen_recs(rng, UNI, k)
            elif fmt == 1:
                recs = gen_recs(rng, [c for c in UNI if c != "\x00"] + ["@"], k, nonempty_prefix=True, no_at=True)
            else:
                recs = gen_recs(rng, PRINTABLE, k)
            yield [recs, fmt, int(rng.random() < 0.5), int(rng.random() < 0.5), rng.choice([0, 0, 1, 2, 2, 3])]

    def observe(self, case):
        import curies

        recs, fmt, syn, ex = case[:4]
        mode = case[4] if len(case) > 4 else 0
        # the converter may have come about by the constructor, record by record, or by merging synonyms into bare records
        try:
            c = qprops.build_converter(recs, ":", mode)
        except Exception as e:
            return case, ["<build " + type(e).__name__ + ">"]
        if mode:
            recs = [qprops.v_record(r) for r in c.records]
            case = [recs, fmt, syn, ex, mode]
        os.makedirs(os.path.join(ROOT, "_build", "tmp"), exist_ok=True)
        suffix = [".json", ".jsonld", ".ttl", ".tsv"][fmt]
        fd, path = tempfile.mkstemp(suffix=suffix, dir=os.path.join(ROOT, "_build", "tmp"))
        os.close(fd)
        try:
            if fmt == 0:
                curies.write_extended_prefix_map(c, path)
                back = curies.load_extended_prefix_map(path)
                return case, [qprops.v_record(r) for r in sorted(back.records, key=lambda r: r.prefix)]
            if fmt == 1:
                curies.write_jsonld_context(c, path, **qprops.flags(include_synonyms=bool(syn), expand=bool(ex)))
                back = curies.load_jsonld_context(path, strict=not syn)
                return case, qprops.v_dict(back.prefix_map)
            if fmt == 2:
                curies.write_shacl(c, path, **qprops.flags(include_synonyms=bool(syn)))
                back = curies.load_shacl(path, strict=not syn)
                canon = set(c.bimap)
                rb = [qprops.v_dict(back.prefix_map), qprops.v_dict({k: v for k, v in back.pattern_map.items() if k in canon})]
                # the entry lines as they stand in the file (one per line inside sh:declare, separated by commas): the model's
                # reader of that line shape must find one of the converter's (prefix, namespace, pattern) entries in each
                with open(path, encoding="utf-8", newline="") as f:
                    text = f.read()
                lines = [ln[:-1] if ln.endswith(",") else ln for ln in text.split("\n") if "sh:prefix" in ln and not ln.startswith("@prefix")]
                return case, [77, rb, lines]
            curies.write_tsv(c, path)
            with open(path, newline="") as f:
                rows = list(csv.reader(f, delimiter="\t"))
            if any(len(r) != 2 for r in rows):
                return case, ["<a TSV row does not have exactly two fields>", [len(r) for r in rows]]
            return case, qprops.v_dict({r[0]: r[1] for r in rows[1:]})
        except Exception as e:
            return case, ["<" + type(e).__name__ + ": " + str(e)[:100] + ">"]
        finally:
            os.unlink(path)

    def nontrivial(self, case, obs):
        recs = case[0]
        return len(recs) >= 2 and any(r[2] or r[3] or r[4] is not None or "\\" in r[0] + r[1] for r in recs)

    def stats(self, case, obs, acc):
        h = acc.setdefault("format_hist", {})
        h[FMT[case[1]]] = h.get(FMT[case[1]], 0) + 1
        acc["records_written"] = acc.get("records_written", 0) + len(case[0])

    def sample(self, case, obs):
        return {"records": plain(case[0][:3]), "format": FMT[case[1]], "include_synonyms": case[2], "expand": case[3], "read_back": plain(obs)[:4] if isinstance(obs, list) else plain(obs)}

    def explain(self, case, obs, model):
        return {"format": FMT[case[1]], "impl": plain(obs), "model": plain(model)}

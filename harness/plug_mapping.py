"""C18: mapping service -- equivalent URIs through SPARQL, Accept-header negotiation."""
from __future__ import annotations

import json
import random
import sys
import types

from . import qprops
from .codec import Some, plain
from .core import Plugin

SUPPORTED = ["application/sparql-results+json", "application/sparql-results+xml", "application/sparql-results+csv"]
SYN = ["application/json", "text/json", "application/xml", "text/xml", "text/csv"]
OTHER = ["text/html", "*/*", "application/ld+json", "text/plain", "image/png", "application/sparql-results+tsv"]
# identifiers; the last five contain non-ASCII white space, which is legal IRI text (ucschar) and valid for rdflib
IDENT = ["1", "0000001", "abc", "a_b", "x-y", "A.b", "", "12/34", "é", "10\u00a0mg", "山田\u3000太郎", "a\u2028b", "x\u0085y", "t\u2003",
         # words of the SPARQL language are ordinary text inside an IRI
         "Service", "a/service/b", "select", "VALUES", "x/where/y", "union", "filter-1", "GRAPH", "bind.2", "optional"]
KEYWORD_SEGMENTS = ["service/", "select/", "values/", "where/", "graph/", "filter/", "union#", "bind_"]


def gen_header(rng):
    if rng.random() < 0.05:
        return None
    if rng.random() < 0.04:
        return Some("")
    n = rng.choice([1, 1, 2, 2, 3, 4])
    parts = []
    for _ in range(n):
        t = rng.choice(SUPPORTED * 2 + SYN * 2 + OTHER)
        ows = lambda: rng.choice(["", "", " ", "\t", "  "])
        m = rng.random()
        if m < 0.45:
            q = rng.choice(["1", "0.9", "0.8", "0.5", "0.50", "0.1", "0", "1.0", "0.123", "0.05", "1.000"])
            qn = rng.choice(["q", "q", "Q"])
            extra = rng.choice(["", "", ";charset=utf-8", "; level=1"])
            if rng.random() < 0.5:
                part = f"{t}{extra}{ows()};{ows()}{qn}{ows()}={ows()}{q}"
            else:
                part = f"{t};{qn}={q}{extra}"
        else:
            part = t + rng.choice(["", "", ";charset=utf-8"])
        parts.append(ows() + part + ows())
    return Some(",".join(parts))


SAME = "http://www.w3.org/2002/07/owl#sameAs"
OTHER_P = "http://example.org/other"
EXTRA = "http://www.w3.org/2004/02/skos/core#exactMatch"


def predicate_config(k):
    """(the `predicates` argument, the configured predicates, a predicate that is not configured): every kind of argument the
    signature admits (None, one str, one URIRef, collections of several kinds holding one or two predicates).  When the default
    owl:sameAs is NOT among the configured ones it serves as the other predicate."""
    import rdflib

    k = k % 9
    if k == 0:
        return None, [SAME], OTHER_P
    if k == 1:
        return SAME, [SAME], OTHER_P
    if k == 2:
        return rdflib.URIRef(EXTRA), [EXTRA], SAME
    if k == 3:
        return [SAME, EXTRA], [SAME, EXTRA], OTHER_P
    if k == 4:
        return (EXTRA, SAME), [EXTRA, SAME], OTHER_P
    if k == 5:
        return frozenset({EXTRA}), [EXTRA], SAME
    if k == 6:
        return {SAME, EXTRA}, [EXTRA, SAME], OTHER_P
    if k == 7:
        return {EXTRA: 1}.keys(), [EXTRA], SAME
    return [rdflib.URIRef(SAME)], [SAME], OTHER_P


def variants(u, pred, style=0):
    """[?s bound / VALUES inside, ?s bound / VALUES after, ?o bound / inside, ?o bound / after]; the style varies what surrounds the
    pattern (solution modifiers, DISTINCT, a sub-select, a second harmless VALUES): the answers must not depend on it."""
    if style == 1:
        mod_o, mod_s, dist = " ORDER BY ?o", " ORDER BY ?s", ""
    elif style == 2:
        mod_o, mod_s, dist = " LIMIT 1000", " ORDER BY DESC(?s) LIMIT 1000", "DISTINCT "
    else:
        mod_o = mod_s = dist = ""
    if style == 3:
        return [
            ("o", f"SELECT ?o WHERE {{ {{ SELECT ?s ?o WHERE {{ VALUES ?s {{ <{u}> }} ?s <{pred}> ?o }} }} }}"),
            ("o", f"SELECT ?o WHERE {{ {{ SELECT ?s ?o WHERE {{ ?s <{pred}> ?o }} VALUES ?s {{ <{u}> }} }} }}"),
            ("s", f"SELECT ?s WHERE {{ {{ SELECT ?s ?o WHERE {{ VALUES ?o {{ <{u}> }} ?s <{pred}> ?o }} }} }}"),
            ("s", f"SELECT ?s WHERE {{ {{ SELECT ?s ?o WHERE {{ ?s <{pred}> ?o }} VALUES ?o {{ <{u}> }} }} }}"),
        ]
    return [
        ("o", f"SELECT {dist}?o WHERE {{ VALUES ?s {{ <{u}> }} ?s <{pred}> ?o }}{mod_o}"),
        ("o", f"SELECT {dist}?o WHERE {{ ?s <{pred}> ?o }}{mod_o} VALUES ?s {{ <{u}> }}"),
        ("s", f"SELECT {dist}?s WHERE {{ VALUES ?o {{ <{u}> }} ?s <{pred}> ?o }}{mod_s}"),
        ("s", f"SELECT {dist}?s WHERE {{ ?s <{pred}> ?o }}{mod_s} VALUES ?o {{ <{u}> }}"),
    ]


def alg_tree(cv):
    """rdflib CompValue -> [name, [[key, subtree or opaque tag] ...]] (keys in dictionary order; anything that is not a CompValue is
    opaque: _optimize_node does not look into it)."""
    import hashlib

    from rdflib.plugins.sparql.parserutils import CompValue

    fields = []
    for k, v in cv.items():
        if isinstance(v, CompValue):
            fields.append([k, alg_tree(v)])
        else:
            r = repr(sorted(map(repr, v))) if isinstance(v, (set, frozenset)) else repr(v)
            fields.append([k, type(v).__name__ + "#" + hashlib.sha1(r.encode()).hexdigest()[:8]])
    return [cv.name, fields]


def algebra_queries(u, pred):
    """The four placements of the property plus shapes in which a VALUES clause sits deeper or more than once."""
    qs = [q for st in (0, 1, 2, 3) for _, q in variants(u, pred, st)]
    qs += [
        f"SELECT ?o WHERE {{ {{ ?s <{pred}> ?o }} UNION {{ ?o <{pred}> ?s }} }} VALUES ?s {{ <{u}> }}",
        f"SELECT ?o WHERE {{ ?s <{pred}> ?o OPTIONAL {{ ?o <{pred}> ?x VALUES ?x {{ <{u}> }} }} }} VALUES ?s {{ <{u}> }}",
        f"SELECT ?o WHERE {{ {{ SELECT ?s ?o WHERE {{ ?s <{pred}> ?o }} VALUES ?s {{ <{u}> }} }} FILTER(?o != ?s) }}",
        f"SELECT ?s ?o WHERE {{ VALUES ?s {{ <{u}> }} VALUES ?o {{ <{u}> }} ?s <{pred}> ?o }}",
        f"SELECT ?o WHERE {{ ?s <{pred}> ?o . ?o <{pred}> ?z }} VALUES (?s ?z) {{ (<{u}> <{u}>) }}",
        f"ASK {{ ?s <{pred}> ?o }} VALUES ?s {{ <{u}> }}",
    ]
    return qs


def install_multipart_stub():
    """python-multipart is not installed in this sandbox; FastAPI only checks that it can be imported when a Form
    route is declared.  The stub makes the GET route usable; the POST route cannot be exercised."""
    if "python_multipart" not in sys.modules:
        m = types.ModuleType("python_multipart")
        m.__version__ = "0.0.20"
        sys.modules["python_multipart"] = m


class C18(Plugin):
    pid = "C18"
    entry = 18
    prop = 18
    counts = {"quick": 160, "thorough": 15000}
    rule = ("case = (strict converter with URI-prefix synonyms, a few of them containing characters rdflib rejects in IRIs; the graph configured with one of nine kinds of "
            "`predicates` argument (None, str, URIRef, list, tuple, set, frozenset, keys view; one or two predicates); 3 queries (URI, "
            "configured predicate or another predicate), each issued four ways: ?s bound / ?o bound x VALUES inside / after the WHERE block, through "
            "graph.query with the custom processor; the first query also through Flask GET and POST and FastAPI GET; 12 Accept headers from an "
            "RFC 7231 generator over supported, synonym and unsupported media types with q-values, parameters, upper-case Q and optional "
            "whitespace, missing and empty headers; the SPARQL algebra trees of ten query shapes (the four placements, UNION, OPTIONAL with an inner VALUES, "
            "sub-select, two VALUES clauses, multi-variable VALUES, ASK) as rdflib translates them, before and after the implementation's _optimize_node; "
            "graph.triples called directly with 16 patterns per query URI (subject / object / both / neither bound x the query's predicate, another configured one, one that is not configured, a variable predicate) and compared triple by triple, in order, with the model's `triples`). Non-trivial: a recognised URI whose record has >= 2 URI prefixes, or a header with >= 2 types.")
    assumptions = ["rdflib's SPARQL parser / evaluator, result serialisers and the web stacks are runtime: exercised, not modelled",
                   "FastAPI POST cannot be exercised (python-multipart is not installed; a harness-local import stub enables the GET route only)",
                   "q-values have at most 3 decimals, where float comparison equals rational comparison"]

    def generate(self, rng, n):
        for _ in range(n):
            nrec = rng.randint(1, 4)
            recs = []
            for i in range(nrec):
                base = f"http://ex{i}.org/" + rng.choice(["", "a/", "b#", "c_"] + ([rng.choice(KEYWORD_SEGMENTS)] if rng.random() < 0.5 else []))
                usyn = []
                for j in range(rng.choice([0, 1, 1, 2])):
                    bad = rng.random() < 0.2
                    usyn.append(f"https://alt{i}-{j}.org/" + (rng.choice(["x y/", "<z>/", "q|/", "w^/"]) if bad else rng.choice(["", "t/", "u#", "v\u00a0w/", "\u3000/"])))
                recs.append([f"p{i}", base, [f"P{i}"] if rng.random() < 0.3 else [], usyn, None])
            if nrec >= 2 and rng.random() < 0.3:
                recs[1][1] = recs[0][1] + "nested/"  # nested prefixes: longest match decides
            queries = []
            for _ in range(3):
                r = rng.choice(recs)
                valid_prefixes = [u for u in [r[1], *r[3]] if not any(c in u for c in '<>" {}|\\^`')]
                m = rng.random()
                if m < 0.75 and valid_prefixes:
                    u = rng.choice(valid_prefixes) + rng.choice(IDENT)
                else:
                    u = rng.choice(["http://unknown.org/1", "urn:x:1", "http://ex0.org"])
                queries.append([u, int(rng.random() < 0.8)])
            headers = [gen_header(rng) for _ in range(12)]
            # staging: with early < len(recs) the graph and the web apps are created, and the same requests sent once, while the
            # converter holds only the first `early` records; the other records are then added to the live converter
            early = rng.choice([len(recs)] * 3 + list(range(len(recs))))
            # the eighth element: which kind of `predicates` argument configures the graph (predicate_config)
            yield [recs, "", queries, headers, [], early, [], rng.choice([0, 0, 1, 2, 3, 4, 5, 6, 7, 8])]

    def observe(self, case):
        import rdflib
        from rdflib.term import _invalid_uri_chars

        import curies
        from curies.mapping_service import MappingServiceGraph, MappingServiceSPARQLProcessor, get_flask_mapping_app
        from curies.mapping_service.utils import handle_header

        recs, _, queries, headers = case[:4]
        used = {c for r in recs for u in [r[1], *r[3]] for c in u} | {c for q in queries for c in q[0]}
        early = case[5] if len(case) > 5 else len(recs)
        c = curies.Converter(qprops.mk_records(recs[:early]))
        pk = case[7] if len(case) > 7 else 0
        parg, configured, other_p = predicate_config(pk)
        graph = MappingServiceGraph(converter=c) if parg is None else MappingServiceGraph(converter=c, predicates=parg)

        def pred_of(qi, is_pred):
            return configured[qi % len(configured)] if is_pred else other_p
        proc = MappingServiceSPARQLProcessor(graph=graph)
        clients = self.make_clients(c)
        if early < len(recs):
            self.warm_up(graph, proc, clients, queries)
            for r in qprops.mk_records(recs[early:]):
                c.add_record(r)
        # the property speaks about "the syntactically valid members of expand_all(compress(u))": those two answers of the
        # implementation travel with the case
        renderings = []
        for u, _ip in queries:
            try:
                x = c.compress(u)
                ea = c.expand_all(x) if x is not None else None
            except Exception:
                ea = None
            renderings.append(None if ea is None else Some(list(ea)))
            used |= {ch for v in (ea or []) for ch in v}
        # the algebra trees of the first query's shapes as rdflib translates them, and what the implementation's _optimize_node makes
        # of them (each query is translated twice: the rewriting works in place)
        from rdflib.plugins.sparql.algebra import translateQuery
        from rdflib.plugins.sparql.parser import parseQuery

        from curies.mapping_service.rdflib_custom import _optimize_node

        before, after = [], []
        for u, is_pred in queries[:1]:
            for q in algebra_queries(u, pred_of(0, is_pred)):
                try:
                    b = alg_tree(translateQuery(parseQuery(q)).algebra)
                except Exception:
                    continue        # rdflib does not parse this IRI / shape: not a query
                try:
                    a = alg_tree(_optimize_node(translateQuery(parseQuery(q)).algebra))
                except Exception as e:
                    a = ["<error " + type(e).__name__ + ">", []]
                before.append(b)
                after.append(a)
        # the triple patterns handed to graph.triples directly: for every query URI u and the query's predicate p (plus a predicate
        # that is not configured and a variable predicate) -- subject bound, object bound, both, neither
        pats = []
        for qi, (u, is_pred) in enumerate(queries):
            for pp in dict.fromkeys([pred_of(qi, is_pred), pred_of(qi + 1, 1), other_p, None]):
                pats += [[u, pp, None], [None, pp, u], [u, pp, u], [None, pp, None]]
        enc = lambda x: None if x is None else Some(x)
        case = [recs, "".join(sorted(ch for ch in used if ch in _invalid_uri_chars)), queries, headers, renderings, early, before, pk,
                [list(configured), [[enc(a), enc(b), enc(c_)] for a, b, c_ in pats]]]

        qa = []
        web_checked = False
        for qi, (u, is_pred) in enumerate(queries):
            row = []
            style = (len(recs) + qi + len(u)) % 4
            pred = pred_of(qi, is_pred)
            for var, sparql in variants(u, pred, style):
                try:
                    res = graph.query(sparql, processor=proc)
                    # the answers must be IRI terms (a plain str cannot be serialised as a SPARQL result)
                    row.append(sorted(str(b[0]) if isinstance(b[0], rdflib.URIRef) else f"<not an IRI term: {type(b[0]).__name__} {b[0]!r}>" for b in res))
                except Exception as e:
                    row.append(["<error: " + type(e).__name__ + ">"])
            if qi == 0 and (pred in configured) == (pred == SAME):
                # the same query over HTTP: Flask GET and POST, FastAPI GET (the served graphs have the default predicate: the
                # comparison is made when the query's predicate has the same status there)
                for vi in (0, 1, 2, 3):     # ?s bound and ?o bound, VALUES inside and after the WHERE block: all four through the served endpoints
                    var, sparql = variants(u, pred, style)[vi]
                    web = self.web_answers(clients, sparql, var)
                    for name, ans in web:
                        if ans != row[vi]:
                            row[vi] = [f"<{name} answers {ans}, graph.query answers {row[vi]}>"]
            qa.append(row)
        ha = []
        fl, fa = clients
        probe = "SELECT ?o WHERE { VALUES ?s { <http://a/1> } ?s <http://www.w3.org/2002/07/owl#sameAs> ?o }"
        for hi, h in enumerate(headers):
            try:
                v = handle_header(None if h is None else h.v)
            except Exception:
                v = None
            # the negotiated type must be what both served endpoints answer with (a missing Accept header included)
            if hi < 3 and v is not None and (h is None or (h.v and "\t" not in h.v)):
                hdrs = {} if h is None else {"Accept": h.v}
                for name, send in (("flask GET", lambda: fl.get("/sparql", query_string={"query": probe}, headers=hdrs)),
                                   ("flask POST", lambda: fl.post("/sparql", data={"query": probe}, headers=hdrs)),
                                   ("fastapi GET", (lambda: fa.get("/sparql", params={"query": probe}, headers=hdrs)) if not isinstance(fa, Exception) else None)):
                    if send is None:
                        continue
                    try:
                        r = send()
                        got = (r.headers.get("Content-Type") or r.headers.get("content-type") or "").split(";")[0].strip()
                    except Exception as e:
                        got = "<" + type(e).__name__ + ">"
                    if got != v:
                        v = f"<{name} content-type {got}>"
                        break
            ha.append(None if v is None else Some(v))
        tr = []
        term = lambda x: None if x is None else rdflib.URIRef(x)
        for a, b, c_ in pats:
            try:
                tr.append([[str(x) if isinstance(x, rdflib.URIRef) else f"<not an IRI term: {x!r}>" for x in t] for t in graph.triples((term(a), term(b), term(c_)))])
            except Exception as e:
                tr.append([["<error " + type(e).__name__ + ">", "", ""]])
        return case, [qa, ha, after, tr]

    def in_domain(self, case):
        # the quantifier: URI prefixes that are IRI text (the generator's are http(s) URLs); the shrinker stays there
        return all(u.startswith("http") for r in case[0] for u in [r[1], *r[3]])

    def make_clients(self, c):
        """One Flask client and one FastAPI client per case, created when the converter is first available and kept."""
        from curies.mapping_service import get_fastapi_mapping_app, get_flask_mapping_app

        fl = get_flask_mapping_app(c).test_client()
        try:
            install_multipart_stub()
            from fastapi.testclient import TestClient

            fa = TestClient(get_fastapi_mapping_app(c))
        except Exception as e:
            fa = e
        return fl, fa

    def warm_up(self, graph, proc, clients, queries):
        """The same requests, before the converter is complete; answers and errors are discarded."""
        for u, is_pred in queries[:1]:
            for var, sparql in variants(u, SAME if is_pred else OTHER_P):
                try:
                    list(graph.query(sparql, processor=proc))
                except Exception:
                    pass
                self.web_answers(clients, sparql, var)

    def web_answers(self, clients, sparql, var):
        out = []
        acc = {"Accept": "application/sparql-results+json"}
        fl, fa = clients

        def parse(text):
            d = json.loads(text)
            return sorted(b[var]["value"] for b in d["results"]["bindings"])

        try:
            out.append(("flask GET", parse(fl.get("/sparql", query_string={"query": sparql}, headers=acc).get_data(as_text=True))))
            out.append(("flask POST", parse(fl.post("/sparql", data={"query": sparql}, headers=acc).get_data(as_text=True))))
        except Exception as e:
            out.append(("flask", ["<error " + type(e).__name__ + ">"]))
        try:
            if isinstance(fa, Exception):
                raise fa
            out.append(("fastapi GET", parse(fa.get("/sparql", params={"query": sparql}, headers=acc).text)))
        except Exception as e:
            out.append(("fastapi", ["<error " + type(e).__name__ + ": " + str(e)[:80] + ">"]))
        return out

    def nontrivial(self, case, obs):
        return any(len(row[0]) >= 2 for row in obs[0]) or any(h is not None and "," in h.v for h in case[3])

    def stats(self, case, obs, acc):
        acc["sparql_queries"] = acc.get("sparql_queries", 0) + 4 * len(obs[0])
        acc["algebra_trees_rewritten_by__optimize_node"] = acc.get("algebra_trees_rewritten_by__optimize_node", 0) + (len(obs[2]) if len(obs) > 2 else 0)
        if len(obs) > 2 and len(case) > 6:
            acc["algebra_trees_changed_by_the_rewriting"] = acc.get("algebra_trees_changed_by_the_rewriting", 0) + sum(1 for a, b in zip(case[6], obs[2]) if a != b)
        if len(case) > 5 and case[5] < len(case[0]):
            acc["cases_with_requests_before_the_converter_was_complete"] = acc.get("cases_with_requests_before_the_converter_was_complete", 0) + 1
        acc["headers"] = acc.get("headers", 0) + len(obs[1])
        h = acc.setdefault("negotiated_hist", {})
        for v in obs[1]:
            k = v.v if v is not None else "ValueError"
            h[k] = h.get(k, 0) + 1
        acc["answers_nonempty"] = acc.get("answers_nonempty", 0) + sum(1 for row in obs[0] if row[0])

    def sample(self, case, obs):
        return {"records": plain(case[0]), "queries": plain(case[2]), "answers": plain(obs[0]), "headers": plain(case[3][:4]), "negotiated": plain(obs[1][:4])}

    def explain(self, case, obs, model):
        out = []
        if model and len(model) >= 2:
            for q, a, b in zip(case[2], obs[0], model[0]):
                if a != b:
                    out.append({"query": q, "impl": a, "model": b})
            for h, a, b in zip(case[3], obs[1], model[1]):
                if a != b:
                    out.append({"header": plain(h), "impl": plain(a), "model": plain(b)})
            if len(model) > 2 and len(obs) > 2:
                for t, a, b in zip(case[6] if len(case) > 6 else [], obs[2], model[2]):
                    if a != b:
                        out.append({"algebra tree before": plain(t), "after _optimize_node (impl)": plain(a), "model": plain(b)})
        return out[:8]

"""C09 (chain / get_subconverter), C11 (remap_curie_prefixes), C12 (remap_uri_prefixes / rewire)."""
from __future__ import annotations

import copy
import random

from . import qprops
from .codec import plain
from .core import Plugin
from . import smallscope as ss
from .plug_mutate import case_strings, fold_table

OPS = ["chain", "get_subconverter", "remap_curie_prefixes", "remap_uri_prefixes", "rewire"]


def err_code(e):
    n = type(e).__name__
    table = {"DuplicateKeys": 11, "DuplicateValues": 12, "InconsistentMapping": 13, "CycleDetected": 14, "TransitiveError": 15,
             "DuplicateURIPrefixes": 21, "DuplicatePrefixes": 22}
    for cls in type(e).__mro__:          # the documented classes, or classes derived from them
        if cls.__name__ in table and cls.__module__.startswith("curies"):
            return table[cls.__name__]
    if isinstance(e, ValueError):        # "raises ValueError": the class or any subclass of it that is not one of the documented ones above
        return 1
    return 2


def live_argument(conv, tag):
    """An argument that IS one of the input converter's own live objects (a legal call: e.g. rewire(c, c.prefix_map) is a no-op
    rewiring): the derivation must not write into it."""
    if tag == 1:
        return conv.prefix_map.keys()
    if tag == 2:
        return conv.synonym_to_prefix
    if tag == 3:
        return conv.reverse_prefix_map
    return conv.prefix_map


def run_op(convs, op, live=None):
    import curies
    from curies.reconciliation import remap_curie_prefixes, remap_uri_prefixes, rewire

    tag, arg = op
    if tag == 0:
        # Sequence[Converter]: a list or a tuple
        return curies.chain(convs if len(convs) % 2 else tuple(convs), **qprops.flags(case_sensitive=bool(arg)))
    if tag == 1:
        return convs[0].get_subconverter(live if live is not None else list(arg))
    m = live if live is not None else dict(map(tuple, arg))
    if tag == 2:
        return remap_curie_prefixes(convs[0], m)
    if tag == 3:
        return remap_uri_prefixes(convs[0], m)
    if tag == 4:
        return rewire(convs[0], m)
    raise ValueError(tag)


def observe_derive(case):
    import curies
    from curies.reconciliation import rewire

    inputs, op, strs, pairs = case[:4]
    mode = case[5] if len(case) > 5 else 0
    convs = build_inputs(inputs, mode % 10)
    if mode % 10:
        inputs = [[qprops.v_record(r) for r in c.records] for c in convs]      # merging sorts the synonym lists
    if mode >= 10:
        previous_use(convs, op)
    ft = fold_table([s for recs in inputs for s in case_strings(recs)])
    case = [inputs, op, strs, pairs, ft, mode]
    try:
        R = run_op(convs, op)
    except Exception as e:
        return case, [err_code(e), [], []]
    twice = []
    if op[0] == 4:
        try:
            R2 = rewire(R, dict(map(tuple, op[1])))
            twice = [qprops.v_record(r) for r in sorted(R2.records, key=lambda r: r.prefix)]
        except Exception:
            twice = [-1]
    return case, [0, qprops.battery(R, strs, pairs), twice]


def previous_use(convs, op):
    """Modes >= 10: the very same input OBJECTS have served in earlier derivations (the same one, chains in both orders, a chain with
    a converter that brings new synonyms for every record); the results are thrown away.  What a derivation returns is a function of
    what its inputs hold, not of what they were used for before."""
    import curies

    def bringer(c, j):
        return curies.Converter([curies.Record(prefix=r.prefix, uri_prefix=r.uri_prefix, prefix_synonyms=[f"zp{j}p{i}"],
                                               uri_prefix_synonyms=[f"zp{j}://{i}/"]) for i, r in enumerate(c.records)])
    attempts = [lambda: run_op(convs, op), lambda: curies.chain(convs), lambda: curies.chain(convs[::-1])]
    attempts += [lambda c=c, j=j: curies.chain([c, bringer(c, j)]) for j, c in enumerate(convs)]
    for a in attempts:
        try:
            a()
        except Exception:
            pass


def build_inputs(inputs, mode):
    """The input converters, built by the constructor (mode 0) or record by record / with the synonyms merged in afterwards
    (qprops.build_converter modes 1..3): a derivation must treat a converter by what its records hold, however they got there."""
    import curies

    out = []
    for recs in inputs:
        try:
            out.append(qprops.build_converter(recs, ":", mode) if mode else curies.Converter(qprops.mk_records(recs)))
        except Exception:
            out.append(curies.Converter(qprops.mk_records(recs)))
    return out


def overlapping_converters(rng, n):
    """n record lists over shared pools, so that they overlap on prefixes, URI prefixes, synonyms and letter case."""
    cps = ["go", "GO", "Go", "chebi", "CHEBI", "a", "A", "b", "ab", "x", "straße", "STRASSE", "n1", "N1", "doi", "DOI", "", "obo"]
    out = []
    upool = qprops.uri_family(rng, 14)
    for _ in range(n):
        k = rng.choice([0, 1, 2, 2, 3, 4])
        ps = rng.sample(cps, min(len(cps), 3 * k + 2))
        us = rng.sample(upool, min(len(upool), 3 * k + 2))
        if rng.random() < 0.3:
            us = [u.upper() if rng.random() < 0.3 else u for u in us]
            us = list(dict.fromkeys(us))
        recs = []
        for _ in range(k):
            if not ps or not us:
                break
            p = ps.pop()
            u = us.pop()
            psyn = [ps.pop() for _ in range(rng.choice([0, 0, 1, 2])) if ps]
            usyn = [us.pop() for _ in range(rng.choice([0, 0, 1])) if us]
            recs.append([p, u, psyn, usyn, rng.choice([None, None, qprops.opt("^\\d+$")])])
        out.append(recs)
    return out


class DerivePlugin(Plugin):
    entry = 9
    keep = qprops.PRIMITIVES   # the methods that define what a converter denotes; derived operations are C03/C06/C07's business

    def observe(self, case):
        return observe_derive(case)

    def probes(self, rng, inputs, extra_prefixes=()):
        allrecs = [r for recs in inputs for r in recs]
        strs = qprops.gen_strings(rng, allrecs[:10], ":", rng.randint(2, 4))
        pairs = qprops.gen_pairs(rng, allrecs[:10], 2)
        for p in list(extra_prefixes)[:3]:
            pairs.append([p, "1"])
            strs.append(p + ":1")
        return list(dict.fromkeys(strs)), [list(x) for x in dict.fromkeys(map(tuple, pairs))]

    def stats(self, case, obs, acc):
        h = acc.setdefault("op_hist", {})
        h[OPS[case[1][0]]] = h.get(OPS[case[1][0]], 0) + 1
        o = acc.setdefault("outcome_hist", {})
        o[str(obs[0])] = o.get(str(obs[0]), 0) + 1

    def sample(self, case, obs):
        return {"inputs": plain(case[0]), "op": OPS[case[1][0]], "arg": plain(case[1][1]), "outcome": obs[0]}

    def explain(self, case, obs, model):
        out = {"op": OPS[case[1][0]], "arg": plain(case[1][1]), "outcome impl/model": [obs[0], model[0] if model else None]}
        if model and len(obs) > 1 and len(model) > 1 and obs[1] and model[1]:
            try:
                out["records impl"] = plain(obs[1][-5])
                out["records model"] = plain(model[1][-5])
            except Exception:
                pass
            out["answer diffs"] = [(i, plain(a), plain(b)) for i, (a, b) in enumerate(zip(obs[1], model[1])) if a != b and a != qprops.WILD][:5]
        return out


class C09(DerivePlugin):
    pid = "C09"
    prop = 9
    counts = {"quick": 1500, "thorough": 150000}
    rule = ("case = (1..4 strict converters drawn from shared pools so that they overlap on CURIE prefixes, URI prefixes, synonyms and letter case "
            "(go/GO/Go, strasse foldings, upper-cased URI prefixes), chain with both case-sensitivity modes) or (one converter, a prefix subset P of "
            "canonical prefixes, synonyms, unknown strings or the empty set, get_subconverter). Observed: ValueError / the result's records, "
            "introspection views and battery answers; in a third of the cases the same input objects have served in earlier derivations whose results were thrown away. Non-trivial: chain merged >= 1 record or raised; subset keeps some and drops some records.")

    def generate(self, rng, n):
        for _ in range(n):
            if rng.random() < 0.7:
                inputs = overlapping_converters(rng, rng.choice([0, 1, 1, 2, 2, 3, 4, 4]))      # chain([]) raises ValueError
                op = [0, int(rng.random() < 0.6)]
                strs, pairs = self.probes(rng, inputs)
            else:
                inputs = [qprops.gen_records(rng, rng.choice([0, 1, 2, 3, 5]))]
                allp = [p for r in inputs[0] for p in [r[0], *r[2]]]
                P = [p for p in allp if rng.random() < 0.4] + [rng.choice(qprops.CP_POOL) for _ in range(rng.choice([0, 0, 1]))]
                op = [1, list(dict.fromkeys(P))]
                strs, pairs = self.probes(rng, inputs)
            # chain folds over the records in the order the converters hold them, and with case folding that order matters; the model's
            # inputs are in constructor (sorted) order, so only get_subconverter takes inputs built in other ways
            yield [inputs, op, strs, pairs, [], (rng.choice([0, 0, 0, 1, 2, 3]) if op[0] == 1 else 0) + rng.choice([0, 0, 10])]

    explanation = ("small-scope block: chain of every ordered pair of converters holding at most one record over the universe {a, A, b} x "
                   "{h/, h/a, k#} (one optional synonym on each side) in both case modes, and get_subconverter of every converter of at most two "
                   "such records for every subset of the names {a, A, b, zz}; the thorough tier runs the whole block (exhaustive=true refers to "
                   "that block only), the quick tier a fixed sample of it")

    def exhaustive(self, tier):
        recs = ss.records()
        strs, pairs = ss.probes(ss.P3, ss.U3)
        one = [[]] + [[r] for r in recs]
        cases = []
        for c1 in one:
            for c2 in one:
                for sens in (0, 1):
                    cases.append([[c1, c2], [0, sens], strs, pairs, []])
        names = ss.P3 + ["zz"]
        subsets = [[n for j, n in enumerate(names) if m >> j & 1] for m in range(1 << len(names))]
        for conv in ss.converters(ss.records(usyn=False), 2):
            for P in subsets:
                cases.append([[conv], [1, P], strs, pairs, []])
        self.exhaustive_flag = tier == "thorough"
        return ss.block(cases, tier, 400)

    def nontrivial(self, case, obs):
        inputs, op = case[0], case[1]
        if op[0] == 0:
            if obs[0] == 1:
                return True
            if obs[0] != 0:
                return False
            try:
                n = len(obs[1][-5][1])
            except Exception:
                return False
            return n < sum(len(r) for r in inputs)
        try:
            n = len(obs[1][-5][1])
        except Exception:
            return False
        return 0 < n < len(inputs[0])


def gen_curie_remapping(rng, recs):
    canon = [r[0] for r in recs]
    syns = [p for r in recs for p in r[2]]
    fresh = ["new1", "new2", "NEW", "z", "y9", ""]
    keys_pool = canon * 3 + syns * 2 + ["unknown", "nope"]
    m = {}
    kind = rng.choice(["simple", "simple", "chain", "swap", "onto_syn", "onto_other", "mixed", "partial_chain", "dupval", "dupkey", "inconsistent", "cycle_unused"])
    k = rng.randint(1, 4)
    if kind == "simple":
        for _ in range(k):
            m[rng.choice(keys_pool)] = rng.choice(fresh + ["fresh" + str(rng.randint(0, 9))])
    elif kind == "chain" and len(canon) >= 2:
        a, b = rng.sample(canon, 2)
        m[a] = b
        m[b] = rng.choice(fresh)
        if len(canon) >= 3 and rng.random() < 0.5:
            c = rng.choice([x for x in canon if x not in (a, b)])
            m[c] = a
    elif kind == "swap" and len(canon) >= 2:
        a, b = rng.sample(canon, 2)
        m[a] = b
        m[b] = a
    elif kind == "onto_syn" and syns:
        m[rng.choice(canon)] = rng.choice(syns)
    elif kind == "onto_other" and len(canon) >= 2:
        a, b = rng.sample(canon, 2)
        m[a] = b
    elif kind == "partial_chain" and canon:
        b = rng.choice(canon)
        m["unknown_a"] = b
        m[b] = rng.choice(fresh)
    elif kind == "dupval" and len(canon) >= 2:
        a, b = rng.sample(canon, 2)
        v = rng.choice(fresh)
        m[a] = v
        m[b] = v
    elif kind == "cycle_unused" and canon:
        # a cycle that runs through a name nobody uses yet, with or without a pair outside the cycle
        a = rng.choice(canon + syns)
        x, y = rng.sample(["new1", "new2", "z", "y9"], 2)
        if rng.random() < 0.5:
            m[a] = x
            m[x] = a
        else:
            m[a] = x
            m[x] = y
            m[y] = a
        if rng.random() < 0.7:
            m[rng.choice(["nope", "unknown"] + canon)] = rng.choice(["nada", "fresh7"])
    elif kind == "dupkey" and any(r[2] for r in recs):
        r = rng.choice([r for r in recs if r[2]])       # two keys naming the same record
        a, b = rng.sample([r[0], *r[2]], 2)
        m[a] = rng.choice(fresh)
        m[b] = rng.choice(fresh + ["other9"])
    elif kind == "inconsistent" and any(r[2] for r in recs) and len(recs) >= 2:
        r = rng.choice([r for r in recs if r[2]])       # one record named as key and (through another name) as value
        a, b = rng.sample([r[0], *r[2]], 2)
        o = rng.choice([x for x in recs if x is not r])
        m[a] = rng.choice(fresh)
        m[o[0]] = b
    else:
        for _ in range(k):
            m[rng.choice(keys_pool)] = rng.choice(fresh + canon + syns)
    if rng.random() < 0.3:
        items = list(m.items())
        rng.shuffle(items)
        m = dict(items)
    return [[a, b] for a, b in m.items()]


class C11(DerivePlugin):
    pid = "C11"
    prop = 11
    counts = {"quick": 2500, "thorough": 250000}
    rule = ("case = (strict converter of 1..5 records with synonyms, remapping dictionary over known canonical prefixes, known synonyms and unknown "
            "strings: simple renamings, chains a->b->c, swaps, remappings onto own / foreign synonyms and onto other records' canonical prefixes, "
            "partially applicable chains (unknown key), duplicate values; both dictionary orders). Observed: the documented error class or the "
            "result's records, views and battery. Non-trivial: a key of the remapping is also a value, or the remapping targets an existing prefix.")

    def generate(self, rng, n):
        for _ in range(n):
            recs = qprops.gen_records(rng, rng.choice([1, 2, 2, 3, 3, 4, 5]))     # the pool includes the empty prefix
            m = gen_curie_remapping(rng, recs)
            strs, pairs = self.probes(rng, [recs], [b for _, b in m] + [a for a, _ in m])
            yield [[recs], [2, m], strs, pairs, [], rng.choice([0, 0, 0, 1, 2, 3]) + rng.choice([0, 0, 10])]

    explanation = ("small-scope block: every converter of at most two records over the CURIE prefixes {a, A, b} (one optional synonym each) with "
                   "every remapping dictionary of at most two entries over {a, A, b, x} (every key order), and the three-record converter a, A, b "
                   "with every remapping of at most three entries; the thorough tier runs the whole block (exhaustive=true refers to that block "
                   "only), the quick tier a fixed sample of it")

    def exhaustive(self, tier):
        names = ss.P3 + ["x"]
        strs, pairs = ss.probes(names, ss.U3)
        recs = ss.records(us=["h/"], usyn=False)
        convs = []
        for conv in ss.converters(recs, 1):
            convs.append(conv)
        # two records get two different URI prefixes
        import itertools as it
        for r1, r2 in it.combinations(recs, 2):
            if not ({r1[0], *r1[2]} & {r2[0], *r2[2]}):
                convs.append([r1, [r2[0], "k#", r2[2], [], None]])
        cases = []
        for conv in convs:
            for m in ss.dicts(names, names, 2):
                cases.append([[conv], [2, m], strs, pairs, []])
        three = [["a", "h/", [], [], None], ["A", "h/a", [], [], None], ["b", "k#", [], [], None]]
        for m in ss.dicts(names, names, 3):
            cases.append([[three], [2, m], strs, pairs, []])
        self.exhaustive_flag = tier == "thorough"
        return ss.block(cases, tier, 500)

    def nontrivial(self, case, obs):
        m = case[1][1]
        recs = case[0][0]
        allp = {p for r in recs for p in [r[0], *r[2]]}
        return bool({a for a, _ in m} & {b for _, b in m}) or any(b in allp for _, b in m)


def gen_uri_mapping(rng, recs, by_curie):
    allu = [u for r in recs for u in [r[1], *r[3]]]
    canon_u = [r[1] for r in recs]
    keys = ([p for r in recs for p in [r[0], *r[2]]] if by_curie else allu) + ["unknown"]
    fresh = ["http://new/", "http://new/2/", "urn:n:", ""]
    m = {}
    for _ in range(rng.randint(1, 4)):
        k = rng.choice(keys)
        kind = rng.random()
        if kind < 0.45:
            v = rng.choice(fresh) + str(rng.randint(0, 5))
        elif kind < 0.7:
            v = rng.choice(allu)  # an existing URI prefix: own canonical, own synonym, or someone else's
        else:
            v = rng.choice(fresh)
        m[k] = v
    if rng.random() < 0.85:
        # make it injective
        seen = set()
        for k in list(m):
            if m[k] in seen:
                del m[k]
            else:
                seen.add(m[k])
    if not by_curie and rng.random() < 0.1 and allu:
        u = rng.choice(allu)
        m[u] = rng.choice(fresh)
        m["http://other/"] = u  # transitive: u is key and value
    return [[a, b] for a, b in m.items()]


class C12(DerivePlugin):
    pid = "C12"
    prop = 12
    counts = {"quick": 2500, "thorough": 250000}
    rule = ("case = (strict converter of 1..5 records with URI-prefix synonyms, mapping old URI prefix -> new URI prefix (remap_uri_prefixes) or "
            "CURIE prefix / synonym -> new URI prefix (rewire); values fresh, the record's own canonical URI prefix, its own synonym, another record's "
            "URI prefix; 85 % injective, 10 % of the URI remappings transitive). For rewire the result is rewired again with the same mapping. "
            "Non-trivial: some mapped value is an existing URI prefix, or the mapping is transitive.")

    def generate(self, rng, n):
        for _ in range(n):
            recs = qprops.gen_records(rng, rng.choice([1, 2, 2, 3, 3, 4, 5]))
            by_curie = rng.random() < 0.5
            m = gen_uri_mapping(rng, recs, by_curie)
            strs, pairs = self.probes(rng, [recs])
            strs += [b + "1" for _, b in m][:3]
            yield [[recs], [4 if by_curie else 3, m], list(dict.fromkeys(strs)), pairs, [], rng.choice([0, 0, 0, 1, 2, 3]) + rng.choice([0, 0, 10])]

    explanation = ("small-scope block: every converter of at most two records over the URI prefixes {h/, h/a, k#} (one optional URI-prefix "
                   "synonym each, CURIE prefixes a and b, b with the synonym A) with every mapping of at most two entries, old URI prefix -> new "
                   "URI prefix over {h/, h/a, k#, n/} (remap_uri_prefixes) and CURIE prefix -> new URI prefix over {a, A, b, x} x {h/, h/a, k#, n/} "
                   "(rewire); the thorough tier runs the whole block (exhaustive=true refers to that block only), the quick tier a fixed sample")

    def exhaustive(self, tier):
        import itertools as it
        uris = ss.U3 + ["n/"]
        strs, pairs = ss.probes(ss.P3, uris)
        urecs = ss.records(ps=["a"], psyn=False)
        convs = [[r] for r in urecs]
        for r1, r2 in it.combinations(urecs, 2):
            if not ({r1[1], *r1[3]} & {r2[1], *r2[3]}):
                convs.append([r1, ["b", r2[1], ["A"], r2[3], None]])
        cases = []
        for conv in convs:
            for m in ss.dicts(uris, uris, 2):
                cases.append([[conv], [3, m], strs, pairs, []])
            for m in ss.dicts(ss.P3 + ["x"], uris, 2):
                cases.append([[conv], [4, m], strs, pairs, []])
        self.exhaustive_flag = tier == "thorough"
        return ss.block(cases, tier, 500)

    def nontrivial(self, case, obs):
        m = case[1][1]
        recs = case[0][0]
        allu = {u for r in recs for u in [r[1], *r[3]]}
        return any(b in allu for _, b in m) or bool({a for a, _ in m} & {b for _, b in m})


# ---------------------------------------------------------------- C10
def snapshot(c, strs, pairs):
    return [
        [qprops.v_record(r) for r in c.records],
        sorted(c.get_prefixes(include_synonyms=True)), sorted(c.get_uri_prefixes(include_synonyms=True)),
        qprops.v_dict(c.bimap), qprops.v_dict(c.prefix_map), qprops.v_dict(c.reverse_prefix_map), qprops.v_dict(c.synonym_to_prefix),
        qprops.v_dict(c.pattern_map), sorted(c.trie.items()), c.delimiter,
        qprops.battery(c, strs, pairs),
    ]


def derived_identity(c, prov):
    """A converter with the records of c that is the result of an earlier derivation (the earlier result is kept by the caller)."""
    import curies
    from curies.reconciliation import remap_curie_prefixes, remap_uri_prefixes, rewire

    if prov == 1:
        return remap_curie_prefixes(c, {})
    if prov == 2:
        return remap_uri_prefixes(c, {})
    if prov == 3:
        return rewire(c, {})
    if prov == 4:
        return curies.chain([c])
    return c.get_subconverter([r.prefix for r in c.records])


class C10(DerivePlugin):
    pid = "C10"
    entry = 10
    prop = 10
    counts = {"quick": 1200, "thorough": 120000}
    rule = ("case = (strict input converter(s), one of chain / get_subconverter / remap_curie_prefixes / remap_uri_prefixes / rewire / "
            "discover(converter=...), then 0..4 follow-up add_record / add_prefix calls (mostly merge=True, overlapping the derived records) on the "
            "derived converter). Every input is snapshotted (records, get_prefixes, get_uri_prefixes, bimap, the four index dictionaries, trie "
            "items, battery answers) before the call and compared after the call and after every follow-up step; id()-sharing of Record objects "
            "between result and inputs is recorded. Non-trivial: the derivation merged / renamed / re-pointed a record and a follow-up merged into "
            "a derived record.")

    def generate(self, rng, n):
        for _ in range(n):
            kind = rng.choice(["chain", "sub", "curie", "uri", "rewire", "discover"])
            is_disc = 0
            extra_disc = []
            if kind == "chain":
                inputs = overlapping_converters(rng, rng.choice([1, 2, 2, 3]))
                op = [0, int(rng.random() < 0.6)]
            else:
                recs = qprops.gen_records(rng, rng.choice([1, 2, 3, 4]))
                inputs = [recs]
                if kind == "sub":
                    allp = [p for r in recs for p in [r[0], *r[2]]]
                    # also prefixes the input does not know (and, rarely, the same name twice): asking for them must not leave a trace
                    unknown = [x for x in (rng.choice(qprops.CP_POOL + ["mesh", "zz9"]) for _ in range(rng.choice([0, 0, 1, 2]))) if x not in allp]
                    op = [1, [p for p in allp if rng.random() < 0.6] + unknown]
                elif kind == "curie":
                    op = [2, gen_curie_remapping(rng, recs)]
                elif kind == "uri":
                    op = [3, gen_uri_mapping(rng, recs, False)]
                elif kind == "rewire":
                    op = [4, gen_uri_mapping(rng, recs, True)]
                else:
                    is_disc = 1
                    op = [0, 1]
                    base = [r[1] for r in recs] + ["http://new.org/a/", "http://new.org/b#"]
                    extra_disc = [rng.choice(base) + rng.choice(["1", "2", "x", "a_b", "007"]) for _ in range(rng.randint(0, 8))]
            allrecs = [r for recs in inputs for r in recs]
            follow = []
            from .plug_mutate import gen_op

            for _ in range(rng.choice([0, 1, 2, 3, 4])):
                o = gen_op(rng, allrecs, ":")
                if rng.random() < 0.8:
                    o[2] = 1  # merge=True
                follow.append(o)
            strs, pairs = self.probes(rng, inputs)
            # provenance of the inputs: 0 fresh from the constructor; 1..5 the input is itself the RESULT of an earlier derivation that
            # changes nothing (empty remapping / rewiring, chain of one, sub-converter of everything) -- pipelines of derivations
            prov = rng.choice([0, 0, 0, 1, 2, 3, 4, 5])
            yield [[inputs, op, strs, pairs, [], rng.choice([0, 0, 0, 1, 2, 3, 4, 4]) if kind not in ("chain", "discover") else 0], 1 + len(follow), is_disc,
                   [follow, [extra_disc, prov]]]

    def observe(self, case):
        import curies
        from curies.discovery import discover

        (inputs, op, strs, pairs), nsteps, is_disc, (follow, tail) = case[0][:4], case[1], case[2], case[3]
        mode = case[0][5] if len(case[0]) > 5 else 0
        alias = mode == 4 and op[0] in (1, 2, 3, 4) and not is_disc
        uris, prov = tail if (len(tail) == 2 and isinstance(tail[1], int)) else (tail, 0)
        if mode == 4:
            prov = 0
        convs = build_inputs(inputs, 0 if mode == 4 else mode)
        live = None
        if alias:
            # the argument is one of the input's own live dictionaries; the model gets its content as it is before the call
            live = live_argument(convs[0], op[0])
            op = [op[0], sorted(live) if op[0] == 1 else [[a, b] for a, b in live.items()]]
        if mode:
            inputs = [[qprops.v_record(r) for r in c.records] for c in convs]
        if prov:
            try:
                convs = [derived_identity(c, prov) for c in convs]
                inputs = [[qprops.v_record(r) for r in c.records] for c in convs]
            except Exception:
                convs = build_inputs(inputs, mode)
                prov = 0
        ft = fold_table([s for recs in inputs for s in case_strings(recs)])
        case = [[inputs, op, strs, pairs, ft, mode], nsteps, is_disc, [follow, [uris, prov]]]
        before = [snapshot(c, strs, pairs) for c in convs]
        ids = {id(r) for c in convs for r in c.records}

        def flags():
            return [int(snapshot(c, strs, pairs) == b) for c, b in zip(convs, before)]

        try:
            if is_disc:
                R = discover(list(uris), converter=convs[0])
            else:
                R = run_op(convs, op, live)
        except Exception as e:
            return case, [err_code(e), [flags()], 0]
        steps = [flags()]
        shared = int(any(id(r) in ids for r in R.records))
        for rec, cs, mg, ap in follow:
            p, u, ps, us, pat = rec
            try:
                if ap:
                    R.add_prefix(p, u, list(ps), list(us), **qprops.flags(case_sensitive=bool(cs), merge=bool(mg)))
                else:
                    R.add_record(curies.Record(prefix=p, uri_prefix=u, prefix_synonyms=list(ps), uri_prefix_synonyms=list(us),
                                               pattern=pat.v if pat else None), **qprops.flags(case_sensitive=bool(cs), merge=bool(mg)))
            except Exception:
                pass
            steps.append(flags())
        return case, [0, steps, shared]

    def nontrivial(self, case, obs):
        return obs[0] == 0 and len(obs[1]) >= 2

    def stats(self, case, obs, acc):
        h = acc.setdefault("op_hist", {})
        k = "discover" if case[2] else OPS[case[0][1][0]]
        h[k] = h.get(k, 0) + 1
        acc["follow_up_steps"] = acc.get("follow_up_steps", 0) + len(case[3][0])
        pv = acc.setdefault("input_provenance_hist (0 constructor, 1 remap_curie_prefixes result, 2 remap_uri_prefixes result, 3 rewire result, 4 chain result, 5 get_subconverter result)", {})
        t = case[3][1]
        pk = str(t[1]) if (len(t) == 2 and isinstance(t[1], int)) else "0"
        pv[pk] = pv.get(pk, 0) + 1

    def sample(self, case, obs):
        return {"inputs": plain(case[0][0]), "op": "discover" if case[2] else OPS[case[0][1][0]], "arg": plain(case[0][1][1]),
                "follow_ups": plain(case[3][0][:2]), "observed": plain(obs)}

    def explain(self, case, obs, model):
        return {"impl [code, per-step per-input unchanged flags, shares Record objects]": plain(obs), "model": plain(model)}

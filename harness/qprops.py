"""Query properties C01-C03, C06-C08 (and the constructor part of C04): generators and observation of the real curies."""
from __future__ import annotations

import os
import random

from .codec import WILD, Some, opt

MODES = [(False, False), (False, True), (True, False), (True, True)]

# The documented defaults of the public signatures (model/Defaults.v; gen/GenObl_Cxx.v ties them to the source).  The harness leaves a
# flag OUT whenever it has its documented default: "default mode" means calling without the flag, so a changed default shows here too.
DOC_DEFAULTS = {"strict": False, "passthrough": False, "case_sensitive": True, "merge": False, "include_synonyms": False, "expand": False,
                "ambiguous": False, "delimiter": ":", "sep": ":", "metaprefix": "ns", "cutoff": None, "delimiters": None, "converter": None,
                "target_column": None}


def flags(**kw):
    return {k: v for k, v in kw.items() if not (k in DOC_DEFAULTS and DOC_DEFAULTS[k] == v and type(DOC_DEFAULTS[k]) is type(v))}

# ---------------------------------------------------------------- pools
DELIMS = [":", ":", ":", ":", "/", "::", "|", "_", "-", "é", ":/"]
CP_POOL = ["go", "GO", "Go", "a", "b", "ab", "", "http", "https", "x", "y", "chebi", "CHEBI", "straße", "STRASSE",
           "İ", "ǆ", "doi", "n1", "N1", "a.b", "a-b", "a_b", " ", "p q", "é", "𝔘", "obo", "ex", "g", "GO_", "o:p", "a/b", "::"]
ROOTS = ["http://a/", "http://a.org/x", "h", "GO:", "urn:x:", "https://b.org/", "http://purl.obolibrary.org/obo/",
         "é://ü/", "ftp://f/", "_:", "#", "/", "http", "go", "a"]
EXT = ["a", "b", "/", "_", "#", "B", "obo/", "GO_", "1", "é", ":", "x/y", "A", " ", "://", "."]
IDENTS = ["", "1", "0000001", "a/b", "x:y", "é", " ", "#f", "a b", "GO_1", "1/2/3", "::", ":", "/", "_", "𝔘", "a\nb", "\t", "x|y", "-",
          "C[N+](C)[O-]", "x[", "]y", "[1]", "(2)", "<3>", "'q'", "\"q\""]
# characters a "tolerant" parser might trim from the ends of its input: a string is a string, they are part of it
EDGE_CHARS = ["[", "]", "(", ")", "<", ">", "{", "}", "\"", "'", " ", "\n", "\t", "\u00a0"]


def uri_family(rng: random.Random, n: int) -> list[str]:
    """A prefix lattice: strings that extend or truncate one another, plus the empty prefix now and then."""
    fam: list[str] = []
    while len(fam) < n:
        r = rng.random()
        if fam and r < 0.55:
            base = rng.choice(fam)
            s = base + "".join(rng.choice(EXT) for _ in range(rng.randint(1, 2)))
        elif fam and r < 0.65:
            base = rng.choice(fam)
            s = base[: rng.randint(0, len(base))]
        elif fam and r < 0.72:
            base = rng.choice(fam)  # identical up to one character
            if base:
                i = rng.randrange(len(base))
                s = base[:i] + rng.choice("abB/_#x") + base[i + 1 :]
            else:
                s = "a"
        elif r < 0.76:
            s = ""
        else:
            s = rng.choice(ROOTS)
        if s not in fam:
            fam.append(s)
    return fam


def gen_records(rng: random.Random, nrec: int, *, strict_ok=True, cps=None):
    """Records as [prefix, uri_prefix, [psyn], [usyn], pattern|None]; strict_ok => no string claimed twice."""
    slots = []
    for _ in range(nrec):
        slots.append((rng.choice([0, 0, 0, 1, 1, 2, 3]), rng.choice([0, 0, 0, 1, 1, 2, 3])))
    need_p = sum(1 + a for a, _ in slots)
    need_u = sum(1 + b for _, b in slots)
    pool = list(cps or CP_POOL)
    rng.shuffle(pool)
    while len(pool) < need_p:
        pool.append(rng.choice(CP_POOL) + str(len(pool)))
    ps = pool[:need_p]
    us = uri_family(rng, need_u)
    rng.shuffle(us)
    recs = []
    for a, b in slots:
        p, *psyn = [ps.pop() for _ in range(1 + a)]
        u, *usyn = [us.pop() for _ in range(1 + b)]
        pat = rng.choice([None, None, None, "^\\d+$", "", "^[A-Z]\\d{5}$"])
        recs.append([p, u, psyn, usyn, opt(pat)])
    if not strict_ok and recs:
        # inject a clash of a chosen kind
        kind = rng.choice(["cc", "cs", "ss", "ucc", "ucs", "uss", "both", "self_p", "self_u", "twin_pat", "twin_perm", "twin_comma", "twin"])
        i, j = rng.randrange(len(recs)), rng.randrange(len(recs))
        ri, rj = recs[i], recs[j]
        if kind == "cc":
            rj[0] = ri[0]
        elif kind == "cs":
            rj[2] = rj[2] + [ri[0]]
        elif kind == "ss":
            x = (ri[2] or [ri[0] + "s"])[0]
            ri[2] = list(dict.fromkeys(ri[2] + [x]))
            rj[2] = rj[2] + [x]
        elif kind == "ucc":
            rj[1] = ri[1]
        elif kind == "ucs":
            rj[3] = rj[3] + [ri[1]]
        elif kind == "uss":
            x = (ri[3] or [ri[1] + "s"])[0]
            ri[3] = list(dict.fromkeys(ri[3] + [x]))
            rj[3] = rj[3] + [x]
        elif kind == "both":
            rj[2] = rj[2] + [ri[0]]
            rj[3] = rj[3] + [ri[1]]
        elif kind.startswith("twin"):
            # a second record that agrees with ri on prefix and URI prefix (and, up to order / joining, on the synonyms)
            import copy as _copy

            t = _copy.deepcopy(ri)
            if kind == "twin_pat":
                t[4] = opt("^x$") if t[4] is None else None
            elif kind == "twin_perm":
                if len(t[2]) < 2:
                    ri[2] = ri[2] + [ri[0] + "_s1", ri[0] + "_s2"]
                    t[2] = list(ri[2])
                t[2] = list(reversed(t[2]))
            elif kind == "twin_comma":
                if len(ri[2]) < 2:
                    ri[2] = [ri[0] + "_a", ri[0] + "_b"]
                t[2] = [",".join(sorted(ri[2]))]
            recs.insert(rng.randrange(len(recs) + 1), t)
        elif kind == "self_p":
            ri[2] = ri[2] + [ri[0]]
        elif kind == "self_u":
            ri[3] = ri[3] + [ri[1]]
    return recs


def prefix_free_records(rng: random.Random, nrec: int):
    recs = gen_records(rng, nrec)
    # rewrite the URI prefixes so that none is a prefix of another: unique first segment + terminator
    k = 0
    for r in recs:
        def fresh():
            nonlocal k
            k += 1
            return rng.choice(["http://", "urn:", "é:", ""]) + f"{k:02d}" + rng.choice(["/", "#", "_", "/x/"])
        r[1] = fresh()
        r[3] = [fresh() for _ in r[3]]
    return recs


def gen_strings(rng: random.Random, recs, d: str, n: int, weights=(4, 4, 2)):
    """URIs around the registered URI prefixes, CURIEs around the registered prefixes, malformed strings."""
    out: list[str] = []
    allu = [u for r in recs for u in [r[1], *r[3]]]
    allp = [p for r in recs for p in [r[0], *r[2]]]
    wu, wc, wm = weights
    for _ in range(n):
        k = rng.choices(["uri", "curie", "mal"], weights=[wu, wc, wm])[0]
        if k == "uri" and allu:
            p = rng.choice(allu)
            m = rng.random()
            if m < 0.15:
                s = p
            elif m < 0.3:
                s = p[:-1]
            elif m < 0.45:
                s = p + rng.choice("ab/_#1 é")
            elif m < 0.55:
                s = rng.choice(IDENTS)
            else:
                s = p + rng.choice(IDENTS)
        elif k == "curie":
            m = rng.random()
            if allp and m < 0.75:
                p = rng.choice(allp)
            elif m < 0.85:
                p = rng.choice(CP_POOL)
            else:
                p = (rng.choice(allp) if allp else "x").swapcase()
            s = p + d + rng.choice(IDENTS)
        else:
            s = rng.choice(["", d, "nodelim", " ", d + d, "a" + d, d + "a", "\n", "http://unknown/x", rng.choice(CP_POOL)])
        if rng.random() < 0.1:
            # the same string with something at its ends (safe-CURIE brackets, quotes, angle brackets, white space)
            e = rng.choice(EDGE_CHARS)
            close = {"[": "]", "(": ")", "<": ">", "{": "}"}.get(e, e)
            s = rng.choice([e + s, s + e, e + s + close, s + close])
        out.append(s)
    return list(dict.fromkeys(out))


def gen_pairs(rng: random.Random, recs, n: int):
    allp = [p for r in recs for p in [r[0], *r[2]]]
    out = []
    for _ in range(n):
        p = rng.choice(allp) if allp and rng.random() < 0.7 else rng.choice(CP_POOL)
        out.append([p, rng.choice(IDENTS)])
    uniq = []
    for x in out:
        if x not in uniq:
            uniq.append(x)
    return uniq


# ---------------------------------------------------------------- the real implementation
def outcome(f, conv_val=lambda x: x):
    import curies.api as api

    try:
        v = f()
    except ValueError as e:
        if type(e).__module__.startswith("curies"):
            return [1]
        return [2]
    except Exception:
        return [2]
    return [0, conv_val(v)]


def v_ostr(x):
    return None if x is None else Some(x)


def v_oref(x):
    return None if x is None else Some([x[0], x[1]])


def v_ostrs(x):
    """expand_all / expand_pair_all: canonical URI first; the order among the synonym expansions is not specified by any property
    and is normalised (model/Answer.v norm_all does the same)."""
    if x is None:
        return None
    x = list(x)
    return Some(x[:1] + sorted(x[1:]))


def v_record(r):
    return [r.prefix, r.uri_prefix, list(r.prefix_synonyms), list(r.uri_prefix_synonyms), opt(r.pattern)]


def v_dict(d):
    return [[k, v] for k, v in sorted(d.items())]


def mk_records(recs):
    from curies import Record

    return [
        Record(prefix=p, uri_prefix=u, prefix_synonyms=list(ps), uri_prefix_synonyms=list(us), pattern=pat.v if pat else None)
        for p, u, ps, us, pat in recs
    ]


# Which answers a check looks at.  KEEP is None (all) or a set of method names; every other answer is not even requested
# and is sent as the wildcard, so that a check only speaks about the methods its property speaks about.
KEEP = None
STR_HEAD = ["parse_uri", "parse_uri", "is_uri", "parse_curie", "parse_curie", "is_curie", "expand_all", "expand_all", "parse", "parse",
            "compress_strict", "expand_strict"]
STR_MODE = ["compress", "expand", "compress_or_standardize", "expand_or_standardize", "standardize_prefix", "standardize_curie",
            "standardize_uri"]
PAIR_HEAD = ["expand_pair_all", "expand_pair_all", "format_curie", "get_record"]
PAIR_MODE = ["expand_pair", "expand_reference"]
INTRO = ["bimap", "reverse_bimap", "get_prefixes", "get_prefixes", "get_uri_prefixes", "get_uri_prefixes", "records", "prefix_map",
         "reverse_prefix_map", "synonym_to_prefix", "pattern_map"]
# the two primitive parsers, the expansion family, prefix standardisation and the introspection attributes: what "the converter
# denoted by these records" means for the construction / derivation properties (C04, C05, C09-C13); the derived operations
# (parse, *_or_standardize, standardize_curie / standardize_uri, *_strict aliases) are the business of C03, C06, C07
PRIMITIVES = {"parse_uri", "is_uri", "compress", "parse_curie", "is_curie", "expand", "expand_all", "expand_pair", "expand_reference",
              "expand_pair_all", "standardize_prefix", "format_curie", "get_record"} | set(INTRO)


def _masked(names, thunks):
    if KEEP is None:
        return [t() for t in thunks]
    return [t() if n in KEEP else WILD for n, t in zip(names, thunks)]


def battery_str(c, s):
    th = [
        lambda: outcome(lambda: c.parse_uri(s, return_none=True), v_oref),
        lambda: outcome(lambda: c.parse_uri(s, strict=True, return_none=True), v_oref),
        lambda: outcome(lambda: c.is_uri(s), int),
        lambda: outcome(lambda: c.parse_curie(s), v_oref),
        lambda: outcome(lambda: c.parse_curie(s, strict=True), v_oref),
        lambda: outcome(lambda: c.is_curie(s), int),
        lambda: outcome(lambda: c.expand_all(s), v_ostrs),
        lambda: outcome(lambda: c.expand_all(s, strict=True), v_ostrs),
        lambda: outcome(lambda: c.parse(s, strict=False), v_oref),
        lambda: outcome(lambda: c.parse(s, strict=True), v_oref),
        lambda: outcome(lambda: c.compress_strict(s), v_ostr),
        lambda: outcome(lambda: c.expand_strict(s), v_ostr),
    ]
    names = list(STR_HEAD)
    for st, pa in MODES:
        kw = flags(strict=st, passthrough=pa)
        th += [
            lambda kw=kw: outcome(lambda: c.compress(s, **kw), v_ostr),
            lambda kw=kw: outcome(lambda: c.expand(s, **kw), v_ostr),
            lambda kw=kw: outcome(lambda: c.compress_or_standardize(s, **kw), v_ostr),
            lambda kw=kw: outcome(lambda: c.expand_or_standardize(s, **kw), v_ostr),
            lambda kw=kw: outcome(lambda: c.standardize_prefix(s, **kw), v_ostr),
            lambda kw=kw: outcome(lambda: c.standardize_curie(s, **kw), v_ostr),
            lambda kw=kw: outcome(lambda: c.standardize_uri(s, **kw), v_ostr),
        ]
        names += STR_MODE
    return _masked(names, th)


def battery_pair(c, p, i):
    from curies.api import ReferenceTuple

    th = [
        lambda: outcome(lambda: c.expand_pair_all(p, i), v_ostrs),
        lambda: outcome(lambda: c.expand_pair_all(p, i, strict=True), v_ostrs),
        lambda: outcome(lambda: c.format_curie(p, i)),
        lambda: outcome(lambda: c.get_record(p), lambda r: None if r is None else Some(v_record(r))),
    ]
    names = list(PAIR_HEAD)
    for st, pa in MODES:
        kw = flags(strict=st, passthrough=pa)
        th += [
            lambda kw=kw: outcome(lambda: c.expand_pair(p, i, **kw), v_ostr),
            lambda kw=kw: outcome(lambda: c.expand_reference(ReferenceTuple(p, i), **kw), v_ostr),
        ]
        names += PAIR_MODE
    return _masked(names, th)


def battery_intro(c):
    th = [
        lambda: outcome(lambda: c.bimap, v_dict),
        lambda: outcome(lambda: c.reverse_bimap, v_dict),
        lambda: outcome(lambda: c.get_prefixes(), sorted),
        lambda: outcome(lambda: c.get_prefixes(include_synonyms=True), sorted),
        lambda: outcome(lambda: c.get_uri_prefixes(), sorted),
        lambda: outcome(lambda: c.get_uri_prefixes(include_synonyms=True), sorted),
        lambda: outcome(lambda: c.records, lambda rs: [v_record(r) for r in sorted(rs, key=lambda r: r.prefix)]),
        lambda: outcome(lambda: c.prefix_map, v_dict),
        lambda: outcome(lambda: c.reverse_prefix_map, v_dict),
        lambda: outcome(lambda: c.synonym_to_prefix, v_dict),
        lambda: outcome(lambda: c.pattern_map, v_dict),
    ]
    return _masked(INTRO, th)


def battery(c, strs, pairs):
    o = []
    for s in strs:
        o += battery_str(c, s)
    for p, i in pairs:
        o += battery_pair(c, p, i)
    o += battery_intro(c)
    return o


def construct(recs, d):
    """Returns (code, converter|None): 0 ok, 1 DuplicateURIPrefixes, 2 DuplicatePrefixes, 3 anything else."""
    import curies
    from curies.api import DuplicatePrefixes, DuplicateURIPrefixes

    try:
        return 0, curies.Converter(mk_records(recs), **flags(delimiter=d))
    except DuplicateURIPrefixes:
        return 1, None
    except DuplicatePrefixes:
        return 2, None
    except Exception:
        return 3, None


def derived_strings(c, strs, limit=24):
    """Results of compress / expand / standardize_* on the case's strings: the law instances need their answers too."""
    out = []
    for s in strs:
        for f in (c.compress, c.expand, c.standardize_curie, c.standardize_uri, c.standardize_prefix):
            try:
                r = f(s)
            except Exception:
                r = None
            if isinstance(r, str) and r not in strs and r not in out:
                out.append(r)
    return out[:limit]


def one_shot(records, k):
    """The constructor's signature is Iterable[Record]: hand the records over as an iterable that can be walked only once."""
    k = k % 4
    if k == 0:
        return (r for r in records)
    if k == 1:
        return iter(records)
    if k == 2:
        return map(lambda r: r, records)
    return filter(lambda r: True, records)


def use_as_derivation_input(c):
    """Derive other converters from c (chain with an overlapping converter that brings new synonyms, sub-converter that is then
    extended, the three reconciliation functions).  None of this may change c (C10); whatever c then holds is what is queried."""
    import curies
    from curies import Record

    others = []
    for j, r in enumerate(c.records):
        others.append(Record(prefix=r.prefix, uri_prefix=r.uri_prefix, prefix_synonyms=[f"zq{j}q{r.prefix}"],
                             uri_prefix_synonyms=[f"zq{j}://{r.uri_prefix}"]))
    attempts = [
        lambda: curies.chain([c, curies.Converter(others)]),
        lambda: curies.chain([curies.Converter(others), c]),
        lambda: [sub.add_prefix(r.prefix, r.uri_prefix, prefix_synonyms=[f"zs{r.prefix}"], uri_prefix_synonyms=[f"zs://{r.uri_prefix}"], merge=True)
                 for sub in [c.get_subconverter([r.prefix for r in c.records])] for r in list(sub.records)],
        lambda: curies.remap_curie_prefixes(c, {r.prefix: f"zr{r.prefix}" for r in c.records}),
        lambda: curies.remap_uri_prefixes(c, {r.uri_prefix: f"zr://{r.uri_prefix}" for r in c.records}),
        lambda: curies.rewire(c, {r.prefix: f"zw://{r.uri_prefix}" for r in c.records}),
    ]
    for a in attempts:
        try:
            a()
        except Exception:
            pass


def use_as_export_source(c):
    """Everything that only READS a converter: the four writers with every flag combination, the accessors, the mapping-service
    graph.  None of this may change what c answers; whatever c then holds is what is queried (mode 7)."""
    import tempfile
    import curies

    with tempfile.TemporaryDirectory(prefix="verif_q7_") as tmp:
        path = os.path.join(tmp, "out")
        attempts = [lambda: curies.write_extended_prefix_map(c, path)]
        for syn in (False, True):
            for exp in (False, True):
                attempts.append(lambda syn=syn, exp=exp: curies.write_jsonld_context(c, path, include_synonyms=syn, expand=exp))
            attempts.append(lambda syn=syn: curies.write_shacl(c, path, include_synonyms=syn))
        attempts.append(lambda: curies.write_tsv(c, path))
        attempts.append(lambda: curies.write_tsv(c, path, header=("p", "u")))
        attempts += [
            lambda: (c.get_prefixes(include_synonyms=True), c.get_uri_prefixes(include_synonyms=True), c.get_prefixes(), c.get_uri_prefixes()),
            lambda: (dict(c.bimap), dict(c.prefix_map), dict(c.reverse_prefix_map), dict(c.synonym_to_prefix), dict(c.pattern_map)),
            lambda: [r.model_dump() for r in c.records],
            lambda: (repr(c), str(c)),
        ]
        for a in attempts:
            try:
                a()
            except Exception:
                pass


def build_converter(recs, d, mode, warm=None):
    """The converter the records denote, built in one of eight ways (7: the constructor, after which every read-only export -- the writers with all flag combinations, the accessors -- has run; 5: the constructor fed with a one-shot iterable; 6: the
    constructor, after which the converter serves as INPUT of chain / get_subconverter / remap_* / rewire calls whose results are
    thrown away); the first five are: (the properties quantify over every converter, however
    it came about): 0 the constructor; 1 Converter([]) + add_record one by one; 2 bare records first (add_prefix without synonym
    arguments, or add_record for a pattern), their synonyms merged in afterwards with add_prefix(..., merge=True); 3 like 2 with
    the CURIE-prefix synonyms and the URI-prefix synonyms merged in two separate calls; 4 like 3, and the converter is QUERIED
    (warm: the same questions that are asked at the end) after every single step, so that an answer remembered from an earlier
    state would show."""
    import curies

    if mode == 0:
        return curies.Converter(mk_records(recs), **flags(delimiter=d))
    if mode == 5:
        return curies.Converter(one_shot(mk_records(recs), len(recs)), **flags(delimiter=d))
    if mode == 6:
        c = curies.Converter(mk_records(recs), **flags(delimiter=d))
        use_as_derivation_input(c)
        return c
    if mode == 7:
        c = curies.Converter(mk_records(recs), **flags(delimiter=d))
        use_as_export_source(c)
        return c
    c = curies.Converter([], **flags(delimiter=d))
    step = (lambda: warm(c)) if (mode == 4 and warm) else (lambda: None)
    step()
    if mode == 1:
        for r in mk_records(recs):
            c.add_record(r)
        return c
    for p, u, ps, us, pat in recs:
        if pat is None:
            c.add_prefix(p, u)
        else:
            c.add_record(curies.Record(prefix=p, uri_prefix=u, pattern=pat.v))
        step()
    for p, u, ps, us, pat in recs:
        if mode == 2:
            if ps or us:
                c.add_prefix(p, u, prefix_synonyms=list(ps), uri_prefix_synonyms=list(us), merge=True)
        else:   # modes 3, 4: CURIE-prefix synonyms and URI-prefix synonyms arrive in separate merges
            if ps:
                c.add_prefix(p, u, prefix_synonyms=list(ps), merge=True)
                step()
            if us:
                c.add_prefix(p, u, uri_prefix_synonyms=list(us), merge=True)
                step()
    return c


def observe_q(case):
    """case = [records, delimiter, strings, pairs (, build mode)]; returns (case with the records as the built converter holds
    them and derived strings appended, observation)."""
    recs, d, strs, pairs = case[:4]
    mode = case[4] if len(case) > 4 else 0
    if mode == 0:
        code, c = construct(recs, d)
    else:
        try:
            code, c = 0, build_converter(recs, d, mode, warm=lambda cc: battery(cc, strs, pairs))
            recs = [v_record(r) for r in c.records]       # merging sorts the synonym lists
        except Exception:
            code, c = 3, None
    if c is None:
        return case, [code, []]
    strs = list(strs) + derived_strings(c, strs)
    if mode == 6:
        # ask about every name the records hold NOW (a derivation that wrote into c's records shows here)
        extra = [x for r in c.records for x in [*(p + d + "1" for p in r.prefix_synonyms), *(u + "1" for u in r.uri_prefix_synonyms)]]
        strs += [x for x in dict.fromkeys(extra) if x not in strs][:16]
    case = [recs, d, strs, pairs] + ([mode] if len(case) > 4 else [])
    return case, [0, battery(c, strs, pairs)]


# ---------------------------------------------------------------- case generation
def gen_qcase(rng: random.Random, focus: str):
    nrec = rng.choice([0, 1, 1, 2, 2, 3, 3, 4, 5, 6, 8])
    d = rng.choice(DELIMS)
    if focus in ("C03", "C06") and rng.random() < 0.45:
        recs = prefix_free_records(rng, nrec)
    else:
        recs = gen_records(rng, nrec)
    if focus in ("C02", "C03", "C06", "C07") and rng.random() < 0.8:
        # the quantifier: prefixes not containing the delimiter
        for r in recs:
            r[0] = r[0].replace(d, "") if d in r[0] else r[0]
            r[2] = [p.replace(d, "") for p in r[2]]
        seen = set()
        ok = True
        for r in recs:
            for p in [r[0], *r[2]]:
                if p in seen:
                    ok = False
                seen.add(p)
        if not ok:
            recs = gen_records(rng, nrec, cps=[p for p in CP_POOL if d not in p])
    w = {"C01": (7, 2, 1), "C02": (2, 7, 1), "C03": (5, 4, 1), "C06": (4, 4, 2), "C07": (4, 4, 2), "C08": (3, 3, 4)}.get(focus, (4, 4, 2))
    strs = gen_strings(rng, recs, d, rng.randint(2, 6), w)
    if focus == "C07" and recs:
        # strings that are both: a URI prefix that looks like a CURIE and a CURIE prefix that looks like a URI
        for r in recs:
            if d in r[1]:
                strs.append(r[1] + "1")
        strs = list(dict.fromkeys(strs))
    pairs = gen_pairs(rng, recs, rng.randint(0, 2) if focus not in ("C02", "C08") else rng.randint(1, 3))
    return [recs, d, strs, pairs, rng.choice([0, 0, 0, 1, 2, 2, 3, 3, 4, 4, 4, 5, 5, 6, 6, 7, 7])]


def nontrivial_q(focus: str, case) -> bool:
    recs, d, strs, pairs = case[:4]
    allu = [u for r in recs for u in [r[1], *r[3]]]
    allp = [p for r in recs for p in [r[0], *r[2]]]
    syn_p = [p for r in recs for p in r[2]]
    if focus == "C01":
        for s in strs:
            if sum(1 for u in allu if s.startswith(u)) >= 2:
                return True
            if any(s == u or s == u[:-1] for u in allu if u):
                return True
        return False
    if focus in ("C02", "C06", "C08"):
        for s in strs:
            p, sep, i = s.partition(d)
            if sep and (p in syn_p or p == "" and "" in allp or d in i or any(p != q and p.casefold() == q.casefold() for q in allp)):
                return True
        return focus == "C08" and any(d not in s for s in strs)
    if focus == "C03":
        return any(sum(1 for u in allu if s.startswith(u)) >= 1 and any(s.startswith(u) for r in recs for u in r[3]) for s in strs) or any(
            sum(1 for u in allu if s.startswith(u)) >= 2 for s in strs
        )
    if focus == "C07":
        for s in strs:
            p, sep, i = s.partition(d)
            if sep and p in allp and any(s.startswith(u) for u in allu):
                return True
        return any(d not in s for s in strs)
    return True

"""C05: histories of add_record / add_prefix."""
from __future__ import annotations

import copy
import random

from . import qprops
from . import smallscope as ss
from .codec import Some, opt, plain
from .core import Plugin


def fold_table(strings):
    chars = sorted({c for s in strings for c in s})
    return [[ord(c), c.casefold()] for c in chars if c.casefold() != c]


def case_strings(recs):
    out = []
    for r in recs:
        out += [r[0], r[1], *r[2], *r[3]]
    return out


def step_outcome(f):
    try:
        f()
    except ValueError:
        return 1
    except Exception:
        return 2
    return 0


def obs_conv(c, strs, pairs):
    import curies

    try:
        curies.Converter([r.model_copy(deep=True) for r in c.records], delimiter=c.delimiter)
        code = 0
    except curies.DuplicateURIPrefixes:
        code = 1
    except curies.DuplicatePrefixes:
        code = 2
    except Exception:
        code = 3
    return [code, qprops.battery(c, strs, pairs)]


def gen_op(rng: random.Random, recs_now, d):
    """A new record: fresh, or overlapping an existing one on the CURIE side / URI side / both / only up to case."""
    kind = rng.choice(["fresh", "fresh", "cp", "up", "both", "case", "case_u", "bridge", "dup"])
    base = qprops.gen_records(rng, 1)[0]
    base[0] = base[0] + rng.choice(["", "", "9", "Z"])
    r = None
    if recs_now and kind != "fresh":
        e = rng.choice(recs_now)
        allp = [e[0], *e[2]]
        allu = [e[1], *e[3]]
        if kind == "cp":
            r = [rng.choice(allp), base[1], base[2], base[3], base[4]] if rng.random() < 0.5 else [base[0], base[1], base[2] + [rng.choice(allp)], base[3], base[4]]
        elif kind == "up":
            r = [base[0], rng.choice(allu), base[2], base[3], base[4]] if rng.random() < 0.5 else [base[0], base[1], base[2], base[3] + [rng.choice(allu)], base[4]]
        elif kind == "both":
            r = [rng.choice(allp), rng.choice(allu), base[2], base[3], base[4]]
        elif kind == "case":
            p = rng.choice(allp)
            v = rng.choice([p.swapcase(), p.upper(), p.lower(), p.replace("ß", "ss").replace("SS", "ß")])
            r = [v, base[1], base[2], base[3], base[4]]
        elif kind == "case_u":
            u = rng.choice(allu)
            r = [base[0], rng.choice([u.swapcase(), u.upper()]), base[2], base[3], base[4]]
        elif kind == "bridge" and len(recs_now) >= 2:
            e2 = rng.choice(recs_now)
            r = [base[0], base[1], base[2] + [rng.choice(allp)], base[3] + [rng.choice([e2[1], *e2[3]])], base[4]]
        elif kind == "dup":
            r = copy.deepcopy(e)
    if r is None:
        r = base
    # keep Record(...) constructible: canonical not among own synonyms, unless we test add_prefix's validation
    r[2] = [x for x in dict.fromkeys(r[2]) if x != r[0]]
    r[3] = [x for x in dict.fromkeys(r[3]) if x != r[1]]
    via_ap = rng.random() < 0.3
    if via_ap and rng.random() < 0.08:
        r[2] = r[2] + [r[0]]  # invalid for add_prefix: pydantic rejects
    if via_ap:
        r[4] = None
    return [r, int(rng.random() < 0.6), int(rng.random() < 0.6), int(via_ap)]


class C05(Plugin):
    keep = qprops.PRIMITIVES   # the methods that define what a converter denotes; derived operations are C03/C06/C07's business
    pid = "C05"
    entry = 5
    prop = 5
    counts = {"quick": 700, "thorough": 100000}
    rule = ("case = (start records of a strict converter, delimiter, history of 1..12 add_record / add_prefix operations with every flag "
            "combination, probe strings and pairs, casefold table of the characters used); new records are fresh, overlap an existing record on "
            "the CURIE side, the URI side, both, only up to case (swapcase / upper / sharp-s foldings), bridge two records, or duplicate one. "
            "After the construction and after EACH step: outcome, the live converter's answers to the whole battery incl. records / bimap / "
            "indexes, and whether Converter(copy of its records) is accepted. Non-trivial: the history contains >= 1 merge and >= 1 rejection.")

    def generate(self, rng, n):
        for _ in range(n):
            d = rng.choice([":", ":", ":", "/", "_"])
            recs = qprops.gen_records(rng, rng.choice([0, 1, 2, 3, 4]))
            ops = []
            cur = copy.deepcopy(recs)
            for _ in range(rng.randint(1, 12 if rng.random() < 0.3 else 6)):
                op = gen_op(rng, cur, d)
                ops.append(op)
                cur.append(copy.deepcopy(op[0]))  # approximation of the current state, only to steer overlaps
            strs = qprops.gen_strings(rng, cur, d, rng.randint(2, 4))
            pairs = qprops.gen_pairs(rng, cur, rng.randint(1, 2))
            yield [recs, d, ops, strs, pairs, []]

    explanation = ("small-scope block: every history of two operations, from the empty converter, over the record universe {a, A, b} x {h/, H/} "
                   "(one optional CURIE-prefix synonym, one optional URI-prefix synonym) and every combination of case_sensitive / merge "
                   "(the second operation alternately through add_record and add_prefix); the thorough tier runs the whole block "
                   "(exhaustive=true refers to that block only), the quick tier a fixed sample of it")

    def exhaustive(self, tier):
        recs = ss.records(us=["h/", "H/"])
        strs, pairs = ss.probes(ss.P3, ["h/", "H/"])
        ops = [[r, cs, mg] for r in recs for cs in (0, 1) for mg in (0, 1)]
        cases = []
        n = 0
        for o1 in ops:
            for o2 in ops:
                n += 1
                cases.append([[], ":", [[o1[0], o1[1], o1[2], 0], [o2[0], o2[1], o2[2], n % 2]], strs, pairs, []])
        self.exhaustive_flag = tier == "thorough"
        return ss.block(cases, tier, 400)

    def observe(self, case):
        import curies

        recs, d, ops, strs, pairs, _ = case
        allrecs = recs + [op[0] for op in ops]
        ft = fold_table(case_strings(allrecs))
        case = [recs, d, ops, strs, pairs, ft]
        code, c = qprops.construct(recs, d)
        if c is None:
            return case, [code, [], []]
        st0 = obs_conv(c, strs, pairs)
        steps = []
        for rec, cs, mg, ap in ops:
            p, u, ps, us, pat = rec
            if ap:
                f = lambda: c.add_prefix(p, u, list(ps), list(us), **qprops.flags(case_sensitive=bool(cs), merge=bool(mg)))
            else:
                def f():
                    r = curies.Record(prefix=p, uri_prefix=u, prefix_synonyms=list(ps), uri_prefix_synonyms=list(us), pattern=pat.v if pat else None)
                    c.add_record(r, **qprops.flags(case_sensitive=bool(cs), merge=bool(mg)))
            out = step_outcome(f)
            steps.append([out, obs_conv(c, strs, pairs)])
        return case, [0, st0, steps]

    def nontrivial(self, case, obs):
        if len(obs) < 3 or not obs[2]:
            return False
        codes = [s[0] for s in obs[2]]
        nrec = None
        merges = 0
        prev = len(case[0])
        for s in obs[2]:
            try:
                recs = s[1][1][-5][1]
                n = len(recs)
            except Exception:
                return False
            if s[0] == 0 and n == prev:
                merges += 1
            prev = n
        return merges >= 1 and any(c == 1 for c in codes)

    def stats(self, case, obs, acc):
        if len(obs) < 3:
            return
        acc["steps"] = acc.get("steps", 0) + len(obs[2])
        for s, op in zip(obs[2], case[2]):
            k = {0: "accepted", 1: "rejected_ValueError", 2: "other_exception"}[s[0]]
            acc[k] = acc.get(k, 0) + 1
            if not op[1]:
                acc["case_insensitive_ops"] = acc.get("case_insensitive_ops", 0) + 1

    def sample(self, case, obs):
        return {"start_records": plain(case[0]), "delimiter": case[1], "ops": plain(case[2][:4]), "outcomes": [s[0] for s in obs[2]] if len(obs) > 2 else None}

    def explain(self, case, obs, model):
        out = {"ctor": [obs[0], model[0] if model else None]}
        if model and len(obs) > 2 and len(model) > 2:
            for i, (a, b) in enumerate(zip(obs[2], model[2])):
                if a != b:
                    out["first_differing_step"] = i
                    out["op"] = plain(case[2][i])
                    out["outcome impl/model"] = [a[0], b[0]]
                    if a[1][0] != b[1][0]:
                        out["fresh ctor impl/model"] = [a[1][0], b[1][0]]
                    diffs = [(j, plain(x), plain(y)) for j, (x, y) in enumerate(zip(a[1][1], b[1][1])) if x != y and x != qprops.WILD]
                    out["answer_diffs(index, impl, model)"] = diffs[:6]
                    break
        return out

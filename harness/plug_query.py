"""Plugins for the query properties C01, C02, C03, C06, C07, C08."""
from __future__ import annotations

import itertools
import random

from . import qprops
from .codec import plain
from .core import Plugin

RULES = {
    "C01": "case = (records of a strict converter, delimiter, strings, pairs); converters drawn from a URI-prefix lattice (extensions, truncations, one-character variants, the empty prefix) with synonyms; strings = registered URI prefixes, one char short/past, prefix+identifier, junk. Non-trivial: some string has >= 2 registered URI prefixes as prefixes, or equals a registered prefix or that prefix minus one character. Distinct = distinct encoded case.",
    "C02": "same case shape; CURIEs built from canonical prefixes, synonyms, case variants, unknown prefixes, the empty prefix; identifiers empty / containing the delimiter / '/', '#', spaces, Unicode; delimiters ':', '/', '::', '|', '_', '-', 'e-acute', ':/'. Non-trivial: a CURIE's prefix is a synonym, the empty prefix, a case variant of a registered prefix, or its identifier contains the delimiter.",
    "C03": "same case shape; two converter streams: arbitrary overlap (lossless clauses) and prefix-free by construction (bijection clauses); the results of compress/expand/standardize_* are appended to the strings so that every law instance is evaluated on observed answers. Non-trivial: a URI is written with a URI-prefix synonym or has >= 2 registered prefixes.",
    "C06": "same case shape, with known / unknown / synonym / case-variant prefixes, CURIEs and URIs; results of standardize_* are appended so that idempotence is evaluated on observed answers. Non-trivial: as C02.",
    "C07": "same case shape; strings that are simultaneously CURIE and URI (URI prefix containing the delimiter + identifier), strings without delimiter, the empty string. Non-trivial: a string is both a known CURIE and a recognised URI, or has no delimiter.",
    "C08": "same case shape; malformed stream weight 40 % (empty string, no delimiter, only delimiters, unknown prefixes); all 14 functions x their flag combinations observed. Non-trivial: as C02, or a string without delimiter.",
}


class QueryPlugin(Plugin):
    entry = 1
    counts = {"quick": 1500, "thorough": 200000}

    def __init__(self):
        self.rule = RULES[self.pid]

    def generate(self, rng, n):
        for _ in range(n):
            yield qprops.gen_qcase(rng, self.pid)

    def exhaustive(self, tier):
        """Small-scope block: every 1-2 record converter over a tiny universe x boundary strings."""
        us = ["", "h", "h/", "h/a"]
        ps = ["", "a", "A", "b"]
        cases = []
        strs_u = ["", "h", "h/", "h/a", "h/a1", "h/b", "x", "a:1", "A:h/", ":1", "b:", "a", ":"]
        one = [[p, u, [], [], None] for p in ps[:3] for u in us]
        for r in one:
            cases.append([[r], ":", strs_u, [["a", "1"], ["", "x"]]])
        for (p1, p2) in itertools.permutations(ps[:3], 2):
            for (u1, u2) in itertools.permutations(us, 2):
                cases.append([[[p1, u1, [], [], None], [p2, u2, [], [], None]], ":", strs_u, [[p1, "1"]]])
        for (p1, p2, p3) in itertools.permutations(ps, 3):
            for (u1, u2, u3) in itertools.permutations(us, 3):
                cases.append([[[p1, u1, [p3], [u3], None], [p2, u2, [], [], None]], ":", strs_u[:9], [[p3, "1"]]])
        if tier == "quick":
            rng = random.Random(7)
            rng.shuffle(cases)
            cases = cases[:150]
        return cases

    def observe(self, case):
        return qprops.observe_q(case)

    def nontrivial(self, case, obs):
        return qprops.nontrivial_q(self.pid, case)

    def stats(self, case, obs, acc):
        recs, d, strs, pairs = case[:4]
        acc["records_hist"] = acc.get("records_hist", {})
        k = str(min(len(recs), 8))
        acc["records_hist"][k] = acc["records_hist"].get(k, 0) + 1
        acc["strings"] = acc.get("strings", 0) + len(strs)
        acc["calls"] = acc.get("calls", 0) + (len(obs[1]) if len(obs) > 1 else 0)
        bm = acc.setdefault("build_mode_hist (0 constructor, 1 add_record, 2 add_prefix + merge, 3 two merges, 4 two merges with queries after every step, 5 constructor fed with a one-shot iterable, 6 constructor, then used as input of chain / get_subconverter / remap_* / rewire)", {})
        mk = str(case[4]) if len(case) > 4 else "0"
        bm[mk] = bm.get(mk, 0) + 1
        dl = acc.setdefault("delimiters", {})
        dl[d] = dl.get(d, 0) + 1
        if len(obs) > 1 and obs[1]:
            seen = [o for o in obs[1] if o != qprops.WILD]
            acc["answers_compared"] = acc.get("answers_compared", 0) + len(seen)
            errs = sum(1 for o in seen if o and o[0] == 1)
            acc["lib_errors_observed"] = acc.get("lib_errors_observed", 0) + errs
            none = sum(1 for o in seen if o and o[0] == 0 and o[1] is None)
            acc["none_results"] = acc.get("none_results", 0) + none

    def sample(self, case, obs):
        recs, d, strs, pairs = case[:4]
        return {"records": plain(recs), "delimiter": d, "strings": strs[:6], "pairs": plain(pairs), "answers_observed": len(obs[1]) if len(obs) > 1 else 0}

    def explain(self, case, obs, model):
        """Name the first differing queries (battery order)."""
        recs, d, strs, pairs = case[:4]
        names = []
        sq = ["parse_uri", "parse_uri(strict)", "is_uri", "parse_curie", "parse_curie(strict)", "is_curie", "expand_all", "expand_all(strict)",
              "parse", "parse(strict)", "compress_strict", "expand_strict"]
        for st, pa in qprops.MODES:
            for f in ["compress", "expand", "compress_or_standardize", "expand_or_standardize", "standardize_prefix", "standardize_curie", "standardize_uri"]:
                sq.append(f"{f}(strict={st},passthrough={pa})")
        for s in strs:
            names += [f"{q} on {s!r}" for q in sq]
        pq = ["expand_pair_all", "expand_pair_all(strict)", "format_curie", "get_record"]
        for st, pa in qprops.MODES:
            pq += [f"expand_pair(strict={st},passthrough={pa})", f"expand_reference(strict={st},passthrough={pa})"]
        for p, i in pairs:
            names += [f"{q} on {(p, i)!r}" for q in pq]
        names += ["bimap", "reverse_bimap", "get_prefixes", "get_prefixes(syn)", "get_uri_prefixes", "get_uri_prefixes(syn)", "records",
                  "prefix_map", "reverse_prefix_map", "synonym_to_prefix", "pattern_map"]
        out = []
        if not model or len(obs) < 2 or len(model) < 2:
            return {"constructor": {"impl": plain(obs[:1]), "model": plain(model[:1]) if model else None}}
        for n, a, b in zip(names, obs[1], model[1]):
            if a != b and a != qprops.WILD:
                out.append({"query": n, "impl": plain(a), "model": plain(b)})
        return out[:12]


# the methods each property speaks about: only their answers are requested and compared
KEEPS = {
    "C01": {"parse_uri", "compress", "is_uri", "compress_strict"},
    "C02": {"expand", "expand_pair", "expand_reference", "expand_all", "expand_pair_all", "is_curie", "parse_curie", "expand_strict"},
    "C03": {"compress", "expand", "expand_all", "standardize_uri", "standardize_curie", "is_uri"},
    "C06": {"standardize_prefix", "standardize_curie", "standardize_uri", "expand", "compress"},
    "C07": {"is_uri", "is_curie", "parse", "compress_or_standardize", "expand_or_standardize", "format_curie", "compress_strict",
            "expand_strict", "compress", "parse_uri", "expand", "parse_curie"},
    "C08": {"compress", "expand", "compress_or_standardize", "expand_or_standardize", "standardize_prefix", "standardize_curie",
            "standardize_uri", "parse_uri", "parse_curie", "parse", "expand_all", "expand_pair", "expand_reference", "expand_pair_all"},
}


def _mk(pid, prop):
    return type(pid, (QueryPlugin,), {"pid": pid, "prop": prop, "keep": KEEPS[pid]})


C01 = _mk("C01", 1)
C02 = _mk("C02", 2)
C03 = _mk("C03", 3)
C06 = _mk("C06", 6)
C07 = _mk("C07", 7)
C08 = _mk("C08", 8)

"""./check <Cxx> <quick|thorough> | ./check setup | ./check replay <file>"""
from __future__ import annotations

import importlib
import json
import os
import sys

from . import core

PLUGINS = {
    "C01": "harness.plug_query:C01",
    "C02": "harness.plug_query:C02",
    "C03": "harness.plug_query:C03",
    "C04": "harness.plug_load:C04",
    "C05": "harness.plug_mutate:C05",
    "C09": "harness.plug_derive:C09",
    "C10": "harness.plug_derive:C10",
    "C11": "harness.plug_derive:C11",
    "C12": "harness.plug_derive:C12",
    "C13": "harness.plug_load:C13",
    "C06": "harness.plug_query:C06",
    "C07": "harness.plug_query:C07",
    "C08": "harness.plug_query:C08",
    "C14": "harness.plug_writers:C14",
    "C15": "harness.plug_refs:C15",
    "C16": "harness.plug_bulk:C16",
    "C17": "harness.plug_resolver:C17",
    "C18": "harness.plug_mapping:C18",
    "C19": "harness.plug_discover:C19",
    "C20": "harness.plug_w3c:C20",
}


def load(pid):
    mod, cls = PLUGINS[pid].split(":")
    return getattr(importlib.import_module(mod), cls)()


def main(argv):
    if not argv:
        print(__doc__)
        return 2
    if argv[0] == "setup":
        r = core.build(force_extract=True)
        print(json.dumps(r, indent=1)[:3000])
        return 0 if r["ok"] else 1
    if argv[0] == "replay":
        payload = json.load(open(argv[1]))
        pid = payload["property"]
        plug = load(pid)
        b = core.build()
        if "case" not in payload and "differing_case" not in payload:
            print(json.dumps(payload, indent=1)[:4000])
            print("this replay names broken obligations, not an input; re-run ./check", pid, "quick")
            return 1
        from .codec import plain, unplain
        from .driver import Live

        case = unplain(payload.get("case") or payload.get("differing_case"))
        live = Live()
        ev = core.evaluate_one(plug, live, case)
        live.close()
        if ev is None:
            print("case could not be evaluated")
            return 1
        print(json.dumps({"case": plain(ev["case"]), "valid": ev["valid"], "impl_equals_model": ev["same"],
                          "P(model)": ev["pm"], "P(impl)": ev["pi"],
                          "explain": plug.explain(ev["case"], ev["obs"], ev["model"]) if hasattr(plug, "explain") and not ev["same"] else None},
                         indent=1, ensure_ascii=True, default=str)[:6000])
        if ev["pi"] != 1:
            print(f"VIOLATION property={pid} replay={argv[1]}")
            return 1
        if not ev["same"]:
            print(f"VIOLATION property={pid} replay={argv[1]} no-failing-input-found")
            return 1
        return 0
    pid = argv[0]
    tier = argv[1] if len(argv) > 1 else os.environ.get("VERIF_TIER", "quick")
    seed = int(os.environ.get("VERIF_SEED", "20261001"))
    return core.run_check(load(pid), tier, seed)


if __name__ == "__main__":
    sys.exit(main(sys.argv[1:]))

"""C16: bulk operations equal element-wise scalar calls; file operations fail atomically."""
from __future__ import annotations

import csv
import os
import random
import tempfile

from . import qprops
from .codec import Some, plain
from .core import Plugin, ROOT

# cells of the columns that are NOT converted: they must come back exactly, whatever they contain (line-boundary characters,
# an embedded line break or quotes inside a quoted cell)
OTHER_CELLS = ["k", "", "other value", "é", "1,2", "a;b", "k", "", "a\u2028b", "x\x0cy", "l1\nl2", 'say "hi"', "t\x85u", "v\x0bw", "r\x1cs"]
FN = ["compress", "expand", "standardize_prefix", "standardize_curie", "standardize_uri"]


def code_of(e):
    if isinstance(e, IndexError):
        return 3
    if isinstance(e, ValueError) and type(e).__module__.startswith("curies"):
        return 1
    return 2


class C16(Plugin):
    pid = "C16"
    entry = 16
    prop = 16
    counts = {"quick": 1200, "thorough": 100000}
    rule = ("case = (strict converter, one of pd_compress / pd_expand / pd_standardize_prefix / _curie / _uri or file_compress / file_expand, "
            "flags strict / passthrough / ambiguous, a table of 0..8 rows x 1..4 string cells, column index, optional target column, optional "
            "header, tab or custom separator). Cells: URIs, CURIEs, unknown and malformed strings, empty cells. For files the first failing row is "
            "placed at every position, including short rows; the bytes on disk are compared after a failing call. The expected table is "
            "the generic bulk model applied to the implementation's own scalar answers on the cells of the column (observed in the same run). "
            "Non-trivial: >= 2 rows and (a failing cell or a None result or a target column).")
    assumptions = ["pandas dtype / NA behaviour and csv quoting are runtime; cells avoid tab, newline and quote characters",
                   "the observation vector of the model is the specification: the generic bulk model (proved for every scalar function) applied to "
                   "the scalar answers the implementation itself gives; whether those scalar answers are right is C01-C08's business"]

    def generate(self, rng, n):
        for _ in range(n):
            d = rng.choice([":", ":", ":", "/"])
            recs = qprops.gen_records(rng, rng.choice([1, 2, 3]), cps=[p for p in qprops.CP_POOL if p and "\t" not in p])
            mode = int(rng.random() < 0.5)
            tag = rng.randrange(2) if mode == 1 else rng.randrange(5)
            flags = [int(rng.random() < 0.3), int(rng.random() < 0.4), int(rng.random() < 0.3) if tag < 2 else 0]
            ncols = rng.randint(1, 4)
            col = rng.randrange(ncols)
            nrows = rng.choice([0, 1, 2, 3, 5, 8])
            pool = [s for s in qprops.gen_strings(rng, recs, d, 12) if not any(c in s for c in '\t\n\r"') ] or ["x"]
            rows = []
            for _ in range(nrows):
                row = []
                for j in range(ncols):
                    row.append(rng.choice(pool) if j == col else rng.choice(OTHER_CELLS))
                rows.append(row)
            if mode == 1 and rows and rng.random() < 0.15:
                rows[rng.randrange(len(rows))] = rows[0][:col]  # a short row at a random position
            target = -1
            if mode == 0 and rng.random() < 0.4:
                target = rng.choice(list(range(ncols)) + [ncols])
            header = Some(["h%d" % j for j in range(ncols)]) if (mode == 1 and rng.random() < 0.6) else None
            # files: the separator (0 the default tab, given by leaving sep out; 1 ',', 2 ';', 3 '|' passed as sep=); data frames: 0 integer
            # column labels, 1 string labels
            var = rng.choice([0, 0, 1, 2, 3]) if mode == 1 else rng.choice([0, 0, 1])
            if mode == 1 and rows and rng.random() < 0.08:
                # a byte-order-mark character at the very beginning of the file is a character of the first cell like any other
                if header is not None:
                    header = Some(["\ufeff" + header.v[0]] + header.v[1:])
                else:
                    rows[0] = ["\ufeff" + rows[0][0]] + rows[0][1:] if rows[0] else rows[0]
            # staging: with `early` < len(recs) the same bulk call (pandas and, where it exists, file) is first made on the same
            # cells while the converter holds only the first `early` records; the other records are then added to the SAME converter
            # and the observed call follows (bulk = element-wise application of what the scalar method answers NOW)
            early = rng.choice([len(recs)] * 3 + list(range(len(recs))))
            # row labels of the data frame: 0 the default RangeIndex, 1 reversed integers, 2 integers with gaps (a filtered frame),
            # 3 strings, 4 duplicated labels -- bulk conversion is per ROW, whatever the rows are called
            ix = rng.choice([0, 0, 0, 1, 2, 3, 4]) if mode == 0 else 0
            yield [recs, d, tag, flags, rows, col, target, header, mode, [], early, ix, var]

    def observe(self, case):
        import pandas as pd

        import curies

        recs, d, tag, (st, pa, am), rows, col, target, header, mode = case[:9]
        early = case[10] if len(case) > 10 else len(recs)
        kw = qprops.flags(strict=bool(st), passthrough=bool(pa))
        if tag < 2:
            kw.update(qprops.flags(ambiguous=bool(am)))
        c = curies.Converter(qprops.mk_records(recs[:early]), **qprops.flags(delimiter=d))
        if early < len(recs):
            self.warm_up(c, tag, kw, rows, col, header)
            for r in qprops.mk_records(recs[early:]):
                c.add_record(r)
        # "element-wise" is judged against what the implementation's own scalar method answers on each cell of the column
        # (the method that C16_scalar names for this operation and these flags); the answers travel with the case
        if tag == 0:
            sf = c.compress_or_standardize if am else c.compress
        elif tag == 1:
            sf = c.expand_or_standardize if am else c.expand
        else:
            sf = getattr(c, FN[tag])
        cells = list(dict.fromkeys(r[col] for r in rows if len(r) > col))
        table = [[x, qprops.outcome(lambda: sf(x, strict=bool(st), passthrough=bool(pa)), qprops.v_ostr)] for x in cells]
        ix = case[11] if len(case) > 11 else 0
        var = case[12] if len(case) > 12 else 0
        case = list(case[:9]) + [table, early, ix, var]
        if mode == 0:
            ncols = max([len(r) for r in rows], default=col + 1)
            df = pd.DataFrame(rows, columns=list(range(ncols))) if rows else pd.DataFrame({j: pd.Series([], dtype=object) for j in range(ncols)})
            n = len(rows)
            if ix == 1:
                df.index = list(range(n - 1, -1, -1))
            elif ix == 2:
                df.index = [2 * i + 5 for i in range(n)]
            elif ix == 3:
                df.index = ["r%d" % i for i in range(n)]
            elif ix == 4:
                df.index = [i // 2 for i in range(n)]
            f = getattr(c, "pd_" + FN[tag])
            lab = (lambda j: "c%d" % j) if var == 1 else (lambda j: j)
            if var == 1:
                df.columns = [lab(j) for j in range(ncols)]
            try:
                f(df, column=lab(col), **qprops.flags(target_column=None if target < 0 else lab(target)), **kw)
            except Exception as e:
                return case, [code_of(e)]
            out = []
            for _, r in df.iterrows():
                out.append([None if (v is None or (isinstance(v, float) and v != v)) else Some(v) for v in r.tolist()])
            return case, [0, out]
        os.makedirs(os.path.join(ROOT, "_build", "tmp"), exist_ok=True)
        fd, path = tempfile.mkstemp(suffix=".tsv", dir=os.path.join(ROOT, "_build", "tmp"))
        os.close(fd)
        dl = ["\t", ",", ";", "|"][var]
        try:
            with open(path, "w", newline="", encoding="utf-8") as f:
                # the csv module's own rendering of the table (a lone empty cell is written as "" so that it is not an empty line)
                w = csv.writer(f, delimiter=dl, lineterminator="\n")
                if header is not None:
                    w.writerow(header.v)
                w.writerows(rows)
            before = open(path, "rb").read()
            code = 0
            try:
                getattr(c, "file_" + FN[tag])(path, column=col, header=header is not None, **({"sep": dl} if var else {}), **kw)
            except Exception as e:
                code = code_of(e)
            after = open(path, "rb").read()
            with open(path, newline="", encoding="utf-8") as f:
                got = list(csv.reader(f, delimiter=dl))
            h = None
            if header is not None and got:
                h = Some(got[0])
                got = got[1:]
            if code != 0 and after != before:
                got.append(["<file changed although the call raised>"])
            return case, [code, h, got]
        finally:
            os.unlink(path)

    def warm_up(self, c, tag, kw, rows, col, header):
        """The same bulk operation, on the same cells, before the converter is complete; results and errors are discarded."""
        import pandas as pd

        ncols = max([len(r) for r in rows], default=col + 1)
        full = [r for r in rows if len(r) == ncols]
        try:
            if full:
                getattr(c, "pd_" + FN[tag])(pd.DataFrame(full, columns=list(range(ncols))), column=col, **kw)
        except Exception:
            pass
        if tag < 2:
            os.makedirs(os.path.join(ROOT, "_build", "tmp"), exist_ok=True)
            fd, path = tempfile.mkstemp(suffix=".tsv", dir=os.path.join(ROOT, "_build", "tmp"))
            os.close(fd)
            try:
                with open(path, "w", newline="") as f:
                    w = csv.writer(f, delimiter="\t", lineterminator="\n")
                    if header is not None:
                        w.writerow(header.v)
                    w.writerows(rows)
                getattr(c, "file_" + FN[tag])(path, column=col, header=header is not None, **kw)
            except Exception:
                pass
            finally:
                os.unlink(path)

    def nontrivial(self, case, obs):
        rows = case[4]
        if len(rows) < 2:
            return False
        if obs[0] != 0 or case[6] >= 0:
            return True
        if case[8] == 0:
            return any(cell is None for r in obs[1] for cell in r)
        return any(r[case[5]] == "" for r in obs[2] if len(r) > case[5])

    def stats(self, case, obs, acc):
        h = acc.setdefault("op_hist", {})
        k = ("file_" if case[8] else "pd_") + FN[case[2]]
        h[k] = h.get(k, 0) + 1
        o = acc.setdefault("outcome_hist", {})
        o[str(obs[0])] = o.get(str(obs[0]), 0) + 1
        acc["cells_converted"] = acc.get("cells_converted", 0) + len(case[4])
        if len(case) > 12:
            h3 = acc.setdefault("variant (files: 0 tab / default sep, 1 ',', 2 ';', 3 '|'; data frames: 0 integer labels, 1 string labels)", {})
            h3[("file:" if case[8] else "pd:") + str(case[12])] = h3.get(("file:" if case[8] else "pd:") + str(case[12]), 0) + 1
        if len(case) > 11 and case[8] == 0:
            h2 = acc.setdefault("data_frame_row_labels (0 RangeIndex, 1 reversed, 2 with gaps, 3 strings, 4 duplicated)", {})
            h2[str(case[11])] = h2.get(str(case[11]), 0) + 1
        if len(case) > 10 and case[10] < len(case[0]):
            acc["cases_with_a_warm_up_call_before_the_converter_was_complete"] = acc.get("cases_with_a_warm_up_call_before_the_converter_was_complete", 0) + 1

    def sample(self, case, obs):
        return {"records": plain(case[0]), "op": ("file_" if case[8] else "pd_") + FN[case[2]], "flags [strict, passthrough, ambiguous]": case[3],
                "rows": case[4][:4], "column": case[5], "target": case[6], "header": plain(case[7]), "observed": plain(obs)}

    def explain(self, case, obs, model):
        return {"impl": plain(obs), "model": plain(model)}

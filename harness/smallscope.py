"""Small-scope blocks: EVERY case over a tiny universe of names (the thorough tier runs the whole block, the quick tier a fixed
sample of it).  They validate the model against the code on a complete finite space; they are not the proof."""
from __future__ import annotations

import itertools
import random

P3 = ["a", "A", "b"]            # CURIE-prefix universe (a / A: equal up to case)
U3 = ["h/", "h/a", "k#"]        # URI-prefix universe (h/ is a proper prefix of h/a)


def records(ps=P3, us=U3, psyn=True, usyn=True):
    """Every record over the universe with at most one CURIE-prefix synonym and one URI-prefix synonym (no self synonym)."""
    out = []
    for p in ps:
        for u in us:
            for s in ([[]] + [[q] for q in ps if q != p] if psyn else [[]]):
                for t in ([[]] + [[v] for v in us if v != u] if usyn else [[]]):
                    out.append([p, u, list(s), list(t), None])
    return out


def disjoint(r1, r2):
    return not ({r1[0], *r1[2]} & {r2[0], *r2[2]}) and not ({r1[1], *r1[3]} & {r2[1], *r2[3]})


def converters(recs, max_records=2):
    """Every strict converter (as a record list) of at most max_records records drawn from recs."""
    out = [[]]
    out += [[r] for r in recs]
    if max_records >= 2:
        out += [[r1, r2] for r1, r2 in itertools.combinations(recs, 2) if disjoint(r1, r2)]
    return out


def dicts(keys, values, max_len):
    """Every insertion-ordered dict (as item list) with at most max_len entries: distinct keys in every order, any values."""
    out = []
    for k in range(1, max_len + 1):
        for ks in itertools.permutations(keys, k):
            for vs in itertools.product(values, repeat=k):
                out.append([[a, b] for a, b in zip(ks, vs)])
    return out


def block(cases, tier, quick_n):
    """thorough: the whole block; quick: a fixed pseudo-random sample of it."""
    if tier == "quick" and len(cases) > quick_n:
        return random.Random(20240607).sample(cases, quick_n)
    return cases


def probes(names, uris):
    strs = [n + ":1" for n in names] + [u + "1" for u in uris] + ["h/a", "zz"]
    pairs = [[n, "1"] for n in names[:3]]
    return strs, pairs

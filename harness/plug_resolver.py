"""C17: resolver service on Flask and FastAPI."""
from __future__ import annotations

import random

from . import qprops
from .codec import opt, plain
from .core import Plugin

SAFE = "abcdefghijklmnopqrstuvwxyzABCDEFGHIJKLMNOPQRSTUVWXYZ0123456789-._~"
SUBDELIMS = "!$&'()*+,;=@"          # also legal in a URL path segment; regular-expression and format metacharacters among them
UNKNOWN = ["nope", "zz", "Unknown", "*", "+go", "go(", "go)", "a(b", "x$", "a'b", "a,b", "a;b", "a=b", "a@b", "c+", "!!", "&amp", "(go", "g*o"]
PREFIXES = ["go", "GO", "doi", "chebi", "a", "b", "ab", "x-y", "n1", "obo.go", "A_b", "z~", "123", "4.1", "2-1", "9", "~", "-", "c++", "a(b)", "x*"]


def segment(rng, d):
    k = rng.randint(1, 6)
    s = "".join(rng.choice(SAFE if rng.random() < 0.85 else SUBDELIMS) for _ in range(k))
    if s in (".", ".."):
        s = "x" + s
    if rng.random() < 0.3 and d != "/":
        # the delimiter itself inside the identifier: leading, trailing, in the middle, doubled
        m = rng.random()
        if m < 0.3:
            s = d + s
        elif m < 0.5:
            s = s + d
        elif m < 0.8:
            s = s + d + rng.choice(SAFE)
        else:
            s = d + d + s
    return s


# URI prefixes in normal form (lower-case scheme and host, ASCII); authority-less schemes (urn:, info:) are left out because the
# httpx test client refuses such Location values on its own side
BASES = ["http://a.org/", "http://a.org/", "http://a.org/", "https://a.org/", "ftp://a.org/", "s3://bucket/"]

class C17(Plugin):
    pid = "C17"
    entry = 17
    prop = 17
    counts = {"quick": 250, "thorough": 20000}
    rule = ("case = (strict converter with URL-safe prefixes and synonyms, delimiter ':' or '/', 6 requests); request = /<prefix><delimiter><identifier> "
            "with a known canonical prefix, a known synonym or an unknown prefix and an identifier of 1..4 non-empty URL-path-safe segments (never "
            "'.' / '..') joined by '/', 30 % of the segments containing the delimiter itself (leading, trailing, inside, doubled). Both the in-process Flask client and the Starlette "
            "TestClient are driven; status and Location are compared. Non-trivial: an identifier contains '/' or the delimiter.")
    assumptions = ["Werkzeug / Starlette routing, percent-decoding and Location quoting are runtime: exercised, not modelled",
                   "identifiers use unreserved URL characters only, so no quoting difference can arise"]

    def generate(self, rng, n):
        for _ in range(n):
            d = rng.choice([":", ":", "/"])
            pool = [p for p in PREFIXES if d not in p]
            rng.shuffle(pool)
            nrec = rng.randint(1, 4)
            recs = []
            # any scheme with an authority (a resolver redirects to whatever the record says): every URI prefix of a case draws its own
            us = [rng.choice(BASES) + str(i) + rng.choice(["/", "#", "_", ""]) for i in range(8)]
            rng.shuffle(us)
            for _ in range(nrec):
                p = pool.pop()
                psyn = [pool.pop() for _ in range(rng.choice([0, 1]))]
                recs.append([p, us.pop(), psyn, [us.pop()] if rng.random() < 0.3 else [], None])
            known = [p for r in recs for p in [r[0], *r[2]]]
            paths = []
            for _ in range(6):
                p = rng.choice(known) if rng.random() < 0.75 else rng.choice(UNKNOWN)
                ident = "/".join(segment(rng, d) for _ in range(rng.choice([1, 1, 2, 3, 4])))
                if d != "/" and rng.random() < 0.12:
                    # an identifier that itself begins with a prefix and the delimiter (GO:GO:0032571, go:GO:1): data like any other
                    ident = rng.choice([p, p.swapcase(), rng.choice(known)]) + d + ident
                paths.append(p + d + ident)
            # staging: the app is built when only the first `early` records are registered; the requests are sent, the remaining
            # records arrive through add_prefix on the live converter, and the same requests are sent again (a resolver serves a
            # converter that may grow; "302 to what converter.expand returns" holds at every moment)
            early = rng.choice([len(recs)] * 3 + list(range(len(recs))))
            yield [recs, d, list(dict.fromkeys(paths)), [], early]

    def observe(self, case):
        import curies
        from curies.resolver_service import get_fastapi_app, get_flask_app
        from fastapi.testclient import TestClient

        recs, d, paths = case[:3]
        early = case[4] if len(case) > 4 else len(recs)
        if early < len(recs):
            paths = paths[:len(paths) // 2] if len(paths) % 2 == 0 and paths[:len(paths) // 2] == paths[len(paths) // 2:] else paths
        c = curies.Converter(qprops.mk_records(recs[:early]), **qprops.flags(delimiter=d))
        class Unbuildable:
            """an application that could not be created for this converter: every request to it is a server error"""
            def __init__(self, e):
                self.e = e

            def get(self, *a, **kw):
                raise self.e

        try:
            fl = get_flask_app(c).test_client()
        except Exception as e:
            fl = Unbuildable(e)
        try:
            fa = TestClient(get_fastapi_app(c))
        except Exception as e:
            fa = Unbuildable(e)
        expands, rows, asked = [], [], []

        def ask():
            # "redirects to the result of converter.expand": the implementation's own expand answers (at the time of the request)
            # travel with the case
            for p in paths:
                try:
                    expands.append(opt(c.expand(p)))
                except Exception:
                    expands.append(None)
                row = []
                for client, key in ((fl, "Location"), (fa, "location")):
                    try:
                        r = client.get("/" + p, follow_redirects=False)
                        row.append([r.status_code, r.headers.get(key, "") if r.status_code in (302, 307) else ""])
                    except Exception as e:       # an exception escaping the handler: the server would answer 500
                        row.append([500, "<" + type(e).__name__ + ">"])
                rows.append(row)
                asked.append(p)

        ask()
        if early < len(recs):
            for p, u, ps, us, pat in recs[early:]:
                c.add_prefix(p, u, prefix_synonyms=list(ps), uri_prefix_synonyms=list(us))
            ask()
        case = [recs, d, asked, expands, early]
        return case, rows

    def in_domain(self, case):
        # URI prefixes stay lower-case ASCII http URLs: Werkzeug rewrites the Location header (case of scheme and host, IRI -> URI
        # quoting) into an equivalent URI, which is HTTP-level normalisation and not what C17 is about (see DESIGN, scoping)
        return all(any(u.startswith(b) for b in BASES) for r in case[0] for u in [r[1], *r[3]])

    def nontrivial(self, case, obs):
        recs, d, paths = case[:3]
        return any("/" in p.partition(d)[2] or d in p.partition(d)[2] for p in paths)

    def stats(self, case, obs, acc):
        for row in obs:
            k = str(row[0][0])
            h = acc.setdefault("flask_status_hist", {})
            h[k] = h.get(k, 0) + 1
        acc["requests_per_framework"] = acc.get("requests_per_framework", 0) + len(obs)
        if len(case) > 4 and case[4] < len(case[0]):
            acc["cases_with_records_added_to_the_live_converter_between_two_rounds_of_requests"] = acc.get("cases_with_records_added_to_the_live_converter_between_two_rounds_of_requests", 0) + 1

    def sample(self, case, obs):
        return {"records": plain(case[0]), "delimiter": case[1], "paths": case[2][:4], "responses [flask, fastapi]": plain(obs[:4])}

    def explain(self, case, obs, model):
        return [{"path": "/" + p, "flask": a[0], "fastapi": a[1], "model": b[0] if b else None}
                for p, a, b in zip(case[2], obs, model or [None] * len(obs)) if not b or a != b][:6]

(* Prototype: str.partition(sep) at the FIRST occurrence of a possibly multi-character separator *)
From Coq Require Import List NArith Bool Lia Arith.
Import ListNotations.
Require Import Trie Base.

Fixpoint partition (sep s : str) {struct s} : option (str * str) :=
  if prefixb sep s then Some ([], skipn (length sep) s)
  else match s with
       | [] => None
       | c :: t => match partition sep t with Some (a, b) => Some (c :: a, b) | None => None end
       end.

Lemma prefixb_app sep b : prefixb sep (sep ++ b) = true.
Proof. induction sep; simpl; auto. rewrite N.eqb_refl; auto. Qed.
Lemma prefixb_split sep s : prefixb sep s = true -> s = sep ++ skipn (length sep) s.
Proof.
  revert s; induction sep as [|x sep IH]; intros s H; simpl in *; auto.
  destruct s as [|y s]; [discriminate|]. apply andb_true_iff in H as [H1 H2].
  apply N.eqb_eq in H1. subst. f_equal. auto.
Qed.

(* occurrence of sep at position i of s *)
Definition occurs_at (sep s : str) (i : nat) : bool := prefixb sep (skipn i s).

Lemma partition_some sep s a b : partition sep s = Some (a, b) ->
  s = a ++ sep ++ b /\ forall i, i < length a -> occurs_at sep s i = false.
Proof.
  revert a b; induction s as [|c t IH]; intros a b H; simpl in H.
  - destruct (prefixb sep []) eqn:E; [|discriminate]. inversion H; subst. split; [|simpl; lia].
    simpl. apply prefixb_split in E. destruct sep; simpl in *; auto; discriminate.
  - destruct (prefixb sep (c :: t)) eqn:E.
    + inversion H; subst. split; [|simpl; lia]. simpl. apply prefixb_split in E. exact E.
    + destruct (partition sep t) as [[a' b']|] eqn:Ep; [|discriminate]. inversion H; subst.
      destruct (IH _ _ eq_refl) as [Hs Hno]. split; [simpl; congruence|].
      intros [|i] Hi; unfold occurs_at; simpl; auto. apply Hno. simpl in Hi. lia.
Qed.
Lemma partition_none sep s : partition sep s = None -> forall i, occurs_at sep s i = false.
Proof.
  induction s as [|c t IH]; intros H i; simpl in H.
  - destruct (prefixb sep []) eqn:E; [discriminate|]. unfold occurs_at. destruct i; simpl; auto.
  - destruct (prefixb sep (c :: t)) eqn:E; [discriminate|].
    destruct (partition sep t) as [[a' b']|] eqn:Ep; [discriminate|].
    destruct i; unfold occurs_at; simpl; auto. apply IH; auto.
Qed.
(* the converse: the first occurrence determines the result *)
Lemma partition_first sep a b : (forall i, i < length a -> occurs_at sep (a ++ sep ++ b) i = false) ->
  partition sep (a ++ sep ++ b) = Some (a, b).
Proof.
  induction a as [|c a IH]; intro Hno.
  - simpl app. destruct (sep ++ b) eqn:E; simpl.
    + destruct sep; [|discriminate]. simpl in *. subst. reflexivity.
    + rewrite <- E. rewrite prefixb_app. rewrite E. f_equal. f_equal. rewrite <- E.
      clear. induction sep; simpl; auto.
  - simpl app. simpl. assert (H0 := Hno 0 ltac:(simpl; lia)). unfold occurs_at in H0. simpl in H0. rewrite H0.
    rewrite IH; auto. intros i Hi. specialize (Hno (S i) ltac:(simpl; lia)). exact Hno.
Qed.

(* one-character separators: "the prefix does not contain the delimiter" *)
Lemma no_occ_single d a b : ~ In d a -> forall i, i < length a -> occurs_at [d] (a ++ [d] ++ b) i = false.
Proof.
  revert b; induction a as [|c a IH]; intros b Hn i Hi; [simpl in Hi; lia|].
  destruct i; unfold occurs_at; simpl.
  - destruct (N.eqb_spec d c); auto. subst. exfalso. apply Hn. left; auto.
  - apply IH; [intro; apply Hn; right; auto|simpl in Hi; lia].
Qed.
Theorem partition_single d a b : ~ In d a -> partition [d] (a ++ [d] ++ b) = Some (a, b).
Proof. intro H. apply partition_first. apply no_occ_single; auto. Qed.
Print Assumptions partition_single.

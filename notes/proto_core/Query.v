(* Prototype: generic index lemma, standardize_prefix / parse_curie / expand, theorem C02_expand *)
From Coq Require Import List NArith Bool Lia Arith.
Import ListNotations.
Require Import Trie Base Partition.

Section Idx.
Variable V : Type.
Variable keysf : record -> list str.
Variable valf : record -> V.
Definition idx_rec (d : dict V) (r : record) : dict V := fold_left (fun d k => dset k (valf r) d) (keysf r) d.
Definition idx_of (rs : list record) : dict V := fold_left idx_rec rs [].
Definition last_owner (rs : list record) (k : str) (acc : option V) : option V :=
  fold_left (fun acc r => if mem k (keysf r) then Some (valf r) else acc) rs acc.
Lemma last_owner_cons r rs k acc : last_owner (r :: rs) k acc = last_owner rs k (if mem k (keysf r) then Some (valf r) else acc).
Proof. reflexivity. Qed.
Lemma dget_idx_rec d r k : dget k (idx_rec d r) = if mem k (keysf r) then Some (valf r) else dget k d.
Proof.
  unfold idx_rec. generalize (keysf r) as l. intro l. revert d. induction l as [|x l IH]; intro d; simpl; auto.
  rewrite IH, dget_dset, mem_cons. destruct (str_eqb k x), (mem k l); auto.
Qed.
Lemma dget_idx rs : forall d k, dget k (fold_left idx_rec rs d) = last_owner rs k (dget k d).
Proof. induction rs as [|r rs IH]; intros d k; simpl; auto. rewrite IH, dget_idx_rec. reflexivity. Qed.
Lemma dget_idx_of rs k : dget k (idx_of rs) = last_owner rs k None.
Proof. unfold idx_of. rewrite dget_idx. reflexivity. Qed.

Lemma last_owner_some rs k : forall acc v, last_owner rs k acc = Some v -> acc = Some v \/ exists r, In r rs /\ In k (keysf r) /\ valf r = v.
Proof.
  induction rs as [|r rs IH]; intros acc v H; [left; exact H|]. rewrite last_owner_cons in H.
  apply IH in H as [H|(r' & H1 & H2 & H3)].
  - destruct (mem k (keysf r)) eqn:E; [|left; exact H].
    inversion H; subst. right. exists r. apply mem_In in E. repeat split; auto. left; reflexivity.
  - right. exists r'. repeat split; auto. right; exact H1.
Qed.
Lemma last_owner_acc rs k : forall v, exists w, last_owner rs k (Some v) = Some w.
Proof. induction rs as [|r rs IH]; intros v; [simpl; eauto|]. rewrite last_owner_cons. destruct (mem k (keysf r)); apply IH. Qed.
Lemma last_owner_reg rs k : forall acc r, In r rs -> In k (keysf r) -> exists v, last_owner rs k acc = Some v.
Proof.
  induction rs as [|r0 rs IH]; intros acc r Hr Hk; [destruct Hr|]. rewrite last_owner_cons.
  destruct Hr as [<-|Hr]; [apply mem_In in Hk; rewrite Hk; apply last_owner_acc | eapply IH; eauto].
Qed.
(* with one owner per key the index returns that owner's value, and None exactly for unowned keys *)
Definition one_owner (rs : list record) : Prop :=
  forall r1 r2 k, In r1 rs -> In r2 rs -> In k (keysf r1) -> In k (keysf r2) -> r1 = r2.
Lemma idx_owner rs k r : one_owner rs -> In r rs -> In k (keysf r) -> dget k (idx_of rs) = Some (valf r).
Proof.
  intros Hu Hr Hk. rewrite dget_idx_of. destruct (last_owner_reg rs k None r Hr Hk) as [v Hv]. rewrite Hv.
  apply last_owner_some in Hv as [Hv|(r' & H1 & H2 & H3)]; [discriminate|]. rewrite <- H3. f_equal. f_equal. eapply Hu; eauto.
Qed.
Lemma idx_none rs k : (forall r, In r rs -> ~ In k (keysf r)) -> dget k (idx_of rs) = None.
Proof.
  intro H. rewrite dget_idx_of. destruct (last_owner rs k None) eqn:E; auto.
  apply last_owner_some in E as [E|(r & H1 & H2 & _)]; [discriminate|]. exfalso. eapply H; eauto.
Qed.
End Idx.

(* the converter's CURIE-side indexes *)
Definition pmap_of := idx_of str all_prefixes r_uri.          (* _get_prefix_map *)
Definition synmap_of := idx_of str all_prefixes r_prefix.     (* _get_prefix_synmap *)

Definition standardize_prefix (rs : list record) (p : str) : option str := dget p (synmap_of rs).
Definition parse_curie (rs : list record) (d s : str) : option (str * str) :=
  match partition d s with
  | None => None
  | Some (p, i) => match standardize_prefix rs p with None => None | Some np => Some (np, i) end
  end.
Definition expand_reference (rs : list record) (ref : str * str) : option str :=
  match dget (fst ref) (pmap_of rs) with Some up => Some (up ++ snd ref) | None => None end.
Definition expand (rs : list record) (d s : str) : option str :=
  match parse_curie rs d s with Some ref => expand_reference rs ref | None => None end.

(* naive specification *)
Definition owner_by_prefix (rs : list record) (p : str) : option record := List.find (fun r => mem p (all_prefixes r)) rs.
Definition spec_expand (rs : list record) (d s : str) : option str :=
  match partition d s with
  | None => None
  | Some (p, i) => match owner_by_prefix rs p with Some r => Some (r_uri r ++ i) | None => None end
  end.

Theorem C02_expand rs d s : one_owner all_prefixes rs -> expand rs d s = spec_expand rs d s.
Proof.
  intro Hu. unfold expand, spec_expand, parse_curie, standardize_prefix.
  destruct (partition d s) as [[p i]|]; auto.
  unfold owner_by_prefix. destruct (List.find _ rs) as [r|] eqn:Ef.
  - apply find_some in Ef as [Hr Hm]. apply mem_In in Hm.
    unfold synmap_of. rewrite (idx_owner _ _ _ rs p r Hu Hr Hm).
    unfold expand_reference, pmap_of. simpl.
    rewrite (idx_owner _ _ _ rs (r_prefix r) r Hu Hr ltac:(left; reflexivity)). reflexivity.
  - unfold synmap_of. rewrite idx_none; auto.
    intros r Hr Hin. apply mem_In in Hin. pose proof (find_none _ _ Ef r Hr) as Hn. simpl in Hn. congruence.
Qed.
Print Assumptions C02_expand.

From Coq Require Import List NArith Bool Lia Arith.
Import ListNotations.
Require Import Trie Base.

(* ---- naive specification, independent of the indexes ---- *)
Definition cands (rs : list record) (u : str) : list (str * str) :=
  flat_map (fun r => map (fun p => (p, r_prefix r)) (filter (fun p => prefixb p u) (all_uris r))) rs.
Fixpoint argmax (l : list (str * str)) : option (str * str) :=
  match l with
  | [] => None
  | x :: l' => match argmax l' with
               | Some y => if length (fst x) <? length (fst y) then Some y else Some x
               | None => Some x end
  end.
Definition spec_parse_uri (rs : list record) (u : str) : option (str * str) :=
  match argmax (cands rs u) with Some (p, cp) => Some (cp, skipn (length p) u) | None => None end.

(* one owner per URI prefix (consequence of strict construction) *)
Definition own_unique (rs : list record) : Prop :=
  forall r1 r2 u, In r1 rs -> In r2 rs -> In u (all_uris r1) -> In u (all_uris r2) -> r_prefix r1 = r_prefix r2.

Lemma argmax_some l x : argmax l = Some x -> In x l /\ forall y, In y l -> length (fst y) <= length (fst x).
Proof.
  revert x; induction l as [|a l IH]; simpl; intros x H; [discriminate|].
  destruct (argmax l) as [y|] eqn:E.
  - destruct (IH _ eq_refl) as [Hin Hmax]. destruct (Nat.ltb_spec (length (fst a)) (length (fst y))); inversion H; subst.
    + split; auto. intros z [<-|Hz]; [lia|auto].
    + split; auto. intros z [<-|Hz]; [lia|]. specialize (Hmax _ Hz). lia.
  - inversion H; subst. split; auto. intros z [<-|Hz]; auto. destruct l; [destruct Hz|simpl in E; destruct (argmax l); [destruct (_ <? _)|]; discriminate].
Qed.
Lemma argmax_none l : argmax l = None -> l = [].
Proof. destruct l; simpl; auto. destruct (argmax l); [destruct (_ <? _)|]; discriminate. Qed.

Lemma in_cands rs u p cp : In (p, cp) (cands rs u) <-> exists r, In r rs /\ In p (all_uris r) /\ prefixb p u = true /\ cp = r_prefix r.
Proof.
  unfold cands. rewrite in_flat_map. split.
  - intros (r & Hr & Hin). apply in_map_iff in Hin as (p' & E & Hf). inversion E; subst. apply filter_In in Hf as [H1 H2]. eauto 6.
  - intros (r & Hr & Hp & Hpre & ->). exists r. split; auto. apply in_map_iff. exists p. split; auto. apply filter_In; auto.
Qed.

Lemma owner_last_some rs u : forall acc p, owner_last rs u acc = Some p -> acc = Some p \/ exists r, In r rs /\ In u (all_uris r) /\ r_prefix r = p.
Proof.
  induction rs as [|r rs IH]; intros acc p H; [left; exact H|]. rewrite owner_last_cons in H.
  apply IH in H as [H|(r' & H1 & H2 & H3)].
  - destruct (mem u (all_uris r)) eqn:E; [|left; exact H].
    inversion H; subst. right. exists r. apply mem_In in E. repeat split; auto. left; reflexivity.
  - right. exists r'. repeat split; auto. right; exact H1.
Qed.
Lemma owner_last_acc rs u : forall p, exists q, owner_last rs u (Some p) = Some q.
Proof. induction rs as [|r rs IH]; intros p; [simpl; eauto|]. rewrite owner_last_cons. destruct (mem u (all_uris r)); apply IH. Qed.
Lemma owner_last_registered rs u : forall acc r, In r rs -> In u (all_uris r) -> exists p, owner_last rs u acc = Some p.
Proof.
  induction rs as [|r0 rs IH]; intros acc r Hr Hu; [destruct Hr|]. rewrite owner_last_cons.
  destruct Hr as [<-|Hr].
  - apply mem_In in Hu. rewrite Hu. apply owner_last_acc.
  - eapply IH; eauto.
Qed.

Lemma find_idx rs k : find _ k (trie_of (rpmap_of rs)) = owner_last rs k None.
Proof.
  rewrite find_trie_of. unfold rpmap_of. rewrite dget_rpmap. reflexivity.
  apply nodup_rpmap. constructor.
Qed.

Theorem C01_parse_uri rs u : own_unique rs -> parse_uri rs u = spec_parse_uri rs u.
Proof.
  intro Huniq. unfold parse_uri, parse_uri_idx, spec_parse_uri.
  pose proof (lpi_spec _ (trie_of (rpmap_of rs)) u) as Hspec. unfold lpi_ok in Hspec.
  destruct (lpi str u (trie_of (rpmap_of rs))) as [[n v]|] eqn:El.
  - destruct Hspec as (Hn & Hfind & Hmax). rewrite find_idx in Hfind.
    apply owner_last_some in Hfind as [Hfind|(r & Hr & Hu & Hp)]; [discriminate|].
    assert (Hlen: length (firstn n u) = n) by (rewrite firstn_length; lia).
    assert (Hpre: prefixb (firstn n u) u = true).
    { apply prefixb_firstn. rewrite Hlen. split; auto. }
    assert (Hc: In (firstn n u, v) (cands rs u)) by (apply in_cands; exists r; subst v; auto).
    destruct (argmax (cands rs u)) as [[p' cp']|] eqn:Ea.
    + apply argmax_some in Ea as [Hin Hmx]. specialize (Hmx _ Hc). simpl in Hmx. rewrite Hlen in Hmx.
      apply in_cands in Hin as (r' & Hr' & Hp' & Hpre' & ->).
      apply prefixb_firstn in Hpre' as [Hf Hl].
      assert (length p' = n).
      { destruct (Nat.eq_dec (length p') n) as [|Hne]; auto. exfalso.
        assert (Hnone: find _ (firstn (length p') u) (trie_of (rpmap_of rs)) = None) by (apply Hmax; lia).
        rewrite find_idx, Hf in Hnone. destruct (owner_last_registered rs p' None r' Hr' Hp') as [q Hq]. congruence. }
      assert (p' = firstn n u) by (subst n; auto). subst p'.
      rewrite Hlen. f_equal. f_equal. subst v. apply (Huniq r r' (firstn n u)); auto.
    + apply argmax_none in Ea. rewrite Ea in Hc. destruct Hc.
  - destruct (argmax (cands rs u)) as [[p' cp']|] eqn:Ea; auto.
    apply argmax_some in Ea as [Hin _]. apply in_cands in Hin as (r' & Hr' & Hp' & Hpre' & ->).
    apply prefixb_firstn in Hpre' as [Hf Hl]. specialize (Hspec _ Hl). rewrite find_idx, Hf in Hspec.
    destruct (owner_last_registered rs p' None r' Hr' Hp') as [q Hq]. congruence.
Qed.
Print Assumptions C01_parse_uri.

(* Prototype of the shared base: strings, Python dicts, records, reverse prefix map. *)
From Coq Require Import List NArith Bool Lia Arith.
Import ListNotations.
Require Import Trie.

Fixpoint str_eqb (a b : str) : bool :=
  match a, b with
  | [], [] => true
  | x :: a', y :: b' => N.eqb x y && str_eqb a' b'
  | _, _ => false
  end.
Lemma str_eqb_spec a b : reflect (a = b) (str_eqb a b).
Proof.
  revert b; induction a as [|x a IH]; intros [|y b]; simpl; try (constructor; congruence).
  destruct (N.eqb_spec x y); simpl; [|constructor; congruence].
  destruct (IH b); constructor; congruence.
Qed.
Lemma str_eqb_refl a : str_eqb a a = true.
Proof. destruct (str_eqb_spec a a); congruence. Qed.

Fixpoint prefixb (p s : str) : bool :=
  match p, s with
  | [], _ => true
  | x :: p', y :: s' => N.eqb x y && prefixb p' s'
  | _ :: _, [] => false
  end.
Lemma prefixb_firstn p s : prefixb p s = true <-> firstn (length p) s = p /\ length p <= length s.
Proof.
  revert s; induction p as [|x p IH]; intros s; simpl.
  - split; auto. intros _. split; auto. lia.
  - destruct s as [|y s]; simpl.
    + split; [discriminate|intros [H _]; discriminate].
    + rewrite andb_true_iff, IH. destruct (N.eqb_spec x y).
      * subst. split; [intros [_ [H1 H2]]; split; [congruence|lia] | intros [H1 H2]; inversion H1 as [H3]; rewrite H3; repeat split; auto; lia].
      * split; [intros [H _]; discriminate | intros [H1 _]; congruence].
Qed.

(* Python dict: insertion ordered association list with unique keys *)
Definition dict (V : Type) := list (str * V).
Fixpoint dget {V} (k : str) (d : dict V) : option V :=
  match d with [] => None | (k', v) :: d' => if str_eqb k k' then Some v else dget k d' end.
Fixpoint dset {V} (k : str) (v : V) (d : dict V) : dict V :=
  match d with
  | [] => [(k, v)]
  | (k', v') :: d' => if str_eqb k k' then (k', v) :: d' else (k', v') :: dset k v d'
  end.
Lemma dget_dset {V} k v (d : dict V) k' : dget k' (dset k v d) = if str_eqb k' k then Some v else dget k' d.
Proof.
  induction d as [|[k0 v0] d IH]; simpl.
  - reflexivity.
  - destruct (str_eqb_spec k k0).
    + subst. simpl. destruct (str_eqb_spec k' k0); auto.
    + simpl. destruct (str_eqb_spec k' k0).
      * subst. destruct (str_eqb_spec k0 k); congruence.
      * apply IH.
Qed.
Definition keys {V} (d : dict V) := map fst d.
Lemma keys_dset_nodup {V} k v (d : dict V) : NoDup (keys d) -> NoDup (keys (dset k v d)).
Proof.
  unfold keys. induction d as [|[k0 v0] d IH]; simpl; intro H.
  - constructor; [intros []|constructor].
  - inversion H as [|? ? Hn Hd]; subst. destruct (str_eqb_spec k k0).
    + subst. simpl. constructor; auto.
    + simpl. constructor; auto. intro Hin.
      assert (Hk: forall x, In x (map fst (dset k v d)) -> x = k \/ In x (map fst d)).
      { clear. induction d as [|[a b] d IH]; simpl; intros x Hx.
        - destruct Hx as [<-|[]]; auto.
        - destruct (str_eqb k a); simpl in Hx; destruct Hx as [<-|Hx]; auto. destruct (IH _ Hx); auto. }
      destruct (Hk _ Hin); congruence.
Qed.

(* trie built from a dict: StringTrie(d) *)
Definition trie_of (d : dict str) : trie str := fold_left (fun t kv => insert _ (fst kv) (snd kv) t) d (empty _).
Lemma find_fold_insert (l : dict str) : forall t k, NoDup (keys l) ->
   find _ k (fold_left (fun t kv => insert _ (fst kv) (snd kv) t) l t) = match dget k l with Some v => Some v | None => find _ k t end.
Proof.
  induction l as [|[k0 v0] l IH]; intros t k Hnd; simpl; auto.
  inversion Hnd as [|? ? Hn Hd]; subst. rewrite IH by auto. simpl.
  destruct (dget k l) eqn:E.
  - destruct (str_eqb_spec k k0); auto. subst. exfalso. apply Hn. clear -E.
    induction l as [|[a b] l IH]; simpl in *; [discriminate|]. destruct (str_eqb_spec k0 a); auto.
  - rewrite find_insert. destruct (str_eq_dec k k0), (str_eqb_spec k k0); congruence.
Qed.
Lemma find_trie_of d k : NoDup (keys d) -> find _ k (trie_of d) = dget k d.
Proof. intro H. unfold trie_of. rewrite find_fold_insert by auto. destruct (dget k d); auto. destruct k; reflexivity. Qed.

(* records *)
Record record := { r_prefix : str; r_uri : str; r_psyn : list str; r_usyn : list str; r_pat : option str }.
Definition all_uris r := r_uri r :: r_usyn r.
Definition all_prefixes r := r_prefix r :: r_psyn r.

(* _get_reverse_prefix_map *)
Definition rpmap_rec (d : dict str) (r : record) : dict str :=
  fold_left (fun d u => dset u (r_prefix r) d) (all_uris r) d.
Definition rpmap_of (rs : list record) : dict str := fold_left rpmap_rec rs [].

Definition mem (x : str) (l : list str) : bool := existsb (str_eqb x) l.
Lemma mem_cons x y l : mem x (y :: l) = str_eqb x y || mem x l.
Proof. reflexivity. Qed.
Lemma mem_In x l : mem x l = true <-> In x l.
Proof. unfold mem. rewrite existsb_exists. split; [intros (y & Hy & E); destruct (str_eqb_spec x y); congruence | intro H; exists x; split; auto; apply str_eqb_refl]. Qed.

Arguments mem : simpl never.
(* last writer wins *)
Definition owner_last (rs : list record) (u : str) (acc : option str) : option str :=
  fold_left (fun acc r => if mem u (all_uris r) then Some (r_prefix r) else acc) rs acc.

Lemma dget_rpmap_rec d r u : dget u (rpmap_rec d r) = if mem u (all_uris r) then Some (r_prefix r) else dget u d.
Proof.
  unfold rpmap_rec. generalize (all_uris r) as l. intro l. revert d. induction l as [|x l IH]; intro d; simpl; auto.
  rewrite IH. rewrite dget_dset, mem_cons.
  destruct (str_eqb u x), (mem u l); simpl; auto.
Qed.
Lemma owner_last_cons r rs u acc : owner_last (r :: rs) u acc = owner_last rs u (if mem u (all_uris r) then Some (r_prefix r) else acc).
Proof. reflexivity. Qed.
Lemma dget_rpmap rs : forall d u, dget u (fold_left rpmap_rec rs d) = owner_last rs u (dget u d).
Proof. induction rs as [|r rs IH]; intros d u; simpl; auto. rewrite IH, dget_rpmap_rec. reflexivity. Qed.
Lemma nodup_rpmap rs : forall d, NoDup (keys d) -> NoDup (keys (fold_left rpmap_rec rs d)).
Proof.
  induction rs as [|r rs IH]; intros d H; simpl; auto. apply IH. unfold rpmap_rec.
  generalize (all_uris r). intro l. revert d H. induction l as [|x l IHl]; intros d H; simpl; auto.
  apply IHl. apply keys_dset_nodup; auto.
Qed.

(* parse_uri on the trie *)
Definition parse_uri_idx (t : trie str) (u : str) : option (str * str) :=
  match lpi _ u t with Some (n, p) => Some (p, skipn n u) | None => None end.
Definition parse_uri (rs : list record) (u : str) := parse_uri_idx (trie_of (rpmap_of rs)) u.

From Coq Require Import List NArith Bool Lia.
Import ListNotations.
Definition chr := N.
Definition str := list chr.
Lemma str_eq_dec : forall a b : str, {a=b}+{a<>b}. Proof. apply list_eq_dec, N.eq_dec. Qed.

Section T.
Variable V : Type.
Inductive trie := Node : option V -> forest -> trie
with forest := FNil | FCons : chr -> trie -> forest -> forest.

Scheme trie_ind2 := Induction for trie Sort Prop
with forest_ind2 := Induction for forest Sort Prop.
Combined Scheme trie_forest_ind from trie_ind2, forest_ind2.

Definition empty := Node None FNil.

Fixpoint child (c : chr) (f : forest) : option trie :=
  match f with FNil => None | FCons c' t f' => if N.eqb c c' then Some t else child c f' end.

(* dict update keeping insertion order *)
Fixpoint set_child (c : chr) (t : trie) (f : forest) : forest :=
  match f with FNil => FCons c t FNil
  | FCons c' t' f' => if N.eqb c c' then FCons c' t f' else FCons c' t' (set_child c t f') end.

(* pytrie __setitem__: walk/create nodes, set value at the end *)
Fixpoint singleton (key : str) (v : V) : trie :=
  match key with [] => Node (Some v) FNil | c :: r => Node None (FCons c (singleton r v) FNil) end.

Fixpoint insert (key : str) (v : V) (t : trie) {struct t} : trie :=
  match t with Node x f =>
    match key with
    | [] => Node (Some v) f
    | c :: r => Node x (insert_f c r v f)
    end end
with insert_f (c : chr) (r : str) (v : V) (f : forest) {struct f} : forest :=
  match f with
  | FNil => FCons c (singleton r v) FNil
  | FCons c' t' f' => if N.eqb c c' then FCons c' (insert r v t') f' else FCons c' t' (insert_f c r v f')
  end.

(* lookup *)
Fixpoint find (key : str) (t : trie) {struct t} : option V :=
  match t with Node x f => match key with [] => x | c :: r => find_f c r f end end
with find_f c r f {struct f} := match f with FNil => None | FCons c' t' f' => if N.eqb c c' then find r t' else find_f c r f' end.

(* pytrie longest_prefix_item: returns (length of matched key, value) *)
Fixpoint lpi (key : str) (t : trie) {struct t} : option (nat * V) :=
  match t with Node x f =>
    let here := match x with Some v => Some (0, v) | None => None end in
    match key with
    | [] => here
    | c :: r => match lpi_f c r f with Some (n, v) => Some (S n, v) | None => here end
    end end
with lpi_f c r f {struct f} : option (nat * V) :=
  match f with FNil => None | FCons c' t' f' => if N.eqb c c' then lpi r t' else lpi_f c r f' end.

(* spec: over the abstract map  k |-> find k t *)
Lemma find_insert : forall t k v k', find k' (insert k v t) = if str_eq_dec k' k then Some v else find k' t.
Proof.
  assert (Hs: forall k v k', find k' (singleton k v) = if str_eq_dec k' k then Some v else None).
  { induction k as [|c r IH]; intros v k'; simpl.
    - destruct k'; simpl; [destruct (str_eq_dec _ _); congruence|]. destruct (str_eq_dec _ _); congruence.
    - destruct k' as [|c' r']; simpl. destruct (str_eq_dec _ _); congruence.
      destruct (N.eqb_spec c' c).
      + subst. rewrite IH. destruct (str_eq_dec r' r), (str_eq_dec (c::r') (c::r)); congruence.
      + destruct (str_eq_dec _ _); congruence. }
  apply (trie_ind2
    (fun t => forall k v k', find k' (insert k v t) = if str_eq_dec k' k then Some v else find k' t)
    (fun f => forall c r v c' r', find_f c' r' (insert_f c r v f) = if str_eq_dec (c'::r') (c::r) then Some v else find_f c' r' f)).
  - intros o f IHf k v k'. destruct k as [|c r]; simpl.
    + destruct k'; simpl; destruct (str_eq_dec _ _); congruence.
    + destruct k' as [|c' r']; simpl. destruct (str_eq_dec _ _); congruence. apply IHf.
  - intros c r v c' r'; simpl. destruct (N.eqb_spec c' c).
    + subst. rewrite Hs. destruct (str_eq_dec r' r), (str_eq_dec (c::r') (c::r)); congruence.
    + destruct (str_eq_dec _ _); congruence.
  - intros c0 t IHt f IHf c r v c' r'. simpl. destruct (N.eqb_spec c c0).
    + subst. simpl. destruct (N.eqb_spec c' c0).
      * subst. rewrite IHt. destruct (str_eq_dec r' r), (str_eq_dec (c0::r') (c0::r)); congruence.
      * destruct (str_eq_dec _ _); congruence.
    + simpl. destruct (N.eqb_spec c' c0).
      * subst. destruct (str_eq_dec _ _); congruence.
      * apply IHf.
Qed.


Definition lpi_ok (key : str) (t : trie) (r : option (nat * V)) : Prop :=
  match r with
  | Some (n, v) => n <= length key /\ find (firstn n key) t = Some v /\ forall m, n < m <= length key -> find (firstn m key) t = None
  | None => forall m, m <= length key -> find (firstn m key) t = None
  end.
Definition lpi_f_ok (c : chr) (r : str) (f : forest) (res : option (nat * V)) : Prop :=
  match res with
  | Some (n, v) => n <= length r /\ find_f c (firstn n r) f = Some v /\ forall m, n < m <= length r -> find_f c (firstn m r) f = None
  | None => forall m, m <= length r -> find_f c (firstn m r) f = None
  end.

Lemma lpi_spec : forall t key, lpi_ok key t (lpi key t).
Proof.
  apply (trie_ind2 (fun t => forall key, lpi_ok key t (lpi key t))
                   (fun f => forall c r, lpi_f_ok c r f (lpi_f c r f))).
  - intros o f IHf key. destruct key as [|c r]; simpl.
    + destruct o; simpl.
      * split; [lia|]. split; [reflexivity|]. intros; lia.
      * intros m Hm. assert (m = 0) by lia. subst. reflexivity.
    + specialize (IHf c r). destruct (lpi_f c r f) as [[n' v']|] eqn:E; simpl in *.
      * destruct IHf as (A & B & C). split; [lia|]. split; [exact B|].
        intros m Hm. destruct m; [lia|]. simpl. apply C. lia.
      * destruct o; simpl.
        -- split; [lia|]. split; [reflexivity|]. intros m Hm. destruct m; [lia|]. simpl. apply IHf. lia.
        -- intros m Hm. destruct m; simpl; auto. apply IHf. lia.
  - intros c r; simpl. intros; reflexivity.
  - intros c0 t IHt f IHf c r. simpl. destruct (N.eqb_spec c c0).
    + subst. specialize (IHt r). unfold lpi_ok in IHt. unfold lpi_f_ok. simpl.
      rewrite N.eqb_refl. exact IHt.
    + specialize (IHf c r). unfold lpi_f_ok in *. simpl.
      destruct (N.eqb_spec c c0); [congruence|]. exact IHf.
Qed.
End T.

import curies, warnings, copy
from curies import Converter, Record, chain
from curies.reconciliation import remap_curie_prefixes, remap_uri_prefixes, rewire
def snap(c): return ([r.model_dump() for r in c.records], dict(c.prefix_map), dict(c.reverse_prefix_map), dict(c.synonym_to_prefix))
# C10 chain
c1 = Converter.from_prefix_map({"GO":"http://go/"}); c2 = Converter.from_prefix_map({"go":"http://go/", "X":"http://x/"})
s1=snap(c1); s2=snap(c2)
c3 = chain([c1,c2])
print("chain mutates c1:", snap(c1)!=s1, "c2:", snap(c2)!=s2); print(c1.records)
# subconverter
p = Converter.from_prefix_map({"GO":"http://go/","X":"http://x/"}); sp=snap(p)
sub = p.get_subconverter(["GO"]); print("sub mutates:", snap(p)!=sp)
sub.add_prefix("gogo","http://go/", merge=True); print("after add_prefix on sub parent changed:", snap(p)!=sp, p.records)
for name,f,arg in [("remap_curie",remap_curie_prefixes,{"GO":"gene_ontology"}),("remap_uri",remap_uri_prefixes,{"http://go/":"http://newgo/"}),("rewire",rewire,{"GO":"http://newgo2/"})]:
    p = Converter.from_prefix_map({"GO":"http://go/","X":"http://x/"}); sp=snap(p)
    d = f(p,arg); print(name,"mutates input:", snap(p)!=sp, p.records, "| expand GO:1 ->", p.expand("GO:1"), "| get_prefixes", p.get_prefixes(include_synonyms=True))
# C11 transitive loss
c = Converter([Record(prefix="x", prefix_synonyms=["b"], uri_prefix="http://x/"), Record(prefix="a", uri_prefix="http://a/")])
before = c.get_prefixes(include_synonyms=True)
d = remap_curie_prefixes(c, {"a":"b","b":"c"})
print("C11 case1 before", before, "after", d.get_prefixes(include_synonyms=True), d.records)
c = Converter([Record(prefix="b", uri_prefix="http://b/")])
d = remap_curie_prefixes(c, {"a":"b","b":"c"})
print("C11 case2 (partial chain) after", d.get_prefixes(include_synonyms=True), d.records)

import curies, warnings
from curies import Converter, Record
c = Converter([Record(prefix="a", uri_prefix="http://a/")])
from curies.resolver_service import get_flask_app, get_fastapi_app
from starlette.testclient import TestClient
fl = get_flask_app(c).test_client(); fa = TestClient(get_fastapi_app(c))
for path in ["/a:b:c"]:
    r1 = fl.get(path); r2 = fa.get(path, follow_redirects=False)
    print(path, r1.status_code, r1.headers.get("Location"), r2.status_code, r2.headers.get("location"), "expand:", c.expand("a:b:c"))
from curies.mapping_service import get_fastapi_mapping_app, get_flask_mapping_app, MappingServiceGraph
try:
    app = get_fastapi_mapping_app(c)
    print("fastapi mapping ok")
except Exception as e:
    print("fastapi mapping RAISES", type(e).__name__, str(e)[:300])

import curies, warnings
from curies import Converter, Record
warnings.simplefilter("ignore")
c = Converter.from_prefix_map({"": "http://default/", "GO": "http://go/"})
print("C02 empty prefix expand:", c.expand(":x"), c.standardize_prefix(""), c.is_curie(":x"), c.expand_pair("", "x"), c.expand_all(":x"))
print("compress default", c.compress("http://default/x"), c.parse("http://default/x", strict=False))
# C08 no delimiter
for f in ["expand","expand_all","parse_curie","standardize_curie","expand_or_standardize","compress_or_standardize","compress","standardize_uri","standardize_prefix"]:
    for kw in [{}, {"passthrough":True}, {"strict":True}]:
        if f in ("expand_all","parse_curie") and "passthrough" in kw: continue
        try:
            r = getattr(c,f)("nodelim", **kw)
            print(f, kw, "->", repr(r))
        except Exception as e:
            print(f, kw, "RAISES", type(e).__mro__[:3])

import random, warnings, urllib.parse
warnings.simplefilter("ignore")
from curies import Converter, Record
from curies.resolver_service import get_flask_app, get_fastapi_app
from starlette.testclient import TestClient
random.seed(2); bad=0; n=0
SEG = "abcXYZ019-._~!$&'()*+,;=@"  # url path safe (sub-delims, unreserved, '@'); ':' handled separately
for delim in [":", "/"]:
    c = Converter([Record(prefix="doi", uri_prefix="https://doi.org/"), Record(prefix="a", prefix_synonyms=["A.b", "x_y"], uri_prefix="http://a/q?id="), Record(prefix="b-c", uri_prefix="http://b/#")], delimiter=delim)
    fl = get_flask_app(c).test_client(); fa = TestClient(get_fastapi_app(c))
    for it in range(600):
        p = random.choice(["doi","a","A.b","x_y","b-c","zz","q"])
        segs = ["".join(random.choice(SEG + (":" if random.random()<0.3 else "")) for _ in range(random.randint(1,5))) for _ in range(random.randint(1,3))]
        segs = [s for s in segs if s not in (".","..")] or ["x"]
        ident = "/".join(segs)
        path = f"/{p}{delim}{ident}"
        r1 = fl.get(path, follow_redirects=False); r2 = fa.get(path, follow_redirects=False)
        exp = c.expand(f"{p}{delim}{ident}")
        want = (302, exp) if exp is not None else (422, None)
        g1=(r1.status_code, r1.headers.get("Location")); g2=(r2.status_code, r2.headers.get("location"))
        n+=1
        if g1!=want or g2!=want:
            bad+=1
            if bad<12: print(delim, path, "want", want, "flask", g1, "fastapi", g2)
print("n",n,"bad",bad)

import curies, warnings
from curies import Converter, Record
from curies.resolver_service import get_flask_app, get_fastapi_app
from starlette.testclient import TestClient
for delim in [":", "/"]:
    c = Converter([Record(prefix="doi", uri_prefix="https://doi.org/"), Record(prefix="a", prefix_synonyms=["A"], uri_prefix="http://a/"), Record(prefix="a:b", uri_prefix="http://ab/")] if delim==":" else [Record(prefix="doi", uri_prefix="https://doi.org/"), Record(prefix="a", prefix_synonyms=["A"], uri_prefix="http://a/")], delimiter=delim)
    fl = get_flask_app(c).test_client()
    fa = TestClient(get_fastapi_app(c))
    for path in [f"/doi{delim}10.1/abc", f"/a{delim}1", f"/A{delim}1", f"/a{delim}b{delim}c", f"/a{delim}b:c", f"/zz{delim}1", f"/a{delim}", f"/a{delim}x/y/z", f"/a{delim}x%2Fy", f"/a{delim}x y", f"/a{delim}x?y=1", f"/a{delim}b%3Ac"]:
        r1 = fl.get(path, follow_redirects=False)
        r2 = fa.get(path, follow_redirects=False)
        print(delim, path, "| flask", r1.status_code, r1.headers.get("Location"), "| fastapi", r2.status_code, r2.headers.get("location"))

import curies, tempfile, json
from pathlib import Path
from curies import Converter, Record
with tempfile.TemporaryDirectory() as td:
    p = Path(td)/"e.json"
    for rec in [Record(prefix="a", uri_prefix="u", pattern=""), Record(prefix="é x", uri_prefix="u\x00\n\"\\", prefix_synonyms=["b","a2"], uri_prefix_synonyms=["z","y"], pattern="^\\d$"), Record(prefix="", uri_prefix="")]:
        c = Converter([rec]); curies.write_extended_prefix_map(c, p); c2 = curies.load_extended_prefix_map(p)
        print(c2.records == c.records, c.records, c2.records)
    # jsonld synonyms
    c = Converter([Record(prefix="a", prefix_synonyms=["b"], uri_prefix="u")])
    for expand in [False, True]:
        curies.write_jsonld_context(c, p, include_synonyms=True, expand=expand)
        try: c2 = curies.load_jsonld_context(p); print("strict load ok", c2.prefix_map)
        except Exception as e: print("strict load RAISES", type(e).__name__)
        c2 = curies.load_jsonld_context(p, strict=False); print(c2.prefix_map == c.prefix_map, c2.prefix_map, c2.records)
    # tsv
    import csv
    c = Converter([Record(prefix="a b", uri_prefix="http://x/ #'y"), Record(prefix="'q", uri_prefix="u\\")])
    curies.write_tsv(c, p); print(repr(p.read_text()))
    rows = list(csv.reader(p.open(), delimiter="\t")); print(rows)
import sys, locale; print(locale.getpreferredencoding(), sys.getdefaultencoding())

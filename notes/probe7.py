import curies, warnings, itertools, random, copy
from curies import Converter, Record
from curies.reconciliation import remap_uri_prefixes, rewire, TransitiveError
random.seed(1)
U = ["u1","u2","u3","u4","u5","n1","n2"]
P = ["a","b","c","d"]
def rand_conv():
    us = random.sample(U[:5], 5); ps = random.sample(P, 4)
    recs=[]; 
    n = random.randint(1,3)
    for i in range(n):
        recs.append(Record(prefix=ps.pop(), uri_prefix=us.pop()))
    for r in recs:
        while us and random.random()<0.4: r.uri_prefix_synonyms.append(us.pop())
        while ps and random.random()<0.3: r.prefix_synonyms.append(ps.pop())
    return recs
def dump(c): return sorted((r.prefix, r.uri_prefix, tuple(sorted(r.prefix_synonyms)), tuple(sorted(r.uri_prefix_synonyms))) for r in c.records)
bad=0
for it in range(20000):
    recs = rand_conv()
    c = Converter([r.model_copy(deep=True) for r in recs])
    keys = random.sample(U, random.randint(1,3)); vals = random.sample(U, len(keys))
    m = dict(zip(keys, vals))
    before = dump(c); owner = {u: r.prefix for r in c.records for u in r._all_uri_prefixes}
    try:
        d = remap_uri_prefixes(Converter([r.model_copy(deep=True) for r in recs]), m)
    except TransitiveError:
        assert set(m)&set(m.values()); continue
    except Exception as e:
        print("EXC", type(e).__name__, e, before, m); bad+=1; continue
    assert not set(m)&set(m.values())
    after = {r.prefix: r for r in d.records}
    for (p,u,ps,us) in before:
        r = after[p]
        assert tuple(sorted(r.prefix_synonyms))==ps
        old=set([u,*us]); new=set(r._all_uri_prefixes)
        if not old<=new: print("LOST", before, m, dump(d)); bad+=1
        if len(new-old)>1: print("GAIN>1", before, m, dump(d)); bad+=1
    # idempotent rewire
    w = dict(zip(random.sample(P+["zz"], 2), random.sample(U, 2)))
    c1 = rewire(Converter([r.model_copy(deep=True) for r in recs]), w)
    c2 = rewire(Converter([r.model_copy(deep=True) for r in c1.records]), w)
    if dump(c1)!=dump(c2): print("NOT IDEMP", before, w, dump(c1), dump(c2)); bad+=1
print("bad", bad)

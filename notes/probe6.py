import curies, warnings, itertools
from curies import Converter, Record, chain
# C01: empty uri prefix
c = Converter([Record(prefix="e", uri_prefix=""), Record(prefix="a", uri_prefix="http://a/", uri_prefix_synonyms=["http://a/b/c"]), Record(prefix="b", uri_prefix="http://a/b/")])
for u in ["", "x", "http://a/", "http://a", "http://a/b", "http://a/b/", "http://a/b/c", "http://a/b/cd", "http://a/b/x"]:
    print(repr(u), c.compress(u), c.is_uri(u), c.parse_uri(u, return_none=True))
# C04: within-record duplicates
try:
    r = Record(prefix="a", uri_prefix="u", prefix_synonyms=["x","x"]); print("dup syn ok", r)
    cc = Converter([r]); print(cc.prefix_map)
except Exception as e: print("RAISES", e)
try:
    r = Record(prefix="a", uri_prefix="u", prefix_synonyms=["a"]); print("canon in syn ok", r)
except Exception as e: print("RAISES", type(e).__name__)
# C04 Record validator on assignment? 
r = Record(prefix="a", uri_prefix="u"); r.prefix_synonyms.append("a"); print("post-hoc", r)
# C05: add_record where new record internal dup
c = Converter([])
c.add_record(Record(prefix="a", uri_prefix="u"))
try:
    c.add_record(Record(prefix="b", uri_prefix="v", prefix_synonyms=["A"]), case_sensitive=False, merge=True)
    print(c.records)
except Exception as e: print("RAISES", e)
# C05 merge where new record has pattern
c = Converter([Record(prefix="a", uri_prefix="u")])
c.add_record(Record(prefix="a", uri_prefix="u2", pattern="^x$"), merge=True); print(c.records, c.pattern_map)
# C05 matching >1
c = Converter([Record(prefix="a", uri_prefix="u"), Record(prefix="b", uri_prefix="v")])
try: c.add_record(Record(prefix="a", uri_prefix="v"), merge=True)
except ValueError as e: print("bridge RAISES ok")
# case-insensitive merge then fresh-construct equivalence
c = Converter([Record(prefix="a", uri_prefix="u")])
c.add_record(Record(prefix="A", uri_prefix="U"), case_sensitive=False, merge=True); print(c.records, c.prefix_map, c.reverse_prefix_map)
# ß casefold
c = Converter([Record(prefix="straße", uri_prefix="u")])
try:
    c.add_record(Record(prefix="STRASSE", uri_prefix="w"), case_sensitive=False); print("no match?", c.records)
except ValueError as e: print("casefold match RAISES ok")

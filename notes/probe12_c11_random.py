import random, itertools, sys
from curies import Converter, Record
from curies.reconciliation import remap_curie_prefixes, DuplicateKeys, DuplicateValues, InconsistentMapping, CycleDetected
import curies; print(curies.__file__)
random.seed(int(sys.argv[1]) if len(sys.argv)>1 else 0)
NAMES = ["a","b","c","d","e","f"]
def rand_recs():
    names = NAMES[:]; random.shuffle(names)
    n = random.randint(1,3); recs=[]
    for i in range(n):
        recs.append(Record(prefix=names.pop(), uri_prefix=f"u{i}/"))
    for r in recs:
        while names and random.random()<0.35: r.prefix_synonyms.append(names.pop())
    return recs
bad = 0; ok=0; errs={}
for it in range(60000):
    recs = rand_recs()
    ks = random.sample(NAMES+["z"], random.randint(1,3)); vs=[random.choice(NAMES+["y","z"]) for _ in ks]
    m = dict(zip(ks,vs))
    if random.random()<0.5: m = dict(reversed(list(m.items())))
    c = Converter([r.model_copy(deep=True) for r in recs])
    known_before = c.get_prefixes(include_synonyms=True)
    owner_before = {p: r.uri_prefix for r in c.records for p in r._all_prefixes}
    try:
        d = remap_curie_prefixes(c, m)
    except (DuplicateKeys, DuplicateValues, InconsistentMapping, CycleDetected) as e:
        errs[type(e).__name__]=errs.get(type(e).__name__,0)+1; continue
    except Exception as e:
        print("OTHER EXC", type(e).__name__, e, recs, m); bad+=1; continue
    ok+=1
    known_after = d.get_prefixes(include_synonyms=True)
    if not known_before <= known_after: print("LOST", recs, m, d.records); bad+=1
    if len(d.records)!=len(recs): print("SIZE", recs, m); bad+=1
    ub = sorted((r.uri_prefix, tuple(r.uri_prefix_synonyms)) for r in recs); ua = sorted((r.uri_prefix, tuple(r.uri_prefix_synonyms)) for r in d.records)
    if ub!=ua: print("URI CHANGED", recs, m); bad+=1
    # non-transitive pairs: applied/skipped semantics
    inter = set(m)&set(m.values())
    if not inter and len(set(m.values()))==len(m):
        for old,new in m.items():
            if old not in owner_before: continue
            rec_after = next(r for r in d.records if r.uri_prefix==owner_before[old])
            new_owner = owner_before.get(new)
            if new_owner is None or new_owner==owner_before[old]:
                if rec_after.prefix!=new: print("NOT APPLIED", recs, m, d.records); bad+=1
            else:
                if rec_after.prefix==new: print("APPLIED CLASH", recs, m, d.records); bad+=1
print("ok", ok, "errs", errs, "bad", bad)

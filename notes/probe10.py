import warnings; warnings.simplefilter("ignore")
from curies import Converter, Record
from curies.mapping_service import MappingServiceGraph, MappingServiceSPARQLProcessor, get_flask_mapping_app
c = Converter([Record(prefix="a", uri_prefix="http://a/", uri_prefix_synonyms=["http://a/b/", "http://sp ace/"]), Record(prefix="b", uri_prefix="http://a/bb")])
g = MappingServiceGraph(converter=c); proc = MappingServiceSPARQLProcessor(graph=g)
def q(sparql): return sorted(tuple(str(x) for x in row) for row in g.query(sparql, processor=proc))
u = "http://a/b/1"
print(q("SELECT ?o WHERE { VALUES ?s { <%s> } ?s owl:sameAs ?o }"%u))
print(q("SELECT ?o WHERE { ?s owl:sameAs ?o } VALUES ?s { <%s> }"%u))
print(q("SELECT ?s WHERE { VALUES ?o { <%s> } ?s owl:sameAs ?o }"%u))
print(q("SELECT ?s WHERE { ?s owl:sameAs ?o } VALUES ?o { <%s> }"%u))
print(q("SELECT ?o WHERE { VALUES ?s { <%s> } ?s rdfs:seeAlso ?o }"%u))
print(q("SELECT ?o WHERE { VALUES ?s { <http://zzz/1> } ?s owl:sameAs ?o }"))
print(q("SELECT ?s ?o WHERE { VALUES ?s { <%s> <http://a/bb7> } ?s owl:sameAs ?o }"%u))
app = get_flask_mapping_app(c).test_client()
for method in ["get","post"]:
    for acc in ["application/json", "text/csv", None, "application/sparql-results+xml;q=0.2, text/csv"]:
        kw = {"query_string" if method=="get" else "data": {"query": "SELECT ?o WHERE { VALUES ?s { <%s> } ?s owl:sameAs ?o }"%u}}
        r = getattr(app, method)("/sparql", headers={"accept": acc} if acc else {}, **kw)
        print(method, acc, r.status_code, r.content_type, len(r.data))

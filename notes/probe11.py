import warnings; warnings.simplefilter("ignore")
from curies import Converter, Record, Reference, NamableReference, NamedReference, ReferenceTuple
import pydantic
c = Converter([Record(prefix="GO", prefix_synonyms=["go"], uri_prefix="http://go/"), Record(prefix="", uri_prefix="http://d/")])
r = Reference.from_curie("go:1:2", converter=c); print(r, r.curie, hash(r)==hash(("GO","1:2")), r==ReferenceTuple("GO","1:2"), ReferenceTuple("GO","1:2")==r)
for cls, kw in [(Reference,{}),(NamableReference,{}),(NamedReference,{"name":"n"})]:
    try: print(cls.__name__, cls.from_curie("zz:1", converter=c, **kw))
    except pydantic.ValidationError as e: print(cls.__name__, "ValidationError ok")
try: print(Reference.from_curie(":x", converter=c))
except Exception as e: print("empty prefix ctx RAISES", type(e).__name__)
a = NamedReference(prefix="a", identifier="1", name="x"); b = Reference(prefix="a", identifier="1"); d=NamableReference(prefix="a", identifier="1")
print(a==b, b==a, hash(a)==hash(b), a==d, len({a,b,d}))
print(sorted([NamedReference(prefix="b", identifier="1", name="x"), Reference(prefix="a", identifier="2"), NamableReference(prefix="a", identifier="10")]))
try: a.prefix = "z"
except Exception as e: print("frozen", type(e).__name__)
j = NamedReference(prefix="é\n", identifier='"\\:\t', name="n\u2028").model_dump_json(); print(j, NamedReference.model_validate_json(j))
print(Reference.model_validate("a:b:c"), Reference.model_validate({"prefix":"a","identifier":"b"}))
try: Reference.model_validate("nodelim")
except Exception as e: print("nodelim", type(e).__name__)
print(Reference(prefix="a", identifier="1") < Reference(prefix="a", identifier="1"))

open Model
(* text format: tokens separated by whitespace: i<int> | s<len> cp... | l<len> v... | n | o v *)
let toks = ref [||] and pos = ref 0
let next () = let t = !toks.(!pos) in incr pos; t
let rec pos_of_int n = if n = 1 then XH else if n land 1 = 0 then XO (pos_of_int (n lsr 1)) else XI (pos_of_int (n lsr 1))
let n_of_int n = if n = 0 then N0 else Npos (pos_of_int n)
let z_of_int n = if n = 0 then Z0 else if n > 0 then Zpos (pos_of_int n) else Zneg (pos_of_int (-n))
let rec int_of_pos = function XH -> 1 | XO p -> 2 * int_of_pos p | XI p -> 2 * int_of_pos p + 1
let int_of_n = function N0 -> 0 | Npos p -> int_of_pos p
let int_of_z = function Z0 -> 0 | Zpos p -> int_of_pos p | Zneg p -> - (int_of_pos p)
let rec parse () : val0 =
  let t = next () in
  match t.[0] with
  | 'i' -> VInt (z_of_int (int_of_string (String.sub t 1 (String.length t - 1))))
  | 's' -> let k = int_of_string (String.sub t 1 (String.length t - 1)) in
           VStr (List.init k (fun _ -> n_of_int (int_of_string (next ()))))
  | 'l' -> let k = int_of_string (String.sub t 1 (String.length t - 1)) in
           VList (List.init k (fun _ -> parse ()))
  | 'n' -> VNone
  | 'o' -> VSome (parse ())
  | _ -> failwith "bad token"
let rec print b (v : val0) = match v with
  | VInt z -> Buffer.add_string b ("i" ^ string_of_int (int_of_z z))
  | VStr s -> Buffer.add_string b ("s" ^ string_of_int (List.length s)); List.iter (fun c -> Buffer.add_char b ' '; Buffer.add_string b (string_of_int (int_of_n c))) s
  | VList l -> Buffer.add_string b ("l" ^ string_of_int (List.length l)); List.iter (fun x -> Buffer.add_char b ' '; print b x) l
  | VNone -> Buffer.add_string b "n"
  | VSome x -> Buffer.add_string b "o "; print b x
let () =
  try while true do
    let line = input_line stdin in
    toks := Array.of_list (List.filter (fun s -> s <> "") (String.split_on_char ' ' line)); pos := 0;
    let v = parse () in
    let b = Buffer.create 64 in print b (run_lpi v); print_endline (Buffer.contents b)
  done with End_of_file -> ()

import random, sys
from curies import Converter, Record, chain
random.seed(int(sys.argv[1]) if len(sys.argv)>1 else 0)
PN = ["a","A","b","B","c","go","GO","Go"]; UN = ["u/","U/","v/","V/","w/","u/x","u/X"]
def rand_conv():
    ps = PN[:]; us = UN[:]; random.shuffle(ps); random.shuffle(us)
    recs=[Record(prefix=ps.pop(), uri_prefix=us.pop()) for _ in range(random.randint(1,3))]
    for r in recs:
        while ps and random.random()<0.3: r.prefix_synonyms.append(ps.pop())
        while us and random.random()<0.3: r.uri_prefix_synonyms.append(us.pop())
    return Converter(recs)
bad=0; raised=0; ok=0
for it in range(30000):
    cs=[rand_conv() for _ in range(random.randint(1,3))]; sens = random.random()<0.5
    try: R = chain(cs, case_sensitive=sens)
    except ValueError: raised+=1; continue
    ok+=1
    # valid strict
    try: Converter([r.model_copy(deep=True) for r in R.records])
    except Exception as e: print("NOT STRICT", e); bad+=1
    allp=set().union(*[c.get_prefixes(include_synonyms=True) for c in cs]); allu=set().union(*[c.get_uri_prefixes(include_synonyms=True) for c in cs])
    if R.get_prefixes(include_synonyms=True)!=allp or R.get_uri_prefixes(include_synonyms=True)!=allu: print("UNION"); bad+=1
    own = {p:i for i,r in enumerate(R.records) for p in r._all_prefixes}; ownu={u:i for i,r in enumerate(R.records) for u in r._all_uri_prefixes}
    for c in cs:
        for r in c.records:
            if len({own[p] for p in r._all_prefixes}|{ownu[u] for u in r._all_uri_prefixes})!=1: print("GROUP"); bad+=1
    if sens:
        for p in cs[0].get_prefixes(include_synonyms=True):
            if R.expand(p+":1")!=cs[0].expand(p+":1"): print("PRIORITY", cs[0].records, R.records); bad+=1
    else:
        fl = [p.casefold() for r in R.records for p in set(x.casefold() for x in r._all_prefixes)]
        if len(fl)!=len(set(fl)): print("FOLD DUP", R.records); bad+=1
        fl = [p.casefold() for r in R.records for p in set(x.casefold() for x in r._all_uri_prefixes)]
        if len(fl)!=len(set(fl)): print("FOLD DUP URI", R.records); bad+=1
    if len(cs)==1 and sens:
        if sorted(map(str,R.records))!=sorted(map(str,cs[0].records)): print("SINGLETON", cs[0].records, R.records); bad+=1
print("ok",ok,"raised",raised,"bad",bad)

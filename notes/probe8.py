import curies, warnings, tempfile, os
from pathlib import Path
import pandas as pd
from curies import Converter, Record
c = Converter([Record(prefix="a", uri_prefix="http://a/"), Record(prefix="b", prefix_synonyms=["B"], uri_prefix="http://b/", uri_prefix_synonyms=["http://bb/"])])
df = pd.DataFrame({"x": ["http://a/1", "nope", "http://bb/2", ""], "y": ["k","l","m","n"]})
c.pd_compress(df, "x", target_column="z"); print(df, df.dtypes)
c.pd_compress(df, "x", passthrough=True); print(df)
try:
    c.pd_compress(df, "x", strict=True)
except Exception as e: print("strict RAISES", type(e).__name__); print(df)
df = pd.DataFrame({"x": ["a:1", "nope:1", "B:2", "nodelim"]})
try: c.pd_expand(df, "x"); print(df)
except Exception as e: print("pd_expand RAISES", type(e).__name__, e)
with tempfile.TemporaryDirectory() as td:
    p = Path(td)/"f.tsv"
    p.write_text("h1\th2\nhttp://a/1\tfoo\nnope\tbar\nhttp://bb/2\t\"q\tq\"\n")
    before = p.read_bytes()
    c.file_compress(p, 0); print(repr(p.read_bytes()))
    p.write_bytes(before)
    try: c.file_compress(p, 0, strict=True)
    except Exception as e: print("RAISES", type(e).__name__, p.read_bytes()==before)
    p.write_text("a:1\nnodelim\n"); before=p.read_bytes()
    try: c.file_expand(p, 0, header=False)
    except Exception as e: print("RAISES", type(e).__name__, p.read_bytes()==before)
    p.write_text("a:1\tx\n\nB:2\ty\n"); before=p.read_bytes()
    try: c.file_expand(p, 0, header=False); print(repr(p.read_bytes()))
    except Exception as e: print("empty row RAISES", type(e).__name__, p.read_bytes()==before)

From Coq Require Import List NArith Bool Lia.
Import ListNotations.
Require Import Regex.

Section W.
Variable isspace_c : chr -> bool.
Notation matches := (matches isspace_c).
Notation cs_mem := (cs_mem isspace_c).

Lemma star_chr_forall cs p : matches (Star (Chr cs)) p <-> forallb (fun c => cs_mem c cs) p = true.
Proof.
  split.
  - intro H. remember (Star (Chr cs)) as r eqn:Er. induction H; try discriminate; auto.
    inversion Er; subst. apply chr_inv in H as (c & -> & Hm). simpl. rewrite Hm. simpl. apply IHmatches2; auto.
  - induction p as [|c p IH]; simpl; intro H.
    + constructor.
    + apply andb_true_iff in H as [H1 H2]. change (c :: p) with ([c] ++ p). apply MStarS; [constructor; auto|auto].
Qed.

Definition ascii_letter : list (N*N) := [(65,90);(97,122)]%N.
Definition cs_start := {| cs_neg := false; cs_ranges := ascii_letter ++ [(95,95)]%N; cs_space := false |}.
Definition cs_rest := {| cs_neg := false; cs_ranges := ascii_letter ++ [(48,57);(46,46);(45,45);(95,95)]%N; cs_space := false |}.
Definition ncname := Cat (Chr cs_start) (Star (Chr cs_rest)).

Definition is_start (c : chr) : bool := ((65 <=? c) && (c <=? 90) || (97 <=? c) && (c <=? 122) || (c =? 95))%N.
Definition is_rest (c : chr) : bool := (is_start c || (48 <=? c) && (c <=? 57) || (c =? 46) || (c =? 45))%N.
Definition NCName (p : str) : Prop := exists c t, p = c :: t /\ is_start c = true /\ forallb is_rest t = true.

Lemma ncname_lang p : matches ncname p <-> (exists c t, p = c :: t /\ cs_mem c cs_start = true /\ forallb (fun c => cs_mem c cs_rest) t = true).
Proof.
  unfold ncname. split.
  - intro H. apply cat_inv in H as (s & t & -> & Hs & Ht). apply chr_inv in Hs as (c & -> & Hm).
    exists c, t. repeat split; auto. apply star_chr_forall; auto.
  - intros (c & t & -> & Hc & Ht). change (c :: t) with ([c] ++ t). constructor; [constructor; auto|apply star_chr_forall; auto].
Qed.
End W.

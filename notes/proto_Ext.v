From Coq Require Import List NArith ZArith Bool.
Require Import Trie.
Import ListNotations.
Require Extraction.
Require Import ExtrOcamlBasic.

Inductive val := VInt (z : Z) | VStr (s : str) | VList (l : list val) | VNone | VSome (v : val).

Definition build (kv : list (str * str)) : trie str := fold_left (fun t p => insert _ (fst p) (snd p) t) kv (empty _).

Definition dec_str (v : val) : str := match v with VStr s => s | _ => [] end.
Definition dec_pair (v : val) : str * str := match v with VList [a; b] => (dec_str a, dec_str b) | _ => ([], []) end.
Definition run_lpi (v : val) : val :=
  match v with
  | VList [VList kvs; VStr u] =>
      match lpi _ u (build (map dec_pair kvs)) with
      | Some (n, p) => VSome (VList [VInt (Z.of_nat n); VStr p])
      | None => VNone end
  | _ => VNone end.
Extraction "model.ml" run_lpi.

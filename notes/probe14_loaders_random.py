import random, sys, warnings
warnings.simplefilter("ignore")
from curies import Converter, Record, upgrade_prefix_map, discover
random.seed(1); bad=0
P=["a","b","c","B","ab",""]; U=["u/","u/x","v","vv","w/", "u", ""]
for it in range(20000):
    # reverse map
    rpm = {u: random.choice(P) for u in random.sample(U, random.randint(1,5))}
    try:
        c = Converter.from_reverse_prefix_map(rpm)
        for u,p in rpm.items():
            if c.reverse_prefix_map[u]!=p: print("RPM owner"); bad+=1
        for r in c.records:
            if any(len(s)<len(r.uri_prefix) for s in r.uri_prefix_synonyms): print("RPM shortest", rpm, r); bad+=1
            if set(r._all_uri_prefixes)!={u for u,p in rpm.items() if p==r.prefix}: print("RPM complete"); bad+=1
    except Exception as e: print("RPM EXC", type(e).__name__, rpm); bad+=1
    # upgrade
    pm = {p: random.choice(U) for p in random.sample(P, random.randint(1,5))}
    items=list(pm.items()); random.shuffle(items); pm2=dict(items)
    r1=upgrade_prefix_map(pm); r2=upgrade_prefix_map(pm2)
    if r1!=r2: print("UPG order", pm, r1, r2); bad+=1
    try: c=Converter(r1)
    except Exception as e: print("UPG strict", type(e).__name__, pm); bad+=1; continue
    for r in r1:
        grp=[p for p,u in pm.items() if u==r.uri_prefix]
        if r.prefix!=min(grp) or sorted(r.prefix_synonyms)!=sorted(set(grp)-{r.prefix}): print("UPG canon", pm, r); bad+=1
    # discover determinism
    uris=[random.choice(["x/","x/a_","x#","y/z/"])+random.choice(["1","2","ab","a b",""]) for _ in range(random.randint(0,8))]
    d1=discover(uris, cutoff=random.choice([None,0,1,2])); 
print("bad",bad)

import curies, warnings, tempfile, os
from pathlib import Path
from curies import Converter, Record
from curies.w3c import is_w3c_prefix, is_w3c_curie
print("C20:", is_w3c_prefix("GO\n"), is_w3c_curie("a:b c"), is_w3c_curie("a b"), is_w3c_curie("GO://x"), is_w3c_curie("//x"), is_w3c_curie("a:b\n"), is_w3c_curie("GO\n:x"), is_w3c_curie(" a:b"), is_w3c_curie("GO:"), is_w3c_curie(":"), is_w3c_curie("/"))
from curies.mapping_service.utils import handle_header, parse_header
for h in ["text/html, application/json;q=0.5", "application/json; q=0.5", "text/csv ;q=0.9,application/json;q=0.5", "application/json;q=0.5,text/csv;q=0.9", "text/csv;q=0.5, application/json;q=0.9", "*/*"]:
    print("C18 header", repr(h), "->", handle_header(h))
from curies.discovery import discover
d = discover(["https://github.com/a/b/issues/12", "https://github.com/a/b/issues/13", "http://x/1"])
print("C19:", d.records, d.compress("https://github.com/a/b/issues/12"))
# C15 \r
from curies.triples import Triple, read_triples, write_triples
from curies import Reference
with tempfile.TemporaryDirectory() as td:
    p = Path(td)/"t.tsv"
    for ident in ["a\rb", "a\nb", "a\tb", 'a"b', "a\r\nb", " ", ""]:
        t = Triple(subject=Reference(prefix="p", identifier=ident), predicate=Reference(prefix="q", identifier="1"), object=Reference(prefix="r", identifier="2"))
        write_triples([t], p)
        try:
            back = read_triples(p)
            print("C15 triple rt", repr(ident), back == [t], repr(back[0].subject.identifier) if back else None)
        except Exception as e:
            print("C15 triple rt", repr(ident), "RAISES", type(e).__name__, e)
# C14 shacl backslash in prefix
    for pref, up, pat in [("a", "http://a/", r"^\d+$"), ("a\\b", "http://a/", None), ("a", "http://a\\b/", None), ("a", "http://a/", 'x\\"'), ("a b", "http://a /", None), ("a", "http://a/", "\\\\")]:
        c = Converter([Record(prefix=pref, uri_prefix=up, pattern=pat)])
        q = Path(td)/"s.ttl"
        curies.write_shacl(c, q)
        try:
            c2 = curies.load_shacl(q)
            print("C14 shacl", (pref,up,pat), c2.bimap == c.bimap, c2.pattern_map == c.pattern_map, c2.records)
        except Exception as e:
            print("C14 shacl", (pref,up,pat), "RAISES", type(e).__name__, str(e)[:100])
    # empty converter shacl
    c = Converter([]); curies.write_shacl(c, q)
    try: print("empty shacl", curies.load_shacl(q).records)
    except Exception as e: print("empty shacl RAISES", type(e).__name__)

#!/bin/bash
# Developer tool: applies every seeded change in turn to /repo, runs ALL quick checks against it, restores /repo.
# Evidence of these runs goes to a scratch directory (not /verif/evidence). Result: seeded/MATRIX.tsv and "detected_by" in meta.json.
# REPO=<dir> (default /repo) selects the tree the changes are applied to (e.g. the snapshot $VP_RUN_REPO of a background run);
# the checks then read <dir>/src through CURIES_SRC.
V="$(cd "$(dirname "$0")/.." && pwd)"
cd "$V"
REPO=${REPO:-/repo}
[ "$REPO" = /repo ] || export CURIES_SRC=$REPO/src
[ ! -d $REPO/.git ] || [ -z "$(git -C $REPO status --short)" ] || { echo "$REPO not clean"; exit 2; }
OUT=seeded/MATRIX.tsv
mkdir -p $V/_build
SCR=$(mktemp -d $V/_build/matrix.XXXX)
export VERIF_EVIDENCE_DIR=$SCR/ev
SEEDS=${@:-$(ls seeded | grep '^S')}
for ID in $SEEDS; do
  (cd $REPO && git apply $V/seeded/$ID/patch.diff) || { echo "$ID: patch does not apply"; continue; }
  row=""
  for i in 01 02 03 04 05 06 07 08 09 10 11 12 13 14 15 16 17 18 19 20; do
    ./check C$i quick > $SCR/out 2>&1; rc=$?
    if [ $rc -ne 0 ]; then
      if grep "^VIOLATION" $SCR/out | grep -qv "no-failing-input-found"; then row="$row C$i"; else row="$row C$i(n)"; fi
    fi
  done
  (cd $REPO && git apply -R $V/seeded/$ID/patch.diff)
  echo -e "$ID\t$row" | tee -a $SCR/matrix
  /venv/bin/python - "$ID" "$row" <<'PY' 2>/dev/null
import json,sys
p=f"seeded/{sys.argv[1]}/meta.json"; m=json.load(open(p))
m["detected_by_quick_checks"]=sys.argv[2].split()
m["detection_legend"]="Cxx = VIOLATION with a failing input as replay; Cxx(n) = VIOLATION ... no-failing-input-found (proof obligation or correspondence broke)"
json.dump(m,open(p,"w"),indent=1)
PY
done
# merge rows into MATRIX.tsv
touch $OUT
/venv/bin/python - $SCR/matrix $OUT <<'PY' 2>/dev/null
import sys
new=dict(l.rstrip("\n").split("\t") for l in open(sys.argv[1]) if "\t" in l)
old=dict(l.rstrip("\n").split("\t") for l in open(sys.argv[2]) if "\t" in l)
old.update(new)
open(sys.argv[2],"w").write("".join(f"{k}\t{v}\n" for k,v in sorted(old.items())))
PY
rm -rf $SCR
[ ! -d $REPO/.git ] || git -C $REPO status --short | head -3

#!/bin/bash
# usage: try_wt.sh <worktree> <check>...   runs quick checks against the source tree of a scratch worktree (CURIES_SRC), evidence to scratch
WT=$1; shift
cd "$(dirname "$0")/.."
export CURIES_SRC=$WT/src VERIF_EVIDENCE_DIR=$(pwd)/_build/ev_scratch
for c in "$@"; do
  ./check $c quick > _build/try_$c.out 2>&1; rc=$?
  echo "== $WT / $c: rc=$rc"; grep -E "^VIOLATION|quick:" _build/try_$c.out | cut -c1-200
done

#!/bin/bash
# Developer tool: applies every behaviour-preserving refactoring under /verif/refactors/<id>/patch.diff to /repo in turn, runs all 20
# quick checks (evidence to a scratch directory), restores /repo.  Expected: no check alarms.  Result: refactors/RESULTS.tsv
# REPO=<dir> (default /repo) selects the tree the patches are applied to (e.g. the snapshot $VP_RUN_REPO of a background run).
V="$(cd "$(dirname "$0")/.." && pwd)"
cd "$V"
REPO=${REPO:-/repo}
[ "$REPO" = /repo ] || export CURIES_SRC=$REPO/src
[ ! -d $REPO/.git ] || [ -z "$(git -C $REPO status --short)" ] || { echo "$REPO not clean"; exit 2; }
mkdir -p $V/_build
SCR=$(mktemp -d $V/_build/refac.XXXX)
export VERIF_EVIDENCE_DIR=$SCR/ev
IDS=${@:-$(ls refactors | grep '^R[0-9]')}
for ID in $IDS; do
  (cd $REPO && git apply $V/refactors/$ID/patch.diff) || { echo "$ID: patch does not apply"; continue; }
  row=""
  for i in 01 02 03 04 05 06 07 08 09 10 11 12 13 14 15 16 17 18 19 20; do
    ./check C$i quick > $SCR/out 2>&1; rc=$?
    if [ $rc -ne 0 ]; then
      if grep "^VIOLATION" $SCR/out | grep -qv "no-failing-input-found"; then row="$row C$i"; else row="$row C$i(n)"; fi
      cp $SCR/out refactors/$ID/alarm_C$i.log
    fi
  done
  (cd $REPO && git apply -R $V/refactors/$ID/patch.diff)
  echo -e "$ID\t${row:- none}" | tee -a $SCR/results
done
touch refactors/RESULTS.tsv
/venv/bin/python - $SCR/results refactors/RESULTS.tsv <<'PY' 2>/dev/null
import sys
new=dict(l.rstrip("\n").split("\t")[:2] for l in open(sys.argv[1]) if "\t" in l)
old=dict(l.rstrip("\n").split("\t")[:2] for l in open(sys.argv[2]) if "\t" in l)
old.update(new)
open(sys.argv[2],"w").write("".join(f"{k}\t{v}\n" for k,v in sorted(old.items())))
PY
rm -rf $SCR
[ ! -d $REPO/.git ] || git -C $REPO status --short | head -3

#!/venv/bin/python
"""Validate coq/model/JsonStr.v against the real json module of CPython 3.12.

Generates inputs, runs the real Python functions, writes validate/JsonStrValidate.v with
`forallb check cases = true` examples proved by vm_compute, and compiles it with coqc.

  encoder : json.dumps(s, ensure_ascii=a)            (cross-checked with the pure-Python
            py_encode_basestring[_ascii] and with json.dump to a StringIO)
  decoder : lit[0] == '"' and json.decoder.scanstring(lit, 1) == (r, len(lit))  -> Some r
            anything else (exception, closing quote not last)                     -> None
            (cross-checked with py_scanstring and, where applicable, json.loads)
"""
import io
import json
import json.decoder
import json.encoder
import os
import random
import subprocess
import sys

HERE = os.path.dirname(os.path.abspath(__file__))
VERIF = os.path.normpath(os.path.join(HERE, "..", ".."))
SCRATCH = os.path.join(VERIF, "_build", "textlayer", "json")
os.makedirs(SCRATCH, exist_ok=True)
COQ = os.path.join(VERIF, "coq")
OUT = SCRATCH
rng = random.Random(20261001)

NASTY = [0, 1, 7, 8, 9, 10, 11, 12, 13, 0x1E, 0x1F, 0x20, 0x21, 0x22, 0x23, 0x2F, 0x5B, 0x5C, 0x5D,
         0x7E, 0x7F, 0x80, 0x9F, 0xA0, 0xFF, 0x100, 0xFFF, 0x1000, 0xD7FF, 0xD800, 0xD801, 0xDBFF,
         0xDC00, 0xDC01, 0xDFFF, 0xE000, 0xFFFE, 0xFFFF, 0x10000, 0x10001, 0x103FF, 0x10400,
         0x1F600, 0xFFFFF, 0x100000, 0x10FC00, 0x10FFFE, 0x10FFFF,
         ord('u'), ord('b'), ord('f'), ord('n'), ord('r'), ord('t'), ord('a'), ord('0'), ord('9')]


def rand_cp():
    k = rng.random()
    if k < 0.45:
        return rng.choice(NASTY)
    if k < 0.55:
        return rng.randrange(0, 0x20)
    if k < 0.70:
        return rng.randrange(0x20, 0x80)
    if k < 0.80:
        return rng.randrange(0xD800, 0xE000)
    if k < 0.90:
        return rng.randrange(0x80, 0x10000)
    return rng.randrange(0x10000, 0x110000)


def rand_str(maxlen=8):
    return "".join(chr(rand_cp()) for _ in range(rng.randrange(0, maxlen + 1)))


# ---------------------------------------------------------------- encoder cases
def py_encode(s, a):
    r = json.dumps(s, ensure_ascii=a)
    r2 = (json.encoder.py_encode_basestring_ascii if a else json.encoder.py_encode_basestring)(s)
    buf = io.StringIO()
    json.dump(s, buf, ensure_ascii=a)
    assert r == r2 == buf.getvalue(), (s, a, r, r2)
    # as a dict key and value (what curies writes)
    d = json.dumps({s: s}, ensure_ascii=a)
    assert d == "{" + r + ": " + r + "}", (s, d)
    return r


enc_inputs = [""]
enc_inputs += [chr(c) for c in range(0, 0x120)]                      # every small code point
enc_inputs += [chr(c) for c in NASTY]
enc_inputs += [chr(c) for c in range(0xD7F0, 0xE010, 7)]
enc_inputs += [chr(a) + chr(b) for a in (0xD800, 0xDBFF, 0xD7FF, 0xDC00, 0x41, 0x10000)
               for b in (0xDC00, 0xDFFF, 0xD800, 0xE000, 0xDBFF, 0x41, 0x10FFFF)]
enc_inputs += ["\ud800\udc00", "\udc00\ud800", "\ud800\ud800\udc00", "\ud800\udc00\udc00",
               "\udbff\udfff", "a\ud83d\ude00b", "\U0001F600", "\ud83d", "\ude00",
               "http://purl.obolibrary.org/obo/CHEBI_", "chebi", "a\"b\\c/d", "\\u0041", "\\ud800\\udc00"]
while len(enc_inputs) < 2600:
    enc_inputs.append(rand_str())
enc_cases = [(a, s, py_encode(s, a)) for s in enc_inputs for a in (True, False)]


# ---------------------------------------------------------------- decoder cases
PY_DIVERGENCES = []


def py_decode(lit):
    """The reference semantics of json_decode_str."""
    def run(f):
        if not lit or lit[0] != '"':
            return None
        try:
            r, end = f(lit, 1, True)
        except (ValueError, IndexError):
            return None
        return r if end == len(lit) else None
    r_c = run(json.decoder.scanstring)
    r_py = run(json.decoder.py_scanstring)
    if r_c != r_py:
        # the pure-Python fallback scanner parses the 4 characters after \\u with int(.., 16), which
        # also accepts e.g. '+041', ' 041', '0_41'; json.load uses the C scanner (modelled here)
        PY_DIVERGENCES.append((lit, r_c, r_py))
    # json.loads on the same text, when the text has no surrounding whitespace
    if lit and lit[0] == '"' and lit[-1] not in " \t\n\r":
        try:
            r_l = json.loads(lit)
        except ValueError:
            r_l = None
        assert r_l == r_c, (lit, r_l, r_c)
    return r_c


ALPHA = list('""\\\\\\uuu/bfnrtdDcC089aAeEfFgGxX+-_ ') + ["\x1f", "\n", "\x00", "\x7f", "\x80", "\ud800",
                                                        "\udc00", "\U00010000", "\uffff", "\u00e9"]
HEX = "0123456789abcdefABCDEF"


def rand_escape():
    k = rng.random()
    if k < 0.3:
        return "\\" + rng.choice('"\\/bfnrtu0xaBFNRT\'')
    if k < 0.5:
        return "\\u" + "".join(rng.choice(HEX) for _ in range(4))
    if k < 0.65:
        return "\\u" + rng.choice("dD") + rng.choice("89abAB") + rng.choice(HEX) + rng.choice(HEX)
    if k < 0.8:
        return "\\u" + rng.choice("dD") + rng.choice("cdefCDEF") + rng.choice(HEX) + rng.choice(HEX)
    if k < 0.9:
        return "\\u" + "".join(rng.choice(HEX + "gG xX+-_") for _ in range(rng.randrange(0, 5)))
    return chr(rand_cp())


def mutate(s):
    if not s:
        return s
    i = rng.randrange(len(s))
    k = rng.random()
    if k < 0.4:
        return s[:i] + s[i + 1:]
    if k < 0.7:
        return s[:i] + rng.choice(ALPHA) + s[i:]
    return s[:i] + rng.choice(ALPHA) + s[i + 1:]


dec_inputs = ["", '"', '""', '"""', '"a', 'a"', '"a" ', ' "a"', '"a"b', '"\\', '"\\"', '"\\\\"', '"\\/"', '"/"',
              '"\\u"', '"\\u0"', '"\\u00"', '"\\u004"', '"\\u0041"', '"\\U0041"', '"\\u00e9"', '"\\u00E9"',
              '"\\u0x41"', '"\\u+041"', '"\\u 041"', '"\\u0_41"', '"\\u-041"', '"\\u004g"', '"\\uD800\\uDC00"',
              '"\\ud800\\udc00"', '"\\ud800\\udc00', '"\\ud800\\udc0"', '"\\ud800\\udc0g"', '"\\ud800\\u"',
              '"\\ud800\\"', '"\\ud800\\n"', '"\\ud800\\u0041"', '"\\ud800\\ud800\\udc00"', '"\\udc00\\ud800"',
              '"\\udbff\\udfff"', '"\\ud7ff\\udc00"', '"\\ud800\\ue000"', '"\\udc00\\udc00"',
              '"\\ud800x\\udc00"', '"\\ud800\ud800\\udc00"', '"\ud800\udc00"', '"\ud800\\udc00"', '"\\ud800\udc00"',
              '"\\ud800\\udbff"', '"\\uDBFF\\uDC00"', '"\\udBfF\\uDfFf"', '"\x1f"', '"\x00"', '"\n"', '"\t"', '"\x7f"',
              '"\x20"', '"\\x41"', '"\\a"', '"\\0"', "\"\\'\"", "'a'", '"\\ud800\\udc00\\udc00"',
              '"\\ud800\\ud800"', '"\\u0000"', '"\\uffff"', '"\\uFFFF"', '"\U0010ffff"', '"\\b\\f\\n\\r\\t"',
              '"\\B"', '"\\N"', '"a\\', '"a\\u', '"a\\u1', '"a\\u12', '"a\\u123', '"a\\u1234']
dec_inputs += [lit for (_, _, lit) in enc_cases[::3]]
for (_, _, lit) in enc_cases[::2]:
    dec_inputs.append(mutate(lit))
    dec_inputs.append(mutate(mutate(lit)))
while len(dec_inputs) < 7500:
    k = rng.random()
    if k < 0.5:
        body = "".join(rand_escape() for _ in range(rng.randrange(0, 5)))
        lit = '"' + body + '"'
        if rng.random() < 0.25:
            lit = mutate(lit)
    else:
        lit = "".join(rng.choice(ALPHA) for _ in range(rng.randrange(0, 14)))
        if rng.random() < 0.8:
            lit = '"' + lit
        if rng.random() < 0.6:
            lit = lit + '"'
    dec_inputs.append(lit)
dec_cases = [(lit, py_decode(lit)) for lit in dec_inputs]

# round trip observed in Python (for the report)
rt_fail = [(a, s) for (a, s, lit) in enc_cases if json.loads(lit) != s]


# ---------------------------------------------------------------- Coq output
def cs(s):
    return "[" + "; ".join(str(ord(c)) for c in s) + "]"


def co(r):
    return "None" if r is None else "Some " + cs(r)


def cb(b):
    return "true" if b else "false"


def chunks(xs, n):
    for i in range(0, len(xs), n):
        yield xs[i:i + n]


os.makedirs(OUT, exist_ok=True)
path = os.path.join(OUT, "JsonStrValidate.v")
with open(path, "w") as f:
    f.write("(* GENERATED by validate.py -- model/JsonStr.v against CPython %d.%d.%d json *)\n" % sys.version_info[:3])
    f.write("From Curies.model Require Import Str JsonStr.\nLocal Open Scope N_scope.\n")
    f.write("Definition opt_eqb (a b : option str) : bool :=\n"
            "  match a, b with Some x, Some y => str_eqb x y | None, None => true | _, _ => false end.\n")
    f.write("Definition enc_ok (c : bool * str * str) : bool :=\n"
            "  let '(a, s, r) := c in str_eqb (json_encode_str a s) r.\n")
    f.write("Definition dec_ok (c : str * option str) : bool :=\n"
            "  let '(l, r) := c in opt_eqb (json_decode_str l) r.\n")
    f.write("Definition rt_ok (c : bool * str * bool) : bool :=\n"
            "  let '(a, s, ok) := c in Bool.eqb (opt_eqb (json_decode_str (json_encode_str a s)) (Some s)) ok\n"
            "  && Bool.eqb (json_rt_ok a s) ok.\n")
    f.write("Definition u16_ok (c : str * str) : bool := let '(s, r) := c in str_eqb (utf16_join s) r.\n")
    for i, ch in enumerate(chunks(enc_cases, 400)):
        f.write("Example enc_%d : forallb enc_ok [\n  " % i)
        f.write(";\n  ".join("(%s, %s, %s)" % (cb(a), cs(s), cs(r)) for (a, s, r) in ch))
        f.write("] = true.\nProof. vm_compute. reflexivity. Qed.\n")
    for i, ch in enumerate(chunks(dec_cases, 400)):
        f.write("Example dec_%d : forallb dec_ok [\n  " % i)
        f.write(";\n  ".join("(%s, %s)" % (cs(l), co(r)) for (l, r) in ch))
        f.write("] = true.\nProof. vm_compute. reflexivity. Qed.\n")
    # composite: does json.loads(json.dumps(s)) == s in Python  <->  in the model
    for i, ch in enumerate(chunks(enc_cases, 400)):
        f.write("Example rt_%d : forallb rt_ok [\n  " % i)
        f.write(";\n  ".join("(%s, %s, %s)" % (cb(a), cs(s), cb(json.loads(lit) == s)) for (a, s, lit) in ch))
        f.write("] = true.\nProof. vm_compute. reflexivity. Qed.\n")

    # utf16_join s  =  s read as UTF-16
    u16 = [(s, s.encode("utf-16-le", "surrogatepass").decode("utf-16-le", "surrogatepass")) for s in enc_inputs]
    for i, ch in enumerate(chunks(u16, 400)):
        f.write("Example u16_%d : forallb u16_ok [\n  " % i)
        f.write(";\n  ".join("(%s, %s)" % (cs(s), cs(r)) for (s, r) in ch))
        f.write("] = true.\nProof. vm_compute. reflexivity. Qed.\n")

n_some = sum(1 for (_, r) in dec_cases if r is not None)
print("encoder cases: %d (x ensure_ascii True/False included)" % len(enc_cases))
print("decoder cases: %d (%d accepted, %d rejected)" % (len(dec_cases), n_some, len(dec_cases) - n_some))
print("round-trip cases: %d (decode(encode a s) == Some s and json_rt_ok a s both compared with json.loads(json.dumps(s)) == s)" % len(enc_cases))
print("utf16_join cases: %d (against s.encode('utf-16-le','surrogatepass').decode('utf-16-le','surrogatepass'))" % len(u16))
k1, k2 = "\ud800\udc00", "\U00010000"
print("collision in Python: json.dumps({%r: 1, %r: 2}) = %s" % (k1, k2, json.dumps({k1: 1, k2: 2})))
print("round-trip cases: %d, failing in Python: %d (all with ensure_ascii=True: %s)"
      % (len(enc_cases), len(rt_fail), all(a for (a, _) in rt_fail)))
print("C scanstring vs pure-Python py_scanstring differ on %d decoder inputs (all C=None: %s), e.g. %r"
      % (len(PY_DIVERGENCES), all(c is None for (_, c, _) in PY_DIVERGENCES), PY_DIVERGENCES[:3]))
assert json.decoder.scanstring is json.decoder.c_scanstring
for (a, s) in rt_fail[:5]:
    print("   e.g. ensure_ascii=%s s=%s -> %s" % (a, [hex(ord(c)) for c in s],
                                                [hex(ord(c)) for c in json.loads(json.dumps(s, ensure_ascii=a))]))
r = subprocess.run(["timeout", "900", "coqc", "-Q", COQ, "Curies", "-Q", OUT, "CuriesValidate", path],
                   capture_output=True, text=True)
sys.stdout.write(r.stdout)
sys.stderr.write(r.stderr)
if r.returncode == 0:
    print("coqc OK: all %d examples agree with Python" % (2 * len(enc_cases) + len(dec_cases) + len(u16)))
else:
    print("coqc FAILED (exit %d): the model DISAGREES with Python" % r.returncode)
sys.exit(r.returncode)

#!/venv/bin/python
"""Validate model/JsonDoc.v (json_dump, json_parse) against the real json module of CPython 3.12.

  json_dump ascii v  must be exactly  json.dumps(v, indent=4, sort_keys=True, ensure_ascii=ascii)
  json_parse text    must be  Some (json.loads(text))  /  None when json.loads raises (or meets a number token)

Generates documents of the two curies shapes, random nested values, re-spaced / re-escaped texts and malformed texts,
writes Coq files of Examples proved by vm_compute, compiles them.  Usage: validate.py [seed] [scale]
"""
import io
import json
import os
import random
import subprocess
import sys

HERE = os.path.dirname(os.path.abspath(__file__))
VERIF = os.path.normpath(os.path.join(HERE, "..", ".."))
SCRATCH = os.path.join(VERIF, "_build", "textlayer", "jsondoc")
os.makedirs(SCRATCH, exist_ok=True)
COQ = os.path.join(VERIF, "coq")
OUT = SCRATCH
SEED = int(sys.argv[1]) if len(sys.argv) > 1 else 20261001
SCALE = float(sys.argv[2]) if len(sys.argv) > 2 else 1.0
rnd = random.Random(SEED)


# ---------------------------------------------------------------- random data
PLAIN = "abcxyzABZ019_-.:/#@ ~!{}[],"
SPECIAL = ['"', "\\", "/", "\n", "\r", "\t", "\b", "\f", "\x00", "\x01", "\x1f", "\x7f", "\x80", "\xe9", "\xff",
           "\u03b1", "\u2028", "\u2029", "\ud7ff", "\ue000", "\ufeff", "\ufffe", "\uffff",
           "\ud800", "\udbff", "\udc00", "\udfff", "\ud83d", "\ude00",
           "\U00010000", "\U0001f600", "\U0010ffff"]


def rand_char():
    r = rnd.random()
    if r < 0.55:
        return rnd.choice(PLAIN)
    if r < 0.9:
        return rnd.choice(SPECIAL)
    if r < 0.95:
        return chr(rnd.randrange(0, 0x300))
    return chr(rnd.randrange(0, 0x110000))


def rand_str(maxlen=7):
    r = rnd.random()
    if r < 0.08:
        return ""
    if r < 0.16:   # surrogate pairs, the interesting case for ensure_ascii=True
        return rnd.choice(["\ud800\udc00", "\ud83d\ude00", "a\udbff\udfffb", "\ud800\ud800\udc00", "\udc00\ud800",
                           "\ud800\udc00\udc00", "\U00010000", "\ud800", "\ud800x\udc00"])
    return "".join(rand_char() for _ in range(rnd.randrange(1, maxlen + 1)))


def plain_str(maxlen=8):
    return "".join(rnd.choice("abcdefghijklmnopqrstuvwxyz0123456789_.:/#") for _ in range(rnd.randrange(1, maxlen + 1)))


def some_str():
    return plain_str() if rnd.random() < 0.5 else rand_str()


def shuffled_dict(items):
    items = list(items)
    rnd.shuffle(items)
    return dict(items)


def rand_record():
    items = [("prefix", some_str()), ("uri_prefix", some_str())]
    if rnd.random() < 0.5:
        items.append(("pattern", some_str()))
    if rnd.random() < 0.6:
        items.append(("prefix_synonyms", [some_str() for _ in range(rnd.randrange(0, 4))]))
    if rnd.random() < 0.6:
        items.append(("uri_prefix_synonyms", [some_str() for _ in range(rnd.randrange(0, 4))]))
    return shuffled_dict(items)


def rand_epm():
    return [rand_record() for _ in range(rnd.randrange(0, 4))]


def rand_jsonld():
    ctx = {}
    for _ in range(rnd.randrange(0, 6)):
        k = some_str()
        if rnd.random() < 0.5:
            ctx[k] = some_str()
        else:
            ctx[k] = shuffled_dict([("@prefix", True), ("@id", some_str())])
    return {"@context": ctx}


def rand_value(depth=0):
    r = rnd.random()
    if depth >= 4 or r < 0.35:
        r2 = rnd.random()
        if r2 < 0.7:
            return some_str()
        return rnd.choice([True, False, None])
    if r < 0.65:
        return [rand_value(depth + 1) for _ in range(rnd.randrange(0, 4))]
    d = {}
    for _ in range(rnd.randrange(0, 4)):
        d[some_str()] = rand_value(depth + 1)
    if rnd.random() < 0.1:   # the two keys that collide under ensure_ascii=True
        d["\ud800\udc00"] = rand_value(depth + 1)
        d["\U00010000"] = rand_value(depth + 1)
        if rnd.random() < 0.5:
            d = shuffled_dict(d.items())
    return d


# ---------------------------------------------------------------- Coq terms
def coq_str(s):
    return "[" + ";".join(str(ord(c)) for c in s) + "]"


def coq_jv(v):
    if isinstance(v, str):
        return "JS " + coq_str(v)
    if v is True:
        return "JTrue"
    if v is False:
        return "JFalse"
    if v is None:
        return "JNull"
    if isinstance(v, list):
        return "JArr [" + ";".join(coq_jv(x) for x in v) + "]"
    if isinstance(v, dict):
        return "JObj [" + ";".join("(" + coq_str(k) + "," + coq_jv(x) + ")" for k, x in v.items()) + "]"
    raise TypeError(v)


def coq_bool(b):
    return "true" if b else "false"


# ---------------------------------------------------------------- the real thing
class Unsupported(Exception):
    pass


def _unsupported(_):
    raise Unsupported()


def py_loads(text):
    """('ok', value) | ('err', None): what the model must return (numbers are outside the model -> None)."""
    try:
        return "ok", json.loads(text, parse_int=_unsupported, parse_float=_unsupported, parse_constant=_unsupported)
    except Unsupported:
        return "err", None
    except json.JSONDecodeError:
        return "err", None


def py_dumps(v, ascii_):
    a = json.dumps(v, indent=4, sort_keys=True, ensure_ascii=ascii_)
    # json.dump writes the same chunks to the file
    buf = io.StringIO()
    json.dump(v, buf, indent=4, sort_keys=True, ensure_ascii=ascii_)
    assert buf.getvalue() == a
    return a


# ---------------------------------------------------------------- other spellings of a value
WS = " \t\n\r"


def rws(p=0.5):
    if rnd.random() > p:
        return ""
    return "".join(rnd.choice(WS) for _ in range(rnd.randrange(1, 4)))


SHORT = {'"': '\\"', "\\": "\\\\", "/": "\\/", "\b": "\\b", "\f": "\\f", "\n": "\\n", "\r": "\\r", "\t": "\\t"}


def respell_str(s):
    out = ['"']
    for ch in s:
        o = ord(ch)
        r = rnd.random()
        if ch in SHORT and r < 0.6:
            out.append(SHORT[ch])
        elif ch in '"\\' or o < 32 or r < 0.3:
            if o >= 0x10000:
                v = o - 0x10000
                esc = ["%04x" % (0xD800 + (v >> 10)), "%04x" % (0xDC00 + (v & 0x3FF))]
            else:
                esc = ["%04x" % o]
            for e in esc:
                out.append("\\u" + "".join(c.upper() if rnd.random() < 0.5 else c for c in e))
        else:
            out.append(ch)
    out.append('"')
    return "".join(out)


def respell(v, dup_keys=False):
    if isinstance(v, str):
        return respell_str(v)
    if v is True:
        return "true"
    if v is False:
        return "false"
    if v is None:
        return "null"
    if isinstance(v, list):
        return "[" + rws() + ("," + rws()).join(respell(x, dup_keys) + rws() for x in v) + "]"
    items = list(v.items())
    if dup_keys and items:
        for _ in range(rnd.randrange(1, 3)):
            k, _x = rnd.choice(items)
            items.insert(rnd.randrange(0, len(items) + 1), (k, rand_value(3)))
    return "{" + rws() + ("," + rws()).join(respell_str(k) + rws() + ":" + rws() + respell(x, dup_keys) + rws()
                                              for k, x in items) + "}"


MUT_CHARS = list('{}[],:"\\ \t\n\r') + list("tfnrue alsu0123456789-+.eEINa") + ["\u00a0", "\ufeff", "\x0b", "\x0c", "/", "u",
                                                                             "\ud800", "\x00", "x"]


def mutate(text):
    t = text
    for _ in range(rnd.randrange(1, 3)):
        if not t:
            t = rnd.choice(MUT_CHARS)
            continue
        i = rnd.randrange(0, len(t) + 1)
        r = rnd.random()
        if r < 0.3:
            t = t[:i] + t[i + 1:]
        elif r < 0.6:
            t = t[:i] + rnd.choice(MUT_CHARS) + t[i:]
        elif r < 0.8:
            t = t[:i] + rnd.choice(MUT_CHARS) + t[i + 1:]
        elif r < 0.9:
            t = t[:i]
        else:
            j = rnd.randrange(i, min(len(t), i + 6) + 1)
            t = t[:j] + t[i:j] + t[j:]
    return t


HAND_TEXTS = [
    "", " ", "\n", '"', '""', '"a', '"a" ', ' "a"', '"a" x', '"a""b"', "[]", "[ ]", "[\n]", "{}", "{ }", "{\t\r\n }",
    "[", "]", "{", "}", ",", ":", "[,]", "[[]]", "[[],]", "[[] []]", "[[],[]]", '["a",]', '["a" "b"]', '[,"a"]',
    '{"a"}', '{"a":}', '{"a":"b",}', '{"a":"b" "c":"d"}', '{"a" "b"}', '{,}', '{:}', '{"a"::"b"}', '{a:"b"}',
    "{'a':'b'}", '{"a":"1","a":"2"}', '{"a":"1","b":"2","a":"3"}', '{"b":"1","a":"2","b":"3","a":"4"}',
    '{"a":"1","\\u0061":"2"}', '{"\\ud800\\udc00":"1","\\ud800\\udc00":"2"}', '{"":""}', '{"a":{"a":{}}}',
    "true", "false", "null", " true ", "tru", "truee", "true false", "True", "TRUE", "nul", "nulll", "fals", "falsex",
    "[true,false,null]", "[true false]", "t", "n", "f", "nan", "NaN", "Infinity", "-Infinity", "-", "[NaN]", "[-Infinity]",
    "0", "1", "-1", "1.5", "1e5", "01", "[1]", "[1,2]", '{"a":1}', '{"a":1,"a":"x"}', '["a",1]', "1x", "[1x]", "- 1", ".5", "+1",
    "\ufefftrue", "\ufeff[]", "\ufeff", "[]\ufeff", "\u00a0[]", "[]\u00a0", "[\u00a0]", "\x0b[]", "\x0c[]", "[]\x0c",
    '"\\u00e9"', '"\\u00E9"', '"\\U00e9"', '"\\u00g9"', '"\\u00"', '"\\u"', '"\\', '"\\"', '"\\x"', '"\\/"', '"\\a"',
    '"\\ud800"', '"\\ud800\\udc00"', '"\\ud800\\u0041"', '"\\ud800\\ud800\\udc00"', '"\\udc00\\ud800"', '"\\ud800\\udc0"',
    '"\\ud800\\udc00', '"\\ud800\\', '"\\ud800\\u', '"\\ud800\\udc', '["\\ud800","\\udc00"]', '"\\uD800\\uDC00"',
    '"\\ud800\\udbff\\udfff"', '"\\udbff\\udfff"', '"\\ud800""', '["\\ud800"]', '{"\\ud800":"\\ud800"}',
    '"\ud800\\udc00"', '"\ud800\udc00"', '"a\nb"', '"a\tb"', '"\x00"', '"\x1f"', '"\x7f"', '" "', '"\\u0000"',
    '"\U0001f600"', '"\\ud83d\\ude00"', "[\"a\"]]", "[[\"a\"]", '{"a":["b",{"c":[]}],"d":{}}', '[{"a":[]},[{}],"",[""]]',
    '{"a"\n:\n"b"\n,\n"c"\n:\n[\n]\n}', '[ "a" , "b" ]', '[\r\n"a"\r\n]', '{"a" :"b"}', '{"a": "b"}x', '[] []', '[]{}',
    '{"@context": {"a": "b"}}', '{"@context": {"a": {"@prefix": true, "@id": "b"}}}', '"a":"b"', '["a":"b"]', '{["a"]}',
    '{"a":"b"]', '["a"}', '{"a":"b"', '["a"', '["a",', '{"a":', '{"a"', '{"a":"b",', '[[[[[[[[[[]]]]]]]]]]',
    '{"a":{"a":{"a":{"a":{"a":{"a":[]}}}}}}', "[" * 40 + "]" * 40, "[" * 40 + "]" * 39, '[""""]', '"\\\\"', '"\\\\\\"',
]


# ---------------------------------------------------------------- the two curies shapes through the model's own types
def coq_field(x):
    return "FStr " + coq_str(x) if isinstance(x, str) else "FStrs [" + ";".join(coq_str(y) for y in x) + "]"


def coq_fields(d):
    return "[" + ";".join("(" + coq_str(k) + "," + coq_field(x) + ")" for k, x in d.items()) + "]"


def coq_epm(ds):
    return "[" + ";".join(coq_fields(d) for d in ds) + "]"


def coq_term(x):
    return "CStr " + coq_str(x) if isinstance(x, str) else "CPrefix " + coq_str(x["@id"])


def coq_ctx(ctx):
    return "[" + ";".join("(" + coq_str(k) + "," + coq_term(x) + ")" for k, x in ctx.items()) + "]"


def gen_shape_cases():
    """(a) what curies does with an extended prefix map: json.dumps(ds, indent=4, sort_keys=True, ensure_ascii=False),
    json.load;  (b) with a JSON-LD context: json.dump({"@context": ctx}, f, indent=4, sort_keys=True), json.load."""
    n = lambda k: max(1, int(k * SCALE))
    epm, ld = [], []
    for _ in range(n(500)):
        ds = rand_epm()
        text = json.dumps(ds, indent=4, sort_keys=True, ensure_ascii=False)
        epm.append((ds, text, json.loads(text)))
    for _ in range(n(500)):
        doc = rand_jsonld()
        buf = io.StringIO()
        json.dump(doc, buf, indent=4, sort_keys=True)
        text = buf.getvalue()
        ld.append((doc["@context"], text, json.loads(text)["@context"]))
    # the colliding terms
    ctx = {"\ud800\udc00": "a", "\U00010000": "b"}
    buf = io.StringIO()
    json.dump({"@context": ctx}, buf, indent=4, sort_keys=True)
    ld.append((ctx, buf.getvalue(), json.loads(buf.getvalue())["@context"]))
    return epm, ld


def write_shape_files(epm, ld, chunk=250):
    files = []
    k = 0
    for i in range(0, len(epm), chunk):
        part = epm[i:i + chunk]
        name = "VEpm%03d" % k
        k += 1
        with open(os.path.join(OUT, name + ".v"), "w") as fh:
            fh.write(HEADER % (SEED, sys.version.split()[0]))
            fh.write("Definition inputs : list (list (list (str * field))) := [\n")
            fh.write(";\n".join(coq_epm(ds) for ds, _, _ in part))
            fh.write("].\nDefinition texts : list str := [\n")
            fh.write(";\n".join(coq_str(t) for _, t, _ in part))
            fh.write("].\nDefinition loaded : list (option (list (list (str * field)))) := [\n")
            fh.write(";\n".join("Some " + coq_epm(r) for _, _, r in part))
            fh.write("].\nExample epm_write_agrees : map epm_write inputs = texts.\nProof. vm_compute. reflexivity. Qed.\n")
            fh.write("Example epm_read_agrees : map epm_read texts = loaded.\nProof. vm_compute. reflexivity. Qed.\n")
        files.append(name)
    k = 0
    for i in range(0, len(ld), chunk):
        part = ld[i:i + chunk]
        name = "VJsonld%03d" % k
        k += 1
        with open(os.path.join(OUT, name + ".v"), "w") as fh:
            fh.write(HEADER % (SEED, sys.version.split()[0]))
            fh.write("Definition inputs : list (list (str * ctx_term)) := [\n")
            fh.write(";\n".join(coq_ctx(c) for c, _, _ in part))
            fh.write("].\nDefinition texts : list str := [\n")
            fh.write(";\n".join(coq_str(t) for _, t, _ in part))
            fh.write("].\nDefinition loaded : list (option (list (str * ctx_term))) := [\n")
            fh.write(";\n".join("Some " + coq_ctx(r) for _, _, r in part))
            fh.write("].\nExample jsonld_write_agrees : map jsonld_write inputs = texts.\nProof. vm_compute. reflexivity. Qed.\n")
            fh.write("Example jsonld_read_agrees : map jsonld_read texts = loaded.\nProof. vm_compute. reflexivity. Qed.\n")
        files.append(name)
    return files


def check_witnesses():
    """the counterexamples of proofs/JsonDocFacts.v, in real Python"""
    k1, k2 = chr(0xD800) + chr(0xDC00), chr(0x10000)
    d = {k1: "a", k2: "b"}
    assert len(d) == 2
    t = json.dumps(d, indent=4, sort_keys=True)
    assert [ord(c) for c in t] == [
        123, 10, 32, 32, 32, 32, 34, 92, 117, 100, 56, 48, 48, 92, 117, 100, 99, 48, 48, 34, 58, 32, 34, 97, 34, 44,
        10, 32, 32, 32, 32, 34, 92, 117, 100, 56, 48, 48, 92, 117, 100, 99, 48, 48, 34, 58, 32, 34, 98, 34, 10, 125]
    assert json.loads(t) == {k2: "b"}                                     # json_doc_roundtrip_refuted
    assert json.loads(json.dumps(d, indent=4, sort_keys=True, ensure_ascii=False)) == d
    assert json.loads(json.dumps({k1: True}, indent=4, sort_keys=True)) == {k2: True}   # json_doc_roundtrip_key_refuted
    buf = io.StringIO()
    json.dump({"@context": d}, buf, indent=4, sort_keys=True)
    assert json.loads(buf.getvalue())["@context"] == {k2: "b"}            # jsonld_roundtrip_refuted
    print("witnesses of the refutation theorems confirmed in CPython")


# ---------------------------------------------------------------- generate
def gen_cases():
    values = []
    n = lambda k: max(1, int(k * SCALE))
    for _ in range(n(900)):
        values.append(rand_epm())
    for _ in range(n(900)):
        values.append(rand_jsonld())
    for _ in range(n(1400)):
        values.append(rand_value())
    values += ["", "a", True, False, None, [], {}, [[]], [{}], {"": {}}, {"": []}, [[], []], [{}, {}], {"a": [], "b": {}},
               {"b": "1", "a": "2"}, {"\ud800\udc00": "1", "\U00010000": "2"}, {"\U00010000": "2", "\ud800\udc00": "1"},
               {"a": "1", "A": "2", "\xe9": "3", "\uffff": "4", "\U00010000": "5", "": "6", "aa": "7"},
               [[[[[[["deep"]]]]]]], {"k": {"k": {"k": {"k": {"k": "deep"}}}}}]
    dump_cases = []     # (ascii, value, text)
    texts = []
    for v in values:
        for a in (False, True):
            t = py_dumps(v, a)
            dump_cases.append((a, v, t))
            texts.append(t)
        # the curies defaults: epm with ensure_ascii=False, JSON-LD with ensure_ascii=True are among the above
    # other spellings of the same values
    sample = rnd.sample(values, min(len(values), n(1200)))
    for v in sample:
        r = rnd.random()
        if r < 0.25:
            texts.append(json.dumps(v))
        elif r < 0.4:
            texts.append(json.dumps(v, ensure_ascii=False, separators=(",", ":")))
        elif r < 0.5:
            texts.append(json.dumps(v, indent="\t", ensure_ascii=False))
        else:
            texts.append(rws() + respell(v, dup_keys=rnd.random() < 0.3) + rws())
    # malformed
    base = list(texts)
    for _ in range(n(2500)):
        texts.append(mutate(rnd.choice(base)))
    for t in HAND_TEXTS:
        texts.append(t)
        texts.append(mutate(t))
    parse_cases = []
    for t in texts:
        parse_cases.append((t, py_loads(t)))
    return dump_cases, parse_cases


HEADER = """(* generated by validate.py (seed %d): the model against CPython %s *)
From Curies.model Require Import Str JsonStr JsonDoc.
Local Open Scope N_scope.
"""


def write_files(dump_cases, parse_cases, chunk=250):
    os.makedirs(OUT, exist_ok=True)
    for f in os.listdir(OUT):
        os.remove(os.path.join(OUT, f))
    files = []
    k = 0
    for i in range(0, len(dump_cases), chunk):
        part = dump_cases[i:i + chunk]
        name = "VDump%03d" % k
        k += 1
        with open(os.path.join(OUT, name + ".v"), "w") as fh:
            fh.write(HEADER % (SEED, sys.version.split()[0]))
            fh.write("Definition inputs : list (bool * jv) := [\n")
            fh.write(";\n".join("(%s, %s)" % (coq_bool(a), coq_jv(v)) for a, v, _ in part))
            fh.write("].\nDefinition expected : list str := [\n")
            fh.write(";\n".join(coq_str(t) for _, _, t in part))
            fh.write("].\nExample dump_agrees : map (fun av => json_dump (fst av) (snd av)) inputs = expected.\n")
            fh.write("Proof. vm_compute. reflexivity. Qed.\n")
            # and what is written is read back as Python reads it (the same texts are in the VParse files too)
        files.append(name)
    k = 0
    for i in range(0, len(parse_cases), chunk):
        part = parse_cases[i:i + chunk]
        name = "VParse%03d" % k
        k += 1
        with open(os.path.join(OUT, name + ".v"), "w") as fh:
            fh.write(HEADER % (SEED, sys.version.split()[0]))
            fh.write("Definition inputs : list str := [\n")
            fh.write(";\n".join(coq_str(t) for t, _ in part))
            fh.write("].\nDefinition expected : list (option jv) := [\n")
            fh.write(";\n".join(("Some (%s)" % coq_jv(r[1])) if r[0] == "ok" else "None" for _, r in part))
            fh.write("].\nExample parse_agrees : map json_parse inputs = expected.\n")
            fh.write("Proof. vm_compute. reflexivity. Qed.\n")
        files.append(name)
    return files


def compile_one(name):
    p = subprocess.run(["timeout", "900", "coqc", "-Q", COQ, "Curies", "-Q", OUT, "JsonDocValidate", name + ".v"],
                       cwd=OUT, capture_output=True, text=True)
    return name, p.returncode, p.stderr[-2000:]


def compile_files(files):
    from concurrent.futures import ThreadPoolExecutor
    bad = []
    with ThreadPoolExecutor(max_workers=6) as ex:
        for name, rc, err in ex.map(compile_one, files):
            if rc != 0:
                bad.append(name)
                print("FAILED", name, err)
            else:
                print("ok", name, flush=True)
    return bad


def main():
    dump_cases, parse_cases = gen_cases()
    n_ok = sum(1 for _, r in parse_cases if r[0] == "ok")
    print("dump cases: %d   parse cases: %d (%d accepted by json.loads, %d rejected or with a number token)"
          % (len(dump_cases), len(parse_cases), n_ok, len(parse_cases) - n_ok))
    check_witnesses()
    epm, ld = gen_shape_cases()
    print("shape cases: %d extended prefix maps, %d JSON-LD contexts (each: written text and what json.load returns)"
          % (len(epm), len(ld)))
    files = write_files(dump_cases, parse_cases)
    files += write_shape_files(epm, ld)
    bad = compile_files(files)
    if bad:
        print("DISAGREEMENT in", bad)
        sys.exit(1)
    print("ALL AGREE: %d json_dump cases, %d json_parse cases, %d epm_write/epm_read cases, %d jsonld_write/jsonld_read cases"
          % (len(dump_cases), len(parse_cases), len(epm), len(ld)))


if __name__ == "__main__":
    main()

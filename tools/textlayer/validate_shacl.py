#!/venv/bin/python
"""Validation of coq/model/ShaclText.v against the real Python code.

  A. shacl_line / shacl_line_raw      vs  curies.api._get_shacl_line (and the same f-string without the .replace calls)
  B. shacl_parse_line                 vs  rdflib's Turtle parser: the document
         @prefix sh: <...> . @prefix xsd: <...> . [ sh:declare <line> ] .
     is parsed with rdflib.Graph().parse(data=..., format="turtle"); the expected value of the model is
         Some (p, u, pat)  iff  the graph is exactly  _:o sh:declare _:d . _:d sh:prefix "p" ; sh:namespace "u"^^xsd:anyURI
                                 ( ; sh:pattern "pat" )?   with plain literals for prefix and pattern,
         None              otherwise (syntax error, or any other graph).
     Families B1..B4 must agree exactly.  Family B5 contains Turtle that rdflib accepts but that is outside the modelled
     line shape (long strings, single-quoted strings, comments, repeated ';', the escapes \\a \\v \\u \\U): there only
     soundness is required (model Some x  ->  rdflib reads x) and the number of "model None, rdflib Some" is reported.

Run:  cd /tmp/pm_SHACL && PYTHONPATH=/repo/src timeout 3000 /venv/bin/python validate.py
Writes validate_out/ValidateShaclText.v (not part of _CoqProject) and compiles it with coqc.
"""
import os
import random
import re
import subprocess
import sys
import warnings

warnings.filterwarnings("ignore")
import logging

logging.disable(logging.CRITICAL)

import rdflib
from rdflib import BNode, Literal, URIRef
from rdflib.namespace import XSD

from curies.api import _get_shacl_line

HERE = os.path.dirname(os.path.abspath(__file__))
VERIF = os.path.normpath(os.path.join(HERE, "..", ".."))
SCRATCH = os.path.join(VERIF, "_build", "textlayer", "shacl")
os.makedirs(SCRATCH, exist_ok=True)
COQ = os.path.join(VERIF, "coq")
OUTDIR = SCRATCH
os.makedirs(OUTDIR, exist_ok=True)
OUT = os.path.join(OUTDIR, "ValidateShaclText.v")
SEED = int(os.environ.get("SEED", "20261001"))
rnd = random.Random(SEED)
SH = "http://www.w3.org/ns/shacl#"
HEADER = "@prefix sh: <http://www.w3.org/ns/shacl#> . @prefix xsd: <http://www.w3.org/2001/XMLSchema#> . "

BS, DQ = "\\", '"'


# ---------------------------------------------------------------- real behaviour
def raw_line(prefix, uri_prefix, pattern=None):
    """_get_shacl_line without its three .replace calls (the text of the function is otherwise copied)."""
    line = f'    [ sh:prefix "{prefix}" ; sh:namespace "{uri_prefix}"^^xsd:anyURI '
    if pattern:
        line += f'; sh:pattern "{pattern}"'
    return line + " ]"


def rdflib_read(line):
    """None, or (prefix, namespace, pattern-or-None) when the graph has exactly the expected shape."""
    doc = HEADER + "[ sh:declare " + line + " ] ."
    try:
        g = rdflib.Graph().parse(data=doc, format="turtle")
    except Exception:  # BadSyntax, IndexError (backslash at the very end), AssertionError ...
        return None
    triples = list(g)
    decl = [t for t in triples if t[1] == URIRef(SH + "declare")]
    if len(decl) != 1:
        return None
    outer, _, inner = decl[0]
    if not isinstance(outer, BNode) or not isinstance(inner, BNode) or outer == inner:
        return None
    rest = [t for t in triples if t is not decl[0]]
    if any(t[0] != inner for t in rest):
        return None
    by = {}
    for _, pr, ob in rest:
        by.setdefault(str(pr), []).append(ob)
    keys = set(by)
    if keys not in ({SH + "prefix", SH + "namespace"}, {SH + "prefix", SH + "namespace", SH + "pattern"}):
        return None
    if any(len(v) != 1 for v in by.values()):
        return None
    p, u = by[SH + "prefix"][0], by[SH + "namespace"][0]
    pat = by.get(SH + "pattern", [None])[0]

    def plain(x):
        return isinstance(x, Literal) and x.datatype is None and x.language is None

    if not plain(p) or not (pat is None or plain(pat)):
        return None
    if not (isinstance(u, Literal) and u.datatype == XSD.anyURI and u.language is None):
        return None
    return (str(p), str(u), None if pat is None else str(pat))


# ---------------------------------------------------------------- generators
def printable_ok(s):
    return all(
        32 <= ord(c) and ord(c) != 127 and c not in '"<>' and not (128 <= ord(c) <= 159) for c in s
    )


PRINTABLE_POOL = (
    [BS] * 8
    + list("abnrtfuUvx0'^;:[]#@. ")
    + list("abcdefghijklmnopqrstuvwxyzABCXYZ0123456789-_/:.#?=&%+~!$*(),|{}`")
    + [" ", "é", "α", " ", "中", "﻿", "\U0001f600", "\U0010ffff", "­"]
)
NASTY_POOL = (
    [BS] * 6
    + [DQ] * 5
    + list("'<>\n\r\t\x00\x07\x08\x0b\x0c\x1f\x7f\x80\x85\x9f")
    + list("abnrtfx ;]^:#.")
    + ["é", "\U0001f600"]
)
RAW_POOL = [BS] * 8 + [DQ] * 3 + list("'nrtbfxz0 ;]^#c\n")  # no a, v, u, U after a backslash (see B5)


def rs(pool, lo=0, hi=8):
    return "".join(rnd.choice(pool) for _ in range(rnd.randint(lo, hi)))


def trail_bs(s):
    return s + BS * rnd.randint(1, 4)


def field(pool):
    k = rnd.random()
    if k < 0.08:
        return ""
    s = rs(pool)
    if k < 0.35:
        s = trail_bs(s)
    if k > 0.9:
        s = BS * rnd.randint(1, 3) + s
    return s


def triple(pool):
    p, u = field(pool), field(pool)
    k = rnd.random()
    pat = None if k < 0.3 else ("" if k < 0.4 else field(pool))
    return p, u, pat


HAND = [
    ("", "", None), ("", "", ""), ("a", "http://x/", None), ("a" + BS, "http://x/", None), (BS, BS, BS),
    ("a" + BS * 2, "u" + BS * 3, "^" + BS + "d+$"), ("ex", "http://example.org/", "^[A-Z]+\\d{3}$"),
    (BS * 5, "x", BS * 4), ("a" + BS + "n", "b" + BS + "t", "c" + BS + "u0041"), ("a'b", "c'", "'"),
    ("GO", "http://purl.obolibrary.org/obo/GO_", "^\\d{7}$"), (" ", " ", " "), ("a ; sh:prefix b", "]", "[ ]"),
]
HAND_NASTY = [
    ('a"', "u", None), ('a" ; sh:prefix "b', "u", None), ('""x""', "u", None), ("a\nb", "u", None), ("a", "u\r", None),
    ("a", 'u"^^xsd:anyURI ; sh:pattern "q', None), ("a" + BS + DQ, "u", None), ('"', '"', '"'), ("a", "u", '"'),
    ("a", "u", 'x" ] , [ sh:prefix "b" ; sh:namespace "v"^^xsd:anyURI'), ("\t", "\x00", "\x7f"),
]


def mutate(line):
    """A damaged / re-spaced variant of a well-formed line."""
    k = rnd.randrange(16)
    ws = lambda: "".join(rnd.choice([" ", "\t", "\n", "\r\n", "  "]) for _ in range(rnd.randint(0, 3)))
    if k == 0:  # re-space around every token boundary that the writer separates by one blank
        return ws() + ws().join(line.split(" ")) + ws()
    if k == 1:
        return line.replace(" ", "")
    if k == 2:
        return line.replace("^^", " ^^", 1)
    if k == 3:
        return line.replace("^^xsd:anyURI", rnd.choice(["", "^^xsd:string", "^^xsd:anyURIs", "@en", "^^xsd:anyURI.", "^^xsd:anyuri"]), 1)
    if k == 4:
        i = rnd.randrange(len(line) + 1)
        return line[:i] + rnd.choice([DQ, BS, ";", "]", "[", " ", "\r", "\n", "x", ".", ","]) + line[i:]
    if k == 5:
        i = rnd.randrange(len(line))
        return line[:i] + line[i + 1:]
    if k == 6:
        return line.replace("sh:prefix", rnd.choice(["sh:prefixx", "sh:namespace", "sh:Prefix", "sh:pattern", "a"]), 1)
    if k == 7:
        return line.replace("sh:namespace", rnd.choice(["sh:prefix", "sh:pattern", "sh:namespaces"]), 1)
    if k == 8:
        return line + rnd.choice([" x", " ]", ".", " \r", "\r\n", "\n\t ", " , [ ]", "\r"])
    if k == 9:
        return line.replace(" ;", rnd.choice([" ,", " .", ""]), 1)
    if k == 10:
        return line.replace("    [", rnd.choice(["", "[", "\n[", "\r\n\t[", "\r[", "( ", "[ ["]), 1)
    if k == 11:
        return line[: rnd.randrange(len(line))]
    if k == 12:
        return line.replace("sh:pattern", rnd.choice(["sh:prefix", "sh:namespace", "sh:patterns", ""]), 1)
    if k == 13:
        return line.replace(" ]", rnd.choice(["]", "", " ] ]", "\n]\n", " ; sh:pattern \"q\" ]"]), 1)
    if k == 14:
        return line.replace(DQ, "", 1) if rnd.random() < 0.5 else line[::-1].replace(DQ, "", 1)[::-1]
    return line.replace(" ", rnd.choice(["\t", "\n", "\r\n", "\r", "\x0c", " ", " "]), rnd.randint(1, 3))


def gap_lines():
    """Turtle accepted by rdflib but outside the modelled line shape (documented non-coverage)."""
    out = []
    base = ("ex", "http://example.org/", "^x$")
    for _ in range(200):
        p, u, pat = triple(list("abc" + BS * 2))
        line = _get_shacl_line(p or "p", u, pat)
        k = rnd.randrange(9)
        if k == 0:
            out.append(line.replace('"', '"""'))                                  # long strings
        elif k == 1:
            out.append(line.replace('"', "'"))                                    # single-quoted strings
        elif k == 2:
            out.append(line.replace(" ;", " ; ;", 1))                             # repeated ;
        elif k == 3:
            out.append(line.replace(" ]", " ; ]", 1))                             # trailing ;
        elif k == 4:
            out.append(line.replace(" ;", " # comment\n ;", 1))                   # comment
        elif k == 5:
            out.append(raw_line("x" + BS + rnd.choice("av") + "y", u, pat))       # \a \v (rdflib extension)
        elif k == 6:
            out.append(raw_line("x" + BS + "u00e9" + "y", u, pat))                # \uXXXX
        elif k == 7:
            out.append(raw_line("x" + BS + "U0001F600", u, pat))                  # \UXXXXXXXX
        else:
            out.append(line.replace("^^xsd", rnd.choice(["^^ xsd", "^^\n\txsd", "^^<http://www.w3.org/2001/XMLSchema#anyURI> #"]), 1))  # blank after ^^, IRI datatype
    out.append(raw_line(*base).replace('"ex"', '"""ex"""'))
    return out


# ---------------------------------------------------------------- Coq output
def coq_str(s):
    return "[" + ";".join(str(ord(c)) for c in s) + "]"


def coq_opt_str(s):
    return "None" if s is None else "(Some " + coq_str(s) + ")"


def coq_res(r):
    if r is None:
        return "None"
    p, u, pat = r
    return "(Some (%s, %s, %s))" % (coq_str(p), coq_str(u), coq_opt_str(pat))


PRELUDE = """(* GENERATED by /tmp/pm_SHACL/validate.py (seed %d) -- do not edit.  Real Python results vs the model. *)
From Curies.model Require Import ShaclText.
Local Open Scope N_scope.
Definition ostr_eqb (a b : option str) : bool :=
  match a, b with Some x, Some y => str_eqb x y | None, None => true | _, _ => false end.
Definition res_eqb (a b : option (str * str * option str)) : bool :=
  match a, b with
  | Some (p, u, t), Some (p', u', t') => str_eqb p p' && str_eqb u u' && ostr_eqb t t'
  | None, None => true
  | _, _ => false
  end.
Definition is_some {A} (o : option A) : bool := match o with Some _ => true | None => false end.
(* writer: (prefix, uri_prefix, pattern, text written by Python) *)
Definition wr_ok (f : str -> str -> option str -> str) (c : str * str * option str * str) : bool :=
  let '(p, u, t, line) := c in str_eqb (f p u t) line.
(* reader: (line, what rdflib read) *)
Definition rd_ok (c : str * option (str * str * option str)) : bool := res_eqb (shacl_parse_line (fst c)) (snd c).
(* reader, soundness only *)
Definition rd_sound (c : str * option (str * str * option str)) : bool :=
  match shacl_parse_line (fst c) with None => true | r => res_eqb r (snd c) end.
"""


DIAG = []


def emit(f, name, checker, rows, chunk=400):
    n = 0
    for i in range(0, len(rows), chunk):
        part = rows[i:i + chunk]
        f.write("Definition %s_%d := [\n  %s].\n" % (name, n, ";\n  ".join(part)))
        DIAG.append("Definition %s_%d := [\n  %s].\n" % (name, n, ";\n  ".join(part)))
        if "rd_" in checker:
            DIAG.append("Eval vm_compute in map (fun c => (c, shacl_parse_line (fst c))) (filter (fun c => negb ((%s) c)) %s_%d).\n" % (checker, name, n))
        else:
            DIAG.append("Eval vm_compute in filter (fun c => negb ((%s) c)) %s_%d.\n" % (checker, name, n))
        f.write("Example %s_%d_ok : forallb (%s) %s_%d = true.\nProof. vm_compute. reflexivity. Qed.\n" % (name, n, checker, name, n))
        n += 1


def main():
    NA = int(os.environ.get("NA", "3000"))
    NB = int(os.environ.get("NB", "1500"))
    # ---- A: the writer
    wcases = list(HAND) + list(HAND_NASTY)
    wcases += [triple(PRINTABLE_POOL) for _ in range(NA)]
    wcases += [triple(NASTY_POOL + ["\ud800", "\udfff"]) for _ in range(NA)]
    wrows = ["(%s, %s, %s, %s)" % (coq_str(p), coq_str(u), coq_opt_str(t), coq_str(_get_shacl_line(p, u, t))) for p, u, t in wcases]
    rrows = ["(%s, %s, %s, %s)" % (coq_str(p), coq_str(u), coq_opt_str(t), coq_str(raw_line(p, u, t))) for p, u, t in wcases[: NA // 2]]
    # the escaping is the only difference between the two writers
    assert all(_get_shacl_line(p, u, t) == raw_line(p.replace(BS, BS * 2), u.replace(BS, BS * 2), t and t.replace(BS, BS * 2)) for p, u, t in wcases)

    # ---- B: the reader
    stats = {}
    fam = {}
    # B1: the theorem's domain
    b1 = []
    for p, u, t in list(HAND) + [triple(PRINTABLE_POOL) for _ in range(NB)]:
        assert printable_ok(p) and printable_ok(u) and (t is None or printable_ok(t)), (p, u, t)
        line = _get_shacl_line(p, u, t)
        r = rdflib_read(line)
        assert r == (p, u, t or None), ("rdflib does not read back", p, u, t, r)   # the round trip in real Python
        b1.append((line, r))
    fam["b1"] = b1
    # B2: written lines of arbitrary fields
    fam["b2"] = [(l, rdflib_read(l)) for l in (_get_shacl_line(*c) for c in list(HAND_NASTY) + [triple(NASTY_POOL) for _ in range(NB)])]
    # B3: unescaped lines
    b3 = [raw_line("a" + BS, "x", None), raw_line("a" + BS * 2, "x", None)]
    b3 += [raw_line(*triple(RAW_POOL)) for _ in range(NB)]
    fam["b3"] = [(l, rdflib_read(l)) for l in b3]
    # B4: damaged / re-spaced lines
    b4 = []
    for _ in range(NB):
        pool = rnd.choice([PRINTABLE_POOL, list("ab" + BS)])
        pool = [c for c in pool if c not in "uUav#'"]          # keep B4 inside the modelled fragment
        l = mutate(_get_shacl_line(*triple(pool)))
        if "\\u" in l or "\\U" in l or "\\a" in l or "\\v" in l or '"""' in l:
            continue
        b4.append(l)
    fam["b4"] = [(l, rdflib_read(l)) for l in b4]
    # B5: outside the shape; the lines of B2..B4 in which a field happens to open a long string go here too
    #     (and the damaged lines of B4 in which the damage produced another accepted spelling: repeated / trailing ';')
    extra = []
    other = re.compile(r';\s*;|;\s*\]|\[\s*;')
    for k in ("b2", "b3", "b4"):
        out_of_shape = lambda l: '"""' in l or (k == "b4" and other.search(l) is not None)
        extra += [(l, r) for l, r in fam[k] if out_of_shape(l)]
        fam[k] = [(l, r) for l, r in fam[k] if not out_of_shape(l)]
    fam["b5"] = [(l, rdflib_read(l)) for l in gap_lines()] + extra

    with open(OUT, "w") as f:
        f.write(PRELUDE % SEED)
        emit(f, "wr", "wr_ok shacl_line", wrows)
        emit(f, "wraw", "wr_ok shacl_line_raw", rrows)
        for k in ("b1", "b2", "b3", "b4"):
            emit(f, k, "rd_ok", ["(%s, %s)" % (coq_str(l), coq_res(r)) for l, r in fam[k]])
        emit(f, "b5", "rd_sound", ["(%s, %s)" % (coq_str(l), coq_res(r)) for l, r in fam["b5"]])
        # B1 again, as a statement about the model alone: every line of the theorem's domain is read
        emit(f, "b1some", "fun c => is_some (shacl_parse_line (fst c))", ["(%s, %s)" % (coq_str(l), coq_res(r)) for l, r in fam["b1"]])
        # B5: how many lines rdflib reads that the model rejects (reported, not required)
        rows5 = ["(%s, %s)" % (coq_str(l), coq_res(r)) for l, r in fam["b5"]]
        f.write("Definition b5_all := [\n  %s].\n" % ";\n  ".join(rows5))
        f.write("Definition b5_gap := length (filter (fun c => negb (is_some (shacl_parse_line (fst c))) && is_some (snd c)) b5_all).\n")
        f.write("Eval vm_compute in b5_gap.\n")
    print("writer cases: %d (shacl_line) + %d (shacl_line_raw)" % (len(wrows), len(rrows)))
    for k in ("b1", "b2", "b3", "b4", "b5"):
        n_some = sum(1 for _, r in fam[k] if r is not None)
        print("reader family %s: %d lines, rdflib reads the shape on %d, rejects / other graph on %d" % (k, len(fam[k]), n_some, len(fam[k]) - n_some))
    sys.stdout.flush()
    print("rdflib done, running coqc"); sys.stdout.flush()
    r = subprocess.run(["timeout", "1500", "coqc", "-Q", COQ, "Curies", "ValidateShaclText.v"], cwd=OUTDIR, capture_output=True, text=True)
    print(r.stdout[-2000:])
    print(r.stderr[-6000:])
    print("coqc exit code:", r.returncode)
    if r.returncode != 0:
        with open(os.path.join(OUTDIR, "ValidateShaclDiag.v"), "w") as f:
            f.write(PRELUDE % SEED)
            f.write("".join(DIAG))
        r2 = subprocess.run(["timeout", "1500", "coqc", "-Q", COQ, "Curies", "ValidateShaclDiag.v"], cwd=OUTDIR, capture_output=True, text=True)
        open(os.path.join(SCRATCH, "diag.out"), "w").write(r2.stdout + r2.stderr)
        print("mismatching rows written to diag.out")
    if r.returncode == 0:
        total = len(wrows) + len(rrows) + sum(len(fam[k]) for k in fam)
        print("ALL %d CASES AGREE (B5: soundness only)" % total)
    return r.returncode


if __name__ == "__main__":
    sys.exit(main())

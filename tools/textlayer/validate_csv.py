#!/venv/bin/python
"""Validate coq/model/Csv.v against the real csv module of CPython 3.12.

For a few thousand generated inputs (nasty alphabets: tab, quote, CR, LF, NUL, space, non-BMP, lone surrogate, other
Unicode line separators ...) run the real Python functions and emit Coq checks `model_function input = python result`
(grouped in `forallb ... = true` examples proved by vm_compute), then compile them with coqc.

  W   csv_write_row d fields            vs  csv.writer(StringIO(newline=""), delimiter=d).writerow(fields)
  WS  csv_write_rows d rows             vs  several writerow calls on the same file
  L   file_lines text                   vs  list(io.StringIO(text, newline=""))       (and a real file, newline="")
  R   csv_reader_lim lim d lines        vs  list(csv.reader(lines, delimiter=d)) with csv.field_size_limit(lim);
                                            csv.Error -> None
  T   csv_read_lim lim d text  and  csv_read_stream_lim lim d text
                                        vs  list(csv.reader(io.StringIO(text, newline=""), delimiter=d))
  RT  csv_read_lim lim d (csv_write_rows d rows)   vs  what Python reads back from what Python wrote
  BIG the same with fields around the 131072 limit (default csv_read / csv_reader)
A subset of W/L/T/RT is also run through real files opened with newline="" (Python-side assertion).
"""
import csv, io, os, random, subprocess, sys, tempfile

HERE = os.path.dirname(os.path.abspath(__file__))
VERIF = os.path.normpath(os.path.join(HERE, "..", ".."))
SCRATCH = os.path.join(VERIF, "_build", "textlayer", "csv")
os.makedirs(SCRATCH, exist_ok=True)
OUT = SCRATCH
os.makedirs(OUT, exist_ok=True)
rnd = random.Random(20261001)

NASTY = ["\t", '"', "\r", "\n", " ", ",", "a", "b", "x", "\x00", "\u00e9", "\U0001F600", "\u2028", "\x85", "\x0b",
         "\x0c", "\x1c", "\ud800", ":", ";", "|"]
HEAVY = ["\t", '"', "\r", "\n", "a", " "]
DELIMS_OK = ["\t"] * 8 + [",", " ", "a", "|", ";", ":", "\u00e9"]
DELIMS_BAD = ['"', "\r", "\n"]


def rstr(maxlen=6, alpha=None):
    alpha = alpha or (HEAVY if rnd.random() < 0.6 else NASTY)
    n = rnd.choice([0, 0, 1, 1, 2, 3, rnd.randint(0, maxlen)])
    return "".join(rnd.choice(alpha) for _ in range(n))


def rrow():
    n = rnd.choice([0, 1, 1, 2, 3, 3, rnd.randint(0, 5)])
    return [rstr() for _ in range(n)]


def rrows():
    return [rrow() for _ in range(rnd.choice([0, 1, 2, 3, rnd.randint(0, 6)]))]


def rdelim(bad_ok=True):
    if bad_ok and rnd.random() < 0.12:
        return rnd.choice(DELIMS_BAD)
    return rnd.choice(DELIMS_OK)


def rtext(maxlen=14):
    alpha = rnd.choice([HEAVY, HEAVY, ["\r", "\n", "a", '"'], ["\t", '"', "a"], NASTY])
    n = rnd.choice([0, 1, 2, 3, rnd.randint(0, maxlen), rnd.randint(0, maxlen)])
    return "".join(rnd.choice(alpha) for _ in range(n))


# ---------------------------------------------------------------- real Python
def py_write(d, rows):
    buf = io.StringIO(newline="")
    w = csv.writer(buf, delimiter=d)
    for r in rows:
        w.writerow(r)
    return buf.getvalue()


def py_reader(lim, d, lines):
    old = csv.field_size_limit(lim)
    try:
        return list(csv.reader(lines, delimiter=d))
    except csv.Error:
        return None
    finally:
        csv.field_size_limit(old)


def py_read(lim, d, text):
    return py_reader(lim, d, io.StringIO(text, newline=""))


def py_lines(text):
    return list(io.StringIO(text, newline=""))


TMP = tempfile.mkdtemp(dir=OUT)
nfile = 0


def via_file_write(d, rows):
    p = os.path.join(TMP, "w.tsv")
    with open(p, "w", newline="", encoding="utf-8", errors="surrogatepass") as f:
        w = csv.writer(f, delimiter=d)
        for r in rows:
            w.writerow(r)
    with open(p, "rb") as f:
        return f.read().decode("utf-8", errors="surrogatepass")


def via_file_read(lim, d, text):
    p = os.path.join(TMP, "r.tsv")
    with open(p, "wb") as f:
        f.write(text.encode("utf-8", errors="surrogatepass"))
    with open(p, "r", newline="", encoding="utf-8", errors="surrogatepass") as f:
        return py_reader(lim, d, f)


def via_file_lines(text):
    p = os.path.join(TMP, "l.tsv")
    with open(p, "wb") as f:
        f.write(text.encode("utf-8", errors="surrogatepass"))
    with open(p, "r", newline="", encoding="utf-8", errors="surrogatepass") as f:
        return list(f)


# ---------------------------------------------------------------- Coq syntax
def cchr(c):
    return "%d" % ord(c)


def cstr(s):
    if len(s) <= 1000:
        return "[" + ";".join(cchr(c) for c in s) + "]"
    # run-length: long runs become (repeat c n)
    parts, i = [], 0
    while i < len(s):
        j = i
        while j < len(s) and s[j] == s[i]:
            j += 1
        if j - i > 100:
            parts.append("repeat %d%%N (N.to_nat %d)" % (ord(s[i]), j - i))
        else:
            parts.append(cstr(s[i:j]))
        i = j
    return "(" + " ++ ".join(parts) + ")"


def clist(xs, f):
    return "[" + "; ".join(f(x) for x in xs) + "]"


def cstrs(xs):
    return clist(xs, cstr)


def crows(rows):
    return clist(rows, cstrs)


def copt_rows(r):
    return "None" if r is None else "(Some %s)" % crows(r)


PRELUDE = """From Curies.model Require Import Csv.
Local Open Scope N_scope.
Fixpoint leqb {A} (e : A -> A -> bool) (a b : list A) : bool :=
  match a, b with [] , [] => true | x :: a', y :: b' => e x y && leqb e a' b' | _, _ => false end.
Definition strs_eqb := leqb str_eqb.
Definition rows_eqb := leqb strs_eqb.
Definition orows_eqb (a b : option (list (list str))) : bool :=
  match a, b with None, None => true | Some x, Some y => rows_eqb x y | _, _ => false end.
Definition chkW (c : chr * list str * str) := let '(d, fs, t) := c in str_eqb (csv_write_row d fs) t.
Definition chkWS (c : chr * list (list str) * str) := let '(d, rs, t) := c in str_eqb (csv_write_rows d rs) t.
Definition chkL (c : str * list str) := let '(t, ls) := c in strs_eqb (file_lines t) ls.
Definition chkR (c : N * chr * list str * option (list (list str))) :=
  let '(lim, d, ls, r) := c in orows_eqb (csv_reader_lim lim d ls) r.
Definition chkT (c : N * chr * str * option (list (list str))) :=
  let '(lim, d, t, r) := c in orows_eqb (csv_read_lim lim d t) r && orows_eqb (csv_read_stream_lim lim d t) r.
Definition chkRT (c : N * chr * list (list str) * option (list (list str))) :=
  let '(lim, d, rs, r) := c in orows_eqb (csv_read_lim lim d (csv_write_rows d rs)) r.
"""

groups = {}  # name -> list of coq tuples
counts = {}


def add(kind, tup):
    groups.setdefault(kind, []).append(tup)
    counts[kind] = counts.get(kind, 0) + 1


filechecks = 0
roundtrip_ok = roundtrip_diff = 0

# ---- fixed corner cases
FIX_ROWS = [[], [""], ["", ""], ["a"], [" a"], ["a "], ["\t"], ['"'], ['""'], ["\r"], ["\n"], ["\r\n"], ["a\rb"],
            ['a"b', "c\td"], ["", "", ""], ["\x00"], ["a", "", "b"], ['"a"'], ["\n\r"], ["a\r"], ["\ra"], ["\ud800"],
            ["\U0001F600\t"], ["\u2028"], ["\x85"], ["p:i", "q:j", "r:k"], ["p:i\tq", 'q:"j"', "r:\r\nk"]]
FIX_TEXTS = ["", "a", "a\rb", "a\r\nb", "a\n\rb", "\r\r\n\n", 'a"b', '"a"b', '"a""b"c"d"', '"abc', '"a\r\n', "a\t",
             "\t", '"a"\r', '""', '"', 'x\t"', '"a\rb"\r\nc', "\r", "\n", "\r\n", "a\r\n", "a\n", "a\r", '"\r', '"\r\n"',
             '"a"\r\n', '"a"\rb', '""""', '"""', 'a""', '\t""\t', '"a"\t"b"', '"a" \tb', ' "a"', "a\t\tb\r\n\r\nc",
             '"\n"\n"\r"\r', "\x0b\x0c\x1c\u2028\x85", "a\x00b", '"a\r', '"a\r"', '"\r\n\r\n"\r\n']
FIX_LINES = [[], [""], ["", ""], ["a\rb"], ["a\n", "b"], ["a\r\n\r\n"], ["a\r\nb"], ['"a', 'b"'], ['"a\n', 'b"'], ["", "a"],
             ['"'], ['"', ""], ["\r"], ["a\r", "\n"], ["a", "b"], ["a\t", "b"], ['"a"', "b"], ['"a"\r', "\nb"],
             ["\n\n"], ["\r\r"], ["a\n\n"], ["\na"], ['"\na"'], ['a"', '"b'], ["a\t\n", ""], ['"a""', '"b"']]

for d in ["\t", ",", '"', "\r", "\n", " ", "a"]:
    for r in FIX_ROWS:
        add("W", "(%s, %s, %s)" % (cchr(d), cstrs(r), cstr(py_write(d, [r]))))
        assert via_file_write(d, [r]) == py_write(d, [r]); filechecks += 1
    for lim in [131072, 2]:
        for t in FIX_TEXTS:
            res = py_read(lim, d, t)
            assert via_file_read(lim, d, t) == res; filechecks += 1
            add("T", "(%d, %s, %s, %s)" % (lim, cchr(d), cstr(t), copt_rows(res)))
        for ls in FIX_LINES:
            add("R", "(%d, %s, %s, %s)" % (lim, cchr(d), cstrs(ls), copt_rows(py_reader(lim, d, ls))))
for t in FIX_TEXTS:
    assert via_file_lines(t) == py_lines(t); filechecks += 1
    add("L", "(%s, %s)" % (cstr(t), cstrs(py_lines(t))))

# ---- random cases
for i in range(900):
    d = rdelim(); r = rrow()
    add("W", "(%s, %s, %s)" % (cchr(d), cstrs(r), cstr(py_write(d, [r]))))
    if i % 5 == 0:
        assert via_file_write(d, [r]) == py_write(d, [r]); filechecks += 1
for i in range(400):
    d = rdelim(); rs = rrows()
    add("WS", "(%s, %s, %s)" % (cchr(d), crows(rs), cstr(py_write(d, rs))))
for i in range(700):
    t = rtext(20)
    add("L", "(%s, %s)" % (cstr(t), cstrs(py_lines(t))))
    if i % 5 == 0:
        assert via_file_lines(t) == py_lines(t); filechecks += 1
for i in range(900):
    d = rdelim(); lim = rnd.choice([131072, 131072, 131072, 0, 1, 2, 3])
    ls = [rtext(8) for _ in range(rnd.choice([0, 1, 1, 2, 3, 4]))]
    add("R", "(%d, %s, %s, %s)" % (lim, cchr(d), cstrs(ls), copt_rows(py_reader(lim, d, ls))))
for i in range(1500):
    d = rdelim(); lim = rnd.choice([131072, 131072, 131072, 0, 1, 2, 3])
    t = rtext(16)
    res = py_read(lim, d, t)
    add("T", "(%d, %s, %s, %s)" % (lim, cchr(d), cstr(t), copt_rows(res)))
    if i % 5 == 0:
        assert via_file_read(lim, d, t) == res; filechecks += 1
for i in range(1200):
    d = rdelim(); lim = rnd.choice([131072, 131072, 131072, 131072, 1, 2, 3])
    rs = rrows()
    res = py_read(lim, d, py_write(d, rs))
    if i % 5 == 0:
        assert via_file_read(lim, d, via_file_write(d, rs)) == res; filechecks += 1
    if res == rs:
        roundtrip_ok += 1
    else:
        roundtrip_diff += 1
        # the round trip may only fail for a bad delimiter or a field over the limit
        assert d in DELIMS_BAD or any(len(f) > lim for r in rs for f in r), (d, lim, rs, res)
    add("RT", "(%d, %s, %s, %s)" % (lim, cchr(d), crows(rs), copt_rows(res)))

# ---- around the default field limit (csv_read / csv_reader with the module default)
BIG = []
for n in [131071, 131072, 131073]:
    for ch in ["a", "\t", '"', "\n"]:
        rs = [["x", ch * n], ["y"]]
        text = py_write("\t", rs)
        res = py_read(131072, "\t", text)
        assert (res == rs) == (n <= 131072), (n, ch)
        BIG.append("orows_eqb (csv_read TAB (csv_write_rows TAB %s)) %s" % (crows(rs), copt_rows(res)))
        counts["BIG"] = counts.get("BIG", 0) + 1
    line = "a" * n + "\r\n"
    res = py_reader(131072, "\t", [line])
    BIG.append("orows_eqb (csv_reader TAB %s) %s" % (cstrs([line]), copt_rows(res)))
    counts["BIG"] = counts.get("BIG", 0) + 1
assert csv.field_size_limit() == 131072

# ---------------------------------------------------------------- emit + compile
CHUNK = 150
files = []
for kind, items in groups.items():
    path = os.path.join(OUT, "CsvVal_%s.v" % kind)
    with open(path, "w") as f:
        f.write(PRELUDE)
        for k in range(0, len(items), CHUNK):
            f.write("Example %s_%d : forallb chk%s\n [" % (kind, k // CHUNK, kind))
            f.write(";\n  ".join(items[k:k + CHUNK]))
            f.write("] = true.\nProof. vm_compute. reflexivity. Qed.\n")
    files.append(path)
path = os.path.join(OUT, "CsvVal_BIG.v")
with open(path, "w") as f:
    f.write(PRELUDE)
    for k, e in enumerate(BIG):
        f.write("Example BIG_%d : %s = true.\nProof. vm_compute. reflexivity. Qed.\n" % (k, e))
files.append(path)

ok = True
for path in files:
    p = subprocess.run(["timeout", "900", "coqc", "-Q", os.path.join(VERIF, "coq"), "Curies", "-Q", OUT, "CsvVal", path],
                       capture_output=True, text=True)
    status = "agree" if p.returncode == 0 else "DISAGREE / error"
    print("%-18s %s" % (os.path.basename(path), status))
    if p.returncode != 0:
        ok = False
        print(p.stdout[-3000:], p.stderr[-3000:])
total = sum(counts.values())
print("cases per kind:", counts, "total", total)
print("python-side real-file cross checks (newline=''):", filechecks)
print("python round trips: identical %d, different %d (all different ones have a bad delimiter or an over-limit field)"
      % (roundtrip_ok, roundtrip_diff))
print("RESULT:", "ALL %d CASES AGREE" % total if ok else "MISMATCH")
sys.exit(0 if ok else 1)

#!/bin/bash
# usage: process_seed.sh <worktree> <seed-id> <property> : confirm the seed in its worktree, store it, run the target quick check against the worktree
WT=$1; ID=$2; P=$3
cd "$(dirname "$0")/.."
tools/confirm_seed.sh $WT $ID $P 2>&1 | tail -2
tools/try_wt.sh $WT $P

#!/usr/bin/env python3
"""Developer tool: rewrites the seed table of DESIGN.md (between the MATRIX markers) from seeded/MATRIX.tsv and seeded/*/meta.json."""
import json, os, re
ROOT = os.path.dirname(os.path.dirname(os.path.abspath(__file__)))
DESC = {}
for d in sorted(os.listdir(os.path.join(ROOT, "seeded"))):
    p = os.path.join(ROOT, "seeded", d, "meta.json")
    if os.path.exists(p):
        DESC[d] = json.load(open(p))
rows = dict(l.rstrip("\n").split("\t") for l in open(os.path.join(ROOT, "seeded", "MATRIX.tsv")) if "\t" in l)
out = ["| seed | property | change (one line) | needs, to manifest | caught by (quick checks) |", "|---|---|---|---|---|"]
for sid in sorted(rows):
    m = DESC.get(sid, {})
    out.append(f"| {sid.split('_')[0]} | {m.get('property','?')} | {m.get('change','')} | {m.get('needs','')} | {rows[sid].strip() or '**none**'} |")
text = "\n".join(out)
p = os.path.join(ROOT, "DESIGN.md")
s = open(p).read()
if "<!-- MATRIX-BEGIN -->" in s:
    s = re.sub(r"<!-- MATRIX-BEGIN -->.*?<!-- MATRIX-END -->", lambda m: "<!-- MATRIX-BEGIN -->\n" + text + "\n<!-- MATRIX-END -->", s, flags=re.S)
else:
    s = s.replace("SEED_MATRIX_TABLE", "<!-- MATRIX-BEGIN -->\n" + text + "\n<!-- MATRIX-END -->")
open(p, "w").write(s)
print(len(rows), "rows")

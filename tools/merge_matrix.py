#!/usr/bin/env python3
"""Developer tool: merge the rows printed by tools/seed_matrix.sh (a log file) into seeded/MATRIX.tsv and the seeds' meta.json."""
import json, os, re, sys
ROOT = os.path.dirname(os.path.dirname(os.path.abspath(__file__)))
mt = os.path.join(ROOT, "seeded", "MATRIX.tsv")
rows = dict(l.rstrip("\n").split("\t") for l in open(mt) if "\t" in l)
new = 0
for l in open(sys.argv[1]):
    m = re.match(r"^(S\d+_C\d+_\S+)\t(.*)$", l.rstrip("\n"))
    if m and os.path.isdir(os.path.join(ROOT, "seeded", m.group(1))):
        rows[m.group(1)] = m.group(2)
        new += 1
        p = os.path.join(ROOT, "seeded", m.group(1), "meta.json")
        meta = json.load(open(p))
        meta["detected_by_quick_checks"] = m.group(2).split()
        json.dump(meta, open(p, "w"), indent=1)
        target = meta["property"]
        hits = [x for x in m.group(2).split() if x.startswith(target)]
        if not hits:
            print("TARGET MISSED:", m.group(1), m.group(2))
        elif all(x.endswith("(n)") for x in hits):
            print("target (n) only:", m.group(1), m.group(2))
with open(mt, "w") as f:
    for k in sorted(rows, key=lambda s: int(re.match(r"S(\d+)", s).group(1))):
        f.write(f"{k}\t{rows[k]}\n")
print(new, "rows merged,", len(rows), "rows in total")

#!/bin/bash
# usage: frag_try.sh <patch.diff> : which fragment obligations survive the patch? (scratch copy of /repo/src under /tmp, removed afterwards)
P=$(realpath "$1"); T=$(mktemp -d /tmp/fragtry.XXXX)
cp -r /repo/src $T/src
(cd $T && patch -s -p1 < "$P") || { echo "patch failed"; rm -rf $T; exit 2; }
cd "$(dirname "$0")/../coq"
exec 9>/verif/_build/lock; flock 9
/venv/bin/python ../translator/gen.py $T/src gen/Gen.v 2>&1 | grep frag_ | cut -c1-160
coqc -Q . Curies gen/Gen.v 2>&1 | tail -2
res=""
for g in base uri curie all std mixed shacl epm jsonld index merge rewire ctor triples init w3c; do
  if timeout 600 coqc -Q . Curies gen/FragObl_$g.v > /tmp/fragtry_$g.log 2>&1; then res="$res $g:ok"; else res="$res $g:BROKEN($(grep -o 'line [0-9]*' /tmp/fragtry_$g.log | head -1))"; fi
done
echo "$(basename $(dirname $P)):$res"
/venv/bin/python ../translator/gen.py /repo/src gen/Gen.v >/dev/null 2>&1
coqc -Q . Curies gen/Gen.v; for g in base uri curie all std mixed shacl epm jsonld index merge rewire ctor triples init w3c; do coqc -Q . Curies gen/FragObl_$g.v >/dev/null 2>&1 || echo "RESTORE FAILED $g"; done
rm -rf $T

#!/bin/bash
# usage: confirm_seed.sh <worktree> <seed-id> <property>
# Confirms a seeded change in its scratch worktree (suite unchanged, demo fails with / passes without), stores it under /verif/seeded/<seed-id>.
set -u
WT=$1; ID=$2; PROP=$3
cd "$WT" || exit 2
export PYTHONPATH="$WT/src"
git diff -- src > /tmp/seed_$ID.diff
[ -s /tmp/seed_$ID.diff ] || { echo "no source change in $WT"; exit 2; }
SUITE=$(/venv/bin/python -m pytest -q -p no:cacheprovider --timeout=900 --continue-on-collection-errors 2>&1 | tail -1)
/venv/bin/python _seed/demo.py > /tmp/seed_$ID.with 2>&1; RC_WITH=$?
git checkout -q -- src
/venv/bin/python _seed/demo.py > /tmp/seed_$ID.without 2>&1; RC_WITHOUT=$?
git apply /tmp/seed_$ID.diff
echo "suite: $SUITE"; echo "demo with change rc=$RC_WITH, without rc=$RC_WITHOUT"
mkdir -p /verif/seeded/$ID
cp /tmp/seed_$ID.diff /verif/seeded/$ID/patch.diff
cp _seed/demo.py /verif/seeded/$ID/demo.py
[ -f _seed/notes.md ] && cp _seed/notes.md /verif/seeded/$ID/notes.md
cat > /verif/seeded/$ID/meta.json <<JSON
{"id": "$ID", "property": "$PROP", "suite_with_change": "$SUITE", "demo_rc_with_change": $RC_WITH, "demo_rc_without_change": $RC_WITHOUT,
 "confirmed_by": "tools/confirm_seed.sh in scratch worktree $WT (pytest with the change; demo with and without the change)"}
JSON
rm -f /tmp/seed_$ID.diff /tmp/seed_$ID.with /tmp/seed_$ID.without

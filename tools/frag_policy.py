#!/venv/bin/python
"""Developer tool: for a patch to /repo/src, which source-tie groups are proved / inapplicable / broken under the policy of core.obligations
(scratch copy of the source under /tmp, removed afterwards).  usage: frag_policy.py <patch.diff> ..."""
import json, os, shutil, subprocess, sys, tempfile
ROOT = os.path.dirname(os.path.dirname(os.path.abspath(__file__)))
sys.path.insert(0, ROOT)
from harness.core import FRAG_GROUPS, FRAG_OF, FRAG_GENERIC
COQ = os.path.join(ROOT, "coq")

def sh(cmd, **kw):
    return subprocess.run(cmd, shell=True, capture_output=True, text=True, **kw)

def classify(src):
    sh(f"/venv/bin/python {ROOT}/translator/gen.py {src} {COQ}/gen/Gen.v")
    failed = json.load(open(f"{COQ}/gen/Gen.v.status.json"))
    sh(f"coqc -Q {COQ} Curies {COQ}/gen/Gen.v")
    out = {}
    order = list(FRAG_GROUPS)
    for g in order:
        fns, deps = FRAG_GROUPS[g]
        needed = [f for d in deps + [g] for f in FRAG_GROUPS[d][0]]
        if any(f"frag_{f}" in failed for f in needed):
            out[g] = "inapplicable"
            continue
        r = sh(f"timeout 900 coqc -Q {COQ} Curies {COQ}/gen/FragObl_{g}.v")
        out[g] = "proved" if r.returncode == 0 else ("BROKEN" if g in FRAG_GENERIC and not any(out.get(d) == "unproved" for d in deps) else "unproved")
    return out

lock = open(os.path.join(ROOT, "_build", "lock"), "w")
import fcntl
fcntl.flock(lock, fcntl.LOCK_EX)
try:
    for p in sys.argv[1:]:
        t = tempfile.mkdtemp(prefix="fragpol.", dir="/tmp")
        shutil.copytree("/repo/src", t + "/src")
        r = sh(f"patch -s -p1 < {os.path.abspath(p)}", cwd=t)
        if r.returncode != 0:
            print(p, "patch failed"); shutil.rmtree(t); continue
        res = classify(t + "/src")
        shutil.rmtree(t)
        props = {pid: sorted({res[g] for g in gs} - {"proved"}) for pid, gs in FRAG_OF.items()}
        alarms = [pid for pid, v in props.items() if "BROKEN" in v]
        print(os.path.basename(os.path.dirname(os.path.abspath(p))), "broken:", [g for g, v in res.items() if v == "BROKEN"], "unproved:", [g for g, v in res.items() if v == "unproved"], "inapplicable:", [g for g, v in res.items() if v == "inapplicable"], "=> (n) alarms on", alarms or "none")
finally:
    classify("/repo/src")

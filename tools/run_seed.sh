#!/bin/bash
# usage: run_seed.sh <seed-id> <check>...   applies the seeded patch to /repo, runs the checks, restores /repo
ID=$1; shift
cd /verif
git -C /repo apply /verif/seeded/$ID/patch.diff || { echo "patch does not apply"; exit 2; }
for c in "$@"; do
  ./check $c quick > /tmp/run_seed_$ID_$c.out 2>&1; rc=$?
  echo "== $ID / $c: rc=$rc"; grep -E "VIOLATION|KNOWN-FINDING|quick:" /tmp/run_seed_$ID_$c.out | cut -c1-220
  rm -f /tmp/run_seed_$ID_$c.out
done
git -C /repo checkout -- .
git -C /repo status --short | head -3

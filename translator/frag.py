"""Fail-closed translation of the bodies of Converter's query methods (and _split) into terms of coq/model/PyFrag.v.

Every construct that is not listed here raises Unsupported for THAT function only: its table entry becomes `untranslated`
(which is stuck on every call), so exactly the obligations about it and about its callers stop holding.
"""
from __future__ import annotations

import ast
from pathlib import Path


class Unsupported(Exception):
    pass


# (qualified name in api.py, is a method) in table order: callees before callers is not required (calls go through the table)
FUNCTIONS = [
    "_split", "Converter.format_curie", "Converter.standardize_prefix", "Converter.parse_uri", "Converter.compress",
    "Converter.is_uri", "Converter.standardize_identifier", "Converter.parse_curie", "Converter.expand_reference",
    "Converter.expand_pair", "Converter.expand", "Converter.is_curie", "Converter.get_record", "Converter.expand_pair_all",
    "Converter.expand_all", "Converter.parse", "Converter.compress_or_standardize", "Converter.expand_or_standardize",
    "Converter.standardize_curie", "Converter.standardize_uri", "Converter.compress_strict", "Converter.expand_strict",
    "_get_shacl_line", "_record_to_dict", "_get_expanded_term", "_get_jsonld_context",
    "Converter._index", "Converter._merge",
    "reconciliation:_get_curie_preferred_or_synonym", "reconciliation:_get_uri_preferred_or_synonym",
    "reconciliation:rewire", "reconciliation:remap_uri_prefixes",
    "_get_prefix_map", "_get_reverse_prefix_map", "_get_prefix_synmap",
    "mapping_service/api:MappingServiceGraph._expand_pair_all", "mapping_service/api:MappingServiceGraph.triples",
    "w3c:is_w3c_prefix", "w3c:_is_w3c_luid", "w3c:is_w3c_curie",
    "Converter.__init__",
]
SHORT = [q.rpartition(":")[2].rpartition(".")[2] for q in FUNCTIONS]
MODULE = {s_: (q.partition(":")[0] if ":" in q else "api") for q, s_ in zip(FUNCTIONS, SHORT)}
IS_METHOD = {s_: "." in q.rpartition(":")[2] for q, s_ in zip(FUNCTIONS, SHORT)}
# methods of the mapping service's graph: `self` is the graph, its converter is `self.converter`
IS_GRAPH = {s_: q.rpartition(":")[2].startswith("MappingServiceGraph.") for q, s_ in zip(FUNCTIONS, SHORT)}
INDEX = {n: i for i, n in enumerate(SHORT)}

ERR = {
    "NoCURIEDelimiterError": "ENoCURIEDelimiter", "ExpansionError": "EExpansion", "CompressionError": "ECompression",
    "PrefixStandardizationError": "EPrefixStd", "IdentifierStandardizationError": "EIdentifierStd",
    "CURIEStandardizationError": "ECURIEStd", "URIStandardizationError": "EURIStd",
    "TransitiveError": "ETransitive", "DuplicateURIPrefixes": "EDuplicateURIPrefixes", "DuplicatePrefixes": "EDuplicatePrefixes",
    "KeyError": "EKeyError", "ValueError": "EValueError", "TypeError": "ETypeError", "IndexError": "EIndexError",
}
RE_NAMES = {"NCNAME_RE": 0, "LOCAL_UNIQUE_IDENTIFIER_RE": 1}
RE_METHODS = {"fullmatch": 0, "match": 1}
SATTR = {"delimiter": "SaDelimiter", "records": "SaRecords", "prefix_map": "SaPrefixMap", "synonym_to_prefix": "SaSynonymToPrefix",
         "reverse_prefix_map": "SaReversePrefixMap", "trie": "SaTrie", "pattern_map": "SaPatternMap"}
ORACLES = {"_get_duplicate_uri_prefixes": "f_oracle_dup_uri_prefixes", "_get_duplicate_prefixes": "f_oracle_dup_prefixes",
           "_get_pattern_map": "f_oracle_pattern_map"}
SDICT = {"prefix_map": "DPrefixMap", "synonym_to_prefix": "DSynonymToPrefix", "reverse_prefix_map": "DReversePrefixMap",
         "pattern_map": "DPatternMap"}
ATTR = {"_all_prefixes": "AAllPrefixes", "_all_uri_prefixes": "AAllUriPrefixes", "prefix": "APrefix", "identifier": "AIdentifier", "uri_prefix": "AUriPrefix", "prefix_synonyms": "APrefixSynonyms",
        "uri_prefix_synonyms": "AUriPrefixSynonyms", "pattern": "APattern"}


def coq_str(s: str) -> str:
    return "[" + "; ".join(str(ord(c)) for c in s) + "]%N"


def find_function(tree: ast.Module, qual: str) -> ast.FunctionDef:
    owner, _, name = qual.rpartition(".")
    body = tree.body
    if owner:
        cls = [n for n in tree.body if isinstance(n, ast.ClassDef) and n.name == owner]
        if len(cls) != 1:
            raise Unsupported(f"class {owner}")
        body = cls[0].body
    fns = [n for n in body if isinstance(n, ast.FunctionDef) and n.name == name
           and not any((isinstance(d, ast.Name) and d.id == "overload") or (isinstance(d, ast.Attribute) and d.attr == "overload")
                       for d in n.decorator_list)]
    if len(fns) != 1:
        raise Unsupported(f"function {qual}: {len(fns)} definitions")
    fn = fns[0]
    for d in fn.decorator_list:
        if not (isinstance(d, ast.Name) and d.id == "staticmethod"):
            raise Unsupported(f"decorator on {qual}")
    return fn


def class_bases(tree: ast.Module) -> dict[str, list[str]]:
    out = {}
    for n in tree.body:
        if isinstance(n, ast.ClassDef):
            out[n.name] = [b.id for b in n.bases if isinstance(b, ast.Name)]
    return out


def subclasses_in_err(bases: dict[str, list[str]], root: str) -> list[str]:
    """The error constructors a handler `except root:` catches: root itself and every class of the module deriving from it."""
    def derives(name, seen=()):
        if name == root:
            return True
        if name in seen:
            return False
        return any(derives(b, seen + (name,)) for b in bases.get(name, []))
    caught = [ERR[n] for n in ERR if n == root or (n in bases and derives(n))]
    return list(dict.fromkeys(caught))


def converter_param(fn: ast.FunctionDef):
    """A module-level function whose first parameter is annotated `Converter` reads the converter's state through it."""
    a = fn.args.args
    if a and isinstance(a[0].annotation, ast.Name) and a[0].annotation.id == "Converter":
        return a[0].arg
    return None


class Signature:
    def __init__(self, fn: ast.FunctionDef, is_method: bool):
        a = fn.args
        if a.vararg or a.kwarg or a.posonlyargs:
            raise Unsupported(f"signature of {fn.name}")
        pos = [x.arg for x in a.args]
        self.self_name = None
        if is_method and any(isinstance(d, ast.Name) and d.id == "staticmethod" for d in fn.decorator_list):
            pass
        elif is_method:
            if not pos or pos[0] != "self":
                raise Unsupported(f"{fn.name}: first parameter is not self")
            self.self_name = "self"
            pos = pos[1:]
        elif converter_param(fn):
            self.self_name = converter_param(fn)
            pos = pos[1:]
        npos_defaults = len(a.defaults)
        self.params = pos + [x.arg for x in a.kwonlyargs]
        self.npos = len(pos)
        self.defaults: dict[str, ast.expr] = {}
        for name, d in zip(pos[len(pos) - npos_defaults:], a.defaults):
            self.defaults[name] = d
        for x, d in zip(a.kwonlyargs, a.kw_defaults):
            if d is not None:
                self.defaults[x.arg] = d


class FnTranslator:
    def __init__(self, fn: ast.FunctionDef, sigs: dict[str, Signature], bases, is_method: bool):
        self.fn, self.sigs, self.bases, self.is_method = fn, sigs, bases, is_method
        self.sig = sigs[fn.name]
        self.graph = IS_GRAPH.get(fn.name, False)
        self.vars: dict[str, int] = {p: i for i, p in enumerate(self.sig.params)}
        self.out_var = None

    def var(self, name: str, create=False) -> int:
        if name not in self.vars:
            if not create:
                raise Unsupported(f"{self.fn.name}: name {name}")
            self.vars[name] = len(self.vars)
        return self.vars[name]

    # ------------------------------------------------------------ expressions
    def exps(self, items: list[str]) -> str:
        out = "XNil"
        for it in reversed(items):
            out = f"(XCons {it} {out})"
        return out

    def const(self, v) -> str:
        if v is None:
            return "ENone"
        if v is True or v is False:
            return f"(EBool {'true' if v else 'false'})"
        if isinstance(v, str):
            return f"(EStr {coq_str(v)})"
        if isinstance(v, int) and v >= 0:
            return f"(EInt {v}%N)"
        raise Unsupported(f"constant {v!r}")

    def is_self(self, n) -> bool:
        """n denotes the converter whose state the function reads: `self` (or the converter parameter); `self.converter` in a graph method"""
        if self.graph:
            return isinstance(n, ast.Attribute) and isinstance(n.value, ast.Name) and n.value.id == "self" and n.attr == "converter"
        return self.sig.self_name is not None and isinstance(n, ast.Name) and n.id == self.sig.self_name

    def is_graph_self(self, n) -> bool:
        return self.graph and isinstance(n, ast.Name) and n.id == "self"

    def exp(self, n: ast.expr) -> str:
        if isinstance(n, ast.Constant):
            return self.const(n.value)
        if isinstance(n, ast.Name):
            if n.id == self.sig.self_name:
                raise Unsupported("the converter itself used as a value")
            return f"(EVar {self.var(n.id)})"
        if isinstance(n, ast.Attribute):
            if self.is_graph_self(n.value):
                if n.attr == "query_predicates":
                    return "(ECall f_oracle_query_predicates XNil)"
                raise Unsupported(f"self.{n.attr} of the graph")
            if self.is_self(n.value):
                if n.attr == "delimiter":
                    return "ESelfDelim"
                if n.attr == "records":
                    return "ESelfRecords"
                if n.attr in SDICT:
                    return f"(ESelfDict {SDICT[n.attr]})"
                raise Unsupported(f"self.{n.attr}")
            if n.attr in ATTR:
                return f"(EAttr {self.exp(n.value)} {ATTR[n.attr]})"
            raise Unsupported(f"attribute .{n.attr}")
        if isinstance(n, ast.Call):
            return self.call(n)
        if isinstance(n, ast.Subscript):
            v, s = n.value, n.slice
            if isinstance(v, ast.Attribute) and self.is_self(v.value) and v.attr in SDICT and not isinstance(s, ast.Slice):
                return f"(EDictIdx {SDICT[v.attr]} {self.exp(s)})"
            if isinstance(v, ast.Name) and v.id in self.vars and not isinstance(s, ast.Slice):
                return f"(ESubscr {self.exp(v)} {self.exp(s)})"
            if isinstance(s, ast.Slice) and s.upper is None and s.step is None and isinstance(s.lower, ast.Call) \
                    and isinstance(s.lower.func, ast.Name) and s.lower.func.id == "len" and len(s.lower.args) == 1 and not s.lower.keywords:
                return f"(ESkipLen {self.exp(v)} {self.exp(s.lower.args[0])})"
            raise Unsupported("subscript " + ast.unparse(n))
        if isinstance(n, ast.BinOp) and isinstance(n.op, ast.Add):
            return f"(EAdd {self.exp(n.left)} {self.exp(n.right)})"
        if isinstance(n, ast.Compare) and len(n.ops) == 1:
            op, a, b = n.ops[0], n.left, n.comparators[0]
            b_none = isinstance(b, ast.Constant) and b.value is None
            if isinstance(op, ast.Is) and b_none:
                return f"(EIsNone {self.exp(a)})"
            if isinstance(op, ast.IsNot) and b_none:
                return f"(EIsNotNone {self.exp(a)})"
            if isinstance(op, (ast.Lt, ast.LtE, ast.Gt, ast.GtE)):
                name = {ast.Lt: "CLt", ast.LtE: "CLe", ast.Gt: "CGt", ast.GtE: "CGe"}[type(op)]
                return f"(ECmp {name} {self.exp(a)} {self.exp(b)})"
            if isinstance(op, ast.Eq):
                return f"(EEq {self.exp(a)} {self.exp(b)})"
            if isinstance(op, ast.NotEq):
                return f"(ENot (EEq {self.exp(a)} {self.exp(b)}))"
            if isinstance(op, (ast.In, ast.NotIn)) and isinstance(b, ast.Attribute) and self.is_self(b.value) and b.attr in SDICT:
                has = f"(EDictHas {SDICT[b.attr]} {self.exp(a)})"
                return has if isinstance(op, ast.In) else f"(ENot {has})"
            if isinstance(op, ast.In):
                return f"(EIn {self.exp(a)} {self.exp(b)})"
            if isinstance(op, ast.NotIn):
                return f"(ENot (EIn {self.exp(a)} {self.exp(b)}))"
            raise Unsupported("comparison " + ast.unparse(n))
        if isinstance(n, ast.BoolOp):
            ctor = "EOr" if isinstance(n.op, ast.Or) else "EAnd"
            vals = [self.exp(v) for v in n.values]
            out = vals[-1]
            for v in reversed(vals[:-1]):
                out = f"({ctor} {v} {out})"
            return out
        if isinstance(n, ast.UnaryOp) and isinstance(n.op, ast.Not):
            return f"(ENot {self.exp(n.operand)})"
        if isinstance(n, ast.Dict):
            if not all(isinstance(k, ast.Constant) and isinstance(k.value, str) for k in n.keys):
                raise Unsupported("dict literal with non-constant keys")
            keys = "; ".join(coq_str(k.value) for k in n.keys)
            return f"(EDictLit [{keys}] {self.exps([self.exp(v) for v in n.values])})"
        if isinstance(n, ast.ListComp) and len(n.generators) == 1:
            g = n.generators[0]
            # [URIRef(x) for x in L if _is_valid_uri(x)]: URIRef is a str subclass (the same text); the filter is an oracle
            if isinstance(g.target, ast.Name) and not g.is_async and len(g.ifs) == 1 and isinstance(g.ifs[0], ast.Call) \
                    and isinstance(g.ifs[0].func, ast.Name) and g.ifs[0].func.id == "_is_valid_uri" and len(g.ifs[0].args) == 1 \
                    and isinstance(g.ifs[0].args[0], ast.Name) and g.ifs[0].args[0].id == g.target.id and not g.ifs[0].keywords:
                e = n.elt
                if isinstance(e, ast.Call) and isinstance(e.func, ast.Name) and e.func.id == "URIRef" and len(e.args) == 1 and not e.keywords:
                    e = e.args[0]
                if isinstance(e, ast.Name) and e.id == g.target.id:
                    return f"(EFilter f_oracle_is_valid_uri {self.exp(g.iter)})"
            raise Unsupported("list comprehension " + ast.unparse(n)[:60])
        if isinstance(n, ast.IfExp):
            return f"(EIfExp {self.exp(n.test)} {self.exp(n.body)} {self.exp(n.orelse)})"
        if isinstance(n, ast.Tuple):
            return f"(ETuple {self.exps([self.exp(e) for e in n.elts])})"
        if isinstance(n, ast.List):
            return f"(EListLit {self.exps([self.exp(e) for e in n.elts])})"
        if isinstance(n, ast.JoinedStr):
            parts = []
            for v in n.values:
                if isinstance(v, ast.Constant) and isinstance(v.value, str):
                    parts.append(self.const(v.value))
                elif isinstance(v, ast.FormattedValue) and v.conversion == -1 and v.format_spec is None:
                    parts.append(self.exp(v.value))
                else:
                    raise Unsupported("f-string part")
            return f"(EFmt {self.exps(parts)})"
        raise Unsupported("expression " + ast.unparse(n)[:60])

    def call_args(self, callee: str, n: ast.Call) -> str:
        sig = self.sigs[callee]
        if any(isinstance(a, ast.Starred) for a in n.args):
            if n.keywords:
                raise Unsupported("starred argument together with keywords")
            return self.exps([f"(EStar {self.exp(a.value)})" if isinstance(a, ast.Starred) else self.exp(a) for a in n.args])
        if len(n.args) > sig.npos:
            raise Unsupported(f"too many positional arguments for {callee}")
        given: dict[str, str] = {}
        for p, a in zip(sig.params, n.args):
            given[p] = self.exp(a)
        for kw in n.keywords:
            if kw.arg is None or kw.arg not in sig.params or kw.arg in given:
                raise Unsupported(f"keyword {kw.arg} for {callee}")
            given[kw.arg] = self.exp(kw.value)
        items = []
        for p in sig.params:
            if p in given:
                items.append(given[p])
            elif p in sig.defaults and isinstance(sig.defaults[p], ast.Constant):
                items.append(self.const(sig.defaults[p].value))
            else:
                raise Unsupported(f"missing argument {p} for {callee}")
        return self.exps(items)

    def set_update(self, n: ast.expr):
        """set(L).union({A}).difference({B, ...})  (the argument of sorted): None if n has another shape"""
        def meth(x, name):
            return isinstance(x, ast.Call) and isinstance(x.func, ast.Attribute) and x.func.attr == name and len(x.args) == 1 and not x.keywords
        if not meth(n, "difference") or not meth(n.func.value, "union"):
            return None
        rm, un, base = n.args[0], n.func.value.args[0], n.func.value.func.value
        if not (isinstance(rm, ast.Set) and isinstance(un, ast.Set) and len(un.elts) == 1 and isinstance(base, ast.Call)
                and isinstance(base.func, ast.Name) and base.func.id == "set" and len(base.args) == 1 and not base.keywords):
            return None
        return f"(ESetUpd {self.exp(base.args[0])} {self.exp(un.elts[0])} {self.exps([self.exp(e) for e in rm.elts])})"

    def call(self, n: ast.Call) -> str:
        f = n.func
        if isinstance(f, ast.Name):
            if f.id in INDEX and not IS_METHOD[f.id]:
                if self.sigs[f.id].self_name is not None:
                    if not (n.args and self.is_self(n.args[0])):
                        raise Unsupported(f"{f.id} called on another converter")
                    n = ast.Call(func=n.func, args=n.args[1:], keywords=n.keywords)
                return f"(ECall f_{f.id} {self.call_args(f.id, n)})"
            if f.id in ORACLES and len(n.args) == 1 and not n.keywords:
                return f"(ECall {ORACLES[f.id]} {self.exps([self.exp(n.args[0])])})"
            if f.id == "StringTrie" and len(n.args) == 1 and not n.keywords:
                return f"(ETrieOf {self.exp(n.args[0])})"
            if f.id == "sorted" and len(n.args) == 1 and len(n.keywords) == 1 and n.keywords[0].arg == "key":
                k = n.keywords[0].value
                if isinstance(k, ast.Lambda) and len(k.args.args) == 1 and isinstance(k.body, ast.Attribute) and isinstance(k.body.value, ast.Name) \
                        and k.body.value.id == k.args.args[0].arg and k.body.attr == "prefix":
                    return f"(ESortedByPrefix {self.exp(n.args[0])})"
                raise Unsupported("sorted with another key")
            if f.id == "bool" and len(n.args) == 1 and not n.keywords:
                return f"(ENot (ENot {self.exp(n.args[0])}))"
            if f.id == "len" and len(n.args) == 1 and not n.keywords:
                return f"(ELen {self.exp(n.args[0])})"
            if f.id == "sorted" and len(n.args) == 1 and not n.keywords:
                upd = self.set_update(n.args[0])
                return upd if upd is not None else f"(ESorted {self.exp(n.args[0])})"
            if f.id == "Converter" and len(n.args) == 1 and not n.keywords and not isinstance(n.args[0], ast.Starred):
                return f"(ENewConv {self.exp(n.args[0])})"
            if f.id == "ReferenceTuple" and len(n.args) == 2 and not n.keywords and not any(isinstance(a, ast.Starred) for a in n.args):
                return f"(ETuple {self.exps([self.exp(a) for a in n.args])})"
            raise Unsupported(f"call of {f.id}")
        if isinstance(f, ast.Attribute):
            recv = f.value
            if self.is_graph_self(recv):
                if f.attr in INDEX and IS_GRAPH[f.attr]:
                    return f"(ECall f_{f.attr} {self.call_args(f.attr, n)})"
                raise Unsupported(f"self.{f.attr}(...) of the graph")
            if self.is_self(recv):
                if f.attr in INDEX and IS_METHOD[f.attr] and not IS_GRAPH[f.attr]:
                    return f"(ECall f_{f.attr} {self.call_args(f.attr, n)})"
                raise Unsupported(f"self.{f.attr}(...)")
            if isinstance(recv, ast.Attribute) and self.is_self(recv.value):
                if recv.attr in SDICT and f.attr == "get" and len(n.args) == 1 and not n.keywords:
                    return f"(EDictGet {SDICT[recv.attr]} {self.exp(n.args[0])})"
                if recv.attr == "trie" and f.attr == "longest_prefix_item" and len(n.args) == 1 and not n.keywords:
                    return f"(ETrieLPI {self.exp(n.args[0])})"
                raise Unsupported(f"self.{recv.attr}.{f.attr}(...)")
            if isinstance(recv, ast.Name) and recv.id in ("itt", "itertools") and f.attr == "product" and not n.keywords and len(n.args) == 2 \
                    and not any(isinstance(a, ast.Starred) for a in n.args):
                return f"(EProduct {self.exp(n.args[0])} {self.exp(n.args[1])})"
            if isinstance(recv, ast.Name) and recv.id in ("itt", "itertools") and f.attr == "chain" and not n.keywords \
                    and not any(isinstance(a, ast.Starred) for a in n.args):
                return f"(EChain {self.exps([self.exp(a) for a in n.args])})"
            if f.attr == "intersection" and len(n.args) == 1 and not n.keywords and isinstance(recv, ast.Call) and isinstance(recv.func, ast.Name) \
                    and recv.func.id == "set" and len(recv.args) == 1 and isinstance(recv.args[0], ast.Name) \
                    and isinstance(n.args[0], ast.Call) and isinstance(n.args[0].func, ast.Attribute) and n.args[0].func.attr == "values" \
                    and not n.args[0].args and isinstance(n.args[0].func.value, ast.Name) and n.args[0].func.value.id == recv.args[0].id:
                return f"(EKeysInterValues {self.exp(recv.args[0])})"
            if isinstance(recv, ast.Name) and recv.id in RE_NAMES and f.attr in RE_METHODS and len(n.args) == 1 and not n.keywords:
                return f"(ECall (f_oracle_re {RE_NAMES[recv.id]} {RE_METHODS[f.attr]}) {self.exps([self.exp(n.args[0])])})"
            if f.attr == "strip" and not n.args and not n.keywords:
                return f"(ECall f_oracle_strip {self.exps([self.exp(recv)])})"
            if f.attr in ("startswith", "endswith") and len(n.args) == 1 and not n.keywords:
                return f"({'EStartsWith' if f.attr == 'startswith' else 'EEndsWith'} {self.exp(recv)} {self.exp(n.args[0])})"
            if f.attr == "partition" and len(n.args) == 1 and not n.keywords:
                return f"(EPartition {self.exp(recv)} {self.exp(n.args[0])})"
            if f.attr == "replace" and len(n.args) == 2 and not n.keywords and all(isinstance(a, ast.Constant) and isinstance(a.value, str) for a in n.args) \
                    and len(n.args[0].value) == 1:
                return f"(EReplace1 {self.exp(recv)} {ord(n.args[0].value)}%N {coq_str(n.args[1].value)})"
            raise Unsupported(f"method call .{f.attr}(...)")
        raise Unsupported("call " + ast.unparse(n)[:60])

    # ------------------------------------------------------------ statements
    def block(self, stmts: list[ast.stmt]) -> str:
        items = [x for x in (self.stmt(s) for s in stmts) if x is not None]
        out = "BNil"
        for it in reversed(items):
            out = f"(BCons {it} {out})"
        return out

    def err_of(self, n: ast.expr) -> str:
        if isinstance(n, ast.Call) and isinstance(n.func, ast.Name):
            n = n.func
        if isinstance(n, ast.Name) and n.id in ERR:
            return ERR[n.id]
        raise Unsupported("exception " + ast.unparse(n)[:40])

    def stmt(self, s: ast.stmt):
        if isinstance(s, ast.Expr) and isinstance(s.value, ast.Yield) and s.value.value is not None:
            # a generator is read as the list of what it yields (its consumers exhaust it): yield e appends to a hidden local
            return f"(SAppend {self.out_var} {self.exp(s.value.value)})"
        if isinstance(s, ast.Expr):
            v = s.value
            if isinstance(v, ast.Constant) and isinstance(v.value, str):
                return None                                                  # docstring
            if isinstance(v, ast.Call) and isinstance(v.func, ast.Attribute):
                f = v.func
                if isinstance(f.value, ast.Name) and f.value.id == "warnings" and f.attr == "warn":
                    return "SPass"
                if isinstance(f.value, ast.Name) and f.value.id == "logger" and f.attr in ("debug", "info", "warning"):
                    return "SPass"
                if isinstance(f.value, ast.Name) and f.value.id in self.vars and f.attr == "append" and len(v.args) == 1 and not v.keywords:
                    return f"(SAppend {self.var(f.value.id)} {self.exp(v.args[0])})"
                if isinstance(f.value, ast.Attribute) and isinstance(f.value.value, ast.Name) and f.value.value.id in self.vars \
                        and f.value.attr in ("prefix_synonyms", "uri_prefix_synonyms") and not v.keywords:
                    x, a = self.var(f.value.value.id), ATTR[f.value.attr]
                    if f.attr == "append" and len(v.args) == 1:
                        return f"(SRecAppend {x} {a} {self.exp(v.args[0])})"
                    if f.attr == "sort" and not v.args:
                        return f"(SRecSort {x} {a})"
            raise Unsupported("expression statement " + ast.unparse(s)[:60])
        if isinstance(s, ast.Pass):
            return "SPass"
        if isinstance(s, ast.Assign) and len(s.targets) == 1:
            t = s.targets[0]
            if isinstance(t, ast.Name) and t.id == self.sig.self_name:
                # converter = _copy_converter(converter): a deep copy -- the same value; what it protects (the caller's records
                # against the writes below) is property C10's business and is checked there on the running code
                v = s.value
                if isinstance(v, ast.Call) and isinstance(v.func, ast.Name) and v.func.id == "_copy_converter" and len(v.args) == 1 \
                        and not v.keywords and self.is_self(v.args[0]):
                    return "SPass"
                raise Unsupported("the converter parameter is rebound")
            if isinstance(t, ast.Attribute) and self.is_self(t.value) and t.attr in SATTR:
                return f"(SSelfAttr {SATTR[t.attr]} {self.exp(s.value)})"
            if isinstance(t, ast.Attribute) and isinstance(t.value, ast.Name) and t.value.id in self.vars and t.attr in ATTR:
                return f"(SRecSet {self.var(t.value.id)} {ATTR[t.attr]} {self.exp(s.value)})"
            if isinstance(t, ast.Name):
                e = self.exp(s.value)
                return f"(SAssign {self.var(t.id, create=True)} {e})"
            if isinstance(t, ast.Subscript) and isinstance(t.value, ast.Attribute) and self.is_self(t.value.value) and not isinstance(t.slice, ast.Slice):
                if t.value.attr in SDICT:
                    return f"(SSelfSet {SDICT[t.value.attr]} {self.exp(t.slice)} {self.exp(s.value)})"
                if t.value.attr == "trie":
                    return f"(STrieSet {self.exp(t.slice)} {self.exp(s.value)})"
                raise Unsupported(f"assignment into self.{t.value.attr}[...]")
            if isinstance(t, ast.Subscript) and isinstance(t.value, ast.Name) and t.value.id in self.vars and not isinstance(t.slice, ast.Slice):
                return f"(SSetItem {self.var(t.value.id)} {self.exp(t.slice)} {self.exp(s.value)})"
            if isinstance(t, ast.Tuple) and all(isinstance(x, ast.Name) for x in t.elts):
                e = self.exp(s.value)
                ids = "; ".join(str(self.var(x.id, create=True)) for x in t.elts)
                return f"(SUnpack [{ids}] {e})"
            raise Unsupported("assignment target " + ast.unparse(t))
        if isinstance(s, ast.AugAssign) and isinstance(s.target, ast.Name) and isinstance(s.op, ast.Add):
            x = self.var(s.target.id)
            return f"(SAssign {x} (EAdd (EVar {x}) {self.exp(s.value)}))"
        if isinstance(s, ast.AnnAssign) and isinstance(s.target, ast.Name) and s.value is not None:
            e = self.exp(s.value)
            return f"(SAssign {self.var(s.target.id, create=True)} {e})"
        if isinstance(s, ast.If):
            return f"(SIf {self.exp(s.test)} {self.block(s.body)} {self.block(s.orelse)})"
        if isinstance(s, ast.Return):
            return f"(SReturn {self.exp(s.value) if s.value is not None else 'ENone'})"
        if isinstance(s, ast.Raise):
            if s.exc is None:
                return "SReraise"
            if s.cause is not None and not (isinstance(s.cause, ast.Constant) and s.cause.value is None):
                raise Unsupported("raise ... from <exception>")
            return f"(SRaise {self.err_of(s.exc)})"
        if isinstance(s, ast.Try):
            if s.finalbody or len(s.handlers) != 1:
                raise Unsupported("try with finally / several handlers")
            h = s.handlers[0]
            if h.name is not None or not isinstance(h.type, ast.Name):
                raise Unsupported("except clause " + ast.unparse(h)[:40])
            if h.type.id not in ERR and h.type.id not in self.bases:
                raise Unsupported(f"except {h.type.id}")
            caught = subclasses_in_err(self.bases, h.type.id)
            return f"(STry {self.block(s.body)} [{'; '.join(caught)}] {self.block(h.body)} {self.block(s.orelse)})"
        if isinstance(s, ast.For) and not s.orelse and isinstance(s.target, ast.Tuple) and all(isinstance(x, ast.Name) for x in s.target.elts):
            it = self.exp(s.iter)
            ids = "; ".join(str(self.var(x.id, create=True)) for x in s.target.elts)
            return f"(SForUnpack [{ids}] {it} {self.block(s.body)})"
        if isinstance(s, ast.For):
            if s.orelse or not isinstance(s.target, ast.Name):
                raise Unsupported("for with else / structured target")
            it = self.exp(s.iter)
            x = self.var(s.target.id, create=True)
            return f"(SFor {x} {it} {self.block(s.body)})"
        raise Unsupported("statement " + ast.unparse(s)[:60])

    def translate(self) -> str:
        is_gen = any(isinstance(x, (ast.Yield, ast.YieldFrom)) for x in ast.walk(self.fn))
        if is_gen:
            if any(isinstance(x, (ast.Return, ast.YieldFrom)) for x in ast.walk(self.fn)):
                raise Unsupported("generator with return / yield from")
            self.out_var = self.var("<yielded>", create=True)
            body = f"(BCons (SAssign {self.out_var} (EListLit XNil)) {self.block(self.fn.body + [ast.Return(value=ast.Name(id='<yielded>', ctx=ast.Load()))])})"
            nparams = len(self.sig.params)
            return f"{{| fn_nparams := {nparams}; fn_nlocals := {len(self.vars) - nparams}; fn_body := {body} |}}"
        body = self.block(self.fn.body)
        nparams = len(self.sig.params)
        return f"{{| fn_nparams := {nparams}; fn_nlocals := {len(self.vars) - nparams}; fn_body := {body} |}}"


def gen_frag(src: Path, out: list[str]) -> dict[str, str]:
    """Appends the definitions to `out`; returns {section name: reason} for the functions that could not be translated."""
    trees = {m: ast.parse((src / "curies" / f"{m}.py").read_text()) for m in sorted(set(MODULE.values()))}
    bases = {}
    for t in trees.values():
        bases.update(class_bases(t))
    failed: dict[str, str] = {}
    fns: dict[str, ast.FunctionDef] = {}
    sigs: dict[str, Signature] = {}
    for qual, short in zip(FUNCTIONS, SHORT):
        try:
            fns[short] = find_function(trees[MODULE[short]], qual.rpartition(":")[2])
            sigs[short] = Signature(fns[short], IS_METHOD[short])
            if IS_GRAPH[short]:
                sigs[short].self_name = None      # `self` is the graph, not the converter
        except Unsupported as e:
            failed[f"frag_{short}"] = f"unsupported construct: {e}"
    for i, short in enumerate(SHORT):
        out.append(f"Definition f_{short} : nat := {i}.")
    for qual, short in zip(FUNCTIONS, SHORT):
        text = None
        if short in fns:
            try:
                # a callee whose signature could not be read makes the caller untranslatable too
                text = FnTranslator(fns[short], sigs, bases, IS_METHOD[short]).translate()
            except Unsupported as e:
                failed[f"frag_{short}"] = f"unsupported construct: {e}"
            except KeyError as e:
                failed[f"frag_{short}"] = f"callee without signature: {e}"
        if text is None:
            out.append(f"Definition frag_{short} : fn := untranslated.   (* NOT TRANSLATED: {failed[f'frag_{short}'][:120].replace('*)', '* )')} *)")
        else:
            out.append(f"Definition frag_{short} : fn := {text}.")
    out.append("Definition frag_table : list fn := [" + "; ".join(f"frag_{s}" for s in SHORT) + "].")
    return failed

#!/usr/bin/env python3
"""Fail-closed translator: reads the data-like parts of /repo/src/curies and writes coq/gen/Gen.v.

usage: gen.py <src-root> <out.v>
Anything it does not recognise raises, which the check reports as a broken obligation.
"""
from __future__ import annotations

import ast
import sys
from pathlib import Path


class Unsupported(Exception):
    pass


# ------------------------------------------------------------------ tiny constant evaluator
def const_env(tree: ast.Module) -> dict[str, object]:
    env: dict[str, object] = {}

    def ev(node):
        if isinstance(node, ast.Constant):
            return node.value
        if isinstance(node, ast.Name):
            if node.id in env:
                return env[node.id]
            raise Unsupported(f"name {node.id}")
        if isinstance(node, ast.JoinedStr):
            out = ""
            for v in node.values:
                if isinstance(v, ast.Constant):
                    out += v.value
                elif isinstance(v, ast.FormattedValue) and v.conversion == -1 and v.format_spec is None:
                    x = ev(v.value)
                    if not isinstance(x, str):
                        raise Unsupported("non-str in f-string")
                    out += x
                else:
                    raise Unsupported("f-string part")
            return out
        if isinstance(node, ast.Tuple):
            return tuple(ev(e) for e in node.elts)
        if isinstance(node, ast.List):
            return [ev(e) for e in node.elts]
        if isinstance(node, ast.Dict):
            return {ev(k): ev(v) for k, v in zip(node.keys, node.values)}
        if isinstance(node, ast.BinOp) and isinstance(node.op, ast.Add):
            return ev(node.left) + ev(node.right)
        raise Unsupported(ast.dump(node)[:80])

    for st in tree.body:
        tgt = None
        if isinstance(st, ast.Assign) and len(st.targets) == 1 and isinstance(st.targets[0], ast.Name):
            tgt, val = st.targets[0].id, st.value
        elif isinstance(st, ast.AnnAssign) and isinstance(st.target, ast.Name) and st.value is not None:
            tgt, val = st.target.id, st.value
        if tgt is None:
            continue
        # re.compile(<const expr>) is recorded as ("re.compile", pattern)
        if isinstance(val, ast.Call) and isinstance(val.func, ast.Attribute) and isinstance(val.func.value, ast.Name) \
                and val.func.value.id == "re" and val.func.attr == "compile":
            if len(val.args) != 1 or val.keywords:
                raise Unsupported(f"re.compile with flags in {tgt}")
            env[tgt] = ("re.compile", ev(val.args[0]))
            continue
        try:
            env[tgt] = ev(val)
        except Unsupported:
            pass
    return env


# ------------------------------------------------------------------ regular expressions
def coq_str(s: str) -> str:
    return "[" + "; ".join(str(ord(c)) for c in s) + "]%N"


def re_to_coq(pattern: str):
    """Parse with CPython's own parser; returns (caret, body, dollar) as Coq text."""
    import re._parser as sp
    from re._constants import (AT, AT_BEGINNING, AT_END, BRANCH, CATEGORY, CATEGORY_SPACE, IN, LITERAL, MAX_REPEAT,
                                MAXREPEAT, NEGATE, NOT_LITERAL, RANGE, SUBPATTERN)

    tree = list(sp.parse(pattern))
    caret = dollar = False
    if tree and tree[0] == (AT, AT_BEGINNING):
        caret = True
        tree = tree[1:]
    if tree and tree[-1] == (AT, AT_END):
        dollar = True
        tree = tree[:-1]

    def cset(neg, ranges, space):
        rs = "; ".join(f"({a}, {b})" for a, b in ranges)
        return f"{{| cs_neg := {str(neg).lower()}; cs_ranges := [{rs}]%N; cs_space := {str(space).lower()} |}}"

    def seq(items):
        items = [one(op, av) for op, av in items]
        if not items:
            return "Eps"
        out = items[-1]
        for x in reversed(items[:-1]):
            out = f"(Cat {x} {out})"
        return out

    def one(op, av):
        if op is LITERAL:
            return f"(Chr {cset(False, [(av, av)], False)})"
        if op is NOT_LITERAL:
            return f"(Chr {cset(True, [(av, av)], False)})"
        if op is IN:
            neg = space = False
            ranges = []
            for o, a in av:
                if o is NEGATE:
                    neg = True
                elif o is RANGE:
                    ranges.append(a)
                elif o is LITERAL:
                    ranges.append((a, a))
                elif o is CATEGORY and a is CATEGORY_SPACE:
                    space = True
                else:
                    raise Unsupported(f"class item {o} {a}")
            return f"(Chr {cset(neg, ranges, space)})"
        if op is MAX_REPEAT:
            lo, hi, sub = av
            x = seq(list(sub))
            if (lo, hi) == (0, MAXREPEAT):
                return f"(Star {x})"
            if (lo, hi) == (0, 1):
                return f"(Alt {x} Eps)"
            if (lo, hi) == (1, MAXREPEAT):
                return f"(Cat {x} (Star {x}))"
            raise Unsupported(f"repeat {lo},{hi}")
        if op is SUBPATTERN:
            _group, add, dele, sub = av
            if add or dele:
                raise Unsupported("inline flags")
            return seq(list(sub))
        if op is BRANCH:
            _, alts = av
            xs = [seq(list(a)) for a in alts]
            out = xs[-1]
            for x in reversed(xs[:-1]):
                out = f"(Alt {x} {out})"
            return out
        raise Unsupported(f"regex op {op} (anchors are accepted only at the two ends of a pattern)")

    return caret, seq(tree), dollar


def strip_doc(fn: ast.FunctionDef):
    body = fn.body
    if body and isinstance(body[0], ast.Expr) and isinstance(body[0].value, ast.Constant) and isinstance(body[0].value.value, str):
        body = body[1:]
    return body


def method_of(fn: ast.FunctionDef, compiled: set[str]):
    """Which compiled pattern a validator applies to its argument, and through which `re` method.

    Accepted shapes (anything else is an error): the function contains exactly one call `<NAME>.<method>(<arg>)` on a module-level
    compiled pattern with the function's first parameter as the only argument, and what it returns is the truthiness of that
    call: `return bool(X)`, `return X is not None` or `return X != None`, where X is the call itself or a local assigned
    once from it."""
    body = strip_doc(fn)
    arg0 = fn.args.args[0].arg
    calls = [n for n in ast.walk(fn) if isinstance(n, ast.Call) and isinstance(n.func, ast.Attribute)
             and isinstance(n.func.value, ast.Name) and n.func.value.id in compiled]
    if len(calls) != 1:
        raise Unsupported(f"{fn.name}: expected exactly one call on a compiled pattern, found {len(calls)}")
    c = calls[0]
    if not (len(c.args) == 1 and isinstance(c.args[0], ast.Name) and c.args[0].id == arg0 and not c.keywords):
        raise Unsupported(f"{fn.name}: not NAME.method({arg0})")
    local = None
    rest = list(body)
    if len(rest) == 2 and isinstance(rest[0], ast.Assign) and len(rest[0].targets) == 1 and isinstance(rest[0].targets[0], ast.Name) \
            and rest[0].value is c:
        local = rest[0].targets[0].id
        rest = rest[1:]
    if len(rest) != 1 or not isinstance(rest[0], ast.Return):
        raise Unsupported(f"{fn.name}: body is not a single return (optionally after one assignment of the match)")

    def is_x(e):
        return e is c or (local is not None and isinstance(e, ast.Name) and e.id == local)

    v = rest[0].value
    ok = False
    if isinstance(v, ast.Call) and isinstance(v.func, ast.Name) and v.func.id == "bool" and len(v.args) == 1 and not v.keywords and is_x(v.args[0]):
        ok = True
    if isinstance(v, ast.Compare) and len(v.ops) == 1 and isinstance(v.ops[0], (ast.IsNot, ast.NotEq)) and is_x(v.left) \
            and isinstance(v.comparators[0], ast.Constant) and v.comparators[0].value is None:
        ok = True
    if not ok:
        raise Unsupported(f"{fn.name}: the result is not the truthiness of the match")
    return c.func.value.id, c.func.attr


METHODS = {"fullmatch": "MFullmatch", "match": "MMatch"}


def gen_w3c(src: Path, out: list[str]):
    tree = ast.parse((src / "curies" / "w3c.py").read_text())
    env = const_env(tree)
    fns = {n.name: n for n in tree.body if isinstance(n, ast.FunctionDef)}
    for fname, tag in (("is_w3c_prefix", "ncname"), ("_is_w3c_luid", "luid")):
        if fname not in fns:
            raise Unsupported(f"w3c.{fname} missing")
        obj, meth = method_of(fns[fname], {k for k, v in env.items() if isinstance(v, tuple) and v and v[0] == "re.compile"})
        if meth not in METHODS:
            raise Unsupported(f"w3c.{fname}: re method {meth}")
        comp = env.get(obj)
        if not (isinstance(comp, tuple) and comp[0] == "re.compile"):
            raise Unsupported(f"w3c.{obj} is not re.compile(<constant>)")
        caret, body, dollar = re_to_coq(comp[1])
        out.append(f"(* w3c.{fname}: {obj}.{meth} on {comp[1]!r} *)")
        out.append(f"Definition {tag}_pat : pattern := {{| pat_caret := {str(caret).lower()}; pat_body := {body}; pat_dollar := {str(dollar).lower()} |}}.")
        out.append(f"Definition {tag}_method : re_method := {METHODS[meth]}.")


def gen_discovery(src: Path, out: list[str]):
    tree = ast.parse((src / "curies" / "discovery.py").read_text())
    env = const_env(tree)
    dd = env.get("DEFAULT_DELIMITERS")
    if not (isinstance(dd, (tuple, list)) and all(isinstance(x, str) for x in dd)):
        raise Unsupported("discovery.DEFAULT_DELIMITERS")
    out.append("Definition default_delimiters : list str := [" + "; ".join(coq_str(x) for x in dd) + "].")
    # the special case `uri.startswith(<lit>) and <lit> in uri` (known finding K1), wherever in the module it is written
    # (an `if` test, a returned expression of a helper, ...)
    if "_get_uri_prefix_to_luids" not in {n.name for n in tree.body if isinstance(n, ast.FunctionDef)}:
        raise Unsupported("discovery._get_uri_prefix_to_luids missing")
    special = []
    for node in ast.walk(tree):
        if isinstance(node, ast.BoolOp) and isinstance(node.op, ast.And) and len(node.values) == 2:
            a, b = node.values
            if (isinstance(a, ast.Call) and isinstance(a.func, ast.Attribute) and a.func.attr == "startswith" and len(a.args) == 1
                    and isinstance(a.args[0], ast.Constant) and isinstance(b, ast.Compare) and len(b.ops) == 1
                    and isinstance(b.ops[0], ast.In) and isinstance(b.left, ast.Constant)):
                special.append((a.args[0].value, b.left.value))
    out.append("Definition special_cases : list (str * str) := [" + "; ".join(f"({coq_str(x)}, {coq_str(y)})" for x, y in special) + "].")


def gen_mapping(src: Path, out: list[str]):
    tree = ast.parse((src / "curies" / "mapping_service" / "utils.py").read_text())
    env = const_env(tree)
    dct = env.get("DEFAULT_CONTENT_TYPE")
    fmt = env.get("CONTENT_TYPE_TO_RDFLIB_FORMAT")
    syn = env.get("CONTENT_TYPE_SYNONYMS")
    if not isinstance(dct, str) or not isinstance(fmt, dict) or not isinstance(syn, dict):
        raise Unsupported("mapping_service.utils content-type tables")
    out.append(f"Definition default_content_type : str := {coq_str(dct)}.")
    out.append("Definition supported_content_types : list str := [" + "; ".join(coq_str(k) for k in fmt) + "].")
    out.append("Definition content_type_synonyms : list (str * str) := [" + "; ".join(f"({coq_str(k)}, {coq_str(v)})" for k, v in syn.items()) + "].")


def gen_optimize(src: Path, out: list[str]):
    """rdflib_custom._optimize_node: the node name that is rewritten, the operand name that is moved to the front, the two
    operand keys, read from the test `X.name == A and X.<k1>.name != B and X.<k2>.name == B` and the call
    `X.update(<k1>=X.<k2>, <k2>=X.<k1>)` -- wherever in the module they are written."""
    tree = ast.parse((src / "curies" / "mapping_service" / "rdflib_custom.py").read_text())

    def name_of(e):
        """X.name -> ('', X) ; X.k.name -> (k, X)"""
        if isinstance(e, ast.Attribute) and e.attr == "name":
            v = e.value
            if isinstance(v, ast.Name):
                return "", v.id
            if isinstance(v, ast.Attribute) and isinstance(v.value, ast.Name):
                return v.attr, v.value.id
        return None

    try:
        env = const_env(tree)
    except Unsupported:
        env = {}

    def lit(e):
        """a string literal, or the name of a module-level constant holding one"""
        if isinstance(e, ast.Constant) and isinstance(e.value, str):
            return e.value
        if isinstance(e, ast.Name) and isinstance(env.get(e.id), str):
            return env[e.id]
        return None

    tests, updates, recursions = [], [], 0
    for n in ast.walk(tree):
        if isinstance(n, ast.BoolOp) and isinstance(n.op, ast.And) and len(n.values) == 3:
            cs = n.values
            if all(isinstance(c, ast.Compare) and len(c.ops) == 1 and len(c.comparators) == 1 and lit(c.comparators[0]) is not None
                   and name_of(c.left) for c in cs):
                (k0, x0), (k1, x1), (k2, x2) = (name_of(c.left) for c in cs)
                ops = [type(c.ops[0]) for c in cs]
                vals = [lit(c.comparators[0]) for c in cs]
                if k0 == "" and k1 and k2 and k1 != k2 and x0 == x1 == x2 and ops == [ast.Eq, ast.NotEq, ast.Eq] and vals[1] == vals[2]:
                    tests.append((vals[0], vals[1], k1, k2, x0))
        if isinstance(n, ast.Call) and isinstance(n.func, ast.Attribute) and n.func.attr == "update" and not n.args and len(n.keywords) == 2:
            kw = {k.arg: k.value for k in n.keywords}
            if all(isinstance(v, ast.Attribute) and isinstance(v.value, ast.Name) for v in kw.values()):
                updates.append({k: v.attr for k, v in kw.items()})
        if isinstance(n, ast.For) and isinstance(n.iter, ast.Call) and isinstance(n.iter.func, ast.Attribute) and n.iter.func.attr == "values":
            recursions += 1
    if len(tests) != 1 or len(updates) != 1 or recursions != 1:
        raise Unsupported("rdflib_custom._optimize_node: expected one operand test, one update(...) swap and one loop over .values()")
    a, b, k1, k2, _ = tests[0]
    if updates[0] != {k1: k2, k2: k1}:
        raise Unsupported("rdflib_custom._optimize_node: update(...) does not swap the two tested operands")
    out.append(f"Definition opt_join_name : str := {coq_str(a)}.")
    out.append(f"Definition opt_multiset_name : str := {coq_str(b)}.")
    out.append(f"Definition opt_operand_keys : str * str := ({coq_str(k1)}, {coq_str(k2)}).")


# ---- signature defaults: "default mode", "case-sensitive unless asked otherwise", "no synonyms unless asked" ... are part of what the
# properties say; each property has its own table so that a changed default touches only the properties that speak about that function
Q14 = ["compress", "expand", "compress_or_standardize", "expand_or_standardize", "standardize_prefix", "standardize_curie", "standardize_uri",
       "parse_uri", "parse_curie", "expand_all", "expand_pair", "expand_reference", "expand_pair_all"]
DEFAULT_GROUPS = {
    "C01": [("api", "Converter.__init__"), ("api", "Converter.parse_uri"), ("api", "Converter.compress")],
    "C02": [("api", "_split"), ("api", "Converter.expand"), ("api", "Converter.expand_pair"), ("api", "Converter.expand_reference"),
            ("api", "Converter.expand_all"), ("api", "Converter.expand_pair_all"), ("api", "Converter.parse_curie")],
    "C03": [("api", "Converter.compress"), ("api", "Converter.expand"), ("api", "Converter.standardize_uri"), ("api", "Converter.standardize_curie")],
    "C04": [("api", "Converter.__init__")],
    "C05": [("api", "Converter.add_record"), ("api", "Converter.add_prefix")],
    "C06": [("api", "Converter.standardize_prefix"), ("api", "Converter.standardize_curie"), ("api", "Converter.standardize_uri")],
    "C07": [("api", "Converter.compress_or_standardize"), ("api", "Converter.expand_or_standardize")],
    "C08": [("api", "Converter." + f) for f in Q14],
    "C09": [("api", "chain")],
    "C14": [("api", "write_jsonld_context"), ("api", "write_shacl"), ("api", "write_tsv")],
    "C15": [("api", "ReferenceTuple.from_curie"), ("api", "Reference.from_curie"), ("api", "NamableReference.from_curie"),
            ("api", "NamedReference.from_curie"), ("triples", "write_triples"), ("triples", "read_triples")],
    "C16": [("api", "Converter.pd_compress"), ("api", "Converter.pd_expand"), ("api", "Converter.pd_standardize_prefix"),
            ("api", "Converter.pd_standardize_curie"), ("api", "Converter.pd_standardize_uri"), ("api", "Converter.file_compress"),
            ("api", "Converter.file_expand")],
    "C18": [("mapping_service/api", "MappingServiceGraph.__init__"), ("mapping_service/api", "get_flask_mapping_blueprint"),
            ("mapping_service/api", "get_fastapi_router"), ("mapping_service/utils", "handle_header")],
    "C19": [("discovery", "discover")],
}
_AST_CACHE: dict[str, ast.Module] = {}
_ENV_CACHE: dict[str, dict] = {}


def _default_text(d: ast.expr, env: dict) -> str:
    """A default written as a literal or as the name of a module-level constant holding a literal: the literal's repr."""
    if isinstance(d, ast.Name) and d.id in env and isinstance(env[d.id], (str, int, bool, tuple, type(None))):
        return repr(env[d.id])
    if isinstance(d, ast.Constant):
        return repr(d.value)
    if isinstance(d, ast.Tuple) and all(isinstance(e, ast.Constant) for e in d.elts):
        return repr(tuple(e.value for e in d.elts))
    if isinstance(d, ast.Name):
        return d.id              # a class or an imported name (e.g. reference_cls=Reference)
    raise Unsupported(f"default {ast.dump(d)[:60]}")


def _find_function(tree: ast.Module, qual: str) -> ast.FunctionDef:
    """The implementation (the definition that is not an @overload stub) of `func` or `Class.func`."""
    owner, _, name = qual.rpartition(".")
    body = tree.body
    if owner:
        cls = [n for n in tree.body if isinstance(n, ast.ClassDef) and n.name == owner]
        if len(cls) != 1:
            raise Unsupported(f"class {owner}")
        body = cls[0].body
    fns = [n for n in body if isinstance(n, ast.FunctionDef) and n.name == name
           and not any((isinstance(d, ast.Name) and d.id == "overload") or (isinstance(d, ast.Attribute) and d.attr == "overload") for d in n.decorator_list)]
    if len(fns) != 1:
        raise Unsupported(f"function {qual}: {len(fns)} definitions")
    return fns[0]


def signature_defaults(src: Path, group: str) -> list[tuple[str, str]]:
    rows = []
    for mod, qual in DEFAULT_GROUPS[group]:
        path = src / "curies" / f"{mod}.py"
        if str(path) not in _AST_CACHE:
            _AST_CACHE[str(path)] = ast.parse(path.read_text())
            try:
                _ENV_CACHE[str(path)] = const_env(_AST_CACHE[str(path)])
            except Unsupported:
                _ENV_CACHE[str(path)] = {}
        env = _ENV_CACHE[str(path)]
        fn = _find_function(_AST_CACHE[str(path)], qual)
        a = fn.args
        if a.vararg is not None and qual.split(".")[-1] not in ("__init__",):
            raise Unsupported(f"{qual}: *args")
        pos = a.posonlyargs + a.args
        ds = [None] * (len(pos) - len(a.defaults)) + list(a.defaults)
        items = [(x.arg, d) for x, d in zip(pos, ds)] + [(x.arg, d) for x, d in zip(a.kwonlyargs, a.kw_defaults)]
        for arg, d in items:
            if arg in ("self", "cls"):
                continue
            if d is None:
                continue            # a required parameter
            else:
                rows.append((f"{qual}.{arg}", _default_text(d, env)))
    return rows


def _gen_defaults(group: str):
    def f(src: Path, out: list[str]):
        rows = signature_defaults(src, group)
        out.append(f"Definition defaults_{group} : list (str * str) := [")
        out.append(";\n".join(f"  ({coq_str(k)}, {coq_str(v)}) (* {k} = {v} *)" for k, v in rows))
        out.append("].")
    return f


for _g in DEFAULT_GROUPS:
    globals()[f"gen_defaults_{_g}"] = _gen_defaults(_g)


def gen_resolver(src: Path, out: list[str]):
    tree = ast.parse((src / "curies" / "resolver_service.py").read_text())
    env = const_env(tree)
    fc = env.get("FAILURE_CODE")
    if not isinstance(fc, int):
        raise Unsupported("resolver_service.FAILURE_CODE")
    out.append(f"Definition failure_code : N := {fc}%N.")


def gen_exceptions(src: Path, out: list[str]):
    """class hierarchy of the library's exceptions: which derive (transitively) from ValueError."""
    rows = []
    for mod in ("api", "reconciliation"):
        tree = ast.parse((src / "curies" / f"{mod}.py").read_text())
        bases = {}
        for n in tree.body:
            if isinstance(n, ast.ClassDef):
                bases[n.name] = [b.id for b in n.bases if isinstance(b, ast.Name)]

        def is_ve(name, seen=()):
            if name == "ValueError":
                return True
            if name in seen or name not in bases:
                return False
            return any(is_ve(b, seen + (name,)) for b in bases[name])

        def is_exc(name, seen=()):
            if name in ("Exception", "ValueError", "NotImplementedError", "KeyError", "TypeError", "RuntimeError"):
                return True
            if name in seen or name not in bases:
                return False
            return any(is_exc(b, seen + (name,)) for b in bases[name])

        for name in bases:
            if is_exc(name):
                rows.append((mod, name, is_ve(name)))
    out.append("Definition exception_is_value_error : list (str * bool) := [")
    out.append(";\n".join(f"  ({coq_str(n)}, {str(v).lower()}) (* {m}.{n} *)" for m, n, v in rows))
    out.append("].")


SECTIONS = [("w3c", "gen_w3c"), ("discovery", "gen_discovery"), ("mapping", "gen_mapping"), ("optimize", "gen_optimize"), ("resolver", "gen_resolver"),
            ("exceptions", "gen_exceptions")] + [(f"defaults_{g}", f"gen_defaults_{g}") for g in DEFAULT_GROUPS]


def main(argv):
    """Each section is translated independently: a construct the translator does not recognise in one source file fails
    that section only (its definitions are omitted, so exactly the obligations that need them stop compiling)."""
    src = Path(argv[1])
    outp = Path(argv[2])
    out = ["(* GENERATED by translator/gen.py from the working tree -- do not edit *)",
           "From Curies.model Require Import Str Regex PyFrag.", ""]
    failed = {}
    for name, fn in SECTIONS:
        part: list[str] = []
        try:
            globals()[fn](src, part)
            out += part
        except Unsupported as e:
            failed[name] = f"unsupported construct: {e}"
            out.append(f"(* section {name}: NOT TRANSLATED *)")
        except (SyntaxError, OSError, KeyError, IndexError, AttributeError, TypeError, ValueError) as e:
            failed[name] = f"{type(e).__name__}: {e}"
            out.append(f"(* section {name}: NOT TRANSLATED *)")
    # the bodies of the query methods, as terms of model/PyFrag.v: every function fails on its own
    try:
        sys.path.insert(0, str(Path(__file__).resolve().parent))
        import frag

        part = []
        failed.update(frag.gen_frag(src, part))
        out += part
    except (SyntaxError, OSError, KeyError, IndexError, AttributeError, TypeError, ValueError) as e:
        failed["frag"] = f"{type(e).__name__}: {e}"
        out.append("(* section frag: NOT TRANSLATED *)")
    text = "\n".join(out) + "\n"
    if not outp.exists() or outp.read_text() != text:
        outp.parent.mkdir(parents=True, exist_ok=True)
        outp.write_text(text)
    import json

    Path(str(outp) + ".status.json").write_text(json.dumps(failed))
    for k, v in failed.items():
        print(f"translator: section {k}: {v}", file=sys.stderr)
    return 4 if failed else 0


if __name__ == "__main__":
    sys.exit(main(sys.argv))

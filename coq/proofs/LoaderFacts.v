(* C13: every loader yields the records its input format denotes. *)
From Coq Require Import Lia Permutation Sorted.
From Curies.model Require Import Str PyData Trie Conv Query Val Answer Spec CheckQ Loaders CheckL.
From Curies.proofs Require Import StrFacts TrieFacts DictFacts IndexFacts QueryFacts CheckFacts SortFacts C04Facts MutateFacts DiscoveryFacts.

Definition rec0 (p u : str) (ps us : list str) (pat : option str) : record :=
  {| r_prefix := p; r_uri := u; r_psyn := ps; r_usyn := us; r_pat := pat |}.

Lemma sequence_map_val {A B} (f : A -> res B) (g : A -> B) l : (forall x, In x l -> f x = Val (g x)) -> sequence (map f l) = Val (map g l).
Proof. induction l as [|a l IH]; intro H; simpl; auto. rewrite (H a) by (left; auto). simpl. rewrite IH; auto. intros x Hx. apply H. right; auto. Qed.
Lemma sequence_val_inv {A B} (f : A -> res B) l ys : sequence (map f l) = Val ys ->
  length ys = length l /\ forall n x, nth_error l n = Some x -> exists y, nth_error ys n = Some y /\ f x = Val y.
Proof.
  revert ys; induction l as [|a l IH]; intros ys H; simpl in H.
  - inversion H; subst. split; auto. intros [|n] x Hn; discriminate.
  - destruct (f a) as [y|e] eqn:Fa; simpl in H; [|discriminate]. destruct (sequence (map f l)) as [ys'|e] eqn:S; simpl in H; [|discriminate].
    inversion H; subst. destruct (IH ys' eq_refl) as [L N]. split; [simpl; congruence|].
    intros [|n] x Hn; simpl in *; [inversion Hn; subst; eauto|apply N; auto].
Qed.

Lemma nth_error_ext_eq {A} (l l' : list A) : (forall n, nth_error l' n = nth_error l n) -> l' = l.
Proof.
  revert l'; induction l as [|a l IH]; intros [|b l'] H; auto.
  - specialize (H 0). discriminate.
  - specialize (H 0). discriminate.
  - f_equal; [specialize (H 0); simpl in H; congruence|]. apply IH. intro n. apply (H (S n)).
Qed.

(* ---- prefix map: one record per (prefix, URI prefix) pair, nothing dropped ---- *)
Theorem prefix_map_records pm : records_of_prefix_map pm = Val (map (fun pu => rec0 (fst pu) (snd pu) [] [] None) pm).
Proof. unfold records_of_prefix_map. apply sequence_map_val. intros [p u] _. reflexivity. Qed.

(* ---- priority map: the first URI prefix canonical, the rest synonyms ---- *)
Theorem priority_map_records pm rs : records_of_priority_map pm = Val rs ->
  length rs = length pm /\
  forall n p us, nth_error pm n = Some (p, us) -> exists u rest, us = u :: rest /\ ~ In u rest /\ nth_error rs n = Some (rec0 p u [] rest None).
Proof.
  intro H. apply sequence_val_inv in H as [L N]. split; auto. intros n p us Hn. destruct (N n (p, us) Hn) as (y & Hy & E). simpl in E.
  destruct us as [|u rest]; [discriminate|]. unfold mk_record in E. simpl in E. destruct (mem u rest) eqn:M; [discriminate|].
  inversion E; subst. exists u, rest. repeat split; auto. apply mem_false; auto.
Qed.

(* ---- extended prefix map: the records themselves (validated) ---- *)
Theorem epm_records rs rs' : records_of_epm rs = Val rs' -> rs' = rs /\ forall r, In r rs -> ~ In (r_prefix r) (r_psyn r) /\ ~ In (r_uri r) (r_usyn r).
Proof.
  intro H. apply sequence_val_inv in H as [L N].
  assert (E: forall n r, nth_error rs n = Some r -> nth_error rs' n = Some r /\ ~ In (r_prefix r) (r_psyn r) /\ ~ In (r_uri r) (r_usyn r)).
  { intros n r Hn. destruct (N n r Hn) as (y & Hy & E). unfold mk_record in E.
    destruct (mem (r_prefix r) (r_psyn r)) eqn:M1; [discriminate|]. destruct (mem (r_uri r) (r_usyn r)) eqn:M2; [discriminate|].
    inversion E; subst. destruct r; simpl in *. split; auto. split; apply mem_false; auto. }
  split.
  - apply nth_error_ext_eq. intros n. destruct (nth_error rs n) as [r|] eqn:Hn.
    + apply (E n r Hn).
    + apply nth_error_None in Hn. apply nth_error_None. lia.
  - intros r Hr. apply In_nth_error in Hr as [n Hn]. apply (E n r Hn).
Qed.

(* ---- grouping with defaultdict(list) ---- *)
Section Group.
Variables (A : Type) (key : A -> str) (val : A -> str).
Definition grouped (items : list A) (d : dict (list str)) : dict (list str) :=
  fold_left (fun d x => dappend (key x) (val x) d) items d.
Definition vals_for (k : str) (items : list A) : list str := map val (filter (fun x => str_eqb (key x) k) items).

Lemma dget_dappend k v (d : dict (list str)) k' :
  dget k' (dappend k v d) = if str_eqb k' k then Some (match dget k d with Some l => l ++ [v] | None => [v] end) else dget k' d.
Proof. unfold dappend. destruct (dget k d); rewrite dget_dset; reflexivity. Qed.

Lemma grouped_dget items : forall d k,
  dget k (grouped items d) =
  match dget k d, vals_for k items with
  | Some l, vs => Some (l ++ vs)
  | None, [] => None
  | None, vs => Some vs
  end.
Proof.
  induction items as [|x items IH]; intros d k; simpl.
  - destruct (dget k d); [rewrite app_nil_r|]; reflexivity.
  - rewrite IH, dget_dappend. unfold vals_for. simpl. rewrite (str_eqb_sym (key x) k).
    destruct (str_eqb_spec k (key x)) as [->|Hne]; simpl.
    + destruct (dget (key x) d); [rewrite <- app_assoc; reflexivity|reflexivity].
    + reflexivity.
Qed.
Lemma grouped_keys_nodup items : forall d, NoDup (dkeys d) -> NoDup (dkeys (grouped items d)).
Proof.
  induction items as [|x items IH]; intros d H; simpl; auto. apply IH. unfold dappend.
  destruct (dget (key x) d); apply dkeys_dset_nodup; auto.
Qed.
Lemma grouped_in items k l : In (k, l) (grouped items []) -> l = vals_for k items /\ l <> [].
Proof.
  intro H. pose proof (grouped_keys_nodup items [] ltac:(constructor)) as N.
  pose proof (in_dict_dget _ _ _ N H) as E. rewrite grouped_dget in E. simpl in E.
  destruct (vals_for k items) eqn:V; [discriminate|]. inversion E; subst. split; auto. discriminate.
Qed.
Lemma grouped_has items x : In x items -> exists l, In (key x, l) (grouped items []) /\ In (val x) l.
Proof.
  intro Hx. assert (V: In (val x) (vals_for (key x) items)).
  { unfold vals_for. apply in_map. apply filter_In. split; auto. apply str_eqb_refl. }
  assert (E: dget (key x) (grouped items []) = Some (vals_for (key x) items)).
  { rewrite grouped_dget. simpl. destruct (vals_for (key x) items); [destruct V|reflexivity]. }
  exists (vals_for (key x) items). split; auto. clear -E. revert E. generalize (grouped items []). intro d.
  induction d as [|[a b] d IH]; simpl; [discriminate|]. destruct (str_eqb_spec (key x) a); intro E.
  - inversion E; subst. left; auto.
  - right; auto.
Qed.
End Group.

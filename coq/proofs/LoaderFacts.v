(* C13: every loader yields the records its input format denotes. *)
From Coq Require Import Lia Permutation Sorted.
From Curies.model Require Import Str PyData Trie Conv Query Val Answer Spec CheckQ Loaders CheckL.
From Curies.proofs Require Import StrFacts TrieFacts DictFacts IndexFacts QueryFacts CheckFacts SortFacts C04Facts MutateFacts DiscoveryFacts.

Definition rec0 (p u : str) (ps us : list str) (pat : option str) : record :=
  {| r_prefix := p; r_uri := u; r_psyn := ps; r_usyn := us; r_pat := pat |}.

Lemma sequence_map_val {A B} (f : A -> res B) (g : A -> B) l : (forall x, In x l -> f x = Val (g x)) -> sequence (map f l) = Val (map g l).
Proof. induction l as [|a l IH]; intro H; simpl; auto. rewrite (H a) by (left; auto). simpl. rewrite IH; auto. intros x Hx. apply H. right; auto. Qed.
Lemma sequence_val_inv {A B} (f : A -> res B) l ys : sequence (map f l) = Val ys ->
  length ys = length l /\ forall n x, nth_error l n = Some x -> exists y, nth_error ys n = Some y /\ f x = Val y.
Proof.
  revert ys; induction l as [|a l IH]; intros ys H; simpl in H.
  - inversion H; subst. split; auto. intros [|n] x Hn; discriminate.
  - destruct (f a) as [y|e] eqn:Fa; simpl in H; [|discriminate]. destruct (sequence (map f l)) as [ys'|e] eqn:S; simpl in H; [|discriminate].
    inversion H; subst. destruct (IH ys' eq_refl) as [L N]. split; [simpl; congruence|].
    intros [|n] x Hn; simpl in *; [inversion Hn; subst; eauto|apply N; auto].
Qed.

Lemma nth_error_ext_eq {A} (l l' : list A) : (forall n, nth_error l' n = nth_error l n) -> l' = l.
Proof.
  revert l'; induction l as [|a l IH]; intros [|b l'] H; auto.
  - specialize (H 0). discriminate.
  - specialize (H 0). discriminate.
  - f_equal; [specialize (H 0); simpl in H; congruence|]. apply IH. intro n. apply (H (S n)).
Qed.

(* ---- prefix map: one record per (prefix, URI prefix) pair, nothing dropped ---- *)
Theorem prefix_map_records pm : records_of_prefix_map pm = Val (map (fun pu => rec0 (fst pu) (snd pu) [] [] None) pm).
Proof. unfold records_of_prefix_map. apply sequence_map_val. intros [p u] _. reflexivity. Qed.

(* ---- priority map: the first URI prefix canonical, the rest synonyms ---- *)
Theorem priority_map_records pm rs : records_of_priority_map pm = Val rs ->
  length rs = length pm /\
  forall n p us, nth_error pm n = Some (p, us) -> exists u rest, us = u :: rest /\ ~ In u rest /\ nth_error rs n = Some (rec0 p u [] rest None).
Proof.
  intro H. apply sequence_val_inv in H as [L N]. split; auto. intros n p us Hn. destruct (N n (p, us) Hn) as (y & Hy & E). simpl in E.
  destruct us as [|u rest]; [discriminate|]. unfold mk_record in E. simpl in E. destruct (mem u rest) eqn:M; [discriminate|].
  inversion E; subst. exists u, rest. repeat split; auto. apply mem_false; auto.
Qed.

(* ---- extended prefix map: the records themselves (validated) ---- *)
Theorem epm_records rs rs' : records_of_epm rs = Val rs' -> rs' = rs /\ forall r, In r rs -> ~ In (r_prefix r) (r_psyn r) /\ ~ In (r_uri r) (r_usyn r).
Proof.
  intro H. apply sequence_val_inv in H as [L N].
  assert (E: forall n r, nth_error rs n = Some r -> nth_error rs' n = Some r /\ ~ In (r_prefix r) (r_psyn r) /\ ~ In (r_uri r) (r_usyn r)).
  { intros n r Hn. destruct (N n r Hn) as (y & Hy & E). unfold mk_record in E.
    destruct (mem (r_prefix r) (r_psyn r)) eqn:M1; [discriminate|]. destruct (mem (r_uri r) (r_usyn r)) eqn:M2; [discriminate|].
    inversion E; subst. destruct r; simpl in *. split; auto. split; apply mem_false; auto. }
  split.
  - apply nth_error_ext_eq. intros n. destruct (nth_error rs n) as [r|] eqn:Hn.
    + apply (E n r Hn).
    + apply nth_error_None in Hn. apply nth_error_None. lia.
  - intros r Hr. apply In_nth_error in Hr as [n Hn]. apply (E n r Hn).
Qed.

(* ---- grouping with defaultdict(list) ---- *)
Section Group.
Variables (A : Type) (key : A -> str) (val : A -> str).
Definition grouped (items : list A) (d : dict (list str)) : dict (list str) :=
  fold_left (fun d x => dappend (key x) (val x) d) items d.
Definition vals_for (k : str) (items : list A) : list str := map val (filter (fun x => str_eqb (key x) k) items).

Lemma dget_dappend k v (d : dict (list str)) k' :
  dget k' (dappend k v d) = if str_eqb k' k then Some (match dget k d with Some l => l ++ [v] | None => [v] end) else dget k' d.
Proof. unfold dappend. destruct (dget k d); rewrite dget_dset; reflexivity. Qed.

Lemma grouped_dget items : forall d k,
  dget k (grouped items d) =
  match dget k d, vals_for k items with
  | Some l, vs => Some (l ++ vs)
  | None, [] => None
  | None, vs => Some vs
  end.
Proof.
  induction items as [|x items IH]; intros d k; simpl.
  - destruct (dget k d); [rewrite app_nil_r|]; reflexivity.
  - rewrite IH, dget_dappend. unfold vals_for. simpl. rewrite (str_eqb_sym (key x) k).
    destruct (str_eqb_spec k (key x)) as [->|Hne]; simpl.
    + destruct (dget (key x) d); [rewrite <- app_assoc; reflexivity|reflexivity].
    + reflexivity.
Qed.
Lemma grouped_keys_nodup items : forall d, NoDup (dkeys d) -> NoDup (dkeys (grouped items d)).
Proof.
  induction items as [|x items IH]; intros d H; simpl; auto. apply IH. unfold dappend.
  destruct (dget (key x) d); apply dkeys_dset_nodup; auto.
Qed.
Lemma grouped_in items k l : In (k, l) (grouped items []) -> l = vals_for k items /\ l <> [].
Proof.
  intro H. pose proof (grouped_keys_nodup items [] ltac:(constructor)) as N.
  pose proof (in_dict_dget _ _ _ N H) as E. rewrite grouped_dget in E. simpl in E.
  destruct (vals_for k items) eqn:V; [discriminate|]. inversion E; subst. split; auto. discriminate.
Qed.
Lemma grouped_has items x : In x items -> exists l, In (key x, l) (grouped items []) /\ In (val x) l.
Proof.
  intro Hx. assert (V: In (val x) (vals_for (key x) items)).
  { unfold vals_for. apply in_map. apply filter_In. split; auto. apply str_eqb_refl. }
  assert (E: dget (key x) (grouped items []) = Some (vals_for (key x) items)).
  { rewrite grouped_dget. simpl. destruct (vals_for (key x) items); [destruct V|reflexivity]. }
  exists (vals_for (key x) items). split; auto. clear -E. revert E. generalize (grouped items []). intro d.
  induction d as [|[a b] d IH]; simpl; [discriminate|]. destruct (str_eqb_spec (key x) a); intro E.
  - inversion E; subst. left; auto.
  - right; auto.
Qed.
End Group.

(* ---- reverse map: all URI prefixes of a CURIE prefix registered, a shortest one canonical ---- *)
Lemma sort_by_len_min (l : list str) u us : sort_by_len (@length chr) l = u :: us -> forall x, In x l -> length u <= length x.
Proof.
  intros E x Hx. unfold sort_by_len in E.
  assert (S: Sorted (fun a b => Nat.leb (length a) (length b) = true) (sort (fun a b => Nat.leb (length a) (length b)) l)).
  { apply sort_sorted. intros a b. destruct (Nat.leb_spec (length a) (length b)); auto. right. apply Nat.leb_le. lia. }
  rewrite E in S. apply Sorted_StronglySorted in S; [|intros a b c0; rewrite !Nat.leb_le; lia].
  inversion S as [|? ? S' F]; subst. rewrite Forall_forall in F.
  assert (Hin: In x (u :: us)) by (rewrite <- E; apply sort_In; auto).
  destruct Hin as [<-|Hin]; auto. apply Nat.leb_le. apply F; auto.
Qed.

Theorem reverse_map_records rpm rs : records_of_reverse_map rpm = Val rs ->
  (forall u p, In (u, p) rpm -> exists r, In r rs /\ r_prefix r = p /\ In u (all_uris r) /\
                                       (forall u', In u' (all_uris r) -> length (r_uri r) <= length u') /\ r_psyn r = []) /\
  (forall r u, In r rs -> In u (all_uris r) -> In (u, r_prefix r) rpm).
Proof.
  unfold records_of_reverse_map, group_by_value. intro H.
  change (fold_left (fun d up => dappend (snd up) (fst up) d) rpm []) with (grouped _ (@snd str str) (@fst str str) rpm []) in H.
  set (g := grouped _ (@snd str str) (@fst str str) rpm []) in *.
  apply sequence_val_inv in H as [L N].
  assert (R: forall p us, In (p, us) g -> exists r, In r rs /\ r_prefix r = p /\ r_psyn r = [] /\
               (forall x, In x (all_uris r) <-> In x us) /\ forall x, In x us -> length (r_uri r) <= length x).
  { intros p us Hin. apply In_nth_error in Hin as [n Hn]. destruct (N n (p, us) Hn) as (r & Hr & E). simpl in E.
    destruct (sort_by_len (@length chr) us) as [|u rest] eqn:S; [discriminate|]. unfold mk_record in E. simpl in E.
    destruct (mem u rest); [discriminate|]. inversion E; subst. eexists. split; [eapply nth_error_In; eauto|]. simpl.
    repeat split; auto.
    - intro Hx. unfold all_uris in Hx. simpl in Hx. assert (In x (u :: rest)) by exact Hx. rewrite <- S in H. apply sort_In in H. auto.
    - intro Hx. assert (In x (sort_by_len (@length chr) us)) by (apply sort_In; auto). rewrite S in H. exact H.
    - intros x Hx. eapply sort_by_len_min; eauto. }
  split.
  - intros u p Hin. destruct (grouped_has _ (@snd str str) (@fst str str) rpm (u, p) Hin) as (l & Hl & Hu). simpl in *.
    destruct (R p l Hl) as (r & Hr & Ep & Es & Eu & Emin). exists r. repeat split; auto; [apply Eu; auto|].
    intros u' Hu'. apply Emin. apply Eu. auto.
  - intros r u Hr Hu. apply In_nth_error in Hr as [n Hn].
    assert (Hlen: n < length g). { assert (Hr: n < length rs) by (apply nth_error_Some; congruence). rewrite L in Hr. exact Hr. }
    destruct (nth_error g n) as [[p us]|] eqn:Hg; [|apply nth_error_None in Hg; lia].
    destruct (N n (p, us) Hg) as (r' & Hr' & E). rewrite Hn in Hr'. inversion Hr'; subst r'. simpl in E.
    destruct (sort_by_len (@length chr) us) as [|u0 rest] eqn:S; [discriminate|]. unfold mk_record in E. simpl in E.
    destruct (mem u0 rest); [discriminate|]. inversion E; subst. simpl in *.
    assert (In u us). { assert (In u (u0 :: rest)) by exact Hu. rewrite <- S in H. apply sort_In in H. auto. }
    apply nth_error_In in Hg. apply (grouped_in _ (@snd str str) (@fst str str)) in Hg as [-> _].
    unfold vals_for in H. apply in_map_iff in H as ([u1 p1] & E1 & Hf). simpl in E1. subst u1. apply filter_In in Hf as [Hin Hk].
    simpl in Hk. apply str_eqb_eq in Hk. subst. auto.
Qed.

(* ---- JSON-LD: exactly the string terms and @prefix dictionaries under valid keys ---- *)
Theorem jsonld_records ctx : records_of_jsonld ctx = Val (map (fun pu => rec0 (fst pu) (snd pu) [] [] None) (jsonld_prefix_map ctx)).
Proof. unfold records_of_jsonld. apply prefix_map_records. Qed.
Lemma jsonld_pm_acc ctx : forall pm k,
  NoDup (map fst ctx) ->
  dget k (fold_left (fun pm kt => if jsonld_key_ok (fst kt)
      then match snd kt with TStr s => dset (fst kt) s pm | TPrefix id => dset (fst kt) id pm | TOther => pm end else pm) ctx pm)
  = match List.find (fun kt => str_eqb k (fst kt)) ctx with
    | Some (_, t) => if jsonld_key_ok k then match t with TStr s => Some s | TPrefix s => Some s | TOther => dget k pm end else dget k pm
    | None => dget k pm end.
Proof.
  induction ctx as [|[a t] ctx IH]; intros pm k N; simpl; auto.
  inversion N as [|? ? Hn Hd]; subst. rewrite IH by auto.
  destruct (str_eqb_spec k a) as [->|Hne].
  - assert (F: List.find (fun kt => str_eqb a (fst kt)) ctx = None).
    { destruct (List.find _ ctx) as [[a' t']|] eqn:E; auto. apply find_some in E as [Hin E]. simpl in E. apply str_eqb_eq in E. subst.
      exfalso. apply Hn. apply in_map_iff. exists (a', t'). auto. }
    rewrite F. destruct (jsonld_key_ok a); auto. destruct t; auto; rewrite dget_dset, str_eqb_refl; reflexivity.
  - destruct (List.find _ ctx) as [[a' t']|] eqn:E.
    + destruct (jsonld_key_ok k); destruct t'; auto; destruct (jsonld_key_ok a); auto; destruct t; auto;
        rewrite dget_dset; apply str_eqb_neq in Hne; rewrite Hne; reflexivity.
    + destruct (jsonld_key_ok a); auto. destruct t; auto; rewrite dget_dset; apply str_eqb_neq in Hne; rewrite Hne; reflexivity.
Qed.
(* a term is taken iff its key is non-empty, does not start with '@', and it is a string or an @prefix dictionary *)
Theorem jsonld_terms ctx k : NoDup (map fst ctx) ->
  dget k (jsonld_prefix_map ctx) =
  match List.find (fun kt => str_eqb k (fst kt)) ctx with
  | Some (_, TStr s) => if jsonld_key_ok k then Some s else None
  | Some (_, TPrefix s) => if jsonld_key_ok k then Some s else None
  | _ => None end.
Proof.
  intro N. unfold jsonld_prefix_map. rewrite jsonld_pm_acc by auto. simpl.
  destruct (List.find _ ctx) as [[a t]|]; auto. destruct (jsonld_key_ok k), t; reflexivity.
Qed.

(* ---- upgrade_prefix_map ---- *)
Definition group_rec (pm : list (str * str)) (u : str) : record :=
  match sort_str (vals_for _ (@snd str str) (@fst str str) u pm) with
  | p :: ps => rec0 p u ps [] None
  | [] => rec0 [] u [] [] None
  end.

Lemma list_by_keys {V} (l : list (str * V)) (F : str -> V) : (forall k v, In (k, v) l -> v = F k) -> l = map (fun k => (k, F k)) (map fst l).
Proof.
  induction l as [|[k v] l IH]; intro H; simpl; auto. rewrite <- IH by (intros k' v' Hin; apply H; right; auto).
  rewrite (H k v) by (left; auto). reflexivity.
Qed.
Lemma vals_for_nodup (pm : list (str * str)) u : NoDup (map fst pm) -> NoDup (vals_for _ (@snd str str) (@fst str str) u pm).
Proof.
  unfold vals_for. induction pm as [|[p u'] pm IH]; simpl; intro N; [constructor|].
  inversion N as [|? ? Hn Hd]; subst. destruct (str_eqb u' u); simpl; auto. constructor; auto.
  intro Hin. apply Hn. apply in_map_iff in Hin as ([p2 u2] & E & Hf). simpl in E. subst. apply filter_In in Hf as [Hin _].
  apply in_map_iff. exists (p, u2). auto.
Qed.

(* the canonical form: one record per distinct URI prefix, in sorted order; its CURIE prefixes sorted, the first canonical *)
Theorem upgrade_canonical pm : NoDup (map fst pm) ->
  upgrade_prefix_map pm = Val (map (group_rec pm) (sort_uniq (map snd pm))).
Proof.
  intro N. unfold upgrade_prefix_map, group_by_uri.
  change (fold_left (fun d pu => dappend (snd pu) (fst pu) d) pm []) with (grouped _ (@snd str str) (@fst str str) pm []).
  set (g := grouped _ (@snd str str) (@fst str str) pm []).
  assert (Ng: NoDup (dkeys g)) by (apply grouped_keys_nodup; constructor).
  assert (Vg: forall k v, In (k, v) (sort_by_key fst g) -> v = vals_for _ (@snd str str) (@fst str str) k pm).
  { intros k v Hin. unfold sort_by_key in Hin. apply sort_In in Hin. apply (grouped_in _ (@snd str str) (@fst str str) pm k v Hin). }
  rewrite (list_by_keys (sort_by_key fst g) _ Vg).
  assert (K: map fst (sort_by_key fst g) = sort_uniq (map snd pm)).
  { apply ssorted_unique.
    - apply sorted_nodup_strict.
      + apply Sorted_map_fst. unfold sort_by_key. apply sort_sorted. intros a b. apply str_leb_total.
      + eapply Permutation_NoDup; [apply Permutation_map; symmetry; apply sort_perm|exact Ng].
    - apply sort_uniq_ssorted.
    - intro x. rewrite sort_uniq_In. transitivity (In x (dkeys g)).
      + unfold dkeys. split; apply Permutation_in; apply Permutation_map; [|symmetry]; apply sort_perm.
      + split.
        * intro Hk. apply in_map_iff in Hk as ([k l] & E & Hin). simpl in E. subst k.
          apply (grouped_in _ (@snd str str) (@fst str str)) in Hin as [-> Hne].
          destruct (vals_for _ snd fst x pm) as [|p ps] eqn:V; [congruence|].
          assert (Hp: In p (vals_for _ (@snd str str) (@fst str str) x pm)) by (rewrite V; left; auto).
          unfold vals_for in Hp. apply in_map_iff in Hp as ([p' u'] & _ & Hf). apply filter_In in Hf as [Hin Hk]. simpl in Hk.
          apply str_eqb_eq in Hk. subst. apply in_map_iff. exists (p', x). auto.
        * intro Hs. apply in_map_iff in Hs as ([p u] & E & Hin). simpl in E. subst u.
          destruct (grouped_has _ (@snd str str) (@fst str str) pm (p, x) Hin) as (l & Hl & _). simpl in Hl.
          apply in_map_iff. exists (x, l). auto. }
  rewrite K. rewrite map_map. simpl.
  apply sequence_map_val. intros u Hu. unfold group_rec.
  pose proof (vals_for_nodup pm u N) as Nv.
  destruct (sort_str (vals_for _ snd fst u pm)) as [|p ps] eqn:S.
  - exfalso. apply (proj1 (sort_uniq_In _ _)) in Hu. apply in_map_iff in Hu as ([p0 u0] & E & Hin). simpl in E. subst u0.
    assert (In p0 (vals_for _ (@snd str str) (@fst str str) u pm)).
    { unfold vals_for. apply in_map_iff. exists (p0, u). split; auto. apply filter_In. split; auto. simpl. apply str_eqb_refl. }
    assert (In p0 (sort_str (vals_for _ (@snd str str) (@fst str str) u pm))) by (apply sort_In; auto). rewrite S in H0. destruct H0.
  - unfold mk_record. simpl.
    assert (Np: NoDup (p :: ps)) by (rewrite <- S; eapply Permutation_NoDup; [symmetry; apply sort_perm|exact Nv]).
    inversion Np as [|? ? Hn _]; subst. apply mem_false in Hn. rewrite Hn. reflexivity.
Qed.

(* the same records whatever the dictionary order *)
Theorem upgrade_order_independent pm pm' : NoDup (map fst pm) -> Permutation pm pm' -> upgrade_prefix_map pm' = upgrade_prefix_map pm.
Proof.
  intros N P. assert (N': NoDup (map fst pm')) by (eapply Permutation_NoDup; [apply Permutation_map; exact P|exact N]).
  rewrite !upgrade_canonical by auto.
  assert (Ein: forall x, In x pm <-> In x pm') by (intro x; split; apply Permutation_in; [|symmetry]; auto).
  rewrite (sort_uniq_set (map snd pm') (map snd pm)).
  - f_equal. apply map_ext. intro u. unfold group_rec.
    assert (E: sort_str (vals_for _ (@snd str str) (@fst str str) u pm') = sort_str (vals_for _ (@snd str str) (@fst str str) u pm)).
    { apply ssorted_unique.
      - apply sorted_nodup_strict; [apply sort_str_sorted|]. eapply Permutation_NoDup; [symmetry; apply sort_perm|apply vals_for_nodup; auto].
      - apply sorted_nodup_strict; [apply sort_str_sorted|]. eapply Permutation_NoDup; [symmetry; apply sort_perm|apply vals_for_nodup; auto].
      - intro x. unfold sort_str. rewrite !sort_In. unfold vals_for. rewrite !in_map_iff.
        split; intros (y & E & Hf); exists y; split; auto; apply filter_In in Hf as [H1 H2]; apply filter_In; split; auto; apply Ein; auto. }
    rewrite E. reflexivity.
  - intro x. rewrite !in_map_iff. split; intros (y & E & Hy); exists y; split; auto; apply Ein; auto.
Qed.

Lemma NoDup_flat_map_disjoint {A B} (f : A -> list B) l : NoDup l -> (forall x, In x l -> NoDup (f x)) ->
  (forall x y b, In x l -> In y l -> x <> y -> In b (f x) -> In b (f y) -> False) -> NoDup (flat_map f l).
Proof.
  induction l as [|a l IH]; simpl; intros N Hf Hd; [constructor|].
  inversion N as [|? ? Hn Hl]; subst. apply NoDup_app_inv_rev.
  - apply Hf. left; auto.
  - apply IH; auto. intros x y b Hx Hy. apply Hd; right; auto.
  - intros b Hb Hb'. apply in_flat_map in Hb' as (y & Hy & Hby). apply (Hd a y b); auto. intros ->. contradiction.
Qed.
Lemma dict_functional (pm : list (str * str)) p u1 u2 : NoDup (map fst pm) -> In (p, u1) pm -> In (p, u2) pm -> u1 = u2.
Proof.
  induction pm as [|[a b] pm IH]; simpl; intros N H1 H2; [destruct H1|]. inversion N as [|? ? Hn Hd]; subst.
  destruct H1 as [E1|H1], H2 as [E2|H2].
  - congruence.
  - inversion E1; subst. exfalso. apply Hn. apply in_map_iff. exists (p, u2). auto.
  - inversion E2; subst. exfalso. apply Hn. apply in_map_iff. exists (p, u1). auto.
  - apply IH; auto.
Qed.
Lemma vals_for_In (pm : list (str * str)) u p : In p (vals_for _ (@snd str str) (@fst str str) u pm) <-> In (p, u) pm.
Proof.
  unfold vals_for. rewrite in_map_iff. split.
  - intros ([p' u'] & E & Hf). simpl in E. subst. apply filter_In in Hf as [Hin Hk]. simpl in Hk. apply str_eqb_eq in Hk. subst. auto.
  - intro Hin. exists (p, u). split; auto. apply filter_In. split; auto. simpl. apply str_eqb_refl.
Qed.
Lemma group_rec_prefixes pm u : In u (map snd pm) ->
  all_prefixes (group_rec pm u) = sort_str (vals_for _ (@snd str str) (@fst str str) u pm) /\ all_uris (group_rec pm u) = [u].
Proof.
  intro Hu. unfold group_rec. destruct (sort_str (vals_for _ snd fst u pm)) as [|p ps] eqn:S; [|split; reflexivity].
  exfalso. apply in_map_iff in Hu as ([p0 u0] & E & Hin). simpl in E. subst u0.
  assert (In p0 (sort_str (vals_for _ (@snd str str) (@fst str str) u pm))) by (apply sort_In; apply vals_for_In; auto).
  rewrite S in H. destruct H.
Qed.

(* upgrade_prefix_map ALWAYS produces records a strict converter accepts *)
Theorem upgrade_strict d pm : NoDup (map fst pm) -> exists rs c, upgrade_prefix_map pm = Val rs /\ mk_conv true d rs = Val c.
Proof.
  intro N. rewrite upgrade_canonical by auto. eexists. 
  assert (Hs: forall u, In u (sort_uniq (map snd pm)) -> In u (map snd pm)) by (intros u; apply sort_uniq_In).
  destruct (nodup_mk_conv d (map (group_rec pm) (sort_uniq (map snd pm)))) as [c Hc].
  - rewrite flat_map_concat_map, map_map, <- flat_map_concat_map.
    apply NoDup_flat_map_disjoint.
    + apply ssorted_nodup. apply sort_uniq_ssorted.
    + intros u Hu. destruct (group_rec_prefixes pm u (Hs u Hu)) as [-> _].
      eapply Permutation_NoDup; [symmetry; apply sort_perm|apply vals_for_nodup; auto].
    + intros u1 u2 p H1 H2 Hne Hp1 Hp2. destruct (group_rec_prefixes pm u1 (Hs u1 H1)) as [E1 _]. destruct (group_rec_prefixes pm u2 (Hs u2 H2)) as [E2 _].
      rewrite E1 in Hp1. rewrite E2 in Hp2. apply sort_In in Hp1, Hp2. apply vals_for_In in Hp1, Hp2.
      apply Hne. eapply dict_functional; eauto.
  - rewrite flat_map_concat_map, map_map, <- flat_map_concat_map.
    rewrite (flat_map_ext _ (fun u => [u])).
    + rewrite flat_map_concat_map. clear. induction (sort_uniq (map snd pm)) as [|a l IH] eqn:E in |- *; [constructor|].
      revert E. generalize (sort_uniq_ssorted (map snd pm)). intros S E. rewrite E in S.
      assert (Nl: NoDup (a :: l)) by (apply ssorted_nodup; auto). clear -Nl.
      induction (a :: l) as [|x xs IHx]; simpl; [constructor|]. inversion Nl; subst. constructor; auto.
      intro Hin. apply H1. clear -Hin. induction xs; simpl in *; auto. destruct Hin; auto.
    + intro u. unfold group_rec. destruct (sort_str _); reflexivity.
  - exists c. split; auto.
Qed.

(* every listed pair is kept; the lexicographically first CURIE prefix among duplicates is canonical, the rest synonyms *)
Theorem upgrade_members pm p u : NoDup (map fst pm) -> In (p, u) pm ->
  let r := group_rec pm u in
  In r (map (group_rec pm) (sort_uniq (map snd pm))) /\ r_uri r = u /\ r_usyn r = [] /\ In p (all_prefixes r) /\
  (forall q, In q (all_prefixes r) <-> In (q, u) pm) /\ (forall q, In q (all_prefixes r) -> str_leb (r_prefix r) q = true).
Proof.
  intros N Hin r. assert (Hu: In u (map snd pm)) by (apply in_map_iff; exists (p, u); auto).
  destruct (group_rec_prefixes pm u Hu) as [Ep Eu].
  assert (Q: forall q, In q (all_prefixes r) <-> In (q, u) pm).
  { intro q. unfold r. rewrite Ep. unfold sort_str. rewrite sort_In. apply vals_for_In. }
  split; [apply in_map; apply sort_uniq_In; auto|]. split; [unfold r, group_rec; destruct (sort_str _); reflexivity|].
  split; [unfold r, group_rec; destruct (sort_str _); reflexivity|]. split; [apply Q; auto|]. split; auto.
  intros q Hq. unfold r in *. unfold group_rec in *.
  pose proof (sort_str_sorted (vals_for _ (@snd str str) (@fst str str) u pm)) as S.
  destruct (sort_str (vals_for _ snd fst u pm)) as [|p0 ps] eqn:E; simpl in *.
  - destruct Hq as [<-|[]]. reflexivity.
  - destruct Hq as [<-|Hq]; [unfold str_leb; rewrite (proj2 (str_cmp_eq p0 p0) eq_refl); reflexivity|].
    apply Sorted_StronglySorted in S; [|intros a b c0; apply str_leb_trans]. inversion S as [|? ? _ F]; subst.
    rewrite Forall_forall in F. apply F. auto.
Qed.

(* ---- a loaded prefix map expands and compresses as listed ---- *)
Theorem prefix_map_expand d pm c p u i : load true d (records_of_prefix_map pm) = Val c -> In (p, u) pm ->
  expand_pair c p i false false = Val (Some (u ++ i)) /\ is_uri c (u ++ i) = true.
Proof.
  unfold load. rewrite prefix_map_records. simpl. intros Hc Hin.
  set (rs := map (fun pu => rec0 (fst pu) (snd pu) [] [] None) pm) in *.
  assert (Hr: In (rec0 p u [] [] None) rs) by (apply in_map_iff; exists (p, u); auto).
  split.
  - unfold expand_pair. rewrite (A_expand_ref _ _ _ Hc). unfold sp_expand_pair. unfold owner_by_prefix.
    fold (owner all_prefixes rs p). rewrite (owner_reg all_prefixes rs p (rec0 p u [] [] None)); auto.
    + apply (own_p _ _ _ Hc).
    + left; reflexivity.
  - apply (C01Facts.is_uri_iff _ _ _ (u ++ i) Hc). exists (rec0 p u [] [] None), u. repeat split; auto; [left; reflexivity|apply prefixb_app].
Qed.

(* The executable law predicates P_C03, P_C06, P_C07, P_C08 accept the model's own observations on every valid case:
   together with the run-time comparison "implementation observation = model observation" this closes the chain
   theorem -> predicate -> implementation for the law-shaped query properties. *)
From Coq Require Import Lia Permutation.
From Curies.model Require Import Str PyData Trie Conv Query Val Answer Spec CheckQ.
From Curies.proofs Require Import StrFacts TrieFacts DictFacts IndexFacts QueryFacts CheckFacts LawFacts.

Definition zm (c : conv) (B : list query) : zobs := combine B (map (answer c) B).

Lemma find_obs_sub c B f q0 v : (forall q, f q = true -> q = q0) -> find_obs f (zm c B) = Some v -> v = answer c q0.
Proof.
  intros U. unfold find_obs, zm. induction B as [|b B' IH]; simpl; [discriminate|].
  destruct (f b) eqn:E.
  - intro H. injection H as <-. rewrite (U b E). reflexivity.
  - exact IH.
Qed.
Lemma find_obs_exact c B f q0 : (forall q, f q = true -> q = q0) -> In q0 B -> f q0 = true ->
  find_obs f (zm c B) = Some (answer c q0).
Proof.
  intros U Hin T. unfold find_obs, zm. induction B as [|b B' IH]; simpl; [destruct Hin|].
  destruct (f b) eqn:E.
  - rewrite (U b E). reflexivity.
  - destruct Hin as [->|Hin]; [congruence|]. apply IH; auto.
Qed.

Ltac sel_inv :=
  let q := fresh "q" in let H := fresh "H" in
  intros q H; destruct q; simpl in H; try discriminate;
  repeat match goal with b : bool |- _ => destruct b end; unfold beq in H; simpl in H; try discriminate;
  rewrite ?andb_true_r, ?andb_true_iff in H;
  repeat match goal with H : _ /\ _ |- _ => destruct H end;
  repeat match goal with H : str_eqb _ _ = true |- _ => apply str_eqb_eq in H; subst end; reflexivity.

Lemma u_compress s : forall q, q_compress s q = true -> q = QCompress s false false. Proof. sel_inv. Qed.
Lemma u_expand s : forall q, q_expand s q = true -> q = QExpand s false false. Proof. sel_inv. Qed.
Lemma u_expand_all s : forall q, q_expand_all s q = true -> q = QExpandAll s false. Proof. sel_inv. Qed.
Lemma u_std_uri s : forall q, q_std_uri s q = true -> q = QStdUri s false false. Proof. sel_inv. Qed.
Lemma u_std_curie s : forall q, q_std_curie s q = true -> q = QStdCurie s false false. Proof. sel_inv. Qed.
Lemma u_std_prefix s : forall q, q_std_prefix s q = true -> q = QStdPrefix s false false. Proof. sel_inv. Qed.
Lemma u_is_uri s : forall q, q_is_uri s q = true -> q = QIsUri s. Proof. sel_inv. Qed.
Lemma u_is_curie s : forall q, q_is_curie s q = true -> q = QIsCurie s. Proof. sel_inv. Qed.
Lemma u_parse_uri s : forall q, q_parse_uri s q = true -> q = QParseUri s false. Proof. sel_inv. Qed.
Lemma u_parse_curie s : forall q, q_parse_curie s q = true -> q = QParseCurie s false. Proof. sel_inv. Qed.
Lemma u_parse s : forall q, q_parse s q = true -> q = QParse s false. Proof. sel_inv. Qed.

Lemma ok_ostr_vres r o : ok_ostr (vres vostr r) = Some o -> r = Val o.
Proof.
  destruct r as [[x|]|e]; simpl.
  - intro H; injection H as <-; reflexivity.
  - intro H; injection H as <-; reflexivity.
  - destruct (lib_value_error e); discriminate.
Qed.
Lemma ostr_eqb_refl a : ostr_eqb a a = true.
Proof. destruct a; simpl; auto. apply str_eqb_refl. Qed.

Section PM.
Variables (k : qcase) (c : conv).
Hypothesis Hc : mk_conv true (qc_delim k) (qc_recs k) = Val c.
Variable B : list query.
Let z := zm c B.
Let d := qc_delim k.
Let rs := qc_recs k.

Lemma g_compress u o : get_ostr (q_compress u) z = Some o -> compress c u false false = Val o.
Proof.
  unfold get_ostr. destruct (find_obs (q_compress u) z) as [v|] eqn:E; [|discriminate].
  apply (find_obs_sub c B _ _ _ (u_compress u)) in E. subst v. apply ok_ostr_vres.
Qed.
Lemma g_expand u o : get_ostr (q_expand u) z = Some o -> expand c u false false = Val o.
Proof.
  unfold get_ostr. destruct (find_obs (q_expand u) z) as [v|] eqn:E; [|discriminate].
  apply (find_obs_sub c B _ _ _ (u_expand u)) in E. subst v. apply ok_ostr_vres.
Qed.
Lemma g_std_uri u o : get_ostr (q_std_uri u) z = Some o -> standardize_uri c u false false = Val o.
Proof.
  unfold get_ostr. destruct (find_obs (q_std_uri u) z) as [v|] eqn:E; [|discriminate].
  apply (find_obs_sub c B _ _ _ (u_std_uri u)) in E. subst v. apply ok_ostr_vres.
Qed.
Lemma g_std_curie u o : get_ostr (q_std_curie u) z = Some o -> standardize_curie c u false false = Val o.
Proof.
  unfold get_ostr. destruct (find_obs (q_std_curie u) z) as [v|] eqn:E; [|discriminate].
  apply (find_obs_sub c B _ _ _ (u_std_curie u)) in E. subst v. apply ok_ostr_vres.
Qed.
Lemma g_std_prefix u o : get_ostr (q_std_prefix u) z = Some o -> standardize_prefix c u false false = Val o.
Proof.
  unfold get_ostr. destruct (find_obs (q_std_prefix u) z) as [v|] eqn:E; [|discriminate].
  apply (find_obs_sub c B _ _ _ (u_std_prefix u)) in E. subst v. apply ok_ostr_vres.
Qed.

Lemma Hd_of : prefixes_delim_safe rs d = true -> H_d d rs.
Proof. unfold prefixes_delim_safe, H_d. intros H r Hr. rewrite forallb_forall in H. auto. Qed.

Lemma In_norm_all x l : In x l -> In x (norm_all l).
Proof.
  destruct l as [|a r]; [auto|]. cbn [norm_all]. intros [->|H]; [left; reflexivity|right].
  eapply Permutation.Permutation_in; [symmetry; apply (sort_perm str_leb)|exact H].
Qed.

(* ---- C03 ---- *)
Lemma law_lossless_model u : prefixes_delim_safe rs d = true -> law_C03_lossless z u = true.
Proof.
  intro Hs. apply Hd_of in Hs. unfold law_C03_lossless.
  destruct (get_ostr (q_compress u) z) as [[x|]|] eqn:E; auto. apply g_compress in E.
  destruct (C03_lossless d rs c Hc u x Hs E) as ((l & El & Hin) & Eq & Ne).
  apply andb_true_iff. split.
  - destruct (find_obs (q_expand_all x) z) as [v|] eqn:F; [|reflexivity].
    apply (find_obs_sub c B _ _ _ (u_expand_all x)) in F. subst v. simpl. rewrite El. simpl.
    apply existsb_exists. exists (VStr u). split; [apply in_map; apply In_norm_all; auto|apply val_eqb_refl].
  - destruct (get_ostr (q_expand x) z) as [a|] eqn:F1; [|reflexivity].
    destruct (get_ostr (q_std_uri u) z) as [b|] eqn:F2; [|reflexivity].
    apply g_expand in F1. apply g_std_uri in F2. simpl.
    assert (a = b) by congruence. subst b. rewrite ostr_eqb_refl. destruct a; auto; congruence.
Qed.
Lemma law_expand_compressible_model s : law_C03_expand_compressible z s = true.
Proof.
  unfold law_C03_expand_compressible.
  destruct (get_ostr (q_expand s) z) as [[u|]|] eqn:E; auto. apply g_expand in E.
  destruct (find_obs (q_is_uri u) z) as [v|] eqn:F; [|reflexivity].
  apply (find_obs_sub c B _ _ _ (u_is_uri u)) in F. subst v. simpl.
  rewrite (C03_expand_compressible d rs c Hc s u E). reflexivity.
Qed.
Lemma law_inverse_model s : prefix_freeb rs = true -> law_C03_inverse z s = true.
Proof.
  intro PF. apply prefix_freeb_spec in PF. unfold law_C03_inverse.
  destruct (get_ostr (q_expand s) z) as [[u|]|] eqn:E; auto. apply g_expand in E.
  destruct (get_ostr (q_compress u) z) as [a|] eqn:F1; [|reflexivity].
  destruct (get_ostr (q_std_curie s) z) as [b|] eqn:F2; [|reflexivity].
  apply g_compress in F1. apply g_std_curie in F2. simpl.
  destruct (C03_inverse_1 d rs c Hc s u PF E) as [Eq Ne].
  assert (a = b) by congruence. subst b. rewrite ostr_eqb_refl. destruct a; auto; congruence.
Qed.
Lemma P_C03_zm : P_C03 k z = true.
Proof.
  unfold P_C03. fold rs d.
  destruct (prefixes_delim_safe rs d) eqn:S.
  - rewrite !andb_true_iff. repeat split.
    + apply forallb_forall. intros u _. apply law_lossless_model; auto.
    + apply forallb_forall. intros u _. apply law_expand_compressible_model.
    + destruct (prefix_freeb rs) eqn:PF; auto. apply forallb_forall. intros u _. apply law_inverse_model; auto.
  - apply forallb_forall. intros u _. apply law_expand_compressible_model.
Qed.

(* ---- C06 ---- *)
Lemma law_idem_prefix_model s : law_idem q_std_prefix z s = true.
Proof.
  unfold law_idem. destruct (get_ostr (q_std_prefix s) z) as [[y|]|] eqn:E; auto. apply g_std_prefix in E.
  destruct (get_ostr (q_std_prefix y) z) as [r|] eqn:F; [|reflexivity]. apply g_std_prefix in F. simpl.
  rewrite (C06_prefix_idem d rs c Hc s y E) in F. injection F as <-. apply ostr_eqb_refl.
Qed.
Lemma law_idem_curie_model s : prefixes_delim_safe rs d = true -> law_idem q_std_curie z s = true.
Proof.
  intro Hs. apply Hd_of in Hs.
  unfold law_idem. destruct (get_ostr (q_std_curie s) z) as [[y|]|] eqn:E; auto. apply g_std_curie in E.
  destruct (get_ostr (q_std_curie y) z) as [r|] eqn:F; [|reflexivity]. apply g_std_curie in F. simpl.
  destruct (C06_curie_idem d rs c Hc s y Hs E) as [E1 _]. rewrite E1 in F. injection F as <-. apply ostr_eqb_refl.
Qed.
Lemma law_same_curie_model s : prefixes_delim_safe rs d = true -> law_same q_std_curie q_expand z s = true.
Proof.
  intro Hs. apply Hd_of in Hs.
  unfold law_same. destruct (get_ostr (q_std_curie s) z) as [[y|]|] eqn:E; auto. apply g_std_curie in E.
  destruct (get_ostr (q_expand y) z) as [a|] eqn:F1; [|reflexivity].
  destruct (get_ostr (q_expand s) z) as [b|] eqn:F2; [|reflexivity].
  apply g_expand in F1. apply g_expand in F2. simpl.
  destruct (C06_curie_idem d rs c Hc s y Hs E) as [_ E2]. assert (a = b) by congruence. subst. apply ostr_eqb_refl.
Qed.
Lemma law_idem_uri_model s : prefix_freeb rs = true -> law_idem q_std_uri z s = true.
Proof.
  intro PF. apply prefix_freeb_spec in PF.
  unfold law_idem. destruct (get_ostr (q_std_uri s) z) as [[y|]|] eqn:E; auto. apply g_std_uri in E.
  destruct (get_ostr (q_std_uri y) z) as [r|] eqn:F; [|reflexivity]. apply g_std_uri in F. simpl.
  destruct (C06_uri_idem d rs c Hc s y PF E) as [E1 _]. rewrite E1 in F. injection F as <-. apply ostr_eqb_refl.
Qed.
Lemma law_same_uri_model s : prefix_freeb rs = true -> law_same q_std_uri q_compress z s = true.
Proof.
  intro PF. apply prefix_freeb_spec in PF.
  unfold law_same. destruct (get_ostr (q_std_uri s) z) as [[y|]|] eqn:E; auto. apply g_std_uri in E.
  destruct (get_ostr (q_compress y) z) as [a|] eqn:F1; [|reflexivity].
  destruct (get_ostr (q_compress s) z) as [b|] eqn:F2; [|reflexivity].
  apply g_compress in F1. apply g_compress in F2. simpl.
  destruct (C06_uri_idem d rs c Hc s y PF E) as [_ E2]. assert (a = b) by congruence. subst. apply ostr_eqb_refl.
Qed.
Lemma P_C06_zm : P_C06 k z = true.
Proof.
  unfold P_C06. fold rs d. rewrite !andb_true_iff. repeat split.
  - apply (agree_model sel_C06 k c Hc). intros q; destruct q; simpl; auto; discriminate.
  - apply forallb_forall. intros s _. apply law_idem_prefix_model.
  - destruct (prefixes_delim_safe rs d) eqn:S; auto. rewrite andb_true_iff. split; apply forallb_forall; intros s _.
    + apply law_idem_curie_model; auto.
    + apply law_same_curie_model; auto.
  - destruct (prefix_freeb rs) eqn:PF; auto. rewrite andb_true_iff. split; apply forallb_forall; intros s _.
    + apply law_idem_uri_model; auto.
    + apply law_same_uri_model; auto.
Qed.
End PM.

Ltac in_list := simpl; repeat (first [left; reflexivity | right]).

Section PM7.
Variables (k : qcase) (c : conv).
Hypothesis Hc : mk_conv true (qc_delim k) (qc_recs k) = Val c.
Let B := qc_battery k.
Let z := zm c B.
Let d := qc_delim k.
Let rs := qc_recs k.

Lemma in_bat s q : In s (qc_strs k) -> In q (battery_str s) -> In q B.
Proof. intros Hs Hq. unfold B, qc_battery, battery. apply in_or_app. left. apply in_flat_map. eauto. Qed.
Lemma in_bat_pair pi q : In pi (qc_pairs k) -> In q (battery_pair pi) -> In q B.
Proof. intros Hs Hq. unfold B, qc_battery, battery. apply in_or_app. right. apply in_or_app. left. apply in_flat_map. eauto. Qed.

Ltac look u q s Hs := apply find_obs_exact; [apply u | apply (in_bat s q Hs); in_list | simpl; apply str_eqb_refl].

Lemma f_is_uri s (Hs : In s (qc_strs k)) : find_obs (q_is_uri s) z = Some (answer c (QIsUri s)).
Proof. look u_is_uri (QIsUri s) s Hs. Qed.
Lemma f_is_curie s (Hs : In s (qc_strs k)) : find_obs (q_is_curie s) z = Some (answer c (QIsCurie s)).
Proof. look u_is_curie (QIsCurie s) s Hs. Qed.
Lemma f_compress s (Hs : In s (qc_strs k)) : find_obs (q_compress s) z = Some (answer c (QCompress s false false)).
Proof. look u_compress (QCompress s false false) s Hs. Qed.
Lemma f_expand s (Hs : In s (qc_strs k)) : find_obs (q_expand s) z = Some (answer c (QExpand s false false)).
Proof. look u_expand (QExpand s false false) s Hs. Qed.
Lemma f_parse_uri s (Hs : In s (qc_strs k)) : find_obs (q_parse_uri s) z = Some (answer c (QParseUri s false)).
Proof. look u_parse_uri (QParseUri s false) s Hs. Qed.
Lemma f_parse_curie s (Hs : In s (qc_strs k)) : find_obs (q_parse_curie s) z = Some (answer c (QParseCurie s false)).
Proof. look u_parse_curie (QParseCurie s false) s Hs. Qed.
Lemma f_parse s (Hs : In s (qc_strs k)) : find_obs (q_parse s) z = Some (answer c (QParse s false)).
Proof. look u_parse (QParse s false) s Hs. Qed.

Lemma eqb_refl' b : Bool.eqb b b = true. Proof. destruct b; reflexivity. Qed.

Lemma law_C07_model s : In s (qc_strs k) -> law_C07 k z s = true.
Proof.
  intro Hs. unfold law_C07.
  rewrite (f_is_uri s Hs), (f_is_curie s Hs), (f_compress s Hs), (f_parse_uri s Hs), (f_expand s Hs), (f_parse s Hs), (f_parse_curie s Hs).
  cbn [answer].
  assert (E1: as_vbool (vres vbool (Val (is_uri c s))) = Some (is_uri c s)) by (destruct (is_uri c s); reflexivity).
  assert (E2: as_vbool (vres vbool (Val (is_curie c s))) = Some (is_curie c s)) by (destruct (is_curie c s); reflexivity).
  assert (E3: is_some_v (vres vostr (compress c s false false)) = Some (is_uri c s)).
  { rewrite (A_compress d rs c Hc), wrap_default, (A_is_uri d rs c Hc), sp_parse_uri_is. unfold sp_compress.
    destruct (sp_parse_uri rs s); reflexivity. }
  assert (E4: is_some_v (vres voref (parse_uri c s false)) = Some (is_uri c s)).
  { rewrite (A_parse_uri d rs c Hc), wrap1_default, (A_is_uri d rs c Hc), sp_parse_uri_is.
    destruct (sp_parse_uri rs s); reflexivity. }
  assert (E5: is_some_v (vres vostr (expand c s false false)) = Some (is_curie c s)).
  { rewrite (A_expand d rs c Hc), wrap_default, (A_is_curie d rs c Hc). unfold sp_is_curie.
    destruct (sp_expand rs d s); reflexivity. }
  assert (E6: (match partition (qc_delim k) s with
               | Some (p, _) => match owner_by_prefix (qc_recs k) p with Some _ => true | None => false end
               | None => false end) = is_curie c s).
  { rewrite (A_is_curie d rs c Hc). unfold sp_is_curie, sp_expand. fold d rs.
    destruct (partition d s) as [[p i]|]; auto. destruct (owner_by_prefix rs p); auto. }
  rewrite E1, E2, E3, E4, E5, E6. cbn [obool_eqb]. rewrite !eqb_refl'. cbn [andb].
  rewrite (C07_parse c s false).
  destruct (is_uri c s); cbn [Bool.eqb]; [apply val_eqb_refl|].
  destruct (is_curie c s); cbn [Bool.eqb]; apply val_eqb_refl.
Qed.
Lemma P_C07_zm : P_C07 k z = true.
Proof.
  unfold P_C07. rewrite andb_true_iff. split.
  - apply (agree_model sel_C07 k c Hc). intros q; destruct q; simpl; auto; discriminate.
  - apply forallb_forall. intros s Hs. apply law_C07_model; auto.
Qed.

(* ---- C08 ---- *)
Lemma mode_law_wrap {A} (f : A -> val) e (xa : A) (o : option A) (q : bool -> bool -> query) :
  lib_value_error e = true ->
  (forall st pa, answer c (q st pa) = vres (vopt f) (wrap st pa e xa o)) ->
  mode_law (f xa) (answer c (q false false)) (answer c (q false true)) (answer c (q true false)) (answer c (q true true)) = true.
Proof.
  intros He H. rewrite !H. destruct o as [y|]; simpl; rewrite ?He; simpl; rewrite ?val_eqb_refl; reflexivity.
Qed.
Lemma mode_law1_wrap {A} (f : A -> val) e (o : option A) (q : bool -> query) :
  lib_value_error e = true ->
  (forall st, answer c (q st) = vres (vopt f) (wrap1 st e o)) ->
  mode_law1 (answer c (q false)) (answer c (q true)) = true.
Proof.
  intros He H. rewrite !H. destruct o as [y|]; simpl; rewrite ?He; simpl; rewrite ?val_eqb_refl; reflexivity.
Qed.
Lemma fam4_model (mk : bool -> bool -> query -> bool) (q : bool -> bool -> query) x :
  (forall st pa q', mk st pa q' = true -> q' = q st pa) ->
  (forall st pa, mk st pa (q st pa) = true) ->
  (forall st pa, In (q st pa) B) ->
  mode_law x (answer c (q false false)) (answer c (q false true)) (answer c (q true false)) (answer c (q true true)) = true ->
  fam4 mk x z = true.
Proof.
  intros U T I M. unfold fam4, z.
  rewrite (find_obs_exact c B _ _ (U false false) (I _ _) (T _ _)), (find_obs_exact c B _ _ (U false true) (I _ _) (T _ _)),
          (find_obs_exact c B _ _ (U true false) (I _ _) (T _ _)), (find_obs_exact c B _ _ (U true true) (I _ _) (T _ _)).
  exact M.
Qed.
Lemma fam2_model (mk : bool -> query -> bool) (q : bool -> query) :
  (forall st q', mk st q' = true -> q' = q st) ->
  (forall st, mk st (q st) = true) ->
  (forall st, In (q st) B) ->
  mode_law1 (answer c (q false)) (answer c (q true)) = true ->
  fam2 mk z = true.
Proof.
  intros U T I M. unfold fam2, z.
  rewrite (find_obs_exact c B _ _ (U false) (I _) (T _)), (find_obs_exact c B _ _ (U true) (I _) (T _)). exact M.
Qed.

Ltac sel4 :=
  let q := fresh "q" in
  intros ? ? q; destruct q; try discriminate; unfold beq; rewrite !andb_true_iff;
  intros H; repeat match goal with H : _ /\ _ |- _ => destruct H end;
  repeat match goal with H : str_eqb _ _ = true |- _ => apply str_eqb_eq in H end;
  repeat match goal with H : Bool.eqb _ _ = true |- _ => apply Bool.eqb_prop in H end; subst; reflexivity.
Ltac sel2 :=
  let q := fresh "q" in
  intros ? q; destruct q; try discriminate; unfold beq; rewrite !andb_true_iff;
  intros H; repeat match goal with H : _ /\ _ |- _ => destruct H end;
  repeat match goal with H : str_eqb _ _ = true |- _ => apply str_eqb_eq in H end;
  repeat match goal with H : Bool.eqb _ _ = true |- _ => apply Bool.eqb_prop in H end; subst; reflexivity.
Ltac selT := intros; unfold beq; rewrite ?str_eqb_refl, ?eqb_refl'; reflexivity.
Ltac inB4 s Hs := intros st pa; apply (in_bat s _ Hs); destruct st, pa; in_list.
Ltac inB2 s Hs := intros st; apply (in_bat s _ Hs); destruct st; in_list.
Ltac ans := intros; rewrite (answer_spec d rs c Hc) by reflexivity; simpl; reflexivity.

Lemma law_C08_str_model s : In s (qc_strs k) -> law_C08_str z s = true.
Proof.
  intro Hs. unfold law_C08_str. rewrite !andb_true_iff. repeat split.
  - apply (fam4_model _ (QCompress s)); [sel4|selT|inB4 s Hs|]. apply (mode_law_wrap VStr ECompression s (sp_compress rs d s)); [reflexivity|ans].
  - apply (fam4_model _ (QExpand s)); [sel4|selT|inB4 s Hs|]. eapply (mode_law_wrap VStr _ s); [|ans]; reflexivity.
  - apply (fam4_model _ (QCompressOrStd s)); [sel4|selT|inB4 s Hs|]. eapply (mode_law_wrap VStr _ s); [|ans]; reflexivity.
  - apply (fam4_model _ (QExpandOrStd s)); [sel4|selT|inB4 s Hs|]. eapply (mode_law_wrap VStr _ s); [|ans]; reflexivity.
  - apply (fam4_model _ (QStdPrefix s)); [sel4|selT|inB4 s Hs|]. eapply (mode_law_wrap VStr _ s); [|ans]; reflexivity.
  - apply (fam4_model _ (QStdCurie s)); [sel4|selT|inB4 s Hs|]. eapply (mode_law_wrap VStr _ s); [|ans]; reflexivity.
  - apply (fam4_model _ (QStdUri s)); [sel4|selT|inB4 s Hs|]. eapply (mode_law_wrap VStr _ s); [|ans]; reflexivity.
  - apply (fam2_model _ (QParseUri s)); [sel2|selT|inB2 s Hs|]. eapply mode_law1_wrap; [|ans]; reflexivity.
  - apply (fam2_model _ (QParseCurie s)); [sel2|selT|inB2 s Hs|]. eapply mode_law1_wrap; [|ans]; reflexivity.
  - apply (fam2_model _ (QParse s)); [sel2|selT|inB2 s Hs|]. eapply mode_law1_wrap; [|ans]; reflexivity.
  - apply (fam2_model _ (QExpandAll s)); [sel2|selT|inB2 s Hs|]. eapply mode_law1_wrap; [|ans]; reflexivity.
Qed.
Lemma law_C08_pair_model pi : In pi (qc_pairs k) -> law_C08_pair (qc_delim k) z pi = true.
Proof.
  intro Hs. destruct pi as [p i]. unfold law_C08_pair. rewrite !andb_true_iff. repeat split.
  - apply (fam4_model _ (QExpandPair p i)); [sel4|selT|intros st pa; apply (in_bat_pair (p, i) _ Hs); destruct st, pa; in_list|].
    eapply (mode_law_wrap VStr _ (p ++ qc_delim k ++ i)); [|ans]; reflexivity.
  - apply (fam4_model _ (QExpandRef p i)); [sel4|selT|intros st pa; apply (in_bat_pair (p, i) _ Hs); destruct st, pa; in_list|].
    eapply (mode_law_wrap VStr _ (p ++ qc_delim k ++ i)); [|ans]; reflexivity.
  - apply (fam2_model _ (QExpandPairAll p i)); [sel2|selT|intros st; apply (in_bat_pair (p, i) _ Hs); destruct st; in_list|].
    eapply mode_law1_wrap; [|ans]; reflexivity.
Qed.
Lemma P_C08_zm : P_C08 k z = true.
Proof.
  unfold P_C08. rewrite andb_true_iff. split; apply forallb_forall.
  - intros s Hs. apply law_C08_str_model; auto.
  - intros pi Hp. apply law_C08_pair_model; auto.
Qed.
End PM7.

Theorem P_C03_model k : valid_q k = true -> eval_P 3 k (model_qobs k) = 1%Z.
Proof.
  intro Hv. destruct (valid_mk_conv k Hv) as [c Hc]. rewrite (eval_P_model _ _ _ Hc).
  change (P_query 3 k (combine (qc_battery k) (map (answer c) (qc_battery k)))) with (P_C03 k (zm c (qc_battery k))).
  rewrite (P_C03_zm k c Hc (qc_battery k)). reflexivity.
Qed.
Theorem P_C06_model k : valid_q k = true -> eval_P 6 k (model_qobs k) = 1%Z.
Proof.
  intro Hv. destruct (valid_mk_conv k Hv) as [c Hc]. rewrite (eval_P_model _ _ _ Hc).
  change (P_query 6 k (combine (qc_battery k) (map (answer c) (qc_battery k)))) with (P_C06 k (zm c (qc_battery k))).
  rewrite (P_C06_zm k c Hc (qc_battery k)). reflexivity.
Qed.
Theorem P_C07_model k : valid_q k = true -> eval_P 7 k (model_qobs k) = 1%Z.
Proof.
  intro Hv. destruct (valid_mk_conv k Hv) as [c Hc]. rewrite (eval_P_model _ _ _ Hc).
  change (P_query 7 k (combine (qc_battery k) (map (answer c) (qc_battery k)))) with (P_C07 k (zm c (qc_battery k))).
  rewrite (P_C07_zm k c Hc). reflexivity.
Qed.
Theorem P_C08_model k : valid_q k = true -> eval_P 8 k (model_qobs k) = 1%Z.
Proof.
  intro Hv. destruct (valid_mk_conv k Hv) as [c Hc]. rewrite (eval_P_model _ _ _ Hc).
  change (P_query 8 k (combine (qc_battery k) (map (answer c) (qc_battery k)))) with (P_C08 k (zm c (qc_battery k))).
  rewrite (P_C08_zm k c Hc). reflexivity.
Qed.

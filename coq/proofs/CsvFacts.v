(* Facts about the csv model (model/Csv.v): the line-based reader equals the one-machine stream reader; the round trip
   write -> read; the hypotheses are necessary; corollary for curies' triples files. *)
From Curies.model Require Import Csv.
From Coq Require Import Lia.

(* ------------------------------------------------------------------ small facts *)
Lemma rev_append_nil {A} (l : list A) : rev_append l [] = rev l.
Proof. symmetry. apply rev_alt. Qed.

Lemma feed_app lim d a : forall rd b,
  feed lim d rd (a ++ b) = match feed lim d rd a with None => None | Some rd' => feed lim d rd' b end.
Proof.
  induction a as [|c a IH]; intros rd b; [reflexivity|].
  cbn [app feed]. destruct (process_char lim d rd c) as [rd'|]; [apply IH|reflexivity].
Qed.

(* ------------------------------------------------------------------ lines reader = stream reader *)
Lemma line_step lim d rd cur c rest :
  reader_lines lim d rd (rev_append (c :: cur) [] :: rest) =
  match feed lim d rd (rev cur) with
  | None => None
  | Some rd' =>
      match process_char lim d rd' c with
      | None => None
      | Some rd1 =>
          let rd2 := process_eol rd1 in
          if is_start rd2 then option_map (cons (rev_append (r_fields rd2) [])) (reader_lines lim d reader_reset rest)
          else reader_lines lim d rd2 rest
      end
  end.
Proof.
  cbn [reader_lines]. rewrite rev_append_nil. cbn [rev]. rewrite feed_app.
  destruct (feed lim d rd (rev cur)) as [rd'|]; [|reflexivity].
  cbn [feed]. destruct (process_char lim d rd' c) as [rd1|]; reflexivity.
Qed.

Lemma file_lines_aux_cons2 cur c c' s :
  file_lines_aux cur (c :: c' :: s) =
  if N.eqb c LF then rev_append (c :: cur) [] :: file_lines_aux [] (c' :: s)
  else if N.eqb c CR then
    if N.eqb c' LF then file_lines_aux (c :: cur) (c' :: s) else rev_append (c :: cur) [] :: file_lines_aux [] (c' :: s)
  else file_lines_aux (c :: cur) (c' :: s).
Proof. reflexivity. Qed.

Lemma lines_stream_aux lim d : forall s c cur rd,
  reader_lines lim d rd (file_lines_aux cur (c :: s)) =
  match feed lim d rd (rev cur) with None => None | Some rd' => reader_stream lim d rd' (c :: s) end.
Proof.
  induction s as [|c' s IH]; intros c cur rd.
  - (* c is the last character *)
    assert (E: file_lines_aux cur [c] = [rev_append (c :: cur) []]).
    { cbn [file_lines_aux]. destruct (N.eqb c LF); [reflexivity|]. destruct (N.eqb c CR); reflexivity. }
    rewrite E, line_step. destruct (feed lim d rd (rev cur)) as [rd'|]; [|reflexivity].
    cbn [reader_stream]. destruct (process_char lim d rd' c) as [rd1|]; [|reflexivity].
    cbn [is_nil]. rewrite orb_true_r. reflexivity.
  - assert (Tail: forall rdx, reader_lines lim d rdx (file_lines_aux [] (c' :: s)) = reader_stream lim d rdx (c' :: s)).
    { intros rdx. rewrite IH. reflexivity. }
    assert (Cont: reader_lines lim d rd (file_lines_aux (c :: cur) (c' :: s)) =
                  match feed lim d rd (rev cur) with
                  | None => None
                  | Some rd' => match process_char lim d rd' c with None => None
                                | Some rd1 => reader_stream lim d rd1 (c' :: s) end end).
    { rewrite IH. cbn [rev]. rewrite feed_app. destruct (feed lim d rd (rev cur)) as [rd'|]; [|reflexivity].
      cbn [feed]. destruct (process_char lim d rd' c); reflexivity. }
    assert (Brk: reader_lines lim d rd (rev_append (c :: cur) [] :: file_lines_aux [] (c' :: s)) =
                  match feed lim d rd (rev cur) with
                  | None => None
                  | Some rd' => match process_char lim d rd' c with None => None
                                | Some rd1 =>
                                    let rd2 := process_eol rd1 in
                                    if is_start rd2
                                    then option_map (cons (rev_append (r_fields rd2) [])) (reader_stream lim d reader_reset (c' :: s))
                                    else reader_stream lim d rd2 (c' :: s) end end).
    { rewrite line_step. destruct (feed lim d rd (rev cur)) as [rd'|]; [|reflexivity].
      destruct (process_char lim d rd' c) as [rd1|]; [|reflexivity]. cbn zeta. rewrite !Tail. reflexivity. }
    assert (Str: forall rd', reader_stream lim d rd' (c :: c' :: s) =
                  match process_char lim d rd' c with None => None
                  | Some rd1 =>
                      if line_end c (c' :: s) then
                        let rd2 := process_eol rd1 in
                        if is_start rd2
                        then option_map (cons (rev_append (r_fields rd2) [])) (reader_stream lim d reader_reset (c' :: s))
                        else reader_stream lim d rd2 (c' :: s)
                      else reader_stream lim d rd1 (c' :: s) end).
    { intros rd'. cbn [reader_stream is_nil]. rewrite orb_false_r. reflexivity. }
    rewrite file_lines_aux_cons2. unfold line_end in Str.
    destruct (N.eqb c LF) eqn:ELF.
    + rewrite Brk. destruct (feed lim d rd (rev cur)) as [rd'|]; [|reflexivity]. rewrite Str. reflexivity.
    + destruct (N.eqb c CR) eqn:ECR.
      * destruct (N.eqb c' LF) eqn:E2.
        -- rewrite Cont. destruct (feed lim d rd (rev cur)) as [rd'|]; [|reflexivity]. rewrite Str. reflexivity.
        -- rewrite Brk. destruct (feed lim d rd (rev cur)) as [rd'|]; [|reflexivity]. rewrite Str. reflexivity.
      * rewrite Cont. destruct (feed lim d rd (rev cur)) as [rd'|]; [|reflexivity]. rewrite Str. reflexivity.
Qed.

Theorem csv_read_stream_eq lim d text : csv_read_lim lim d text = csv_read_stream_lim lim d text.
Proof.
  unfold csv_read_lim, csv_read_stream_lim, csv_reader_lim, file_lines.
  destruct text as [|c s]; [reflexivity|]. rewrite lines_stream_aux. reflexivity.
Qed.

(* ------------------------------------------------------------------ the round trip, on the stream reader *)
Definition delim_ok (d : chr) : Prop := d <> QUOTE /\ d <> CR /\ d <> LF.
Definition short (lim : N) (f : str) : Prop := (N.of_nat (length f) <= lim)%N.

Notation RD := Build_reader.

Lemma is_nil_app_r (s t : str) : t <> [] -> is_nil (s ++ t) = false.
Proof. intros H. destruct s; [destruct t; [contradiction|reflexivity]|reflexivity]. Qed.
Lemma is_nil_false (t : str) : t <> [] -> is_nil t = false.
Proof. intros H. destruct t; [contradiction|reflexivity]. Qed.

Lemma special_false d c : csv_special d c = false ->
  N.eqb c d = false /\ N.eqb c QUOTE = false /\ N.eqb c CR = false /\ N.eqb c LF = false.
Proof.
  unfold csv_special. intros H.
  apply orb_false_elim in H. destruct H as [H H4]. apply orb_false_elim in H. destruct H as [H H3].
  apply orb_false_elim in H. destruct H as [H1 H2]. auto.
Qed.

Lemma line_end_plain c t : N.eqb c CR = false -> N.eqb c LF = false -> line_end c t = false.
Proof. intros H1 H2. unfold line_end. rewrite H1, H2. reflexivity. Qed.

Section RoundTrip.
Variable lim : N.
Variable d : chr.
Hypothesis Hd : delim_ok d.

Lemma d_quote : N.eqb d QUOTE = false. Proof. apply N.eqb_neq. apply Hd. Qed.
Lemma d_cr : N.eqb d CR = false. Proof. apply N.eqb_neq. apply Hd. Qed.
Lemma d_lf : N.eqb d LF = false. Proof. apply N.eqb_neq. apply Hd. Qed.
Lemma cr_d : N.eqb CR d = false. Proof. rewrite N.eqb_sym. apply d_cr. Qed.
Lemma d_nl : is_nl d = false. Proof. unfold is_nl. rewrite d_lf, d_cr. reflexivity. Qed.

Notation RS := (reader_stream lim d).

(* one step of the stream reader on a character that does not end a line and is not the last one *)
Lemma RS_step rd c t rd1 :
  process_char lim d rd c = Some rd1 -> line_end c t = false -> t <> [] -> RS rd (c :: t) = RS rd1 t.
Proof.
  intros P L T. cbn [reader_stream]. rewrite P, L, (is_nil_false t T). reflexivity.
Qed.

(* inside quotes a line end changes nothing *)
Lemma RS_step_quoted fs acc len c t acc' len' :
  process_char lim d (RD IN_QUOTED_FIELD fs acc len) c = Some (RD IN_QUOTED_FIELD fs acc' len') -> t <> [] ->
  RS (RD IN_QUOTED_FIELD fs acc len) (c :: t) = RS (RD IN_QUOTED_FIELD fs acc' len') t.
Proof.
  intros P T. cbn [reader_stream]. rewrite P, (is_nil_false t T), orb_false_r.
  destruct (line_end c t); reflexivity.
Qed.

Lemma add_char_ok rd c st : (r_len rd < lim)%N ->
  add_char lim rd c st = Some (RD st (r_fields rd) (c :: r_field rd) (N.succ (r_len rd))).
Proof. intros H. unfold add_char. apply N.leb_gt in H. rewrite H. reflexivity. Qed.

(* an unquoted run of ordinary characters *)
Lemma run_plain : forall s fs acc len t,
  csv_needs_quote d s = false -> (len + N.of_nat (length s) <= lim)%N -> t <> [] ->
  RS (RD IN_FIELD fs acc len) (s ++ t) = RS (RD IN_FIELD fs (rev_append s acc) (len + N.of_nat (length s))) t.
Proof.
  induction s as [|c s IH]; intros fs acc len t Q L T.
  - cbn [app rev_append length N.of_nat]. rewrite N.add_0_r. reflexivity.
  - unfold csv_needs_quote in Q. cbn [existsb] in Q. apply orb_false_elim in Q. destruct Q as [Qc Qs].
    destruct (special_false _ _ Qc) as (E1 & E2 & E3 & E4).
    cbn [length] in L. rewrite Nat2N.inj_succ in L.
    cbn [app]. rewrite (RS_step _ _ _ (RD IN_FIELD fs (c :: acc) (N.succ len))).
    + rewrite IH; [|exact Qs|lia|exact T]. cbn [rev_append length]. rewrite Nat2N.inj_succ.
      f_equal. f_equal. lia.
    + cbn [process_char r_state]. unfold is_nl. rewrite E4, E3, E1. cbn [orb]. apply add_char_ok. cbn [r_len]. lia.
    + apply line_end_plain; assumption.
    + destruct s; [exact T|discriminate].
Qed.

(* a quoted run: any characters, quotes doubled, up to and including the closing quote *)
Lemma run_quoted : forall s fs acc len t,
  (len + N.of_nat (length s) <= lim)%N -> t <> [] ->
  RS (RD IN_QUOTED_FIELD fs acc len) (replace1 QUOTE [QUOTE; QUOTE] s ++ QUOTE :: t) =
  RS (RD QUOTE_IN_QUOTED_FIELD fs (rev_append s acc) (len + N.of_nat (length s))) t.
Proof.
  induction s as [|c s IH]; intros fs acc len t L T.
  - cbn [replace1 flat_map app rev_append length N.of_nat]. rewrite N.add_0_r.
    apply RS_step; [reflexivity|reflexivity|exact T].
  - cbn [length] in L. rewrite Nat2N.inj_succ in L.
    assert (NN: replace1 QUOTE [QUOTE; QUOTE] s ++ QUOTE :: t <> []) by (destruct (replace1 QUOTE [QUOTE; QUOTE] s); discriminate).
    unfold replace1 in *. cbn [flat_map]. destruct (N.eqb c QUOTE) eqn:EQ.
    + apply N.eqb_eq in EQ. subst c. cbn [app].
      rewrite (RS_step _ _ _ (RD QUOTE_IN_QUOTED_FIELD fs acc len)); [|reflexivity|reflexivity|discriminate].
      rewrite (RS_step _ _ _ (RD IN_QUOTED_FIELD fs (QUOTE :: acc) (N.succ len))); [| |reflexivity|exact NN].
      * rewrite IH; [|lia|exact T]. cbn [rev_append length]. rewrite Nat2N.inj_succ. f_equal. f_equal. lia.
      * cbn [process_char r_state]. rewrite N.eqb_refl. apply add_char_ok. cbn [r_len]. lia.
    + cbn [app]. rewrite (RS_step_quoted fs acc len c _ (c :: acc) (N.succ len)); [| |exact NN].
      * rewrite IH; [|lia|exact T]. cbn [rev_append length]. rewrite Nat2N.inj_succ. f_equal. f_equal. lia.
      * cbn [process_char r_state]. rewrite EQ. apply add_char_ok. cbn [r_len]. lia.
Qed.

(* the states in which a field can end *)
Definition field_end_state (st : pstate) : Prop := st = START_FIELD \/ st = IN_FIELD \/ st = QUOTE_IN_QUOTED_FIELD.

(* one written field, read from the start of a field (or of a record, if the text of the field is not empty) *)
Lemma consume_field st f fs :
  st = START_FIELD \/ (st = START_RECORD /\ f <> []) -> short lim f ->
  exists st', field_end_state st' /\
    forall t, t <> [] -> RS (RD st fs [] 0%N) (csv_field d f ++ t) = RS (RD st' fs (rev f) (N.of_nat (length f))) t.
Proof.
  intros Hst Hs. unfold short in Hs. unfold csv_field. destruct (csv_needs_quote d f) eqn:Q.
  - exists QUOTE_IN_QUOTED_FIELD. split; [right; right; reflexivity|]. intros t T.
    cbn [app]. rewrite <- app_assoc. cbn [app].
    rewrite (RS_step _ _ _ (RD IN_QUOTED_FIELD fs [] 0%N)).
    + rewrite run_quoted; [|lia|exact T]. rewrite rev_append_nil, N.add_0_l. reflexivity.
    + destruct Hst as [->|[-> _]]; reflexivity.
    + reflexivity.
    + destruct (replace1 QUOTE [QUOTE; QUOTE] f); discriminate.
  - destruct f as [|c f].
    + exists st. split.
      * destruct Hst as [->|[_ N]]; [left; reflexivity|contradiction].
      * intros t T. reflexivity.
    + exists IN_FIELD. split; [right; left; reflexivity|]. intros t T.
      unfold csv_needs_quote in Q. cbn [existsb] in Q. apply orb_false_elim in Q. destruct Q as [Qc Qs].
      destruct (special_false _ _ Qc) as (E1 & E2 & E3 & E4).
      cbn [length] in Hs. rewrite Nat2N.inj_succ in Hs.
      cbn [app]. rewrite (RS_step _ _ _ (RD IN_FIELD fs [c] 1%N)).
      * rewrite run_plain; [|exact Qs|lia|exact T]. cbn [rev length]. rewrite rev_append_rev, Nat2N.inj_succ.
        f_equal. f_equal. lia.
      * assert (SF: start_field lim d (RD st fs [] 0%N) c = Some (RD IN_FIELD fs [c] 1%N)).
        { unfold start_field, is_nl. rewrite E4, E3, E2, E1. cbn [orb].
          rewrite add_char_ok; [reflexivity|cbn [r_len]; lia]. }
        destruct Hst as [->|[-> _]]; cbn [process_char r_state]; [exact SF|].
        unfold is_nl. rewrite E4, E3. cbn [orb]. exact SF.
      * apply line_end_plain; assumption.
      * destruct f; [exact T|discriminate].
Qed.

(* the delimiter after a field *)
Lemma delim_step st fs acc len t : field_end_state st \/ st = START_RECORD -> t <> [] ->
  RS (RD st fs acc len) (d :: t) = RS (RD START_FIELD (rev acc :: fs) [] 0%N) t.
Proof.
  intros Hst T. apply RS_step; [| |exact T].
  - assert (SF: start_field lim d (RD st fs acc len) d = Some (RD START_FIELD (rev acc :: fs) [] 0%N)).
    { unfold start_field. rewrite d_nl, d_quote, N.eqb_refl. unfold save_field. cbn [r_field r_fields].
      rewrite rev_append_nil. reflexivity. }
    destruct Hst as [[->|[->| ->]]| ->]; cbn [process_char r_state]; rewrite ?d_nl, ?d_quote, ?N.eqb_refl;
      try exact SF; unfold save_field; cbn [r_field r_fields]; rewrite rev_append_nil; reflexivity.
  - apply line_end_plain; [apply d_cr|apply d_lf].
Qed.

(* the line terminator after the last field *)
Lemma end_record st fs acc len t : field_end_state st ->
  RS (RD st fs acc len) (CR :: LF :: t) = option_map (cons (rev (rev acc :: fs))) (RS reader_reset t).
Proof.
  intros Hst.
  assert (P: process_char lim d (RD st fs acc len) CR = Some (RD EAT_CRNL (rev acc :: fs) [] 0%N)).
  { destruct Hst as [->|[->| ->]]; cbn [process_char r_state]; unfold start_field; rewrite ?cr_d;
      change (is_nl CR) with true; change (N.eqb CR QUOTE) with false; cbn match;
      unfold save_field; cbn [r_field r_fields]; rewrite rev_append_nil; reflexivity. }
  rewrite (RS_step _ _ _ _ P); [|reflexivity|discriminate].
  cbn [reader_stream process_char r_state]. change (is_nl LF) with true. cbn match.
  change (line_end LF t) with true. cbn [orb process_eol r_state set_state is_start r_fields].
  rewrite rev_append_nil. reflexivity.
Qed.

(* the fields of a row from the first one on, then the terminator *)
Lemma row_from : forall fields f fs st t,
  st = START_FIELD \/ (st = START_RECORD /\ f <> []) -> Forall (short lim) (f :: fields) ->
  RS (RD st fs [] 0%N) (join [d] (map (csv_field d) (f :: fields)) ++ CR :: LF :: t) =
  option_map (cons (rev fs ++ f :: fields)) (RS reader_reset t).
Proof.
  induction fields as [|f2 fields IH]; intros f fs st t Hst HF.
  - destruct (consume_field st f fs Hst) as (st' & E' & C); [inversion HF; assumption|].
    cbn [map join]. rewrite C by discriminate. rewrite end_record by exact E'.
    rewrite rev_involutive. reflexivity.
  - destruct (consume_field st f fs Hst) as (st' & E' & C); [inversion HF; assumption|].
    change (join [d] (map (csv_field d) (f :: f2 :: fields)))
      with (csv_field d f ++ [d] ++ join [d] (map (csv_field d) (f2 :: fields))).
    rewrite <- !app_assoc. cbn [app].
    assert (NN: join [d] (map (csv_field d) (f2 :: fields)) ++ CR :: LF :: t <> []).
    { destruct (join [d] (map (csv_field d) (f2 :: fields))); discriminate. }
    rewrite C by discriminate. rewrite delim_step; [|left; exact E'|exact NN].
    rewrite rev_involutive. rewrite IH; [|left; reflexivity|inversion HF; assumption].
    cbn [rev]. rewrite <- app_assoc. reflexivity.
Qed.

Lemma csv_field_nonempty f : f <> [] -> csv_field d f <> [].
Proof. intros H. unfold csv_field. destruct (csv_needs_quote d f); [discriminate|exact H]. Qed.

(* one written row, followed by anything, read from the start of a record *)
Lemma row_stream fields t : Forall (short lim) fields ->
  RS reader_reset (csv_write_row d fields ++ t) = option_map (cons fields) (RS reader_reset t).
Proof.
  intros HF. unfold csv_write_row.
  destruct fields as [|f fields].
  - (* the empty row: a blank line *) reflexivity.
  - destruct fields as [|f2 fields].
    + destruct f as [|c f].
      * (* the row [""]: written as two quotes *)
        cbn [map join csv_field csv_needs_quote existsb app].
        rewrite (RS_step _ _ _ (RD IN_QUOTED_FIELD [] [] 0%N)); [|reflexivity|reflexivity|discriminate].
        rewrite (RS_step _ _ _ (RD QUOTE_IN_QUOTED_FIELD [] [] 0%N)); [|reflexivity|reflexivity|discriminate].
        rewrite end_record by (right; right; reflexivity). reflexivity.
      * assert (NE: csv_field d (c :: f) <> []) by (apply csv_field_nonempty; discriminate).
        cbn [map join]. destruct (csv_field d (c :: f)) as [|x body] eqn:B; [contradiction|].
        rewrite <- B. rewrite <- app_assoc. cbn [app].
        change (csv_field d (c :: f)) with (join [d] (map (csv_field d) [c :: f])).
        apply (row_from [] (c :: f) [] START_RECORD t); [right; split; [reflexivity|discriminate]|exact HF].
    + change (join [d] (map (csv_field d) (f :: f2 :: fields)))
        with (csv_field d f ++ [d] ++ join [d] (map (csv_field d) (f2 :: fields))).
      assert (NN: join [d] (map (csv_field d) (f2 :: fields)) ++ CR :: LF :: t <> []).
      { destruct (join [d] (map (csv_field d) (f2 :: fields))); discriminate. }
      destruct f as [|c f].
      * (* first field empty: the text starts with the delimiter *)
        cbn [csv_field csv_needs_quote existsb app]. rewrite <- app_assoc. cbn [app].
        change reader_reset with (RD START_RECORD [] [] 0%N).
        rewrite delim_step; [|right; reflexivity|exact NN].
        rewrite row_from; [reflexivity|left; reflexivity|inversion HF; assumption].
      * assert (E: (match csv_field d (c :: f) ++ [d] ++ join [d] (map (csv_field d) (f2 :: fields)) with
                    | [] => [QUOTE; QUOTE] | _ :: _ => csv_field d (c :: f) ++ [d] ++ join [d] (map (csv_field d) (f2 :: fields)) end)
                   = csv_field d (c :: f) ++ [d] ++ join [d] (map (csv_field d) (f2 :: fields))).
        { destruct (csv_field d (c :: f)); reflexivity. }
        rewrite E.
        change (csv_field d (c :: f) ++ [d] ++ join [d] (map (csv_field d) (f2 :: fields)))
          with (join [d] (map (csv_field d) ((c :: f) :: f2 :: fields))). rewrite <- app_assoc. cbn [app].
        apply (row_from (f2 :: fields) (c :: f) [] START_RECORD t); [right; split; [reflexivity|discriminate]|exact HF].
Qed.

Lemma rows_stream rows : Forall (Forall (short lim)) rows -> RS reader_reset (csv_write_rows d rows) = Some rows.
Proof.
  induction rows as [|r rows IH]; intros HF; [reflexivity|].
  unfold csv_write_rows. cbn [flat_map]. rewrite row_stream by (inversion HF; assumption).
  fold (csv_write_rows d rows). rewrite IH by (inversion HF; assumption). reflexivity.
Qed.

End RoundTrip.

(* ------------------------------------------------------------------ the round-trip theorems *)
(* any field limit *)
Theorem csv_roundtrip_row_lim lim d fields : delim_ok d -> Forall (short lim) fields ->
  csv_read_lim lim d (csv_write_row d fields) = Some [fields].
Proof.
  intros Hd HF. rewrite csv_read_stream_eq. unfold csv_read_stream_lim.
  rewrite <- (app_nil_r (csv_write_row d fields)). rewrite (row_stream lim d Hd fields [] HF). reflexivity.
Qed.

Theorem csv_roundtrip_lim lim d rows : delim_ok d -> Forall (Forall (short lim)) rows ->
  csv_read_lim lim d (csv_write_rows d rows) = Some rows.
Proof. intros Hd HF. rewrite csv_read_stream_eq. apply rows_stream; assumption. Qed.

(* the module default csv.field_size_limit() = 131072 *)
Theorem csv_roundtrip_row d fields : delim_ok d -> Forall (short csv_field_limit) fields ->
  csv_read d (csv_write_row d fields) = Some [fields].
Proof. apply csv_roundtrip_row_lim. Qed.

Theorem csv_roundtrip d rows : delim_ok d -> Forall (Forall (short csv_field_limit)) rows ->
  csv_read d (csv_write_rows d rows) = Some rows.
Proof. apply csv_roundtrip_lim. Qed.

(* in particular: the empty row [] (a blank line) and the row [""] (two quotes) are told apart *)
Example csv_empty_row : csv_write_row TAB [] = [CR; LF] /\ csv_read TAB [CR; LF] = Some [[]].
Proof. split; reflexivity. Qed.
Example csv_row_of_empty_field : csv_write_row TAB [[]] = [QUOTE; QUOTE; CR; LF] /\ csv_read TAB [QUOTE; QUOTE; CR; LF] = Some [[[]]].
Proof. split; reflexivity. Qed.

(* ------------------------------------------------------------------ the hypotheses are necessary *)
(* 1. the delimiter.  CPython 3.12 accepts a delimiter equal to the quote character, to CR or to LF; each of them
      breaks the two-field rows whose first field is empty.  Real Python 3.12.1, row ("", "x"):
        delimiter = quote : the text  QUOTE x CR LF  reads back as the single record ("x" CR LF)
        delimiter = CR    : the text  CR x CR LF     reads back as the two records (), ("x")
        delimiter = LF    : the text  LF x CR LF     reads back as the two records (), ("x")            *)
Theorem csv_roundtrip_quote_delim_refuted :
  csv_read QUOTE (csv_write_row QUOTE [[]; [120%N]]) = Some [[[120%N; CR; LF]]].
Proof. vm_compute. reflexivity. Qed.
Theorem csv_roundtrip_cr_delim_refuted :
  csv_read CR (csv_write_row CR [[]; [120%N]]) = Some [[]; [[120%N]]].
Proof. vm_compute. reflexivity. Qed.
Theorem csv_roundtrip_lf_delim_refuted :
  csv_read LF (csv_write_row LF [[]; [120%N]]) = Some [[]; [[120%N]]].
Proof. vm_compute. reflexivity. Qed.

Theorem csv_roundtrip_delim_iff lim d :
  (forall fields, Forall (short lim) fields -> csv_read_lim lim d (csv_write_row d fields) = Some [fields]) <-> delim_ok d.
Proof.
  split; [|intros Hd fields; apply csv_roundtrip_row_lim; exact Hd].
  intros H. specialize (H [[]; []]).
  assert (HF: Forall (short lim) [[]; []]) by (repeat constructor; unfold short; cbn; lia).
  specialize (H HF). unfold delim_ok.
  repeat split; intros ->; revert H.
  - unfold csv_read_lim, csv_reader_lim. cbn. unfold add_char. cbn.
    destruct (N.leb lim 0); cbn; [discriminate|]. unfold add_char. cbn. destruct (N.leb lim 1); cbn; discriminate.
  - vm_compute. discriminate.
  - vm_compute. discriminate.
Qed.

(* 2. the field limit.  Whatever the text, every field the reader returns is at most field_size_limit long
      (a longer one raises csv.Error "field larger than field limit"), so a row with a longer field cannot come back *)
Definition rd_inv (lim : N) (rd : reader) : Prop :=
  r_len rd = N.of_nat (length (r_field rd)) /\ (r_len rd <= lim)%N /\ Forall (short lim) (r_fields rd).

Lemma add_char_inv lim rd c st rd' : rd_inv lim rd -> add_char lim rd c st = Some rd' -> rd_inv lim rd'.
Proof.
  intros (I1 & I2 & I3). unfold add_char. destruct (N.leb lim (r_len rd)) eqn:E; [discriminate|].
  intros H. inversion H; subst rd'; clear H. apply N.leb_gt in E.
  unfold rd_inv. cbn [r_len r_field r_fields length]. rewrite Nat2N.inj_succ. repeat split; [lia|lia|exact I3].
Qed.
Lemma save_field_inv lim rd st : rd_inv lim rd -> rd_inv lim (save_field rd st).
Proof.
  intros (I1 & I2 & I3). unfold rd_inv, save_field. cbn [r_len r_field r_fields length]. repeat split; [lia|].
  constructor; [|exact I3]. unfold short. rewrite rev_append_nil, rev_length. lia.
Qed.
Lemma set_state_inv lim rd st : rd_inv lim rd -> rd_inv lim (set_state rd st).
Proof. intros I. exact I. Qed.
Lemma reset_inv lim : rd_inv lim reader_reset.
Proof. unfold rd_inv. cbn. repeat split; [lia|constructor]. Qed.

Lemma process_char_inv lim d rd c rd' : rd_inv lim rd -> process_char lim d rd c = Some rd' -> rd_inv lim rd'.
Proof.
  intros I. unfold process_char, start_field.
  destruct (r_state rd);
    repeat match goal with |- context [if ?b then _ else _] => destruct b end;
    intros H; try discriminate;
    try (inversion H; subst rd'; first [apply save_field_inv; exact I | apply set_state_inv; exact I | exact I]);
    eapply add_char_inv; eassumption.
Qed.
Lemma process_eol_inv lim rd : rd_inv lim rd -> rd_inv lim (process_eol rd).
Proof.
  intros I. unfold process_eol.
  destruct (r_state rd); first [exact I | apply save_field_inv; exact I | apply set_state_inv; exact I].
Qed.

Lemma reader_stream_short lim d : forall s rd recs,
  rd_inv lim rd -> reader_stream lim d rd s = Some recs -> Forall (Forall (short lim)) recs.
Proof.
  induction s as [|c t IH]; intros rd recs I H.
  - cbn [reader_stream] in H. inversion H; subst recs; clear H. unfold reader_eof.
    destruct (negb (N.eqb (r_len rd) 0) || is_in_quoted rd); [|constructor].
    constructor; [|constructor]. rewrite rev_append_nil. apply Forall_rev.
    apply (save_field_inv lim rd START_RECORD I).
  - cbn [reader_stream] in H. destruct (process_char lim d rd c) as [rd1|] eqn:P; [|discriminate].
    pose proof (process_char_inv _ _ _ _ _ I P) as I1.
    pose proof (process_eol_inv _ _ I1) as I2.
    destruct (line_end c t || is_nil t).
    + cbn zeta in H. destruct (is_start (process_eol rd1)).
      * destruct (reader_stream lim d reader_reset t) as [recs'|] eqn:R; [|discriminate].
        cbn [option_map] in H. inversion H; subst recs; clear H.
        constructor; [|apply (IH reader_reset); [apply reset_inv|exact R]].
        rewrite rev_append_nil. apply Forall_rev. apply I2.
      * apply (IH _ _ I2 H).
    + apply (IH _ _ I1 H).
Qed.

Theorem csv_read_fields_short lim d text recs :
  csv_read_lim lim d text = Some recs -> Forall (Forall (short lim)) recs.
Proof. rewrite csv_read_stream_eq. apply reader_stream_short. apply reset_inv. Qed.

(* the round trip holds exactly for the rows whose fields fit the limit *)
Theorem csv_roundtrip_row_iff lim d fields : delim_ok d ->
  (csv_read_lim lim d (csv_write_row d fields) = Some [fields] <-> Forall (short lim) fields).
Proof.
  intros Hd. split; [|apply csv_roundtrip_row_lim; exact Hd].
  intros H. apply csv_read_fields_short in H. inversion H; assumption.
Qed.
Theorem csv_roundtrip_iff lim d rows : delim_ok d ->
  (csv_read_lim lim d (csv_write_rows d rows) = Some rows <-> Forall (Forall (short lim)) rows).
Proof.
  intros Hd. split; [apply csv_read_fields_short|apply csv_roundtrip_lim; exact Hd].
Qed.

(* witness with the default limit: a field of 131073 characters is written but cannot be read back (csv.Error in
   real Python too); 131072 characters are fine *)
Theorem csv_roundtrip_long_field_refuted :
  csv_read TAB (csv_write_row TAB [repeat 97%N (N.to_nat 131073)]) = None.
Proof. vm_compute. reflexivity. Qed.
Example csv_roundtrip_longest_field :
  csv_read TAB (csv_write_row TAB [repeat 97%N (N.to_nat 131072)]) = Some [[repeat 97%N (N.to_nat 131072)]].
Proof.
  apply csv_roundtrip_row; [repeat split; discriminate|].
  constructor; [|constructor]. unfold short. rewrite repeat_length, N2Nat.id. unfold csv_field_limit. lia.
Qed.

(* ------------------------------------------------------------------ when can the reader raise at all? *)
(* On the text of a file opened with newline="" the error "new-line character seen in unquoted field" is impossible:
   a text that is not longer than the field limit is always read without csv.Error. *)
Definition rs_ok (lim : N) (rd : reader) (s : str) : Prop :=
  (r_state rd = EAT_CRNL -> exists t, s = LF :: t) /\ (r_len rd + N.of_nat (length s) <= lim)%N.

Lemma process_char_total lim d rd c :
  (r_state rd = EAT_CRNL -> c = LF) -> (r_len rd < lim)%N ->
  exists rd1, process_char lim d rd c = Some rd1 /\ (r_len rd1 <= N.succ (r_len rd))%N /\
              (r_state rd1 = EAT_CRNL -> is_nl c = true).
Proof.
  intros HE HL. apply N.leb_gt in HL. unfold process_char, start_field, add_char. rewrite HL.
  destruct (r_state rd) eqn:ST;
    try (destruct (is_nl c) eqn:NL); try (destruct (N.eqb c QUOTE)); try (destruct (N.eqb c d));
    try (destruct (is_nl c) eqn:NL);
    try (eexists; split; [reflexivity|]; cbn [r_len r_state save_field set_state]; split; [lia|];
         first [discriminate | intros _; reflexivity | congruence]).
  all: rewrite (HE eq_refl) in NL; discriminate.
Qed.

Lemma process_eol_facts rd : r_state (process_eol rd) <> EAT_CRNL /\ (r_len (process_eol rd) <= r_len rd)%N.
Proof. unfold process_eol. destruct (r_state rd) eqn:ST; cbn [r_state r_len save_field set_state]; rewrite ?ST; split; try discriminate; lia. Qed.

Lemma reader_stream_total lim d : forall s rd, rs_ok lim rd s -> reader_stream lim d rd s <> None.
Proof.
  induction s as [|c t IH]; intros rd (HE & HL); [discriminate|].
  cbn [length] in HL. rewrite Nat2N.inj_succ in HL.
  destruct (process_char_total lim d rd c) as (rd1 & P & L1 & E1).
  { intros ST. destruct (HE ST) as (t' & E). inversion E. reflexivity. }
  { lia. }
  cbn [reader_stream]. rewrite P.
  destruct (line_end c t || is_nil t) eqn:LE.
  - cbn zeta. destruct (process_eol_facts rd1) as (NE & L2).
    destruct (is_start (process_eol rd1)).
    + assert (R: reader_stream lim d reader_reset t <> None).
      { apply IH. split; [discriminate|]. cbn [reader_reset r_len]. lia. }
      destruct (reader_stream lim d reader_reset t); [discriminate|contradiction].
    + apply IH. split; [intros ST; contradiction|lia].
  - apply IH. split; [|lia]. intros ST. specialize (E1 ST).
    apply orb_false_elim in LE. destruct LE as [LE NN]. unfold line_end in LE. unfold is_nl in E1.
    apply orb_false_elim in LE. destruct LE as [LE1 LE2]. rewrite LE1 in E1. cbn [orb] in E1. rewrite E1 in LE2.
    cbn [andb] in LE2. apply negb_false_iff in LE2.
    destruct t as [|c2 t']; [discriminate|]. apply N.eqb_eq in LE2. subst c2. exists t'. reflexivity.
Qed.

Theorem csv_read_total lim d text : (N.of_nat (length text) <= lim)%N -> csv_read_lim lim d text <> None.
Proof.
  intros H. rewrite csv_read_stream_eq. apply reader_stream_total.
  split; [discriminate|]. cbn [reader_reset r_len]. lia.
Qed.
(* whereas csv.reader on arbitrary strings can raise it: csv.reader(["a\rb"]) *)
Example csv_reader_newline_error : csv_reader TAB [[97%N; CR; 98%N]] = None.
Proof. reflexivity. Qed.

(* ------------------------------------------------------------------ curies' triples files *)
(* curies.triples.write_triples / read_triples: csv.writer(file, delimiter="\t") writes the header row and one row of
   three CURIE strings per triple; csv.reader(file, delimiter="\t") reads them back; file opened with newline="". *)
From Curies.model Require Import Reference.
From Curies.proofs Require Import ReferenceFacts.

Lemma tab_ok : delim_ok TAB.
Proof. repeat split; discriminate. Qed.

(* a row of three strings reads back as the same three strings, whatever characters they contain *)
Corollary csv_triple_strings_roundtrip (a b c : str) :
  short csv_field_limit a -> short csv_field_limit b -> short csv_field_limit c ->
  csv_read TAB (csv_write_row TAB [a; b; c]) = Some [[a; b; c]].
Proof. intros Ha Hb Hc. apply csv_roundtrip_row; [exact tab_ok|repeat constructor; assumption]. Qed.

(* a row of three CURIEs (model/Reference.v: triple_row s p o = [curie s; curie p; curie o]) *)
Definition curie_short (r : reference) : Prop := short csv_field_limit (curie r).

Corollary csv_triple_row_roundtrip (s p o : reference) :
  curie_short s -> curie_short p -> curie_short o ->
  csv_read TAB (csv_write_row TAB (triple_row s p o)) = Some [triple_row s p o].
Proof. apply csv_triple_strings_roundtrip. Qed.

(* the whole file: header, then the rows of the triples *)
Definition triple_rows (ts : list (reference * reference * reference)) : list (list str) :=
  map (fun t => match t with (s, p, o) => triple_row s p o end) ts.

Corollary csv_triples_file_roundtrip (header : list str) (ts : list (reference * reference * reference)) :
  Forall (short csv_field_limit) header ->
  Forall (fun t => match t with (s, p, o) => curie_short s /\ curie_short p /\ curie_short o end) ts ->
  csv_read TAB (csv_write_rows TAB (header :: triple_rows ts)) = Some (header :: triple_rows ts).
Proof.
  intros Hh Ht. apply csv_roundtrip; [exact tab_ok|]. constructor; [exact Hh|].
  unfold triple_rows. apply Forall_map. eapply Forall_impl; [|exact Ht].
  intros [[s p] o] (Hs & Hp & Ho). repeat constructor; assumption.
Qed.

(* end to end with the CURIE parser of read_triples: the pairs come back when the prefixes are colon-free (that
   condition belongs to the CURIE syntax, not to the csv layer; see ReferenceFacts.triples_roundtrip) *)
Corollary csv_triple_pairs_roundtrip (s p o : reference) :
  curie_short s -> curie_short p -> curie_short o ->
  ~ In 58%N (rf_prefix s) -> ~ In 58%N (rf_prefix p) -> ~ In 58%N (rf_prefix o) ->
  exists row, csv_read TAB (csv_write_row TAB (triple_row s p o)) = Some [row] /\
              row_triple row = Val [pair s; pair p; pair o].
Proof.
  intros Hs Hp Ho H1 H2 H3. exists (triple_row s p o). split.
  - apply csv_triple_row_roundtrip; assumption.
  - apply triples_roundtrip; assumption.
Qed.

(* ------------------------------------------------------------------ *)
Print Assumptions csv_read_stream_eq.
Print Assumptions csv_roundtrip_row_lim.
Print Assumptions csv_roundtrip_lim.
Print Assumptions csv_roundtrip_row.
Print Assumptions csv_roundtrip.
Print Assumptions csv_roundtrip_quote_delim_refuted.
Print Assumptions csv_roundtrip_cr_delim_refuted.
Print Assumptions csv_roundtrip_lf_delim_refuted.
Print Assumptions csv_roundtrip_delim_iff.
Print Assumptions csv_read_fields_short.
Print Assumptions csv_roundtrip_row_iff.
Print Assumptions csv_roundtrip_iff.
Print Assumptions csv_roundtrip_long_field_refuted.
Print Assumptions csv_read_total.
Print Assumptions csv_triple_strings_roundtrip.
Print Assumptions csv_triple_row_roundtrip.
Print Assumptions csv_triples_file_roundtrip.
Print Assumptions csv_triple_pairs_roundtrip.

(* The two patterns denote the documented grammar; the validators equal the specification. *)
From Coq Require Import Lia.
From Curies.model Require Import Str Regex Val W3C.
From Curies.proofs Require Import StrFacts RegexFacts.

Local Arguments N.eqb : simpl never.
Local Arguments N.leb : simpl never.
Section W.
Variable sp : chr -> bool.
(* the only fact about the Unicode whitespace table the grammar relies on: '/' is not whitespace *)
Hypothesis sp_slash : sp 47%N = false.
Notation matches := (matches sp).

Lemma range1 c k : ((k <=? c) && (c <=? k))%N = (c =? k)%N.
Proof. destruct (N.leb_spec k c), (N.leb_spec c k), (N.eqb_spec c k); simpl; auto; lia. Qed.

Ltac atoms := simpl; rewrite ?range1;
  repeat match goal with
  | |- context [(?a <=? ?b)%N] => destruct (a <=? b)%N
  | |- context [(?a =? ?b)%N] => destruct (a =? b)%N
  | |- context [sp ?x] => destruct (sp x)
  end; reflexivity.
Lemma mem_start c : cs_mem sp c cs_start = is_start c.
Proof. unfold cs_mem, cs_start, is_start. atoms. Qed.
Lemma mem_rest c : cs_mem sp c cs_rest = is_rest c.
Proof. unfold cs_mem, cs_rest, is_rest, is_start. atoms. Qed.
Lemma mem_nospace c : cs_mem sp c cs_nospace = negb (sp c).
Proof. unfold cs_mem, cs_nospace. atoms. Qed.
Lemma mem_nospace_noslash c : cs_mem sp c cs_nospace_noslash = negb (sp c) && negb (c =? 47)%N.
Proof. unfold cs_mem, cs_nospace_noslash. atoms. Qed.
Lemma mem_slash c : cs_mem sp c cs_slash = (c =? 47)%N.
Proof. unfold cs_mem, cs_slash. atoms. Qed.

Lemma forallb_ext_eq {A} (f g : A -> bool) l : (forall x, f x = g x) -> forallb f l = forallb g l.
Proof. intro E. induction l; simpl; auto. rewrite E, IHl. reflexivity. Qed.

Lemma ncname_lang p : matches (pat_body ncname_pat) p <-> ncnameb p = true.
Proof.
  simpl. split.
  - intro H. apply cat_inv in H as (s & t & -> & Hs & Ht). apply chr_inv in Hs as (c & -> & Hm).
    apply star_chr_forall in Ht. simpl. rewrite mem_start in Hm. rewrite Hm. simpl.
    rewrite <- Ht. apply forallb_ext_eq. intro x. symmetry. apply mem_rest.
  - destruct p as [|c t]; simpl; [discriminate|]. intro H. apply andb_true_iff in H as [H1 H2].
    change (c :: t) with ([c] ++ t). constructor; [constructor; rewrite mem_start; auto|].
    apply star_chr_forall. rewrite <- H2. apply forallb_ext_eq. intro x. apply mem_rest.
Qed.

Lemma nospace_star t : matches (Star (Chr cs_nospace)) t <-> no_space sp t = true.
Proof.
  rewrite star_chr_forall. unfold no_space. split; intro H; rewrite <- H; apply forallb_ext_eq; intro x;
    [symmetry|]; apply mem_nospace.
Qed.

Lemma luid_lang p : matches (pat_body luid_pat) p <-> referenceb sp p = true.
Proof.
  simpl. unfold referenceb. split.
  - intro H. apply alt_inv in H as [H|H]; [|apply alt_inv in H as [H|H]; [|apply alt_inv in H as [H|H]]].
    + apply cat_inv in H as (s & t & -> & Hs & Ht). apply chr_inv in Hs as (c & -> & Hc).
      apply cat_inv in Ht as (s2 & t2 & -> & Hs2 & Ht2). apply chr_inv in Hs2 as (c2 & -> & Hc2).
      apply nospace_star in Ht2. rewrite mem_slash in Hc. rewrite mem_nospace_noslash in Hc2.
      apply N.eqb_eq in Hc. subst c. apply andb_true_iff in Hc2 as [A B]. simpl.
      unfold no_space in *. simpl. rewrite sp_slash, A, Ht2. simpl.
      apply negb_true_iff in B. rewrite N.eqb_sym in B. rewrite B. reflexivity.
    + apply cat_inv in H as (s & t & -> & Hs & Ht). apply chr_inv in Hs as (c & -> & Hc).
      apply nospace_star in Ht. rewrite mem_nospace_noslash in Hc. apply andb_true_iff in Hc as [A B].
      unfold no_space in *. simpl. rewrite A, Ht. simpl.
      apply negb_true_iff in B. rewrite N.eqb_sym in B. rewrite B. reflexivity.
    + apply chr_inv in H as (c & -> & Hc). rewrite mem_nospace in Hc. unfold no_space. simpl. rewrite Hc. simpl.
      destruct (47 =? c)%N; reflexivity.
    + apply eps_inv in H. subst. reflexivity.
  - intro H. apply andb_true_iff in H as [H1 H2]. unfold no_space in H1.
    destruct p as [|c1 t].
    + apply MAltR, MAltR, MAltR. constructor.
    + simpl in H1. apply andb_true_iff in H1 as [A B].
      destruct (N.eqb_spec c1 47) as [->|Hne].
      * destruct t as [|c2 t2].
        -- apply MAltR, MAltR, MAltL. constructor. rewrite mem_nospace. auto.
        -- simpl in B. apply andb_true_iff in B as [B1 B2]. simpl in H2.
           apply MAltL. change (47%N :: c2 :: t2) with ([47%N] ++ [c2] ++ t2).
           constructor; [constructor; rewrite mem_slash; reflexivity|].
           constructor; [constructor; rewrite mem_nospace_noslash, B1; simpl|apply nospace_star; exact B2].
           destruct (N.eqb_spec 47 c2) as [<-|Hn]; [simpl in H2; discriminate|].
           destruct (N.eqb_spec c2 47); [congruence|reflexivity].
      * apply MAltR, MAltL. change (c1 :: t) with ([c1] ++ t).
        constructor; [constructor|apply nospace_star; exact B].
        rewrite mem_nospace_noslash, A. simpl. destruct (N.eqb_spec c1 47); [congruence|reflexivity].
Qed.

Lemma bool_eq_iff (a b : bool) : (a = true <-> b = true) -> a = b.
Proof. destruct a, b; intros [H1 H2]; auto; try (symmetry; apply H1; reflexivity); try (apply H2; reflexivity). Qed.

Theorem prefix_is_ncname s : is_w3c_prefix sp s = ncnameb s.
Proof. apply bool_eq_iff. unfold is_w3c_prefix, is_w3c_prefix_g. simpl. rewrite fullmatchb_ok. apply ncname_lang. Qed.
Theorem luid_is_reference s : is_w3c_luid sp s = referenceb sp s.
Proof. apply bool_eq_iff. unfold is_w3c_luid, is_w3c_luid_g. simpl. rewrite fullmatchb_ok. apply luid_lang. Qed.

Theorem curie_is_spec s : is_w3c_curie sp s = w3c_curie_spec sp s.
Proof.
  unfold is_w3c_curie, is_w3c_curie_g, w3c_curie_spec.
  fold (is_w3c_luid sp). fold (is_w3c_prefix sp).
  match goal with |- context [existsb ?f s] => destruct (existsb f s) end; simpl; auto.
  destruct (forallb sp s); simpl; auto.
  destruct (partition [58%N] s) as [[p i]|].
  - destruct p; rewrite ?luid_is_reference, ?prefix_is_ncname; reflexivity.
  - apply luid_is_reference.
Qed.

(* never accepts whitespace anywhere *)
Lemma partition_parts_nospace s p i : partition [58%N] s = Some (p, i) -> no_space sp s = no_space sp p && negb (sp 58%N) && no_space sp i.
Proof.
  intro H. apply partition_some in H as [-> _]. unfold no_space. rewrite !forallb_app. simpl. rewrite andb_true_r, andb_assoc. reflexivity.
Qed.
Lemma ncnameb_nospace_at c : is_rest c = true -> (c <> 32 /\ c <> 9 /\ c <> 10)%N.
Proof.
  unfold is_rest, is_start. intro H. repeat split; intro; subst; vm_compute in H; discriminate.
Qed.
End W.

(* the pre-repair variant accepted a trailing newline and strings with spaces: defect D9 *)
Lemma match_refuted : let sp := (fun c => N.eqb c 32 || N.eqb c 10)%N in
  is_w3c_prefix_match sp [71; 79; 10]%N = true /\ ncnameb [71; 79; 10]%N = false /\
  is_w3c_curie_match sp [97; 58; 98; 32; 99]%N = true /\ w3c_curie_spec sp [97; 58; 98; 32; 99]%N = false.
Proof. vm_compute. auto. Qed.

(* the predicate the run evaluates on the implementation's answers accepts the model's answers on every string *)
Theorem P_C20_model s spaces : valid_w3c spaces = true -> P_C20 (sp_of spaces) s (model_w3c (sp_of spaces) s) = true.
Proof.
  unfold valid_w3c, P_C20, model_w3c, spec_w3c. intro V. apply negb_true_iff in V.
  rewrite prefix_is_ncname, (curie_is_spec _ V). destruct (ncnameb s), (w3c_curie_spec (sp_of spaces) s); reflexivity.
Qed.

(* C16: bulk = element-wise; files fail atomically. *)
From Coq Require Import Lia.
From Curies.model Require Import Str PyData Trie Conv Query Val Answer Spec CheckQ Bulk.
From Curies.proofs Require Import StrFacts.

(* map_res = element-wise application, failing with the FIRST failing element's error *)
Theorem map_res_ok {A B} (f : A -> res B) l ys : map_res f l = Val ys <-> length ys = length l /\
  forall n x, nth_error l n = Some x -> exists y, nth_error ys n = Some y /\ f x = Val y.
Proof.
  revert ys; induction l as [|a l IH]; intros ys; simpl.
  - split.
    + intro H; inversion H; subst. split; auto. intros n x Hn. destruct n; discriminate.
    + intros [H _]. destruct ys; [reflexivity|discriminate].
  - destruct (f a) as [y|e] eqn:Fa.
    + destruct (map_res f l) as [ys'|e'] eqn:M.
      * split.
        -- intro H; inversion H; subst. destruct (proj1 (IH ys') eq_refl) as [L N]. split; [simpl; congruence|].
           intros [|n] x Hn; simpl in *; [inversion Hn; subst; eauto|apply N; auto].
        -- intros [L N]. destruct ys as [|y0 ys0]; [discriminate|]. f_equal.
           destruct (N 0 a eq_refl) as (y1 & E1 & E2). simpl in E1. inversion E1; subst. rewrite Fa in E2. inversion E2; subst. f_equal.
           assert (Val ys' = Val ys0 :> res (list B)); [|congruence]. apply IH. split; [simpl in L; congruence|].
           intros n x Hn. apply (N (S n) x). auto.
      * split; [discriminate|]. intros [L N]. exfalso. destruct ys as [|y0 ys0]; [discriminate|].
        assert (Raise e' = Val ys0 :> res (list B)); [|discriminate]. apply IH. split; [simpl in L; congruence|]. intros n x Hn. apply (N (S n) x). auto.
    + split; [discriminate|]. intros [_ N]. destruct (N 0 a eq_refl) as (y1 & _ & E2). congruence.
Qed.
Theorem map_res_first_error {A B} (f : A -> res B) l e : map_res f l = Raise e <->
  exists n x, nth_error l n = Some x /\ f x = Raise e /\ forall m x', m < n -> nth_error l m = Some x' -> exists y, f x' = Val y.
Proof.
  induction l as [|a l IH]; simpl.
  - split; [discriminate|]. intros (n & x & H & _). destruct n; discriminate.
  - destruct (f a) as [y|e0] eqn:Fa.
    + destruct (map_res f l) as [ys|e1] eqn:M.
      * split; [discriminate|]. intros (n & x & Hn & Hx & Hb). destruct n as [|n]; simpl in Hn.
        -- inversion Hn; subst. congruence.
        -- assert (Val ys = Raise e :> res (list B)); [|discriminate]. apply IH. exists n, x. repeat split; auto.
           intros m x' Hm Hx'. apply (Hb (S m) x'); [lia|auto].
      * split.
        -- intro H; inversion H; subst. destruct (proj1 IH eq_refl) as (n & x & Hn & Hx & Hb). exists (S n), x. repeat split; auto.
           intros [|m] x' Hm Hx'; simpl in Hx'; [inversion Hx'; subst; eauto|apply (Hb m x'); [lia|auto]].
        -- intros (n & x & Hn & Hx & Hb). destruct n as [|n]; simpl in Hn; [inversion Hn; subst; congruence|].
           apply IH. exists n, x. repeat split; auto. intros m x' Hm Hx'. apply (Hb (S m) x'); [lia|auto].
    + split.
      * intro H; inversion H; subst. exists 0, a. repeat split; auto. intros m x' Hm. lia.
      * intros (n & x & Hn & Hx & Hb). destruct n as [|n]; simpl in Hn; [inversion Hn; subst; congruence|].
        destruct (Hb 0 a ltac:(lia) eq_refl) as [y Hy]. congruence.
Qed.

(* set_nth changes position n only *)
Lemma set_nth_spec {A} n (v : A) l l' : set_nth n v l = Some l' ->
  length l' = length l /\ nth_error l' n = Some v /\ forall m, m <> n -> nth_error l' m = nth_error l m.
Proof.
  revert l l'; induction n as [|n IH]; intros [|x l] l' H; simpl in H; try discriminate.
  - inversion H; subst. repeat split; auto. intros [|m] Hm; [congruence|reflexivity].
  - destruct (set_nth n v l) as [t|] eqn:E; [|discriminate]. inversion H; subst.
    destruct (IH l t E) as (L & N & O). split; [simpl; congruence|]. split; [exact N|].
    intros [|m] Hm; simpl; auto.
Qed.

Section G.
Variable sc : str -> res (option str).

(* files: element-wise on the chosen column, everything else preserved; atomic on failure *)
Theorem file_ok header rows col rows' : file_rows_g sc rows col = Val rows' ->
  file_after_g sc header rows col = (Val tt, (header, rows')) /\ length rows' = length rows /\
  forall n row, nth_error rows n = Some row -> exists x v row', nth_error row col = Some x /\ sc x = Val v /\
     nth_error rows' n = Some row' /\ length row' = length row /\
     nth_error row' col = Some (match v with Some y => y | None => [] end) /\
     forall m, m <> col -> nth_error row' m = nth_error row m.
Proof.
  intro H. split; [unfold file_after_g; rewrite H; reflexivity|].
  apply map_res_ok in H as [L N]. split; auto. intros n row Hn. destruct (N n row Hn) as (row' & Hr' & E).
  destruct (nth_error row col) as [x|] eqn:Ex; [|discriminate]. destruct (sc x) as [v|e] eqn:Es; [|discriminate].
  destruct (set_nth col _ row) as [r|] eqn:S; [|discriminate]. inversion E; subst.
  destruct (set_nth_spec _ _ _ _ S) as (A1 & A2 & A3). exists x, v, row'. repeat split; auto.
Qed.
Theorem file_atomic header rows col e : file_rows_g sc rows col = Raise e ->
  file_after_g sc header rows col = (Raise e, (header, rows)).
Proof. intro H. unfold file_after_g. rewrite H. reflexivity. Qed.
(* whichever row fails first: nothing is written *)
Theorem file_atomic_any_position header rows col : 
  (exists n row, nth_error rows n = Some row /\
     (nth_error row col = None \/ exists x e, nth_error row col = Some x /\ sc x = Raise e)) ->
  exists e, file_after_g sc header rows col = (Raise e, (header, rows)).
Proof.
  intros (n & row & Hn & Hbad).
  destruct (file_rows_g sc rows col) as [rows'|e] eqn:E.
  - exfalso. apply map_res_ok in E as [_ N]. destruct (N n row Hn) as (row' & _ & E).
    destruct Hbad as [Hb|(x & e & Hx & He)]; [rewrite Hb in E; discriminate|rewrite Hx, He in E; discriminate].
  - exists e. apply file_atomic; auto.
Qed.

(* data frames: the target column holds the scalar results, None -> NA, every other cell is preserved *)
Theorem pd_ok rows col target t : pd_apply_g sc rows col target = Val t ->
  length t = length rows /\
  forall n row, nth_error rows n = Some row -> exists x v row', nth_error row col = Some (Some x) /\ sc x = Val v /\
    nth_error t n = Some row' /\
    (target < length row -> length row' = length row /\ nth_error row' target = Some v /\ forall m, m <> target -> nth_error row' m = nth_error row m) /\
    (length row <= target -> row' = row ++ [v]).
Proof.
  unfold pd_apply_g. destruct (map_res _ rows) as [vals|e] eqn:M; [|discriminate]. intro H; inversion H; subst. clear H.
  apply map_res_ok in M as [L N]. split; [rewrite map_length, combine_length; lia|].
  intros n row Hn. destruct (N n row Hn) as (v & Hv & E).
  destruct (nth_error row col) as [[x|]|] eqn:Ec; try discriminate. exists x, v.
  assert (Hc: nth_error (combine rows vals) n = Some (row, v)).
  { clear -Hn Hv. revert rows vals Hn Hv. induction n; intros [|r rows] [|w vals] Hn Hv; simpl in *; try discriminate; [congruence|auto]. }
  destruct (set_nth target v row) as [r|] eqn:S.
  - exists r. repeat split; auto.
    + erewrite map_nth_error; [|exact Hc]. simpl. rewrite S. reflexivity.
    + apply (set_nth_spec _ _ _ _ S).
    + apply (set_nth_spec _ _ _ _ S).
    + apply (set_nth_spec _ _ _ _ S).
    + intro Hle. destruct (set_nth_spec _ _ _ _ S) as (A1 & A2 & _).
      assert (target < length r) by (apply nth_error_Some; congruence). lia.
  - exists (row ++ [v]). repeat split; auto.
    + erewrite map_nth_error; [|exact Hc]. simpl. rewrite S. reflexivity.
    + exfalso. clear -S H. revert row S H. induction target; intros [|a row] S H; simpl in *; try discriminate; try lia.
      destruct (set_nth target v row) eqn:E; [discriminate|]. apply (IHtarget row); auto. lia.
    + exfalso. clear -S H. revert row S H. induction target; intros [|a row] S H; simpl in *; try discriminate; try lia.
      destruct (set_nth target v row) eqn:E; [discriminate|]. apply (IHtarget row); auto. lia.
    + exfalso. clear -S H. revert row S H. induction target; intros [|a row] S H; simpl in *; try discriminate; try lia.
      destruct (set_nth target v row) eqn:E; [discriminate|]. apply (IHtarget row); auto. lia.
Qed.
Theorem pd_error rows col target e : pd_apply_g sc rows col target = Raise e ->
  exists n row, nth_error rows n = Some row /\
    (match nth_error row col with Some (Some x) => sc x | _ => Raise EOther end) = Raise e.
Proof.
  unfold pd_apply_g. destruct (map_res _ rows) as [vals|e0] eqn:M; [discriminate|]. intro H; inversion H; subst.
  apply map_res_first_error in M as (n & row & Hn & Hx & _). eauto.
Qed.

End G.

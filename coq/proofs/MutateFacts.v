(* add_record / add_prefix keep a converter consistent with its own records. *)
From Coq Require Import Lia Permutation.
From Curies.model Require Import Str PyData Trie Conv Query Val Answer Spec CheckQ Mutate.
From Curies.proofs Require Import StrFacts TrieFacts DictFacts IndexFacts QueryFacts CheckFacts C04Facts.

(* strong well-formedness: the indexes agree with the converter's own records, which are pairwise disjoint *)
Definition swf (c : conv) : Prop :=
  wf c (recs c) (delim c) /\ pairwise (disjoint_keys all_prefixes) (recs c) /\ pairwise (disjoint_keys all_uris) (recs c).

Lemma mk_conv_swf d rs c : mk_conv true d rs = Val c -> swf c.
Proof.
  intro H. pose proof (mk_conv_inv d rs c H) as (_ & _ & Hu & Hp & Ed & Er & _).
  pose proof (mk_conv_wf d rs c H) as W. unfold swf. rewrite Er, Ed. split; [|split; auto].
  assert (P: forall r, In r rs <-> In r (sort_records rs)) by (intro r; symmetry; apply sort_records_In).
  destruct W as [op ou dl rc sy pm tr rp]. constructor.
  - eapply one_owner_perm; eauto.
  - eapply one_owner_perm; eauto.
  - exact dl.
  - intro r. rewrite Er. tauto.
  - intro p. rewrite sy. f_equal. symmetry. apply owner_perm; auto.
  - intro p. rewrite pm. f_equal. symmetry. apply owner_perm; auto.
  - intro u. rewrite tr. f_equal. symmetry. apply owner_perm; auto.
  - intro u. rewrite rp. f_equal. symmetry. apply owner_perm; auto.
Qed.

(* owner is characterised by membership under one_owner *)
Lemma owner_char {V} keysf (valf : record -> V) rs p (v : option V) : one_owner keysf rs ->
  (forall x, In x rs -> In p (keysf x) -> v = Some (valf x)) ->
  ((forall x, In x rs -> ~ In p (keysf x)) -> v = None) ->
  v = option_map valf (owner keysf rs p).
Proof.
  intros O A B. unfold owner. destruct (List.find _ rs) as [x|] eqn:E; simpl.
  - apply find_some in E as [Hx Hm]. apply mem_In in Hm. auto.
  - apply B. intros x Hx Hin. pose proof (find_none _ _ E x Hx) as Hn. simpl in Hn. apply mem_In in Hin. congruence.
Qed.

Section M.
Variable fold_c : chr -> str.
Notation matches_record := (matches_record fold_c).
Notation match_record := (match_record fold_c).
Notation add_record := (add_record fold_c).

Lemma eq_cs_false cs a b : eq_cs fold_c cs a b = false -> a <> b.
Proof. unfold eq_cs. destruct cs; intros H E; subst; rewrite str_eqb_refl in H; discriminate. Qed.
Lemma in_cs_false cs a bs : in_cs fold_c cs a bs = false -> ~ In a bs.
Proof.
  unfold in_cs. intros H Hin. assert (existsb (eq_cs fold_c cs a) bs = true); [|congruence].
  apply existsb_exists. exists a. split; auto. unfold eq_cs. destruct cs; apply str_eqb_refl.
Qed.
Lemma existsb_false {A} (f : A -> bool) l : existsb f l = false -> forall x, In x l -> f x = false.
Proof. intros H x Hx. destruct (f x) eqn:E; auto. assert (existsb f l = true) by (apply existsb_exists; eauto). congruence. Qed.

(* no match (in either mode) implies no shared string *)
Lemma no_match_disjoint cs ext r : matches_record cs ext r = false ->
  disjoint_keys all_prefixes ext r /\ disjoint_keys all_uris ext r.
Proof.
  unfold matches_record. intro H. apply orb_false_iff in H as [H1 H2]. split; intros k Ke Kr.
  - pose proof (existsb_false _ _ H1 k Ke) as H. apply orb_false_iff in H as [A B].
    apply eq_cs_false in A. apply in_cs_false in B. destruct Kr as [E|Kr]; [congruence|contradiction].
  - pose proof (existsb_false _ _ H2 k Ke) as H. apply orb_false_iff in H as [A B].
    apply eq_cs_false in A. apply in_cs_false in B. destruct Kr as [E|Kr]; [congruence|contradiction].
Qed.

(* ---- record keys are injective on a pairwise-disjoint list ---- *)
Lemma key_eqb_prefix a b : key_eqb (record_key a) (record_key b) = true -> r_prefix a = r_prefix b.
Proof.
  unfold key_eqb, record_key. rewrite !andb_true_iff. intros [[[H _] _] _]. apply str_eqb_eq; auto.
Qed.
Lemma key_eqb_refl a : key_eqb (record_key a) (record_key a) = true.
Proof. unfold key_eqb, record_key. rewrite !str_eqb_refl. reflexivity. Qed.
Lemma disjoint_key_neq a b : disjoint_keys all_prefixes a b -> key_eqb (record_key a) (record_key b) = false.
Proof.
  intro D. destruct (key_eqb _ _) eqn:E; auto. apply key_eqb_prefix in E. exfalso.
  apply (D (r_prefix a)); [left; auto | rewrite E; left; auto].
Qed.

(* _match_record returns the keys of the matching records, one per matching record *)
Lemma match_record_acc cs ext l : forall acc, pairwise (disjoint_keys all_prefixes) l ->
  (forall r, In r l -> existsb (key_eqb (record_key r)) acc = false) ->
  fold_left (fun acc r => if matches_record cs ext r
                          then (if existsb (key_eqb (record_key r)) acc then acc else acc ++ [record_key r])
                          else acc) l acc
  = acc ++ map record_key (filter (matches_record cs ext) l).
Proof.
  induction l as [|a l IH]; intros acc P H; simpl; [rewrite app_nil_r; auto|].
  inversion P as [|? ? Pa Pl]; subst.
  destruct (matches_record cs ext a) eqn:M.
  - rewrite (H a) by (left; auto). rewrite IH; auto.
    + simpl. rewrite <- app_assoc. reflexivity.
    + intros r Hr. rewrite existsb_app, (H r) by (right; auto). simpl. rewrite orb_false_r.
      apply disjoint_key_neq. apply disjoint_keys_sym. apply Pa; auto.
  - apply IH; auto. intros r Hr. apply H. right; auto.
Qed.
Lemma match_record_filter c ext cs : pairwise (disjoint_keys all_prefixes) (recs c) ->
  match_record c ext cs = map record_key (filter (matches_record cs ext) (recs c)).
Proof. intro P. unfold Mutate.match_record. rewrite match_record_acc; auto. Qed.

Lemma find_key l m : pairwise (disjoint_keys all_prefixes) l -> In m l ->
  List.find (fun x => key_eqb (record_key x) (record_key m)) l = Some m.
Proof.
  induction 1 as [|a l Pa Pl IH]; intros Hin; [destruct Hin|]. cbn [List.find]. destruct Hin as [<-|Hin].
  - rewrite key_eqb_refl. reflexivity.
  - rewrite disjoint_key_neq by (apply Pa; auto). apply IH; auto.
Qed.
Lemma replace_key_map l m m' : pairwise (disjoint_keys all_prefixes) l -> In m l ->
  replace_key (record_key m) m' l = map (fun r => if key_eqb (record_key r) (record_key m) then m' else r) l.
Proof.
  induction 1 as [|a l Pa Pl IH]; intros Hin; [destruct Hin|]. cbn [replace_key map]. destruct Hin as [<-|Hin].
  - rewrite key_eqb_refl. f_equal. symmetry. rewrite <- (map_id l) at 2. apply map_ext_in.
    intros b Hb. rewrite disjoint_key_neq; auto. apply disjoint_keys_sym. apply Pa; auto.
  - rewrite disjoint_key_neq by (apply Pa; auto). f_equal. apply IH; auto.
Qed.

(* ---- _merge ---- *)
Lemma merge_list_acc_In canon news : forall acc x,
  In x (fold_left (fun acc x => if str_eqb x canon || mem x acc then acc else acc ++ [x]) news acc) <->
  In x acc \/ (In x news /\ x <> canon).
Proof.
  induction news as [|n news IH]; intros acc x; simpl; [tauto|].
  rewrite IH. destruct (str_eqb_spec n canon) as [->|Hne]; simpl.
  - split; [intros [H|[H1 H2]]; auto | intros [H|[[<-|H1] H2]]; auto; congruence].
  - destruct (mem n acc) eqn:M.
    + apply mem_In in M. split; [intros [H|[H1 H2]]; auto | intros [H|[[<-|H1] H2]]; auto].
    + rewrite in_app_iff. simpl. split.
      * intros [[H|[<-|[]]]|[H1 H2]]; auto.
      * intros [H|[[<-|H1] H2]]; auto.
Qed.
Lemma merge_list_In canon syn news x : In x (merge_list canon syn news) <-> In x syn \/ (In x news /\ x <> canon).
Proof. unfold merge_list, sort_str. rewrite sort_In. apply merge_list_acc_In. Qed.
Lemma merge_prefixes r m x : In x (all_prefixes (merge r m)) <-> In x (all_prefixes m) \/ In x (all_prefixes r).
Proof.
  unfold all_prefixes at 1. simpl. rewrite merge_list_In. unfold all_prefixes at 1. simpl.
  destruct (str_eq_dec x (r_prefix m)) as [->|Hne]; [tauto|]. intuition congruence.
Qed.
Lemma merge_uris r m x : In x (all_uris (merge r m)) <-> In x (all_uris m) \/ In x (all_uris r).
Proof.
  unfold all_uris at 1. simpl. rewrite merge_list_In. unfold all_uris at 1. simpl.
  destruct (str_eq_dec x (r_uri m)) as [->|Hne]; [tauto|]. intuition congruence.
Qed.

(* ---- _index ---- *)
Lemma find_fold_insert_const (us : list str) (v : str) : forall (t : trie str) k,
  find k (fold_left (fun t u => insert u v t) us t) = if mem k us then Some v else find k t.
Proof.
  induction us as [|u us IH]; intros t k; simpl; auto.
  rewrite IH, mem_cons, find_insert. destruct (str_eq_dec k u) as [->|Hne].
  - rewrite str_eqb_refl. simpl. destruct (mem u us); reflexivity.
  - apply str_eqb_neq in Hne. rewrite Hne. simpl. reflexivity.
Qed.
Lemma index_syn c r rs' p : dget p (synmap (index c r rs')) = if mem p (all_prefixes r) then Some (r_prefix r) else dget p (synmap c).
Proof. simpl. apply (dget_idx_rec all_prefixes r_prefix). Qed.
Lemma index_pmap c r rs' p : dget p (pmap (index c r rs')) = if mem p (all_prefixes r) then Some (r_uri r) else dget p (pmap c).
Proof. simpl. apply (dget_idx_rec all_prefixes r_uri). Qed.
Lemma index_trie c r rs' u : find u (ctrie (index c r rs')) = if mem u (all_uris r) then Some (r_prefix r) else find u (ctrie c).
Proof. unfold index. cbn [ctrie]. apply find_fold_insert_const. Qed.

Lemma index_rpmap c r rs' u : dget u (rpmap (index c r rs')) = if mem u (all_uris r) then Some (r_prefix r) else dget u (rpmap c).
Proof. simpl. apply (dget_idx_rec all_uris r_prefix). Qed.

(* generic: updating an index with record x whose keys are "fresh or already x's" keeps it the owner map of rs' *)
Lemma index_wf c x rs' :
  one_owner all_prefixes rs' -> one_owner all_uris rs' -> In x rs' ->
  (forall p y, In y rs' -> In p (all_prefixes y) -> ~ In p (all_prefixes x) ->
       dget p (synmap c) = Some (r_prefix y) /\ dget p (pmap c) = Some (r_uri y)) ->
  (forall p, (forall y, In y rs' -> ~ In p (all_prefixes y)) -> dget p (synmap c) = None /\ dget p (pmap c) = None) ->
  (forall u y, In y rs' -> In u (all_uris y) -> ~ In u (all_uris x) -> find u (ctrie c) = Some (r_prefix y) /\ dget u (rpmap c) = Some (r_prefix y)) ->
  (forall u, (forall y, In y rs' -> ~ In u (all_uris y)) -> find u (ctrie c) = None /\ dget u (rpmap c) = None) ->
  wf (index c x rs') rs' (delim c).
Proof.
  intros OP OU Hx A1 A2 B1 B2. constructor; auto; try (simpl; tauto).
  - intro p. rewrite index_syn. apply owner_char; auto.
    + intros y Hy Hp. destruct (mem p (all_prefixes x)) eqn:M.
      * apply mem_In in M. rewrite (OP y x p); auto.
      * apply mem_false in M. apply A1; auto.
    + intro Hn. destruct (mem p (all_prefixes x)) eqn:M; [apply mem_In in M; exfalso; eapply Hn; eauto|]. apply A2; auto.
  - intro p. rewrite index_pmap. apply owner_char; auto.
    + intros y Hy Hp. destruct (mem p (all_prefixes x)) eqn:M.
      * apply mem_In in M. rewrite (OP y x p); auto.
      * apply mem_false in M. apply A1; auto.
    + intro Hn. destruct (mem p (all_prefixes x)) eqn:M; [apply mem_In in M; exfalso; eapply Hn; eauto|]. apply A2; auto.
  - intro u. rewrite index_trie. apply owner_char; auto.
    + intros y Hy Hu. destruct (mem u (all_uris x)) eqn:M.
      * apply mem_In in M. rewrite (OU y x u); auto.
      * apply mem_false in M. apply B1; auto.
    + intro Hn. destruct (mem u (all_uris x)) eqn:M; [apply mem_In in M; exfalso; eapply Hn; eauto|]. apply B2; auto.
  - intro u. rewrite index_rpmap. apply owner_char; auto.
    + intros y Hy Hu. destruct (mem u (all_uris x)) eqn:M.
      * apply mem_In in M. rewrite (OU y x u); auto.
      * apply mem_false in M. apply B1; auto.
    + intro Hn. destruct (mem u (all_uris x)) eqn:M; [apply mem_In in M; exfalso; eapply Hn; eauto|]. apply B2; auto.
Qed.
End M.

(* ---- list lemmas ---- *)
Lemma pairwise_snoc {A} (R : A -> A -> Prop) l x : pairwise R l -> (forall b, In b l -> R b x) -> pairwise R (l ++ [x]).
Proof.
  induction 1 as [|a l Ha Hl IH]; intro H; simpl.
  - constructor; [intros b []|constructor].
  - constructor.
    + intros b Hb. apply in_app_or in Hb as [Hb|[<-|[]]]; auto. apply H. left; auto.
    + apply IH. intros b Hb. apply H. right; auto.
Qed.
Lemma pairwise_nodup keysf (l : list record) : (forall r, keysf r <> []) -> pairwise (disjoint_keys keysf) l -> NoDup l.
Proof.
  intros Hne. induction 1 as [|a l Ha Hl IH]; constructor; auto.
  intro Hin. specialize (Ha a Hin). destruct (keysf a) as [|k ks] eqn:E; [apply (Hne a); auto|].
  apply (Ha k); rewrite E; left; auto.
Qed.
Lemma pairwise_in_neq {A} (R : A -> A -> Prop) (Rs : forall a b, R a b -> R b a) l a b :
  pairwise R l -> In a l -> In b l -> a <> b -> R a b.
Proof.
  induction 1 as [|x l Hx Hl IH]; intros Ha Hb Hne; [destruct Ha|].
  destruct Ha as [<-|Ha], Hb as [<-|Hb]; auto; try congruence.
Qed.
Lemma pairwise_replace {A} (R : A -> A -> Prop) (Rs : forall a b, R a b -> R b a) l m m' (isM : A -> bool) :
  pairwise R l -> NoDup l -> (forall b, In b l -> (isM b = true <-> b = m)) -> (forall b, In b l -> b <> m -> R m' b) ->
  pairwise R (map (fun b => if isM b then m' else b) l).
Proof.
  induction 1 as [|a l Ha Hl IH]; intros N HM HR; simpl; [constructor|].
  inversion N as [|? ? Hn Hd]; subst. constructor.
  - intros b' Hb'. apply in_map_iff in Hb' as (b & <- & Hb).
    destruct (isM a) eqn:Ma.
    + apply HM in Ma; [|left; auto]. subst a.
      destruct (isM b) eqn:Mb; [apply HM in Mb; [|right; auto]; subst; contradiction|].
      apply HR; [right; auto|]. intro; subst; contradiction.
    + destruct (isM b) eqn:Mb.
      * apply Rs. apply HR; [left; auto|]. intro E. apply (HM a) in E; [congruence|left; auto].
      * apply Ha; auto.
  - apply IH; auto.
    + intros b Hb. apply HM. right; auto.
    + intros b Hb. apply HR. right; auto.
Qed.
Lemma owner_reg keysf rs p y : one_owner keysf rs -> In y rs -> In p (keysf y) -> owner keysf rs p = Some y.
Proof.
  intros O Hy Hp. unfold owner. destruct (List.find _ rs) as [y'|] eqn:E.
  - apply find_some in E as [Hy' Hm]. apply mem_In in Hm. f_equal. apply (O y' y p); auto.
  - pose proof (find_none _ _ E y Hy) as Hn. simpl in Hn. apply mem_In in Hp. congruence.
Qed.
Lemma owner_none keysf rs p : (forall y, In y rs -> ~ In p (keysf y)) -> owner keysf rs p = None.
Proof.
  intro H. unfold owner. destruct (List.find _ rs) as [y|] eqn:E; auto.
  apply find_some in E as [Hy Hm]. apply mem_In in Hm. exfalso. eapply H; eauto.
Qed.
Lemma filter_nil {A} (f : A -> bool) l : filter f l = [] -> forall x, In x l -> f x = false.
Proof. intros H x Hx. destruct (f x) eqn:E; auto. assert (In x (filter f l)) by (apply filter_In; auto). rewrite H in *. contradiction. Qed.
Lemma filter_single {A} (f : A -> bool) l m : NoDup l -> filter f l = [m] ->
  In m l /\ f m = true /\ forall x, In x l -> x <> m -> f x = false.
Proof.
  intros N H. assert (Hm: In m (filter f l)) by (rewrite H; left; auto). apply filter_In in Hm as [Hm1 Hm2].
  repeat split; auto. intros x Hx Hne. destruct (f x) eqn:E; auto.
  assert (In x (filter f l)) by (apply filter_In; auto). rewrite H in *. destruct H0 as [<-|[]]. congruence.
Qed.
Lemma all_prefixes_ne r : all_prefixes r <> []. Proof. discriminate. Qed.
Lemma all_uris_ne r : all_uris r <> []. Proof. discriminate. Qed.

Section M2.
Variable fold_c : chr -> str.
Notation matches_record := (matches_record fold_c).
Notation add_record := (add_record fold_c).

(* the new record matches nothing: it is appended *)
Theorem swf_append c r cs : swf c -> (forall r0, In r0 (recs c) -> matches_record cs r r0 = false) ->
  swf (index c r (recs c ++ [r])).
Proof.
  intros (W & Pp & Pu) NM.
  assert (Pp': pairwise (disjoint_keys all_prefixes) (recs c ++ [r])).
  { apply pairwise_snoc; auto. intros b Hb. apply disjoint_keys_sym. apply (no_match_disjoint fold_c cs r b); auto. }
  assert (Pu': pairwise (disjoint_keys all_uris) (recs c ++ [r])).
  { apply pairwise_snoc; auto. intros b Hb. apply disjoint_keys_sym. apply (no_match_disjoint fold_c cs r b); auto. }
  split; [|split; auto].
  pose proof (pairwise_one_owner _ _ Pp) as OP0. pose proof (pairwise_one_owner _ _ Pu) as OU0.
  change (delim (index c r (recs c ++ [r]))) with (delim c). change (recs (index c r (recs c ++ [r]))) with (recs c ++ [r]).
  apply index_wf; try (apply pairwise_one_owner; auto); [apply in_or_app; right; left; auto| | | |].
  - intros p y Hy Hp Hn. apply in_app_or in Hy as [Hy|[<-|[]]]; [|contradiction].
    rewrite (wf_syn _ _ _ W), (wf_pmap _ _ _ W). unfold owner_by_prefix. fold (owner all_prefixes (recs c) p).
    rewrite (owner_reg all_prefixes (recs c) p y); auto.
  - intros p Hn. rewrite (wf_syn _ _ _ W), (wf_pmap _ _ _ W). unfold owner_by_prefix. fold (owner all_prefixes (recs c) p).
    rewrite owner_none; auto. intros y Hy. apply Hn. apply in_or_app; auto.
  - intros u y Hy Hu Hn. apply in_app_or in Hy as [Hy|[<-|[]]]; [|contradiction].
    rewrite (wf_trie _ _ _ W), (wf_rpmap _ _ _ W), (owner_reg all_uris (recs c) u y); auto.
  - intros u Hn. rewrite (wf_trie _ _ _ W), (wf_rpmap _ _ _ W), owner_none; auto. intros y Hy. apply Hn. apply in_or_app; auto.
Qed.

Definition repl (m m' : record) (x : record) : record := if key_eqb (record_key x) (record_key m) then m' else x.

Lemma record_eq_dec (a b : record) : {a = b} + {a <> b}.
Proof.
  decide equality; try apply str_eq_dec; try (apply list_eq_dec; apply str_eq_dec).
  decide equality; apply str_eq_dec.
Qed.
Lemma isM_spec l m b : pairwise (disjoint_keys all_prefixes) l -> In m l -> In b l ->
  (key_eqb (record_key b) (record_key m) = true <-> b = m).
Proof.
  intros P Hm Hb. split; [|intros ->; apply key_eqb_refl].
  intro E. destruct (record_eq_dec b m) as [|Hne]; auto.
  rewrite disjoint_key_neq in E; [discriminate|]. eapply pairwise_in_neq; eauto. apply disjoint_keys_sym.
Qed.

(* exactly one record m matches and merge=True: m is replaced by merge r m *)
Theorem swf_merge c r m cs : swf c -> In m (recs c) ->
  (forall r0, In r0 (recs c) -> r0 <> m -> matches_record cs r r0 = false) ->
  swf (index c (merge r m) (map (repl m (merge r m)) (recs c))).
Proof.
  intros (W & Pp & Pu) Hm NM. set (m' := merge r m). set (rs' := map (repl m m') (recs c)).
  assert (ND: NoDup (recs c)) by (eapply pairwise_nodup; [apply all_prefixes_ne|exact Pp]).
  assert (In': forall y, In y rs' <-> y = m' \/ (In y (recs c) /\ y <> m)).
  { intro y. unfold rs'. rewrite in_map_iff. split.
    - intros (b & E & Hb). unfold repl in E. destruct (key_eqb (record_key b) (record_key m)) eqn:K; subst; auto.
      right. split; auto. intro; subst. rewrite key_eqb_refl in K. discriminate.
    - intros [->|[Hy Hne]].
      + exists m. split; auto. unfold repl. rewrite key_eqb_refl. reflexivity.
      + exists y. split; auto. unfold repl. destruct (key_eqb (record_key y) (record_key m)) eqn:K; auto.
        apply (isM_spec (recs c)) in K; auto. contradiction. }
  assert (Dp: forall b, In b (recs c) -> b <> m -> disjoint_keys all_prefixes m' b).
  { intros b Hb Hne k K1 K2. apply merge_prefixes in K1 as [K1|K1].
    - apply (pairwise_in_neq _ (disjoint_keys_sym all_prefixes) _ m b Pp Hm Hb (not_eq_sym Hne) k); auto.
    - destruct (no_match_disjoint fold_c cs r b (NM b Hb Hne)) as [D1 D2]. apply (D1 k); auto. }
  assert (Du: forall b, In b (recs c) -> b <> m -> disjoint_keys all_uris m' b).
  { intros b Hb Hne k K1 K2. apply merge_uris in K1 as [K1|K1].
    - apply (pairwise_in_neq _ (disjoint_keys_sym all_uris) _ m b Pu Hm Hb (not_eq_sym Hne) k); auto.
    - destruct (no_match_disjoint fold_c cs r b (NM b Hb Hne)) as [D1 D2]. apply (D2 k); auto. }
  assert (Pp': pairwise (disjoint_keys all_prefixes) rs').
  { unfold rs', repl. apply (pairwise_replace _ (disjoint_keys_sym all_prefixes) (recs c) m m'); auto.
    intros b Hb. apply (isM_spec (recs c)); auto. }
  assert (Pu': pairwise (disjoint_keys all_uris) rs').
  { unfold rs', repl. apply (pairwise_replace _ (disjoint_keys_sym all_uris) (recs c) m m'); auto.
    intros b Hb. apply (isM_spec (recs c)); auto. }
  split; [|split; auto].
  pose proof (pairwise_one_owner _ _ Pp) as OP0. pose proof (pairwise_one_owner _ _ Pu) as OU0.
  change (delim (index c m' rs')) with (delim c). change (recs (index c m' rs')) with rs'.
  apply index_wf; try (apply pairwise_one_owner; auto); [apply In'; auto| | | |].
  - intros p y Hy Hp Hn. apply In' in Hy as [->|[Hy Hne]]; [contradiction|].
    rewrite (wf_syn _ _ _ W), (wf_pmap _ _ _ W). unfold owner_by_prefix. fold (owner all_prefixes (recs c) p).
    rewrite (owner_reg all_prefixes (recs c) p y); auto.
  - intros p Hn. rewrite (wf_syn _ _ _ W), (wf_pmap _ _ _ W). unfold owner_by_prefix. fold (owner all_prefixes (recs c) p).
    rewrite owner_none; auto. intros y Hy Hp. destruct (record_eq_dec y m) as [->|Hne].
    + apply (Hn m'); [apply In'; auto|]. apply merge_prefixes. auto.
    + apply (Hn y); auto. apply In'. auto.
  - intros u y Hy Hu Hn. apply In' in Hy as [->|[Hy Hne]]; [contradiction|].
    rewrite (wf_trie _ _ _ W), (wf_rpmap _ _ _ W), (owner_reg all_uris (recs c) u y); auto.
  - intros u Hn. rewrite (wf_trie _ _ _ W), (wf_rpmap _ _ _ W), owner_none; auto. intros y Hy Hu. destruct (record_eq_dec y m) as [->|Hne].
    + apply (Hn m'); [apply In'; auto|]. apply merge_uris. auto.
    + apply (Hn y); auto. apply In'. auto.
Qed.

(* what add_record does, case by case *)
Theorem add_record_cases c r cs mg : swf c ->
  match filter (matches_record cs r) (recs c) with
  | [] => add_record c r cs mg = Val (index c r (recs c ++ [r]))
  | [m] => if mg then add_record c r cs mg = Val (index c (merge r m) (map (repl m (merge r m)) (recs c)))
           else add_record c r cs mg = Raise EValueError
  | _ => add_record c r cs mg = Raise EValueError
  end.
Proof.
  intros (W & Pp & Pu). unfold Mutate.add_record. rewrite match_record_filter by auto.
  destruct (filter (matches_record cs r) (recs c)) as [|m [|m2 rest]] eqn:F; cbn [map]; auto.
  destruct mg; auto.
  assert (ND: NoDup (recs c)) by (eapply pairwise_nodup; [apply all_prefixes_ne|exact Pp]).
  destruct (filter_single _ _ _ ND F) as (Hm & _ & _).
  rewrite find_key by auto. rewrite replace_key_map by auto. reflexivity.
Qed.

(* C05_step: every accepted call keeps the converter consistent with its own records *)
Theorem add_record_swf c r cs mg c' : swf c -> add_record c r cs mg = Val c' -> swf c'.
Proof.
  intros S H. pose proof (add_record_cases c r cs mg S) as C.
  assert (ND: NoDup (recs c)) by (destruct S as (_ & Pp & _); eapply pairwise_nodup; [apply all_prefixes_ne|exact Pp]).
  destruct (filter (matches_record cs r) (recs c)) as [|m [|m2 rest]] eqn:F.
  - rewrite C in H. inversion H; subst. apply (swf_append c r cs); auto. apply filter_nil; auto.
  - destruct mg; rewrite C in H; [|discriminate]. inversion H; subst.
    destruct (filter_single _ _ _ ND F) as (Hm & _ & Ho). apply (swf_merge c r m cs); auto.
  - rewrite C in H. discriminate.
Qed.
(* C05_reject: a rejected call raises ValueError (never anything else); the value-level state is untouched *)
Theorem add_record_reject c r cs mg e : swf c -> add_record c r cs mg = Raise e -> e = EValueError.
Proof.
  intros S H. pose proof (add_record_cases c r cs mg S) as C.
  destruct (filter (matches_record cs r) (recs c)) as [|m [|m2 rest]]; [|destruct mg|]; rewrite C in H; congruence.
Qed.
Theorem add_prefix_swf c p u ps us cs mg c' : swf c -> add_prefix fold_c c p u ps us cs mg = Val c' -> swf c'.
Proof.
  unfold add_prefix, mk_record. intros S H.
  destruct (mem p (sort_str ps)); [discriminate|]. destruct (mem u (sort_str us)); [discriminate|]. simpl in H.
  eapply add_record_swf; eauto.
Qed.
Theorem add_prefix_reject c p u ps us cs mg e : swf c -> add_prefix fold_c c p u ps us cs mg = Raise e ->
  e = EValueError \/ e = ERecordValidation.
Proof.
  unfold add_prefix, mk_record. intros S H.
  destruct (mem p (sort_str ps)); [inversion H; auto|]. destruct (mem u (sort_str us)); [inversion H; auto|]. simpl in H.
  left. eapply add_record_reject; eauto.
Qed.

(* C05_accept: what an accepted call does to the records *)
Theorem add_record_accept c r cs mg c' : swf c -> add_record c r cs mg = Val c' ->
  (recs c' = recs c ++ [r] /\ forall r0, In r0 (recs c) -> matches_record cs r r0 = false)
  \/ (exists m, In m (recs c) /\ matches_record cs r m = true /\ mg = true /\
        recs c' = map (repl m (merge r m)) (recs c) /\
        r_prefix (merge r m) = r_prefix m /\ r_uri (merge r m) = r_uri m /\ r_pat (merge r m) = r_pat m /\
        (forall x, In x (all_prefixes (merge r m)) <-> In x (all_prefixes m) \/ In x (all_prefixes r)) /\
        (forall x, In x (all_uris (merge r m)) <-> In x (all_uris m) \/ In x (all_uris r))).
Proof.
  intros S H. pose proof (add_record_cases c r cs mg S) as C.
  assert (ND: NoDup (recs c)) by (destruct S as (_ & Pp & _); eapply pairwise_nodup; [apply all_prefixes_ne|exact Pp]).
  destruct (filter (matches_record cs r) (recs c)) as [|m [|m2 rest]] eqn:F.
  - rewrite C in H. inversion H; subst. left. split; auto. apply filter_nil; auto.
  - destruct mg; rewrite C in H; [|discriminate]. inversion H; subst. right.
    destruct (filter_single _ _ _ ND F) as (Hm & Hmm & Ho). exists m. repeat split; auto;
      try (apply merge_prefixes; auto); try (apply merge_uris; auto).
  - rewrite C in H. discriminate.
Qed.
(* every prefix and URI prefix of the new record resolves to one record of the result *)
Theorem add_record_resolves c r cs mg c' : swf c -> add_record c r cs mg = Val c' ->
  (forall p, In p (all_prefixes r) -> exists y, In y (recs c') /\ dget p (synmap c') = Some (r_prefix y) /\ In p (all_prefixes y)) /\
  (forall u, In u (all_uris r) -> exists y, In y (recs c') /\ find u (ctrie c') = Some (r_prefix y) /\ In u (all_uris y)).
Proof.
  intros S H. pose proof (add_record_swf c r cs mg c' S H) as (W' & Pp' & Pu').
  assert (Hy: exists y, In y (recs c') /\ (forall p, In p (all_prefixes r) -> In p (all_prefixes y)) /\ (forall u, In u (all_uris r) -> In u (all_uris y))).
  { destruct (add_record_accept c r cs mg c' S H) as [[E _]|(m & Hm & _ & _ & E & _ & _ & _ & Ap & Au)].
    - exists r. rewrite E. split; [apply in_or_app; right; left; auto|auto].
    - exists (merge r m). rewrite E. split.
      + apply in_map_iff. exists m. split; auto. unfold repl. rewrite key_eqb_refl. reflexivity.
      + split; intros k Hk; [apply Ap|apply Au]; auto. }
  destruct Hy as (y & Hy & Ap & Au). split.
  - intros p Hp. exists y. repeat split; auto. rewrite (wf_syn _ _ _ W'). unfold owner_by_prefix. fold (owner all_prefixes (recs c') p).
    rewrite (owner_reg all_prefixes (recs c') p y); auto. apply pairwise_one_owner; auto.
  - intros u Hu. exists y. repeat split; auto. rewrite (wf_trie _ _ _ W').
    rewrite (owner_reg all_uris (recs c') u y); auto. apply pairwise_one_owner; auto.
Qed.


(* a consistent converter answers every query as a converter freshly constructed from its records *)
Theorem fresh_equiv c : swf c ->
  exists c0, mk_conv true (delim c) (recs c) = Val c0 /\
    forall q, conv_query q = true -> answer c q = answer c0 q /\ answer c q = spec_answer (recs c) (delim c) q.
Proof.
  intros (W & Pp & Pu).
  destruct (mk_conv_ok (delim c) (recs c)) as [c0 H0].
  - eapply pairwise_perm; [apply disjoint_keys_sym|symmetry; apply sort_perm|exact Pu].
  - eapply pairwise_perm; [apply disjoint_keys_sym|symmetry; apply sort_perm|exact Pp].
  - exists c0. split; auto. intros q Hq.
    rewrite (WF.answer_spec _ _ _ W q Hq), (answer_spec _ _ _ H0 q Hq). auto.
Qed.
Theorem swf_strict c : swf c -> strictb (recs c) = true.
Proof. intros (_ & Pp & Pu). unfold strictb. apply clash_spec in Pp, Pu. rewrite Pp, Pu. reflexivity. Qed.
End M2.

(* every reachable state: any history of add_record / add_prefix calls, accepted or rejected, from any strict converter *)
Section Hist.
Variable fold_c : chr -> str.
Inductive hop := HAddRecord (r : record) (cs mg : bool) | HAddPrefix (p u : str) (ps us : list str) (cs mg : bool).
Definition hstep (c : conv) (o : hop) : res conv :=
  match o with
  | HAddRecord r cs mg => add_record fold_c c r cs mg
  | HAddPrefix p u ps us cs mg => add_prefix fold_c c p u ps us cs mg
  end.
Definition hrun (c : conv) (ops : list hop) : conv :=
  fold_left (fun c o => match hstep c o with Val c' => c' | Raise _ => c end) ops c.
Theorem reachable_swf ops : forall c, swf c -> swf (hrun c ops).
Proof.
  induction ops as [|o ops IH]; intros c S; simpl; auto. apply IH.
  destruct (hstep c o) as [c'|e] eqn:E; auto.
  destruct o; simpl in E; [eapply add_record_swf|eapply add_prefix_swf]; eauto.
Qed.
Theorem hstep_errors c o e : swf c -> hstep c o = Raise e -> e = EValueError \/ e = ERecordValidation.
Proof. intros S H. destruct o; simpl in H; [left; eapply add_record_reject|eapply add_prefix_reject]; eauto. Qed.
End Hist.

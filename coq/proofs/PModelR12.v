(* The executable predicate P_C12 accepts the model's own observation on every valid case whose operation is
   remap_uri_prefixes or rewire: the link between the C12 theorems (ReconcileFacts) and what the run evaluates. *)
From Coq Require Import Lia Permutation.
From Curies.model Require Import Str PyData Trie Conv Query Val Answer Spec CheckQ Mutate Loaders CheckL Reconcile CheckR.
From Curies.proofs Require Import StrFacts TrieFacts DictFacts IndexFacts QueryFacts CheckFacts SortFacts C04Facts MutateFacts
  ReconcileFacts PModelFacts.

(* ---- decoding what the model encodes ---- *)
Lemma all_some_map {A} (f : val -> option A) (g : A -> val) l : (forall x, f (g x) = Some x) ->
  all_some (map f (map g l)) = Some l.
Proof. intro H. induction l as [|a l IH]; cbn [map all_some]; auto. rewrite H, IH. reflexivity. Qed.
Lemma as_strs_vstrs l : as_strs (vstrs l) = Some l.
Proof. unfold as_strs, vstrs, as_list_of. apply all_some_map. reflexivity. Qed.
Lemma as_record_vrecord r : as_record (vrecord r) = Some r.
Proof.
  destruct r as [p u ps us pat]. unfold vrecord, as_record. cbn [r_prefix r_uri r_psyn r_usyn r_pat].
  rewrite !as_strs_vstrs. destruct pat; reflexivity.
Qed.
Lemma as_records_vrecords rs : as_records (VList (map vrecord rs)) = Some rs.
Proof. unfold as_records, as_list_of. apply all_some_map. apply as_record_vrecord. Qed.

Lemma forallb_combine_map_ {A B} (f : A -> B) (P : A * B -> bool) l :
  (forall x, In x l -> P (x, f x) = true) -> forallb P (combine l (map f l)) = true.
Proof. induction l as [|a l IH]; simpl; intro H; auto. rewrite H by auto. simpl. apply IH. intros; apply H; auto. Qed.

Lemma qrecords_in ss ps : In QRecords (battery ss ps).
Proof. unfold battery. apply in_or_app. right. apply in_or_app. right. unfold battery_intro. simpl. tauto. Qed.

Lemma result_records_model k R : result_records k (map (answer R) (rbattery k)) = Some (sort_records (recs R)).
Proof.
  unfold result_records.
  change (combine (rbattery k) (map (answer R) (rbattery k))) with (zm R (rbattery k)).
  rewrite (find_obs_exact R (rbattery k) _ QRecords).
  - cbn [answer vres]. apply as_records_vrecords.
  - intros q Hq; destruct q; try discriminate; reflexivity.
  - apply qrecords_in.
  - reflexivity.
Qed.

Lemma result_consistent_model k R : swf R -> delim R = [58%N] -> sort_records (recs R) = recs R ->
  result_consistent k (sort_records (recs R)) (map (answer R) (rbattery k)) = true.
Proof.
  intros S D E. rewrite E. unfold result_consistent. rewrite (swf_strict R S). cbn [andb].
  apply forallb_combine_map_. intros q _. cbn [fst snd]. destruct (all_conv_queries q) eqn:A; auto.
  destruct S as (W & _). rewrite D in W. rewrite (WF.answer_spec _ _ _ W q).
  - apply val_eqb_refl.
  - destruct q; simpl in *; congruence.
Qed.

(* ---- small facts on the naive helpers ---- *)
Lemma set_eqb_refl a : set_eqb a a = true.
Proof.
  unfold set_eqb. assert (H: forallb (fun x => mem x a) a = true) by (apply forallb_forall; intros x H; apply mem_In; auto).
  rewrite H. reflexivity.
Qed.
Lemma subset_spec a b : (forall x, In x a -> In x b) -> subset a b = true.
Proof. intro H. unfold subset. apply forallb_forall. intros x Hx. apply mem_In. auto. Qed.
Lemma nodup_flat_in {A} (f : A -> list str) l x : NoDup (flat_map f l) -> In x l -> NoDup (f x).
Proof.
  induction l as [|a l IH]; simpl; intros N H; [destruct H|].
  apply NoDup_app_inv in N as (N1 & N2 & _). destruct H as [<-|H]; auto.
Qed.
Lemma bind_val {A B} (x : res A) (f : A -> res B) b : bind x f = Val b -> exists a, x = Val a /\ f a = Val b.
Proof. destruct x as [a|e]; simpl; [eauto|discriminate]. Qed.

(* ---- the per-record statement of P_repoint, for both operations ---- *)
Section Repoint.
Variables (k : rcase) (cin : list record) (c0 : conv) (m : list (str * str)).
Hypothesis Hc0 : mk_conv true [58%N] cin = Val c0.
Hypothesis Hok : strict_okb cin = true.
Variable keysf : record -> list str.
Variables skip by_curie : bool.
Hypothesis Hkeys : forall r, (if by_curie then all_prefixes r else all_uris r) = keysf r.
Variable RR : list record.
Hypothesis HRR : forall x, In x RR <-> In x (map (step c0 m keysf skip) (recs c0)).
Hypothesis Hown : one_owner all_prefixes RR.
Hypothesis Hlen : length RR = length cin.

Let S0 : swf c0 := mk_conv_swf _ _ _ Hc0.

Lemma in_c0 r : In r (recs c0) <-> In r cin.
Proof. rewrite (c_recs _ _ _ Hc0). apply sort_records_In. Qed.

Lemma known_cin n : CheckR.known_uri cin n = true <-> dhas n (rpmap c0) = true.
Proof.
  rewrite (ReconcileFacts.known_uri c0 S0 n). unfold CheckR.known_uri. rewrite existsb_exists. split.
  - intros (y & Hy & Hn). exists y. split; [apply in_c0; auto|apply mem_In; auto].
  - intros (y & Hy & Hn). exists y. split; [apply in_c0; auto|apply mem_In; auto].
Qed.

Lemma uri_not_syn r : In r cin -> ~ In (r_uri r) (r_usyn r).
Proof.
  intro Hr. unfold strict_okb in Hok. apply andb_true_iff in Hok as [_ Hu]. apply nodup_str_spec in Hu.
  pose proof (nodup_flat_in all_uris cin r Hu Hr) as N. unfold all_uris in N. inversion N; auto.
Qed.

Lemma P_repoint_model : P_repoint k cin RR m by_curie = true.
Proof.
  unfold P_repoint. rewrite Hlen, Nat.eqb_refl. cbn [andb]. apply forallb_forall. intros r Hr.
  assert (Hr0 : In r (recs c0)) by (apply in_c0; auto).
  destruct (step_prefixes c0 m keysf skip r) as (Eap & Ep & Eps & _).
  assert (Hin : In (step c0 m keysf skip r) RR) by (apply HRR; apply in_map; auto).
  assert (Eo : owner_by_prefix RR (r_prefix r) = Some (step c0 m keysf skip r)).
  { rewrite owner_by_prefix_owner. apply owner_reg; auto. rewrite Eap. left; reflexivity. }
  rewrite Eo, Ep, Eps, str_eqb_refl, set_eqb_refl. cbn [andb].
  rewrite (subset_spec (all_uris r) (all_uris (step c0 m keysf skip r))) by (intros x; apply step_keeps).
  cbn [andb]. rewrite Hkeys. unfold step.
  destruct (first_hit (keysf r) m) as [n|] eqn:F.
  2:{ rewrite str_eqb_refl, set_eqb_refl. reflexivity. }
  rewrite (subset_spec (all_uris (repoint c0 r n skip)) (n :: all_uris r)).
  2:{ intros x Hx. apply repoint_gains in Hx as [->|Hx]; [left|right]; auto. }
  cbn [andb].
  destruct (str_eqb_spec n (r_uri r)) as [En|Nn].
  - (* the mapped one is the canonical URI prefix already *)
    rewrite (repoint_same c0 r n skip En).
    + rewrite str_eqb_refl, set_eqb_refl. reflexivity.
    + right. split.
      * apply (ReconcileFacts.known_uri c0 S0). exists r. split; auto. rewrite En. left; reflexivity.
      * rewrite En. apply uri_not_syn; auto.
  - destruct (CheckR.known_uri cin n && negb (mem n (all_uris r))) eqn:K.
    + (* owned by another record: untouched *)
      apply andb_true_iff in K as [K1 K2]. apply known_cin in K1. apply negb_true_iff in K2. apply mem_false in K2.
      rewrite (repoint_clash_noop c0 r n skip K1).
      * rewrite str_eqb_refl, set_eqb_refl. reflexivity.
      * intro H. apply K2. right; auto.
    + (* unused, or one of its own synonyms: becomes canonical *)
      assert (C : dhas n (rpmap c0) = false \/ In n (r_usyn r)).
      { apply andb_false_iff in K as [K|K].
        - left. destruct (dhas n (rpmap c0)) eqn:D; auto. apply known_cin in D. congruence.
        - right. apply negb_false_iff in K. apply mem_In in K. destruct K as [K|K]; auto. congruence. }
      destruct (repoint_canonical c0 r n skip C Nn) as [Eu Hs].
      rewrite Eu, str_eqb_refl. cbn [andb]. apply mem_In. exact Hs.
Qed.
End Repoint.

(* ---- the model's observation ---- *)
Lemma model_robs_val k cs R : input_convs k = Val cs -> derive k cs = Val R ->
  model_robs k = VList [VInt 0; VList (map (answer R) (rbattery k));
                        match rc_op k with
                        | DRewire m => match rewire R m with
                                       | Val R2 => VList (map vrecord (sort_records (recs R2)))
                                       | Raise _ => VList [VInt (-1)] end
                        | _ => VList []
                        end].
Proof. intros H1 H2. unfold model_robs. rewrite H1, H2. reflexivity. Qed.
Lemma model_robs_raise k cs e : input_convs k = Val cs -> derive k cs = Raise e ->
  model_robs k = VList [VInt (derive_code (@Raise conv e)); VList []; VList []].
Proof. intros H1 H2. unfold model_robs. rewrite H1, H2. reflexivity. Qed.

Lemma inputs_ok l : forallb strict_okb l = true -> exists cs, sequence (map (mk_conv true [58%N]) l) = Val cs.
Proof.
  induction l as [|a l IH]; simpl; intro H; [eauto|]. apply andb_true_iff in H as [Ha Hl].
  destruct (IH Hl) as [cs Hcs]. unfold strict_okb in Ha. apply andb_true_iff in Ha as [Hp Hu]. apply nodup_str_spec in Hp, Hu.
  destruct (nodup_mk_conv [58%N] a Hp Hu) as [c Hc]. rewrite Hc, Hcs. simpl. eauto.
Qed.
Lemma input_convs_cons k cin rest : rc_inputs k = cin :: rest -> forallb strict_okb (rc_inputs k) = true ->
  exists c0 cs, mk_conv true [58%N] cin = Val c0 /\ strict_okb cin = true /\ input_convs k = Val (c0 :: cs).
Proof.
  intros Ein V. unfold input_convs. rewrite Ein in *. cbn [forallb] in V. apply andb_true_iff in V as [Ha Hl].
  destruct (inputs_ok rest Hl) as [cs Hcs]. pose proof Ha as Ha'.
  unfold strict_okb in Ha. apply andb_true_iff in Ha as [Hp Hu]. apply nodup_str_spec in Hp, Hu.
  destruct (nodup_mk_conv [58%N] cin Hp Hu) as [c Hc]. exists c, cs. repeat split; auto.
  cbn [map sequence]. rewrite Hc, Hcs. reflexivity.
Qed.

Lemma P_C12_remap k m cin rest code answers twice : rc_op k = DRemapUri m -> rc_inputs k = cin :: rest ->
  P_C12 k (VList [VInt code; VList answers; twice]) =
  if negb (is_nil (inter (map fst m) (map snd m))) then Z.eqb code 15
  else if negb (injective_map m) then true
  else Z.eqb code 0 &&
       match result_records k answers with
       | Some R => result_consistent k R answers && P_repoint k cin R m false
       | None => false end.
Proof. intros E1 E2. unfold P_C12. rewrite E1, E2. reflexivity. Qed.
Lemma P_C12_rewire k m cin rest code answers twice : rc_op k = DRewire m -> rc_inputs k = cin :: rest ->
  P_C12 k (VList [VInt code; VList answers; twice]) =
  if negb (injective_map m) then true
  else Z.eqb code 0 &&
       match result_records k answers with
       | Some R => result_consistent k R answers && P_repoint k cin R m true
                   && val_eqb twice (VList (map vrecord (sort_records R)))
       | None => false end.
Proof. intros E1 E2. unfold P_C12. rewrite E1, E2. reflexivity. Qed.

(* what is needed of a result converter whose records are the re-pointed ones *)
Section Result.
Variables (k : rcase) (cin : list record) (c0 : conv) (m : list (str * str)).
Hypothesis Hc0 : mk_conv true [58%N] cin = Val c0.
Hypothesis Hok : strict_okb cin = true.
Variable keysf : record -> list str.
Variables skip by_curie : bool.
Hypothesis Hkeys : forall r, (if by_curie then all_prefixes r else all_uris r) = keysf r.
Variable R : conv.
Hypothesis HR : mk_conv true [58%N] (map (step c0 m keysf skip) (recs c0)) = Val R.

Lemma result_sorted : sort_records (recs R) = recs R.
Proof. rewrite (c_recs _ _ _ HR). apply sort_records_idem. Qed.
Lemma result_delim : delim R = [58%N].
Proof. apply (mk_conv_inv _ _ _ HR). Qed.
Lemma result_consistent_R : result_consistent k (sort_records (recs R)) (map (answer R) (rbattery k)) = true.
Proof. apply result_consistent_model; [eapply mk_conv_swf; eauto|apply result_delim|apply result_sorted]. Qed.
Lemma result_repoint : P_repoint k cin (sort_records (recs R)) m by_curie = true.
Proof.
  rewrite result_sorted.
  apply (P_repoint_model k cin c0 m Hc0 Hok keysf skip by_curie Hkeys (recs R)).
  - intro x. rewrite (c_recs _ _ _ HR). apply sort_records_In.
  - destruct (mk_conv_swf _ _ _ HR) as (_ & Pp & _). apply pairwise_one_owner. exact Pp.
  - rewrite (c_recs _ _ _ HR). unfold sort_records, sort_by_key.
    rewrite (Permutation_length (sort_perm _ _)), map_length, (c_recs _ _ _ Hc0).
    unfold sort_records, sort_by_key. apply (Permutation_length (sort_perm _ _)).
Qed.
End Result.

Lemma not_trans_of_inter m : inter (map fst m) (map snd m) = [] -> forall s, In s (map fst m) -> In s (map snd m) -> False.
Proof. intros E s H1 H2. assert (H: In s (inter (map fst m) (map snd m))) by (apply inter_In; auto). rewrite E in H. destruct H. Qed.

Theorem P_C12_model_remap_uri : forall (k : rcase) m, valid_r k = true -> rc_op k = DRemapUri m -> P_C12 k (model_robs k) = true.
Proof.
  intros k m V Eop. unfold valid_r in V. rewrite Eop in V. apply andb_true_iff in V as [Vin Vop].
  apply andb_true_iff in Vop as [Vne _].
  destruct (rc_inputs k) as [|cin rest] eqn:Ein; [discriminate|]. rewrite <- Ein in Vin.
  destruct (input_convs_cons k cin rest Ein Vin) as (c0 & cs & Hc0 & Hok & Hin).
  assert (Ed : derive k (c0 :: cs) = remap_uri_prefixes c0 m) by (unfold derive; rewrite Eop; reflexivity).
  destruct (inter (map fst m) (map snd m)) as [|s l] eqn:EI.
  - destruct (injective_map m) eqn:Inj.
    + (* injective, not transitive: the full statement *)
      pose proof Inj as Inj'. unfold injective_map in Inj'. apply nodup_str_spec in Inj'.
      pose proof (mk_conv_swf _ _ _ Hc0) as S0.
      assert (HR : exists R, remap_uri_prefixes c0 m = Val R /\ mk_conv true [58%N] (map (step c0 m all_uris false) (recs c0)) = Val R).
      { destruct S0 as (W & Pp & Pu). destruct (step_conv c0 (conj W (conj Pp Pu)) m Inj' all_uris Pu false) as (R & HR & _).
        exists R. split; auto. unfold remap_uri_prefixes. rewrite (not_transitive c0 m (not_trans_of_inter m EI)). exact HR. }
      destruct HR as (R & HR1 & HR2).
      rewrite (model_robs_val k _ R Hin) by (rewrite Ed; exact HR1).
      rewrite (P_C12_remap k m cin rest _ _ _ Eop Ein), EI, Inj. cbn [is_nil negb Z.eqb andb].
      rewrite result_records_model.
      rewrite (result_consistent_R k c0 m all_uris false R HR2).
      rewrite (result_repoint k cin c0 m Hc0 Hok all_uris false false (fun r => eq_refl) R HR2). reflexivity.
    + (* not injective: nothing is claimed *)
      destruct (remap_uri_prefixes c0 m) as [R|e] eqn:ER.
      * rewrite (model_robs_val k _ R Hin) by (rewrite Ed; reflexivity).
        rewrite (P_C12_remap k m cin rest _ _ _ Eop Ein), EI, Inj. reflexivity.
      * rewrite (model_robs_raise k _ e Hin) by (rewrite Ed; reflexivity).
        rewrite (P_C12_remap k m cin rest _ _ _ Eop Ein), EI, Inj. reflexivity.
  - (* transitive: TransitiveError *)
    assert (ER : remap_uri_prefixes c0 m = Raise ETransitive).
    { unfold remap_uri_prefixes, remap_uri_records. rewrite EI. reflexivity. }
    rewrite (model_robs_raise k _ ETransitive Hin) by (rewrite Ed; exact ER).
    rewrite (P_C12_remap k m cin rest _ _ _ Eop Ein), EI. reflexivity.
Qed.

Theorem P_C12_model_rewire : forall (k : rcase) m, valid_r k = true -> rc_op k = DRewire m -> P_C12 k (model_robs k) = true.
Proof.
  intros k m V Eop. unfold valid_r in V. rewrite Eop in V. apply andb_true_iff in V as [Vin Vop].
  apply andb_true_iff in Vop as [Vne _].
  destruct (rc_inputs k) as [|cin rest] eqn:Ein; [discriminate|]. rewrite <- Ein in Vin.
  destruct (input_convs_cons k cin rest Ein Vin) as (c0 & cs & Hc0 & Hok & Hin).
  assert (Ed : derive k (c0 :: cs) = rewire c0 m) by (unfold derive; rewrite Eop; reflexivity).
  destruct (injective_map m) eqn:Inj.
  - pose proof Inj as Inj'. unfold injective_map in Inj'. apply nodup_str_spec in Inj'.
    pose proof (mk_conv_swf _ _ _ Hc0) as S0.
    destruct (rewire_idempotent c0 m S0 Inj') as (R & R2 & HR1 & HR2 & E2).
    assert (HR : mk_conv true [58%N] (map (step c0 m all_prefixes true) (recs c0)) = Val R) by exact HR1.
    rewrite (model_robs_val k _ R Hin) by (rewrite Ed; exact HR1).
    rewrite Eop, HR2, E2.
    rewrite (P_C12_rewire k m cin rest _ _ _ Eop Ein), Inj. cbn [negb Z.eqb andb].
    rewrite result_records_model.
    rewrite (result_consistent_R k c0 m all_prefixes true R HR).
    rewrite (result_repoint k cin c0 m Hc0 Hok all_prefixes true true (fun r => eq_refl) R HR).
    rewrite !(result_sorted c0 m all_prefixes true R HR). cbn [andb]. apply val_eqb_refl.
  - destruct (rewire c0 m) as [R|e] eqn:ER.
    + rewrite (model_robs_val k _ R Hin) by (rewrite Ed; reflexivity).
      rewrite (P_C12_rewire k m cin rest _ _ _ Eop Ein), Inj. reflexivity.
    + rewrite (model_robs_raise k _ e Hin) by (rewrite Ed; reflexivity).
      rewrite (P_C12_rewire k m cin rest _ _ _ Eop Ein), Inj. reflexivity.
Qed.

Theorem P_C12_model : forall k : rcase, valid_r k = true ->
  (match rc_op k with DRemapUri _ | DRewire _ => True | _ => False end) -> P_C12 k (model_robs k) = true.
Proof.
  intros k V H. destruct (rc_op k) as [sens|P|m|m|m] eqn:Eop; try contradiction.
  - eapply P_C12_model_remap_uri; eauto.
  - eapply P_C12_model_rewire; eauto.
Qed.
Print Assumptions P_C12_model.

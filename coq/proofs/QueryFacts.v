(* Every query of a strict converter equals its naive specification (a function of the record collection). *)
From Coq Require Import Lia Permutation.
From Curies.model Require Import Str PyData Trie Conv Query Val Answer Spec.
From Curies.proofs Require Import StrFacts TrieFacts DictFacts IndexFacts.

Lemma find_ext {A} (f g : A -> bool) l : (forall x, f x = g x) -> List.find f l = List.find g l.
Proof. intro E. induction l as [|a l IH]; simpl; auto. rewrite E, IH. reflexivity. Qed.

Lemma owner_by_prefix_owner rs p : owner_by_prefix rs p = owner all_prefixes rs p.
Proof. reflexivity. Qed.

Lemma argmax_some l x : argmax l = Some x -> In x l /\ forall y, In y l -> length (fst y) <= length (fst x).
Proof.
  revert x; induction l as [|a l IH]; simpl; intros x H; [discriminate|].
  destruct (argmax l) as [y|] eqn:E.
  - destruct (IH _ eq_refl) as [Hin Hmax]. destruct (Nat.ltb_spec (length (fst a)) (length (fst y))); inversion H; subst.
    + split; auto. intros z [<-|Hz]; [lia|auto].
    + split; auto. intros z [<-|Hz]; [lia|]. specialize (Hmax _ Hz). lia.
  - inversion H; subst. split; auto. intros z [<-|Hz]; auto.
    destruct l; [destruct Hz|simpl in E; destruct (argmax l); [destruct (_ <? _)|]; discriminate].
Qed.
Lemma argmax_none l : argmax l = None -> l = [].
Proof. destruct l; simpl; auto. destruct (argmax l); [destruct (_ <? _)|]; discriminate. Qed.
Lemma in_cands rs u p r : In (p, r) (cands rs u) <-> In r rs /\ In p (all_uris r) /\ prefixb p u = true.
Proof.
  unfold cands. rewrite in_flat_map. split.
  - intros (r' & Hr & Hin). apply in_map_iff in Hin as (p' & E & Hf). inversion E; subst.
    apply filter_In in Hf as [H1 H2]. auto.
  - intros (Hr & Hp & Hpre). exists r. split; auto. apply in_map_iff. exists p. split; auto. apply filter_In; auto.
Qed.

Lemma longest_match_some rs u p r : longest_match rs u = Some (p, r) ->
  In r rs /\ In p (all_uris r) /\ prefixb p u = true /\
  forall p' r', In r' rs -> In p' (all_uris r') -> prefixb p' u = true -> length p' <= length p.
Proof.
  unfold longest_match. intro H. apply argmax_some in H as [Hin Hmax]. apply in_cands in Hin as (A & B & C).
  repeat split; auto. intros p' r' A' B' C'. apply (Hmax (p', r')). apply in_cands; auto.
Qed.
Lemma longest_match_none rs u : longest_match rs u = None ->
  forall p' r', In r' rs -> In p' (all_uris r') -> prefixb p' u = false.
Proof.
  unfold longest_match. intros H p' r' A B. apply argmax_none in H.
  destruct (prefixb p' u) eqn:E; auto. assert (In (p', r') (cands rs u)) by (apply in_cands; auto). rewrite H in *. contradiction.
Qed.

(* A converter is well-formed with respect to a record collection rs when each prefix / URI prefix has one owner
   in rs and its indexes answer "the record of rs that lists the key".  Freshly constructed strict converters are
   well-formed for the records they were given (mk_conv_wf); add_record preserves it (MutateFacts). *)
Record wf (c : conv) (rs : list record) (d : str) : Prop := {
  wf_own_p : one_owner all_prefixes rs;
  wf_own_u : one_owner all_uris rs;
  wf_delim : delim c = d;
  wf_recs : forall r, In r rs <-> In r (recs c);
  wf_syn : forall p, dget p (synmap c) = option_map r_prefix (owner_by_prefix rs p);
  wf_pmap : forall p, dget p (pmap c) = option_map r_uri (owner_by_prefix rs p);
  wf_trie : forall u, find u (ctrie c) = option_map r_prefix (owner all_uris rs u);
  wf_rpmap : forall u, dget u (rpmap c) = option_map r_prefix (owner all_uris rs u) }.

Definition conv_query (q : query) : bool :=
  match q with
  | QBimap | QReverseBimap | QGetPrefixes _ | QGetUriPrefixes _ | QRecords
  | QPrefixMap | QReversePrefixMap | QSynonymToPrefix | QPatternMap => false
  | _ => true
  end.
Ltac modes := repeat match goal with b : bool |- _ => destruct b end; simpl; try reflexivity.

Lemma owner_in rs p r : owner_by_prefix rs p = Some r -> In r rs /\ In p (all_prefixes r).
Proof. intro H. apply find_some in H as [A B]. apply mem_In in B. auto. Qed.
Lemma owner_u_in rs u r : owner all_uris rs u = Some r -> In r rs /\ In u (all_uris r).
Proof. intro H. apply find_some in H as [A B]. apply mem_In in B. auto. Qed.
Lemma sp_parse_uri_in rs u p i : sp_parse_uri rs u = Some (p, i) -> exists r, In r rs /\ p = r_prefix r.
Proof.
  unfold sp_parse_uri. destruct (longest_match rs u) as [[q r]|] eqn:E; [|discriminate].
  intro H. inversion H; subst. apply longest_match_some in E as (A & _). eauto.
Qed.
Lemma sp_parse_curie_in d rs s p i : sp_parse_curie rs d s = Some (p, i) -> exists r, In r rs /\ p = r_prefix r.
Proof.
  unfold sp_parse_curie. destruct (partition d s) as [[p' i']|]; [|discriminate].
  destruct (owner_by_prefix rs p') as [r|] eqn:E; [|discriminate]. intro H; inversion H; subst.
  apply owner_in in E as [A _]. eauto.
Qed.
Lemma sp_parse_in d rs s p i : sp_parse rs d s = Some (p, i) -> exists r, In r rs /\ p = r_prefix r.
Proof.
  unfold sp_parse. destruct (sp_parse_uri rs s) as [[p' i']|] eqn:E.
  - intro H; inversion H; subst. eapply sp_parse_uri_in; eauto.
  - apply sp_parse_curie_in.
Qed.
Lemma sp_parse_uri_is rs u : sp_is_uri rs u = match sp_parse_uri rs u with Some _ => true | None => false end.
Proof. unfold sp_is_uri, sp_parse_uri. destruct (longest_match rs u) as [[p r]|]; reflexivity. Qed.

Module WF.
Section Strict.
Variables (d : str) (rs : list record) (c : conv).
Hypothesis W : wf c rs d.

Lemma own_p : one_owner all_prefixes rs. Proof. exact (wf_own_p _ _ _ W). Qed.
Lemma own_u : one_owner all_uris rs. Proof. exact (wf_own_u _ _ _ W). Qed.
Lemma c_delim : delim c = d. Proof. exact (wf_delim _ _ _ W). Qed.
Lemma L_synmap p : dget p (synmap c) = option_map r_prefix (owner_by_prefix rs p). Proof. exact (wf_syn _ _ _ W p). Qed.
Lemma L_pmap p : dget p (pmap c) = option_map r_uri (owner_by_prefix rs p). Proof. exact (wf_pmap _ _ _ W p). Qed.
Lemma L_trie u : find u (ctrie c) = option_map r_prefix (owner all_uris rs u). Proof. exact (wf_trie _ _ _ W u). Qed.
Lemma L_get_record p : get_record c p = owner_by_prefix rs p.
Proof.
  unfold get_record.
  transitivity (owner all_prefixes (recs c) p).
  - unfold owner. apply find_ext. intro r. unfold all_prefixes. rewrite mem_cons, str_eqb_sym. reflexivity.
  - apply owner_perm; [intro r; apply (wf_recs _ _ _ W) | apply own_p].
Qed.
Lemma owner_canonical r : In r rs -> owner_by_prefix rs (r_prefix r) = Some r.
Proof.
  intro Hr. unfold owner_by_prefix. destruct (List.find _ rs) as [r'|] eqn:E.
  - apply find_some in E as [Hr' Hm]. apply mem_In in Hm. f_equal. apply (own_p r' r (r_prefix r)); auto. left; auto.
  - pose proof (find_none _ _ E r Hr) as Hn. simpl in Hn.
    assert (mem (r_prefix r) (all_prefixes r) = true) by (apply mem_In; left; auto). congruence.
Qed.
Lemma owner_u_reg u r : In r rs -> In u (all_uris r) -> owner all_uris rs u = Some r.
Proof.
  intros Hr Hu. unfold owner. destruct (List.find _ rs) as [r'|] eqn:E.
  - apply find_some in E as [Hr' Hm]. apply mem_In in Hm. f_equal. apply (own_u r' r u); auto.
  - pose proof (find_none _ _ E r Hr) as Hn. simpl in Hn. apply mem_In in Hu. congruence.
Qed.

(* C01 core: the trie walk returns the longest registered URI prefix *)
Lemma L_parse_uri u : parse_uri_core c u = sp_parse_uri rs u.
Proof.
  unfold parse_uri_core, sp_parse_uri.
  pose proof (lpi_spec _ (ctrie c) u) as Hspec. unfold lpi_ok in Hspec.
  destruct (lpi u (ctrie c)) as [[n v]|] eqn:El.
  - destruct Hspec as (Hn & Hfind & Hmax). rewrite L_trie in Hfind.
    destruct (owner all_uris rs (firstn n u)) as [r|] eqn:Eo; [|discriminate]. simpl in Hfind. inversion Hfind; subst v.
    apply owner_u_in in Eo as [Hr Hu].
    assert (Hlen: length (firstn n u) = n) by (rewrite firstn_length; lia).
    assert (Hpre: prefixb (firstn n u) u = true) by (apply prefixb_firstn; rewrite Hlen; split; auto).
    destruct (longest_match rs u) as [[p' r']|] eqn:Ea.
    + apply longest_match_some in Ea as (Hr' & Hp' & Hpre' & Hmx).
      pose proof (Hmx _ _ Hr Hu Hpre) as Hge. rewrite Hlen in Hge.
      pose proof Hpre' as Hpre2. apply prefixb_firstn in Hpre2 as [Hf Hl].
      assert (length p' = n).
      { destruct (Nat.eq_dec (length p') n) as [|Hne]; auto. exfalso.
        assert (Hnone: find (firstn (length p') u) (ctrie c) = None) by (apply Hmax; lia).
        rewrite L_trie, Hf, (owner_u_reg p' r') in Hnone; auto. discriminate. }
      assert (p' = firstn n u) by (subst n; auto). subst p'.
      rewrite Hlen. f_equal. f_equal. f_equal. apply (own_u r r' (firstn n u)); auto.
    + eapply longest_match_none in Ea; eauto. congruence.
  - destruct (longest_match rs u) as [[p' r']|] eqn:Ea; auto.
    apply longest_match_some in Ea as (Hr' & Hp' & Hpre' & _).
    apply prefixb_firstn in Hpre' as [Hf Hl]. specialize (Hspec _ Hl).
    rewrite L_trie, Hf, (owner_u_reg p' r') in Hspec; auto. discriminate.
Qed.




Lemma A_parse_curie s st : vres voref (parse_curie c s st) = vres voref (wrap1 st EPrefixStd (sp_parse_curie rs d s)).
Proof.
  unfold parse_curie, sp_parse_curie. rewrite c_delim.
  destruct (partition d s) as [[p i]|]; [|modes].
  rewrite L_synmap. destruct (owner_by_prefix rs p); simpl; modes.
Qed.
Lemma A_parse_curie_false s : parse_curie c s false = Val (sp_parse_curie rs d s).
Proof.
  unfold parse_curie, sp_parse_curie. rewrite c_delim.
  destruct (partition d s) as [[p i]|]; [|reflexivity].
  rewrite L_synmap. destruct (owner_by_prefix rs p); reflexivity.
Qed.
Lemma A_expand_ref_known r i st pa : In r rs -> expand_reference c (r_prefix r, i) st pa = Val (Some (r_uri r ++ i)).
Proof. intro Hr. unfold expand_reference. simpl. rewrite L_pmap, owner_canonical; auto. Qed.
Lemma A_expand_ref p i st pa :
  expand_reference c (p, i) st pa = wrap st pa EExpansion (p ++ d ++ i) (sp_expand_pair rs p i).
Proof.
  unfold expand_reference, sp_expand_pair, format_curie. simpl. rewrite L_pmap, c_delim.
  destruct (owner_by_prefix rs p); reflexivity.
Qed.
Lemma A_expand s st pa : expand c s st pa = wrap st pa EExpansion s (sp_expand rs d s).
Proof.
  unfold expand. rewrite A_parse_curie_false. unfold sp_parse_curie, sp_expand.
  destruct (partition d s) as [[p i]|]; [|reflexivity].
  destruct (owner_by_prefix rs p) as [r|] eqn:E; [|reflexivity].
  apply owner_in in E as [Hr _]. rewrite A_expand_ref_known; auto.
Qed.
Lemma A_is_curie s : is_curie c s = sp_is_curie rs d s.
Proof. unfold is_curie, sp_is_curie. rewrite A_expand. destruct (sp_expand rs d s); reflexivity. Qed.
Lemma A_compress u st pa : compress c u st pa = wrap st pa ECompression u (sp_compress rs d u).
Proof.
  unfold compress, sp_compress, format_curie. rewrite L_parse_uri, c_delim.
  destruct (sp_parse_uri rs u) as [[p i]|]; reflexivity.
Qed.
Lemma A_is_uri u : is_uri c u = sp_is_uri rs u.
Proof.
  unfold is_uri. rewrite A_compress, sp_parse_uri_is. unfold sp_compress.
  destruct (sp_parse_uri rs u); reflexivity.
Qed.
Lemma A_parse_uri u st : parse_uri c u st = wrap1 st ECompression (sp_parse_uri rs u).
Proof. unfold parse_uri. rewrite L_parse_uri. destruct (sp_parse_uri rs u); reflexivity. Qed.
Lemma A_expand_pair_all p i st : expand_pair_all c p i st = wrap1 st EExpansion (sp_expand_pair_all rs p i).
Proof.
  unfold expand_pair_all, sp_expand_pair_all. rewrite L_get_record. destruct (owner_by_prefix rs p); reflexivity.
Qed.
Lemma A_expand_all s st : expand_all c s st = wrap1 st EPrefixStd (sp_expand_all rs d s).
Proof.
  unfold expand_all. rewrite A_parse_curie_false. unfold sp_parse_curie, sp_expand_all.
  destruct (partition d s) as [[p i]|]; [|reflexivity].
  unfold sp_expand_pair_all at 1.
  destruct (owner_by_prefix rs p) as [r|] eqn:E; [|reflexivity].
  rewrite A_expand_pair_all. unfold sp_expand_pair_all. apply owner_in in E as [Hr _].
  rewrite owner_canonical; auto.
Qed.
Lemma A_parse s st : vres voref (parse c s st) = vres voref (wrap1 st ECompression (sp_parse rs d s)).
Proof.
  unfold parse, sp_parse. rewrite A_is_uri, sp_parse_uri_is, A_parse_uri.
  destruct (sp_parse_uri rs s) as [r|] eqn:E; [destruct st; reflexivity|].
  rewrite A_is_curie. unfold sp_is_curie, sp_expand, sp_parse_curie.
  destruct (partition d s) as [[p i]|] eqn:Ep; [|destruct st; reflexivity].
  destruct (owner_by_prefix rs p) eqn:Eo; [|destruct st; reflexivity].
  rewrite A_parse_curie. unfold sp_parse_curie. rewrite Ep, Eo. destruct st; reflexivity.
Qed.
Lemma A_parse_false s : parse c s false = Val (sp_parse rs d s).
Proof.
  unfold parse, sp_parse. rewrite A_is_uri, sp_parse_uri_is, A_parse_uri.
  destruct (sp_parse_uri rs s) as [r|] eqn:E; [reflexivity|].
  rewrite A_is_curie. unfold sp_is_curie, sp_expand, sp_parse_curie.
  destruct (partition d s) as [[p i]|] eqn:Ep; [|reflexivity].
  destruct (owner_by_prefix rs p) eqn:Eo; [|reflexivity].
  rewrite A_parse_curie_false. unfold sp_parse_curie. rewrite Ep, Eo. reflexivity.
Qed.
Lemma A_std_uri u st pa : standardize_uri c u st pa = wrap st pa EURIStd u (sp_std_uri rs u).
Proof.
  unfold standardize_uri. rewrite L_parse_uri. unfold sp_parse_uri, sp_std_uri.
  destruct (longest_match rs u) as [[p r]|] eqn:E; [|reflexivity].
  apply longest_match_some in E as (Hr & _). rewrite L_pmap, owner_canonical; auto.
Qed.

Theorem answer_spec q : conv_query q = true -> answer c q = spec_answer rs d q.
Proof.
  destruct q; simpl; try discriminate; intros _.
  - rewrite A_parse_uri. reflexivity.
  - rewrite A_compress. reflexivity.
  - rewrite A_is_uri. reflexivity.
  - apply A_parse_curie.
  - rewrite A_expand. reflexivity.
  - rewrite A_is_curie. reflexivity.
  - rewrite A_expand_all. reflexivity.
  - apply A_parse.
  - unfold compress_or_standardize, format_curie. rewrite A_parse_false, c_delim.
    destruct (sp_parse rs d s) as [[p i]|]; reflexivity.
  - unfold expand_or_standardize. rewrite A_parse_false.
    destruct (sp_parse rs d s) as [[p i]|] eqn:E; [|reflexivity].
    apply sp_parse_in in E as (r & Hr & ->). rewrite A_expand_ref_known; auto.
    unfold sp_expand_pair. rewrite owner_canonical; auto.
  - unfold standardize_prefix, sp_std_prefix. rewrite L_synmap. destruct (owner_by_prefix rs s); reflexivity.
  - unfold standardize_curie, sp_std_curie, format_curie. rewrite A_parse_curie_false, c_delim.
    destruct (sp_parse_curie rs d s) as [[p i]|]; reflexivity.
  - rewrite A_std_uri. reflexivity.
  - unfold compress_strict. rewrite A_compress. reflexivity.
  - unfold expand_strict. rewrite A_expand. reflexivity.
  - unfold expand_pair. rewrite A_expand_ref. reflexivity.
  - rewrite A_expand_ref. reflexivity.
  - rewrite A_expand_pair_all. reflexivity.
  - unfold format_curie. rewrite c_delim. reflexivity.
  - rewrite L_get_record. reflexivity.
Qed.
End Strict.
End WF.

(* ---- freshly constructed strict converters are well-formed ---- *)
Lemma mk_conv_wf d rs c : mk_conv true d rs = Val c -> wf c rs d.
Proof.
  intro Hc. destruct (mk_conv_inv d rs c Hc) as (A & B & _ & _ & Ed & Er & Epm & Esyn & Erp & Et & _).
  assert (P: forall r, In r rs <-> In r (sort_records rs)) by (intro r; symmetry; apply sort_records_In).
  constructor; auto.
  - intro r. rewrite Er. apply P.
  - intro p. rewrite Esyn. apply idx_lookup; auto.
  - intro p. rewrite Epm. apply idx_lookup; auto.
  - intro u. rewrite Et, find_trie_of.
    + rewrite Erp. apply idx_lookup; auto.
    + rewrite Erp. unfold idx_of. apply idx_keys_nodup. constructor.
  - intro u. rewrite Erp. apply idx_lookup; auto.
Qed.

Section Strict.
Variables (d : str) (rs : list record) (c : conv).
Hypothesis Hc : mk_conv true d rs = Val c.
Let W := mk_conv_wf d rs c Hc.
Definition own_p := WF.own_p d rs c W.
Definition own_u := WF.own_u d rs c W.
Definition c_delim := WF.c_delim d rs c W.
Definition L_synmap := WF.L_synmap d rs c W.
Definition L_pmap := WF.L_pmap d rs c W.
Definition L_trie := WF.L_trie d rs c W.
Definition L_get_record := WF.L_get_record d rs c W.
Definition owner_canonical := WF.owner_canonical d rs c W.
Definition owner_u_reg := WF.owner_u_reg d rs c W.
Definition L_parse_uri := WF.L_parse_uri d rs c W.
Definition A_parse_curie := WF.A_parse_curie d rs c W.
Definition A_parse_curie_false := WF.A_parse_curie_false d rs c W.
Definition A_expand_ref_known := WF.A_expand_ref_known d rs c W.
Definition A_expand_ref := WF.A_expand_ref d rs c W.
Definition A_expand := WF.A_expand d rs c W.
Definition A_is_curie := WF.A_is_curie d rs c W.
Definition A_compress := WF.A_compress d rs c W.
Definition A_is_uri := WF.A_is_uri d rs c W.
Definition A_parse_uri := WF.A_parse_uri d rs c W.
Definition A_expand_pair_all := WF.A_expand_pair_all d rs c W.
Definition A_expand_all := WF.A_expand_all d rs c W.
Definition A_parse := WF.A_parse d rs c W.
Definition A_parse_false := WF.A_parse_false d rs c W.
Definition A_std_uri := WF.A_std_uri d rs c W.
Definition answer_spec := WF.answer_spec d rs c W.
Lemma c_recs : recs c = sort_records rs. Proof. apply (mk_conv_inv d rs c Hc). Qed.
End Strict.

(* C15: a direct specification of the reference vector, written from the property text, and the proof that the
   vector the model computes through the modelled functions (curie, from_curie, ref_eq, ref_lt, sort_refs,
   validate_ctx, triple_row / row_triple) is that specification on every valid case. *)
From Coq Require Import Lia Permutation.
From Curies.model Require Import Str PyData Trie Conv Query Val Answer Spec CheckQ Csv Reference.
From Curies.proofs Require Import StrFacts DictFacts IndexFacts QueryFacts CheckFacts LawFacts SortFacts ReferenceFacts CsvFacts.

(* ---- plumbing ---- *)
Lemma no_colon_In p : no_colon p = true -> ~ In 58%N p.
Proof.
  unfold no_colon. rewrite negb_true_iff. intros H Hin.
  assert (E : existsb (N.eqb 58) p = true) by (apply existsb_exists; exists 58%N; split; [exact Hin|apply N.eqb_refl]).
  rewrite E in H. discriminate.
Qed.

Lemma vpair_res_from_curie sep s : vpair_res (from_curie sep s) = spec_split sep s.
Proof. unfold from_curie, spec_split. destruct (partition sep s) as [[a b]|]; reflexivity. Qed.

Lemma map_sort_key {A B} (f : A -> B) (leb : B -> B -> bool) (l : list A) :
  map f (sort (fun x y => leb (f x) (f y)) l) = sort leb (map f l).
Proof.
  induction l as [|x l IH]; [reflexivity|]. cbn [sort fold_right map]. fold (sort (fun x y => leb (f x) (f y)) l).
  fold (sort leb (map f l)). rewrite <- IH. generalize (sort (fun x y => leb (f x) (f y)) l). intro m.
  induction m as [|y m IHm]; [reflexivity|]. cbn [insert_sorted map]. destruct (leb (f x) (f y)); [reflexivity|].
  cbn [map]. rewrite IHm. reflexivity.
Qed.

Lemma sort_refs_pairs l : map (fun r => VList [VStr (rf_prefix r); VStr (rf_id r)]) (sort_refs l) = map vref (sort pair_leb (map pair l)).
Proof.
  rewrite <- (map_sort_key pair pair_leb l). rewrite map_map. reflexivity.
Qed.

Lemma strict_mk_conv d rs : strict_okb rs = true -> exists c, mk_conv true d rs = Val c.
Proof.
  unfold strict_okb. rewrite andb_true_iff, !nodup_str_spec. intros [Hp Hu]. apply nodup_mk_conv; assumption.
Qed.

Lemma cons_eq {A} (a a' : A) l l' : a = a' -> l = l' -> a :: l = a' :: l'.
Proof. intros -> ->. reflexivity. Qed.

(* ---- the triples file ---- *)
Lemma header_short : Forall (short csv_field_limit) triples_header.
Proof. repeat constructor; unfold short, csv_field_limit; vm_compute; discriminate. Qed.

Lemma curie_fits_short c p i n : curie_fits p i = true -> short csv_field_limit (curie (mk c p i n)).
Proof. unfold curie_fits, short, curie, mk. cbn [rf_prefix rf_id]. intro H. apply N.leb_le. exact H. Qed.

Lemma triples_file_fit p i p2 i2 p3 i3 : ~ In 58%N p -> ~ In 58%N p2 -> ~ In 58%N p3 -> triples_fit p i p2 i2 p3 i3 = true ->
  triples_file_roundtrip (mk CRef p i None) (mk CRef p2 i2 None) (mk CRef p3 i3 None) = VInt 1.
Proof.
  intros H1 H2 H3 F. unfold triples_fit in F. rewrite !andb_true_iff in F. destruct F as [[F1 F2] F3].
  unfold triples_file_roundtrip.
  assert (R: csv_read TAB (csv_write_rows TAB [triples_header; triple_row (mk CRef p i None) (mk CRef p2 i2 None) (mk CRef p3 i3 None)])
             = Some [triples_header; triple_row (mk CRef p i None) (mk CRef p2 i2 None) (mk CRef p3 i3 None)]).
  { apply csv_roundtrip; [exact tab_ok|]. constructor; [exact header_short|]. constructor; [|constructor].
    unfold triple_row. repeat constructor; apply curie_fits_short; assumption. }
  rewrite R. rewrite triples_roundtrip by assumption. cbn [map pair mk rf_prefix rf_id fst snd].
  rewrite val_eqb_refl. reflexivity.
Qed.

(* ---- the theorem ---- *)
(* the first eleven components, and the twelfth whatever it is *)
Definition spec_pre (p i name p2 i2 p3 i3 sep s : str) (recs : option (list record)) : list val :=
  match spec_ref_obs p i name p2 i2 p3 i3 sep s recs with VList l => removelast l | _ => [] end.

Lemma model_spec_but_last : forall p i name p2 i2 p3 i3 sep s recs,
  no_colon p && no_colon p2 && no_colon p3 && negb (is_nil sep) && match recs with Some rs => strict_okb rs | None => true end = true ->
  exists pre, model_ref_obs p i name p2 i2 p3 i3 sep s recs =
                VList (pre ++ [triples_file_roundtrip (mk CRef p i None) (mk CRef p2 i2 None) (mk CRef p3 i3 None)]) /\
              spec_ref_obs p i name p2 i2 p3 i3 sep s recs = VList (pre ++ [T]) /\ length pre = 11.
Proof.
  intros p i name p2 i2 p3 i3 sep s recs Hv.
  rewrite !andb_true_iff in Hv. destruct Hv as [[[[Hp Hp2] Hp3] _] Hrs].
  apply no_colon_In in Hp, Hp2, Hp3.
  assert (RT : forall c n, from_curie colon (curie (mk c p i n)) = Val (p, i)) by (intros; apply curie_roundtrip; exact Hp).
  exists (spec_pre p i name p2 i2 p3 i3 sep s recs). split; [|split; reflexivity].
  unfold spec_pre, spec_ref_obs. cbn [removelast app]. unfold model_ref_obs. f_equal.
  apply cons_eq; [|apply cons_eq; [|apply cons_eq; [|apply cons_eq; [|apply cons_eq; [|apply cons_eq; [|apply cons_eq;
    [|apply cons_eq; [|apply cons_eq; [|apply cons_eq; [|apply cons_eq; [|reflexivity]]]]]]]]]]].
  - (* 1 *) reflexivity.
  - (* 2 *) unfold classes. cbn [map]. rewrite !RT. reflexivity.
  - (* 3 *) unfold classes. cbn [map]. rewrite vpair_res_from_curie. reflexivity.
  - (* 4 *) rewrite vpair_res_from_curie. destruct (from_curie colon s); reflexivity.
  - (* 5 *) reflexivity.
  - (* 6 *) unfold classes. cbn [map]. unfold ref_eq, mk. cbn [rf_cls rf_prefix rf_id]. rewrite !str_eqb_refl. reflexivity.
  - (* 7 *) rewrite !ref_eq_name_class by reflexivity. reflexivity.
  - (* 8 *) reflexivity.
  - (* 9 *) rewrite ref_lt_irrefl. rewrite sort_refs_pairs. reflexivity.
  - (* 10 *) reflexivity.
  - (* 11 *) destruct recs as [rs|]; [|reflexivity].
    destruct (strict_mk_conv colon rs Hrs) as [c Hc]. rewrite Hc, RT.
    rewrite (validate_ctx_spec _ _ _ p i Hc). destruct (owner_by_prefix rs p); reflexivity.
Qed.

Theorem P_C15_model : forall p i name p2 i2 p3 i3 sep s recs,
  no_colon p && no_colon p2 && no_colon p3 && negb (is_nil sep) && match recs with Some rs => strict_okb rs | None => true end = true ->
  triples_fit p i p2 i2 p3 i3 = true ->
  model_ref_obs p i name p2 i2 p3 i3 sep s recs = spec_ref_obs p i name p2 i2 p3 i3 sep s recs.
Proof.
  intros p i name p2 i2 p3 i3 sep s recs Hv F.
  destruct (model_spec_but_last p i name p2 i2 p3 i3 sep s recs Hv) as (pre & Em & Es & _). rewrite Em, Es.
  rewrite !andb_true_iff in Hv. destruct Hv as [[[[Hp Hp2] Hp3] _] _]. apply no_colon_In in Hp, Hp2, Hp3.
  rewrite triples_file_fit by assumption. reflexivity.
Qed.

Lemma set_last_app pre x : set_last (pre ++ [x]) = pre ++ [VInt 1].
Proof.
  induction pre as [|a pre IH]; [reflexivity|].
  destruct pre as [|b pre']; [reflexivity|].
  change (set_last ((a :: b :: pre') ++ [x])) with (a :: set_last ((b :: pre') ++ [x])). rewrite IH. reflexivity.
Qed.

(* with the triples clause masked, on EVERY valid case (also when a CURIE exceeds csv's field limit) *)
Theorem P_C15_model_excl : forall p i name p2 i2 p3 i3 sep s recs,
  no_colon p && no_colon p2 && no_colon p3 && negb (is_nil sep) && match recs with Some rs => strict_okb rs | None => true end = true ->
  mask_last (model_ref_obs p i name p2 i2 p3 i3 sep s recs) = spec_ref_obs p i name p2 i2 p3 i3 sep s recs.
Proof.
  intros p i name p2 i2 p3 i3 sep s recs Hv.
  destruct (model_spec_but_last p i name p2 i2 p3 i3 sep s recs Hv) as (pre & Em & Es & _). rewrite Em, Es.
  unfold mask_last. rewrite set_last_app. reflexivity.
Qed.

(* the clause is FALSE of the faithful model: a reference whose CURIE is longer than csv.field_size_limit() is written by write_triples
   but read_triples raises csv.Error on the file -- the same input fails on the implementation (known finding K2) *)
Theorem triples_long_refuted : exists i,
  triples_fit [97%N] i [97%N] [49%N] [97%N] [49%N] = false /\
  triples_file_roundtrip (mk CRef [97%N] i None) (mk CRef [97%N] [49%N] None) (mk CRef [97%N] [49%N] None) = VInt 0.
Proof. exists (repeat 120%N (N.to_nat 131071)). split; vm_compute; reflexivity. Qed.

Print Assumptions P_C15_model.
Print Assumptions P_C15_model_excl.
Print Assumptions triples_long_refuted.

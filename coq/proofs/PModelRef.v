(* C15: a direct specification of the reference vector, written from the property text, and the proof that the
   vector the model computes through the modelled functions (curie, from_curie, ref_eq, ref_lt, sort_refs,
   validate_ctx, triple_row / row_triple) is that specification on every valid case. *)
From Coq Require Import Lia Permutation.
From Curies.model Require Import Str PyData Trie Conv Query Val Answer Spec CheckQ Reference.
From Curies.proofs Require Import StrFacts DictFacts IndexFacts QueryFacts CheckFacts LawFacts SortFacts ReferenceFacts.

(* ---- plumbing ---- *)
Lemma no_colon_In p : no_colon p = true -> ~ In 58%N p.
Proof.
  unfold no_colon. rewrite negb_true_iff. intros H Hin.
  assert (E : existsb (N.eqb 58) p = true) by (apply existsb_exists; exists 58%N; split; [exact Hin|apply N.eqb_refl]).
  rewrite E in H. discriminate.
Qed.

Lemma vpair_res_from_curie sep s : vpair_res (from_curie sep s) = spec_split sep s.
Proof. unfold from_curie, spec_split. destruct (partition sep s) as [[a b]|]; reflexivity. Qed.

Lemma map_sort_key {A B} (f : A -> B) (leb : B -> B -> bool) (l : list A) :
  map f (sort (fun x y => leb (f x) (f y)) l) = sort leb (map f l).
Proof.
  induction l as [|x l IH]; [reflexivity|]. cbn [sort fold_right map]. fold (sort (fun x y => leb (f x) (f y)) l).
  fold (sort leb (map f l)). rewrite <- IH. generalize (sort (fun x y => leb (f x) (f y)) l). intro m.
  induction m as [|y m IHm]; [reflexivity|]. cbn [insert_sorted map]. destruct (leb (f x) (f y)); [reflexivity|].
  cbn [map]. rewrite IHm. reflexivity.
Qed.

Lemma sort_refs_pairs l : map (fun r => VList [VStr (rf_prefix r); VStr (rf_id r)]) (sort_refs l) = map vref (sort pair_leb (map pair l)).
Proof.
  rewrite <- (map_sort_key pair pair_leb l). rewrite map_map. reflexivity.
Qed.

Lemma strict_mk_conv d rs : strict_okb rs = true -> exists c, mk_conv true d rs = Val c.
Proof.
  unfold strict_okb. rewrite andb_true_iff, !nodup_str_spec. intros [Hp Hu]. apply nodup_mk_conv; assumption.
Qed.

Lemma cons_eq {A} (a a' : A) l l' : a = a' -> l = l' -> a :: l = a' :: l'.
Proof. intros -> ->. reflexivity. Qed.

(* ---- the theorem ---- *)
Theorem P_C15_model : forall p i name p2 i2 p3 i3 sep s recs,
  no_colon p && no_colon p2 && no_colon p3 && negb (is_nil sep) && match recs with Some rs => strict_okb rs | None => true end = true ->
  model_ref_obs p i name p2 i2 p3 i3 sep s recs = spec_ref_obs p i name p2 i2 p3 i3 sep s recs.
Proof.
  intros p i name p2 i2 p3 i3 sep s recs Hv.
  rewrite !andb_true_iff in Hv. destruct Hv as [[[[Hp Hp2] Hp3] _] Hrs].
  apply no_colon_In in Hp, Hp2, Hp3.
  assert (RT : forall c n, from_curie colon (curie (mk c p i n)) = Val (p, i)) by (intros; apply curie_roundtrip; exact Hp).
  unfold model_ref_obs, spec_ref_obs. f_equal.
  apply cons_eq; [|apply cons_eq; [|apply cons_eq; [|apply cons_eq; [|apply cons_eq; [|apply cons_eq; [|apply cons_eq;
    [|apply cons_eq; [|apply cons_eq; [|apply cons_eq; [|apply cons_eq; [|apply cons_eq; [|reflexivity]]]]]]]]]]]].
  - (* 1 *) reflexivity.
  - (* 2 *) unfold classes. cbn [map]. rewrite !RT. reflexivity.
  - (* 3 *) unfold classes. cbn [map]. rewrite vpair_res_from_curie. reflexivity.
  - (* 4 *) rewrite vpair_res_from_curie. destruct (from_curie colon s); reflexivity.
  - (* 5 *) reflexivity.
  - (* 6 *) unfold classes. cbn [map]. unfold ref_eq, mk. cbn [rf_cls rf_prefix rf_id]. rewrite !str_eqb_refl. reflexivity.
  - (* 7 *) rewrite !ref_eq_name_class by reflexivity. reflexivity.
  - (* 8 *) reflexivity.
  - (* 9 *) rewrite ref_lt_irrefl. rewrite sort_refs_pairs. reflexivity.
  - (* 10 *) reflexivity.
  - (* 11 *) destruct recs as [rs|]; [|reflexivity].
    destruct (strict_mk_conv colon rs Hrs) as [c Hc]. rewrite Hc, RT.
    rewrite (validate_ctx_spec _ _ _ p i Hc). destruct (owner_by_prefix rs p); reflexivity.
  - (* 12 *) rewrite triples_roundtrip by assumption. cbn [map pair mk rf_prefix rf_id fst snd].
    rewrite val_eqb_refl. reflexivity.
Qed.

Print Assumptions P_C15_model.

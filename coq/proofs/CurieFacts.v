(* C11: CURIE-prefix remapping.  Stage 1: what one step of the main loop does to the list of current records;
   URI side and size never change; strictness is preserved by every step whatever the ordering. *)
From Coq Require Import Lia Permutation.
From Curies.model Require Import Str PyData Trie Conv Query Val Answer Spec CheckQ Mutate Reconcile.
From Curies.proofs Require Import StrFacts TrieFacts DictFacts IndexFacts QueryFacts CheckFacts SortFacts C04Facts MutateFacts ReconcileFacts.

Definition tagged := list (str * record).      (* (original canonical prefix, current record), converter order *)

Definition renamed (rc : record) (old new : str) (handover : bool) : record :=
  {| r_prefix := new; r_uri := r_uri rc;
     r_psyn := if handover then sort_uniq (diff2 (r_psyn rc ++ [r_prefix rc]) old new)
               else sort_uniq (diff1 (r_psyn rc ++ [r_prefix rc]) new);
     r_usyn := r_usyn rc; r_pat := r_pat rc |}.
Definition handover_cond (c : conv) (m : list (str * str)) (intersection : list str) (old : str) : bool :=
  mem old intersection && existsb (fun kv => str_eqb (snd kv) old && dhas (fst kv) (synmap c)) m.

(* the effect of one pair on the current records (bookkeeping and errors left out) *)
Definition step_cur (c : conv) (m : list (str * str)) (intersection : list str) (cur : tagged) (on : str * str) : tagged :=
  let '(old, new) := on in
  match std c old with
  | None => cur
  | Some orig =>
      match List.find (fun or => str_eqb (fst or) orig) cur with
      | None => cur
      | Some (_, rc) =>
          let clash := match cur_get_record cur new with Some (o2, _) => negb (str_eqb o2 orig) | None => false end in
          if clash then cur else set_cur orig (renamed rc old new (handover_cond c m intersection old)) cur
      end
  end.

Lemma remap_step_cur c m inter st on st' : remap_step c m inter (Val st) on = Val st' ->
  rs_cur st' = step_cur c m inter (rs_cur st) on.
Proof.
  unfold remap_step, step_cur. simpl. destruct on as [old new].
  destruct (std c old) as [orig|]; [|intro H; inversion H; auto].
  destruct (mem orig (rs_popped st)); [discriminate|].
  destruct (List.find _ (rs_cur st)) as [[o rc]|]; [|discriminate].
  destruct (match cur_get_record (rs_cur st) new with Some (o2, _) => negb (str_eqb o2 orig) | None => false end).
  - intro H; inversion H; reflexivity.
  - unfold handover_cond, renamed. destruct (mem old inter && _); intro H; inversion H; reflexivity.
Qed.

(* ---- prefixes of a renamed record ---- *)
Lemma diff2_In l a b x : In x (diff2 l a b) <-> In x l /\ x <> a /\ x <> b.
Proof. unfold diff2. rewrite filter_In, andb_true_iff, !negb_true_iff, !str_eqb_neq. tauto. Qed.
Lemma renamed_prefixes rc old new h x : In x (all_prefixes (renamed rc old new h)) <->
  x = new \/ (In x (all_prefixes rc) /\ x <> new /\ (h = true -> x <> old)).
Proof.
  unfold all_prefixes, renamed. simpl. destruct h.
  - rewrite sort_uniq_In, diff2_In, in_app_iff. simpl. intuition (subst; auto; try discriminate).
  - rewrite sort_uniq_In, diff1_In, in_app_iff. simpl. intuition (subst; auto; try discriminate).
Qed.
Lemma renamed_uris rc old new h : all_uris (renamed rc old new h) = all_uris rc /\ r_pat (renamed rc old new h) = r_pat rc.
Proof. split; reflexivity. Qed.

(* ---- set_cur ---- *)
Lemma set_cur_tags orig r cur : map fst (set_cur orig r cur) = map fst cur.
Proof.
  unfold set_cur. rewrite map_map. apply map_ext_in. intros [o x] _. simpl. destruct (str_eqb_spec o orig); simpl; auto.
Qed.
Lemma set_cur_In orig r cur o x :
  In (o, x) (set_cur orig r cur) <-> (o = orig /\ x = r /\ In orig (map fst cur)) \/ (o <> orig /\ In (o, x) cur).
Proof.
  unfold set_cur. rewrite in_map_iff. split.
  - intros ([o' x'] & E & Hin). simpl in E. destruct (str_eqb_spec o' orig) as [->|Hne].
    + inversion E; subst o x. left. repeat split; auto. apply in_map_iff. exists (orig, x'). auto.
    + inversion E; subst o x. right. auto.
  - intros [(-> & -> & Hin)|(Hne & Hin)].
    + apply in_map_iff in Hin as ([o' x'] & E & Hin). simpl in E. subst o'. exists (orig, x'). simpl. rewrite str_eqb_refl. auto.
    + exists (o, x). simpl. apply str_eqb_neq in Hne. rewrite Hne. auto.
Qed.

(* ---- invariants of the current records ---- *)
Definition frame_of (r : record) := (r_uri r, r_usyn r, r_pat r).
Definition Frame (l0 : list record) (cur : tagged) : Prop :=
  map fst cur = map r_prefix l0 /\ map (fun or => frame_of (snd or)) cur = map frame_of l0.
Definition Strict (cur : tagged) : Prop :=
  NoDup (map fst cur) /\ pairwise (disjoint_keys all_prefixes) (map snd cur).

Lemma has_prefix_spec (x : str * record) new : (str_eqb (r_prefix (snd x)) new || mem new (r_psyn (snd x))) = true <-> In new (all_prefixes (snd x)).
Proof. unfold all_prefixes. simpl. rewrite orb_true_iff, str_eqb_eq, mem_In. tauto. Qed.
Lemma cur_get_none cur new : cur_get_record cur new = None -> forall o x, In (o, x) cur -> ~ In new (all_prefixes x).
Proof.
  unfold cur_get_record. intros H o x Hin Hp. pose proof (find_none _ _ H (o, x) Hin) as Hn. simpl in Hn.
  apply (has_prefix_spec (o, x)) in Hp. simpl in Hp. congruence.
Qed.
Lemma cur_get_some cur new o x : cur_get_record cur new = Some (o, x) -> In (o, x) cur /\ In new (all_prefixes x).
Proof. unfold cur_get_record. intro H. apply find_some in H as [A B]. split; auto. apply (has_prefix_spec (o, x)); auto. Qed.

Lemma tags_distinct (cur : tagged) a b : NoDup (map fst cur) -> In a cur -> In b cur -> a <> b -> fst a <> fst b.
Proof.
  induction cur as [|x cur IH]; simpl; intros N Ha Hb Hne; [destruct Ha|]. inversion N as [|? ? Hn Hd]; subst.
  destruct Ha as [<-|Ha], Hb as [<-|Hb]; try congruence.
  - intro E. apply Hn. rewrite E. apply in_map; auto.
  - intro E. apply Hn. rewrite <- E. apply in_map; auto.
  - apply IH; auto.
Qed.
Lemma dict_functional' {V} (pm : list (str * V)) p u1 u2 : NoDup (map fst pm) -> In (p, u1) pm -> In (p, u2) pm -> u1 = u2.
Proof.
  induction pm as [|[a b] pm IH]; simpl; intros N H1 H2; [destruct H1|]. inversion N as [|? ? Hn Hd]; subst.
  destruct H1 as [E1|H1], H2 as [E2|H2].
  - congruence.
  - inversion E1; subst. exfalso. apply Hn. apply in_map_iff. exists (p, u2). auto.
  - inversion E2; subst. exfalso. apply Hn. apply in_map_iff. exists (p, u1). auto.
  - apply IH; auto.
Qed.
Lemma NoDup_map_inv' {A B} (f : A -> B) l : NoDup (map f l) -> NoDup l.
Proof. apply NoDup_map_inv. Qed.

Lemma find_tag cur orig o x : List.find (fun or : str * record => str_eqb (fst or) orig) cur = Some (o, x) -> o = orig /\ In (orig, x) cur.
Proof. intro H. apply find_some in H as [A B]. simpl in B. apply str_eqb_eq in B. subst. auto. Qed.

Lemma snd_functional (cur : tagged) o o' x : NoDup (map snd cur) -> In (o, x) cur -> In (o', x) cur -> o = o'.
Proof.
  induction cur as [|[a b] cur IH]; simpl; intros N H1 H2; [destruct H1|]. inversion N as [|? ? Hn Hd]; subst.
  destruct H1 as [E1|H1], H2 as [E2|H2].
  - congruence.
  - inversion E1; subst. exfalso. apply Hn. apply in_map_iff. exists (o', x). auto.
  - inversion E2; subst. exfalso. apply Hn. apply in_map_iff. exists (o, x). auto.
  - auto.
Qed.
Lemma strict_values_nodup cur : Strict cur -> NoDup (map snd cur).
Proof. intros [_ P]. eapply pairwise_nodup; [apply all_prefixes_ne|exact P]. Qed.
Lemma strict_disjoint cur oa xa ob xb : Strict cur -> In (oa, xa) cur -> In (ob, xb) cur -> oa <> ob -> disjoint_keys all_prefixes xa xb.
Proof.
  intros S Ha Hb Hne. pose proof (strict_values_nodup cur S) as Nv. destruct S as [N P].
  apply (pairwise_in_neq _ (disjoint_keys_sym all_prefixes) (map snd cur) xa xb P).
  - apply in_map_iff. exists (oa, xa). auto.
  - apply in_map_iff. exists (ob, xb). auto.
  - intro; subst xb. apply Hne. eapply snd_functional; eauto.
Qed.
Lemma tag_functional (cur : tagged) o x x' : NoDup (map fst cur) -> In (o, x) cur -> In (o, x') cur -> x = x'.
Proof. intros N H1 H2. eapply dict_functional'; eauto. Qed.

(* one step keeps tags, URI side and strictness *)
Lemma step_cur_inv c m inter l0 cur on : Frame l0 cur -> Strict cur ->
  Frame l0 (step_cur c m inter cur on) /\ Strict (step_cur c m inter cur on).
Proof.
  intros [F1 F2] S. pose proof S as [N P]. unfold step_cur. destruct on as [old new].
  destruct (std c old) as [orig|]; [|repeat split; auto].
  destruct (List.find _ cur) as [[o rc]|] eqn:Ef; [|repeat split; auto].
  apply find_tag in Ef as [-> Hrc].
  set (r' := renamed rc old new (handover_cond c m inter old)).
  destruct (match cur_get_record cur new with Some (o2, _) => negb (str_eqb o2 orig) | None => false end) eqn:Ec; [repeat split; auto|].
  assert (Others: forall o x, In (o, x) cur -> o <> orig -> ~ In new (all_prefixes x)).
  { intros o x Hin Hne Hp. destruct (cur_get_record cur new) as [[o2 x2]|] eqn:G.
    - apply negb_false_iff, str_eqb_eq in Ec. subst o2. apply cur_get_some in G as [Hin2 Hp2].
      apply (strict_disjoint cur o x orig x2 S Hin Hin2 Hne new); auto.
    - eapply cur_get_none; eauto. }
  split; [split|split].
  - rewrite set_cur_tags. auto.
  - rewrite <- F2. unfold set_cur. rewrite map_map. apply map_ext_in. intros [o x] Hin. simpl.
    destruct (str_eqb_spec o orig) as [->|Hne]; simpl; auto.
    rewrite (tag_functional cur orig x rc N Hin Hrc). reflexivity.
  - rewrite set_cur_tags. auto.
  - assert (E: map snd (set_cur orig r' cur) = map (fun or => if str_eqb (fst or) orig then r' else snd or) cur).
    { unfold set_cur. rewrite map_map. apply map_ext. intros [o x]. simpl. destruct (str_eqb o orig); reflexivity. }
    rewrite E. apply pairwise_map; [apply (NoDup_map_inv' fst); auto|].
    intros [oa xa] [ob xb] Ha Hb Hne. simpl.
    pose proof (tags_distinct cur _ _ N Ha Hb Hne) as Ht. simpl in Ht.
    pose proof (strict_disjoint cur oa xa ob xb S Ha Hb Ht) as Dab.
    destruct (str_eqb_spec oa orig) as [->|Na], (str_eqb_spec ob orig) as [->|Nb]; try congruence; auto.
    + rewrite (tag_functional cur orig xa rc N Ha Hrc) in *.
      intros k K1 K2. apply renamed_prefixes in K1 as [->|(K1 & _)]; [apply (Others ob xb Hb Nb K2)|eapply Dab; eauto].
    + rewrite (tag_functional cur orig xb rc N Hb Hrc) in *.
      intros k K1 K2. apply renamed_prefixes in K2 as [->|(K2 & _)]; [apply (Others oa xa Ha Na K1)|eapply Dab; eauto].
Qed.

(* ---- Stage 2: the whole loop ---- *)
Definition BK (st : rstate) : Prop :=
  NoDup (rs_popped st) /\ NoDup (rs_modified st) /\ (forall o, In o (rs_popped st) <-> In o (rs_modified st)) /\
  (forall o, In o (rs_popped st) -> In o (map fst (rs_cur st))).

Lemma remap_step_bk c m inter st on st' : BK st -> remap_step c m inter (Val st) on = Val st' -> BK st'.
Proof.
  intros (N1 & N2 & E & T) H. unfold remap_step in H. simpl in H. destruct on as [old new].
  destruct (std c old) as [orig|]; [|inversion H; subst; exact (conj N1 (conj N2 (conj E T)))].
  destruct (mem orig (rs_popped st)) eqn:M; [discriminate|]. apply mem_false in M.
  destruct (List.find _ (rs_cur st)) as [[o rc]|] eqn:Ef; [|discriminate]. apply find_tag in Ef as [-> Hrc].
  assert (Ht: In orig (map fst (rs_cur st))) by (apply in_map_iff; exists (orig, rc); auto).
  assert (G: forall cur', map fst cur' = map fst (rs_cur st) ->
     BK {| rs_cur := cur'; rs_popped := orig :: rs_popped st; rs_modified := rs_modified st ++ [orig] |}).
  { intros cur' Et. unfold BK. simpl. repeat split.
    - constructor; auto.
    - apply NoDup_app_inv_rev; auto; [constructor; [intros []|constructor]|]. intros x Hx [<-|[]]. apply M. apply E. auto.
    - intros [<-|Hx]; apply in_or_app; [right; left; auto|left; apply E; auto].
    - intro Hx. apply in_app_or in Hx as [Hx|[<-|[]]]; [right; apply E; auto|left; auto].
    - intros o [<-|Ho]; rewrite Et; auto. }
  destruct (match cur_get_record (rs_cur st) new with Some (o2, _) => negb (str_eqb o2 orig) | None => false end).
  - inversion H; subst. apply G. reflexivity.
  - destruct (mem old inter && _); inversion H; subst; apply G; apply set_cur_tags.
Qed.

Lemma fold_remap_raise c m inter ordering e : fold_left (remap_step c m inter) ordering (Raise e) = Raise e.
Proof. induction ordering; simpl; auto. Qed.

Lemma fold_remap_inv c m inter l0 ordering : forall st st', Frame l0 (rs_cur st) -> Strict (rs_cur st) -> BK st ->
  fold_left (remap_step c m inter) ordering (Val st) = Val st' ->
  Frame l0 (rs_cur st') /\ Strict (rs_cur st') /\ BK st' /\ rs_cur st' = fold_left (step_cur c m inter) ordering (rs_cur st).
Proof.
  induction ordering as [|on ordering IH]; intros st st' F S B H.
  - simpl in H. inversion H; subst. auto.
  - change (fold_left (remap_step c m inter) ordering (remap_step c m inter (Val st) on) = Val st') in H.
    destruct (remap_step c m inter (Val st) on) as [st1|e] eqn:E; [|rewrite fold_remap_raise in H; discriminate].
    pose proof (remap_step_cur _ _ _ _ _ _ E) as Ec. destruct (step_cur_inv c m inter l0 (rs_cur st) on F S) as [F1 S1].
    rewrite <- Ec in F1, S1. destruct (IH st1 st' F1 S1 (remap_step_bk _ _ _ _ _ _ B E) H) as (A1 & A2 & A3 & A4).
    split; [exact A1|]. split; [exact A2|]. split; [exact A3|]. rewrite A4, Ec. reflexivity.
Qed.

(* the records handed to the final Converter(...) are the current records, in another order *)
Lemma result_perm (st : rstate) : Strict (rs_cur st) -> BK st ->
  Permutation (map snd (filter (fun or => negb (mem (fst or) (rs_popped st))) (rs_cur st)) ++
               flat_map (fun o => match List.find (fun or => str_eqb (fst or) o) (rs_cur st) with Some or => [snd or] | None => [] end) (rs_modified st))
              (map snd (rs_cur st)).
Proof.
  intros S (N1 & N2 & E & T). pose proof (strict_values_nodup _ S) as Nv. destruct S as [Nt P].
  set (cur := rs_cur st) in *. set (rem := filter _ cur). set (modi := flat_map _ (rs_modified st)).
  assert (Hmod: forall x, In x modi <-> exists o, In o (rs_popped st) /\ In (o, x) cur).
  { intro x. unfold modi. rewrite in_flat_map. split.
    - intros (o & Ho & Hx). destruct (List.find _ cur) as [[o' x']|] eqn:F; [|destruct Hx]. apply find_tag in F as [-> Hin].
      destruct Hx as [<-|[]]. exists o. split; auto. apply E; auto.
    - intros (o & Ho & Hin). exists o. split; [apply E; auto|].
      destruct (List.find (fun or => str_eqb (fst or) o) cur) as [[o' x']|] eqn:F.
      + apply find_tag in F as [-> Hin']. rewrite (tag_functional cur o x x' Nt Hin Hin'). left; auto.
      + pose proof (find_none _ _ F (o, x) Hin) as Hn. simpl in Hn. rewrite str_eqb_refl in Hn. discriminate. }
  apply NoDup_Permutation; auto.
  - apply NoDup_app_inv_rev.
    + unfold rem. clear -Nv. induction cur as [|a cur IH]; simpl; [constructor|]. inversion Nv; subst.
      destruct (negb _); simpl; auto. constructor; auto. intro Hin. apply H1. apply in_map_iff in Hin as (y & Ey & Hy).
      apply filter_In in Hy as [Hy _]. apply in_map_iff. eauto.
    + unfold modi. clear Hmod. revert N2. generalize (rs_modified st). intro l. induction l as [|o l IH]; simpl; intro N; [constructor|].
      inversion N as [|? ? Hn Hd]; subst. apply NoDup_app_inv_rev; auto.
      * destruct (List.find _ cur); [constructor; [intros []|constructor]|constructor].
      * intros x Hx Hx'. destruct (List.find (fun or => str_eqb (fst or) o) cur) as [[o1 x1]|] eqn:F; [|destruct Hx].
        destruct Hx as [<-|[]]. apply find_tag in F as [-> Hin1]. apply in_flat_map in Hx' as (o2 & Ho2 & Hx2).
        destruct (List.find (fun or => str_eqb (fst or) o2) cur) as [[o3 x3]|] eqn:F2; [|destruct Hx2]. destruct Hx2 as [E2|[]]. simpl in E2. subst x3.
        apply find_tag in F2 as [-> Hin2]. assert (o = o2) by (eapply snd_functional; eauto). subst. contradiction.
    + intros x Hr Hm. apply Hmod in Hm as (o & Ho & Hin). unfold rem in Hr. apply in_map_iff in Hr as ([o' x'] & Ex & Hf). simpl in Ex. subst x'.
      apply filter_In in Hf as [Hin' Hf]. simpl in Hf. apply negb_true_iff, mem_false in Hf.
      assert (o' = o) by (eapply snd_functional; eauto). subst. contradiction.
  - intro x. rewrite in_app_iff, Hmod. split.
    + intros [Hr|(o & _ & Hin)].
      * unfold rem in Hr. apply in_map_iff in Hr as (y & Ey & Hy). apply filter_In in Hy as [Hy _]. apply in_map_iff. eauto.
      * apply in_map_iff. exists (o, x). auto.
    + intro Hx. apply in_map_iff in Hx as ([o x'] & Ex & Hin). simpl in Ex. subst x'.
      destruct (mem o (rs_popped st)) eqn:M.
      * right. exists o. split; auto. apply mem_In; auto.
      * left. unfold rem. apply in_map_iff. exists (o, x). split; auto. apply filter_In. split; auto. simpl. rewrite M. reflexivity.
Qed.

(* ---- Stage 3: structural theorems ---- *)
Lemma pairwise_keys_map keysf (l l' : list record) : map keysf l = map keysf l' ->
  pairwise (disjoint_keys keysf) l -> pairwise (disjoint_keys keysf) l'.
Proof.
  revert l'; induction l as [|a l IH]; intros [|b l'] E P; try discriminate; [constructor|].
  simpl in E. inversion E as [[Ea El]]. inversion P as [|? ? Pa Pl]; subst. constructor; auto.
  intros y Hy k Kb Ky. apply In_nth_error in Hy as [i Hi].
  assert (exists x, nth_error l i = Some x /\ keysf x = keysf y) as (x & Hx & Ex).
  { assert (Hm: nth_error (map keysf l') i = Some (keysf y)) by (rewrite nth_error_map, Hi; reflexivity).
    rewrite <- El in Hm. rewrite nth_error_map in Hm. destruct (nth_error l i) as [x|]; [|discriminate]. inversion Hm. eauto. }
  apply (Pa x (nth_error_In _ _ Hx) k); [rewrite Ea; auto|rewrite Ex; auto].
Qed.

Definition cur0 (c : conv) : tagged := map (fun r => (r_prefix r, r)) (recs c).
Definition st0 (c : conv) : rstate := {| rs_cur := cur0 c; rs_popped := []; rs_modified := [] |}.

Lemma init_inv c : swf c -> Frame (recs c) (cur0 c) /\ Strict (cur0 c) /\ BK (st0 c).
Proof.
  intros (W & Pp & Pu). unfold cur0. repeat split.
  - rewrite map_map. reflexivity.
  - rewrite map_map. reflexivity.
  - rewrite map_map. simpl. apply (pairwise_nodup_map all_prefixes); auto. intro r. left; auto.
  - rewrite map_map. simpl. rewrite map_id. auto.
  - constructor.
  - constructor.
  - intros [].
  - intros [].
  - intros o [].
Qed.

(* if the loop runs through, the result is a strict converter of the same size whose records keep their URI side *)
Theorem remap_struct c m ordering st : swf c -> order_curie_remapping c m = Val ordering ->
  fold_left (remap_step c m (inter (map fst m) (map snd m))) ordering (Val (st0 c)) = Val st ->
  exists rs R, remap_curie_records c m = Val rs /\ Permutation rs (map snd (rs_cur st)) /\
    remap_curie_prefixes c m = Val R /\ recs R = sort_records rs /\ swf R /\
    length rs = length (recs c) /\
    map fst (rs_cur st) = map r_prefix (recs c) /\ map (fun or => frame_of (snd or)) (rs_cur st) = map frame_of (recs c) /\
    rs_cur st = fold_left (step_cur c m (inter (map fst m) (map snd m))) ordering (cur0 c).
Proof.
  intros S Ho Hf. destruct (init_inv c S) as (F0 & S0 & B0).
  destruct (fold_remap_inv c m _ (recs c) ordering (st0 c) st F0 S0 B0 Hf) as (F & St & B & Ecur).
  pose proof (result_perm st St B) as P.
  eexists. unfold remap_curie_prefixes, remap_curie_records. rewrite Ho. cbn [bind]. fold (cur0 c). fold (st0 c). rewrite Hf. cbn [bind].
  set (rs := _ ++ _) in *.
  destruct S as (W & Pp & Pu). destruct F as [F1 F2].
  assert (Pp': pairwise (disjoint_keys all_prefixes) rs).
  { eapply pairwise_perm; [apply disjoint_keys_sym|symmetry; exact P|apply St]. }
  assert (Pu': pairwise (disjoint_keys all_uris) rs).
  { eapply pairwise_perm; [apply disjoint_keys_sym|symmetry; exact P|].
    apply (pairwise_keys_map all_uris (recs c)); auto.
    transitivity (map (fun f : str * list str * option str => fst (fst f) :: snd (fst f)) (map frame_of (recs c))).
    - rewrite map_map. reflexivity.
    - rewrite <- F2, !map_map. reflexivity. }
  assert (L: length rs = length (recs c)).
  { rewrite (Permutation_length P), map_length.
    transitivity (length (map fst (rs_cur st))); [rewrite map_length; reflexivity|]. rewrite F1, map_length. reflexivity. }
  destruct (mk_conv_ok [58%N] rs) as [R HR].
  - eapply pairwise_perm; [apply disjoint_keys_sym|symmetry; apply sort_perm|exact Pu'].
  - eapply pairwise_perm; [apply disjoint_keys_sym|symmetry; apply sort_perm|exact Pp'].
  - exists R. split; [reflexivity|]. split; [exact P|]. split; [exact HR|]. split; [apply (c_recs _ _ _ HR)|]. split; [eapply mk_conv_swf; eauto|].
    split; [exact L|auto].
Qed.

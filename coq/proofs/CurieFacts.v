(* C11: CURIE-prefix remapping.  Stage 1: what one step of the main loop does to the list of current records;
   URI side and size never change; strictness is preserved by every step whatever the ordering. *)
From Coq Require Import Lia Permutation.
From Curies.model Require Import Str PyData Trie Conv Query Val Answer Spec CheckQ Mutate Reconcile.
From Curies.proofs Require Import StrFacts TrieFacts DictFacts IndexFacts QueryFacts CheckFacts SortFacts C04Facts MutateFacts ReconcileFacts.

Lemma remap_step_cur c m inter st on st' : remap_step c m inter (Val st) on = Val st' ->
  rs_cur st' = step_cur c m inter (rs_cur st) on.
Proof.
  unfold remap_step, step_cur. simpl. destruct on as [old new].
  destruct (std c old) as [orig|]; [|intro H; inversion H; auto].
  destruct (mem orig (rs_popped st)); [discriminate|].
  destruct (List.find _ (rs_cur st)) as [[o rc]|]; [|discriminate].
  destruct (match cur_get_record (rs_cur st) new with Some (o2, _) => negb (str_eqb o2 orig) | None => false end).
  - intro H; inversion H; reflexivity.
  - unfold handover_cond, renamed. destruct (mem old inter && _); intro H; inversion H; reflexivity.
Qed.

(* ---- prefixes of a renamed record ---- *)
Lemma diff2_In l a b x : In x (diff2 l a b) <-> In x l /\ x <> a /\ x <> b.
Proof. unfold diff2. rewrite filter_In, andb_true_iff, !negb_true_iff, !str_eqb_neq. tauto. Qed.
Lemma renamed_prefixes rc old new h x : In x (all_prefixes (renamed rc old new h)) <->
  x = new \/ (In x (all_prefixes rc) /\ x <> new /\ (h = true -> x <> old)).
Proof.
  unfold all_prefixes, renamed. simpl. destruct h.
  - rewrite sort_uniq_In, diff2_In, in_app_iff. simpl. intuition (subst; auto; try discriminate).
  - rewrite sort_uniq_In, diff1_In, in_app_iff. simpl. intuition (subst; auto; try discriminate).
Qed.
Lemma renamed_uris rc old new h : all_uris (renamed rc old new h) = all_uris rc /\ r_pat (renamed rc old new h) = r_pat rc.
Proof. split; reflexivity. Qed.

(* ---- set_cur ---- *)
Lemma set_cur_tags orig r cur : map fst (set_cur orig r cur) = map fst cur.
Proof.
  unfold set_cur. rewrite map_map. apply map_ext_in. intros [o x] _. simpl. destruct (str_eqb_spec o orig); simpl; auto.
Qed.
Lemma set_cur_In orig r cur o x :
  In (o, x) (set_cur orig r cur) <-> (o = orig /\ x = r /\ In orig (map fst cur)) \/ (o <> orig /\ In (o, x) cur).
Proof.
  unfold set_cur. rewrite in_map_iff. split.
  - intros ([o' x'] & E & Hin). simpl in E. destruct (str_eqb_spec o' orig) as [->|Hne].
    + inversion E; subst o x. left. repeat split; auto. apply in_map_iff. exists (orig, x'). auto.
    + inversion E; subst o x. right. auto.
  - intros [(-> & -> & Hin)|(Hne & Hin)].
    + apply in_map_iff in Hin as ([o' x'] & E & Hin). simpl in E. subst o'. exists (orig, x'). simpl. rewrite str_eqb_refl. auto.
    + exists (o, x). simpl. apply str_eqb_neq in Hne. rewrite Hne. auto.
Qed.

(* ---- invariants of the current records ---- *)
Definition frame_of (r : record) := (r_uri r, r_usyn r, r_pat r).
Definition Frame (l0 : list record) (cur : tagged) : Prop :=
  map fst cur = map r_prefix l0 /\ map (fun or => frame_of (snd or)) cur = map frame_of l0.
Definition Strict (cur : tagged) : Prop :=
  NoDup (map fst cur) /\ pairwise (disjoint_keys all_prefixes) (map snd cur).

Lemma has_prefix_spec (x : str * record) new : (str_eqb (r_prefix (snd x)) new || mem new (r_psyn (snd x))) = true <-> In new (all_prefixes (snd x)).
Proof. unfold all_prefixes. simpl. rewrite orb_true_iff, str_eqb_eq, mem_In. tauto. Qed.
Lemma cur_get_none cur new : cur_get_record cur new = None -> forall o x, In (o, x) cur -> ~ In new (all_prefixes x).
Proof.
  unfold cur_get_record. intros H o x Hin Hp. pose proof (find_none _ _ H (o, x) Hin) as Hn. simpl in Hn.
  apply (has_prefix_spec (o, x)) in Hp. simpl in Hp. congruence.
Qed.
Lemma cur_get_some cur new o x : cur_get_record cur new = Some (o, x) -> In (o, x) cur /\ In new (all_prefixes x).
Proof. unfold cur_get_record. intro H. apply find_some in H as [A B]. split; auto. apply (has_prefix_spec (o, x)); auto. Qed.

Lemma tags_distinct (cur : tagged) a b : NoDup (map fst cur) -> In a cur -> In b cur -> a <> b -> fst a <> fst b.
Proof.
  induction cur as [|x cur IH]; simpl; intros N Ha Hb Hne; [destruct Ha|]. inversion N as [|? ? Hn Hd]; subst.
  destruct Ha as [<-|Ha], Hb as [<-|Hb]; try congruence.
  - intro E. apply Hn. rewrite E. apply in_map; auto.
  - intro E. apply Hn. rewrite <- E. apply in_map; auto.
  - apply IH; auto.
Qed.
Lemma dict_functional' {V} (pm : list (str * V)) p u1 u2 : NoDup (map fst pm) -> In (p, u1) pm -> In (p, u2) pm -> u1 = u2.
Proof.
  induction pm as [|[a b] pm IH]; simpl; intros N H1 H2; [destruct H1|]. inversion N as [|? ? Hn Hd]; subst.
  destruct H1 as [E1|H1], H2 as [E2|H2].
  - congruence.
  - inversion E1; subst. exfalso. apply Hn. apply in_map_iff. exists (p, u2). auto.
  - inversion E2; subst. exfalso. apply Hn. apply in_map_iff. exists (p, u1). auto.
  - apply IH; auto.
Qed.
Lemma NoDup_map_inv' {A B} (f : A -> B) l : NoDup (map f l) -> NoDup l.
Proof. apply NoDup_map_inv. Qed.

Lemma find_tag cur orig o x : List.find (fun or : str * record => str_eqb (fst or) orig) cur = Some (o, x) -> o = orig /\ In (orig, x) cur.
Proof. intro H. apply find_some in H as [A B]. simpl in B. apply str_eqb_eq in B. subst. auto. Qed.

Lemma snd_functional (cur : tagged) o o' x : NoDup (map snd cur) -> In (o, x) cur -> In (o', x) cur -> o = o'.
Proof.
  induction cur as [|[a b] cur IH]; simpl; intros N H1 H2; [destruct H1|]. inversion N as [|? ? Hn Hd]; subst.
  destruct H1 as [E1|H1], H2 as [E2|H2].
  - congruence.
  - inversion E1; subst. exfalso. apply Hn. apply in_map_iff. exists (o', x). auto.
  - inversion E2; subst. exfalso. apply Hn. apply in_map_iff. exists (o, x). auto.
  - auto.
Qed.
Lemma strict_values_nodup cur : Strict cur -> NoDup (map snd cur).
Proof. intros [_ P]. eapply pairwise_nodup; [apply all_prefixes_ne|exact P]. Qed.
Lemma strict_disjoint cur oa xa ob xb : Strict cur -> In (oa, xa) cur -> In (ob, xb) cur -> oa <> ob -> disjoint_keys all_prefixes xa xb.
Proof.
  intros S Ha Hb Hne. pose proof (strict_values_nodup cur S) as Nv. destruct S as [N P].
  apply (pairwise_in_neq _ (disjoint_keys_sym all_prefixes) (map snd cur) xa xb P).
  - apply in_map_iff. exists (oa, xa). auto.
  - apply in_map_iff. exists (ob, xb). auto.
  - intro; subst xb. apply Hne. eapply snd_functional; eauto.
Qed.
Lemma tag_functional (cur : tagged) o x x' : NoDup (map fst cur) -> In (o, x) cur -> In (o, x') cur -> x = x'.
Proof. intros N H1 H2. eapply dict_functional'; eauto. Qed.

(* one step keeps tags, URI side and strictness *)
Lemma step_cur_inv c m inter l0 cur on : Frame l0 cur -> Strict cur ->
  Frame l0 (step_cur c m inter cur on) /\ Strict (step_cur c m inter cur on).
Proof.
  intros [F1 F2] S. pose proof S as [N P]. unfold step_cur. destruct on as [old new].
  destruct (std c old) as [orig|]; [|repeat split; auto].
  destruct (List.find _ cur) as [[o rc]|] eqn:Ef; [|repeat split; auto].
  apply find_tag in Ef as [-> Hrc].
  set (r' := renamed rc old new (handover_cond c m inter old)).
  destruct (match cur_get_record cur new with Some (o2, _) => negb (str_eqb o2 orig) | None => false end) eqn:Ec; [repeat split; auto|].
  assert (Others: forall o x, In (o, x) cur -> o <> orig -> ~ In new (all_prefixes x)).
  { intros o x Hin Hne Hp. destruct (cur_get_record cur new) as [[o2 x2]|] eqn:G.
    - apply negb_false_iff, str_eqb_eq in Ec. subst o2. apply cur_get_some in G as [Hin2 Hp2].
      apply (strict_disjoint cur o x orig x2 S Hin Hin2 Hne new); auto.
    - eapply cur_get_none; eauto. }
  split; [split|split].
  - rewrite set_cur_tags. auto.
  - rewrite <- F2. unfold set_cur. rewrite map_map. apply map_ext_in. intros [o x] Hin. simpl.
    destruct (str_eqb_spec o orig) as [->|Hne]; simpl; auto.
    rewrite (tag_functional cur orig x rc N Hin Hrc). reflexivity.
  - rewrite set_cur_tags. auto.
  - assert (E: map snd (set_cur orig r' cur) = map (fun or => if str_eqb (fst or) orig then r' else snd or) cur).
    { unfold set_cur. rewrite map_map. apply map_ext. intros [o x]. simpl. destruct (str_eqb o orig); reflexivity. }
    rewrite E. apply pairwise_map; [apply (NoDup_map_inv' fst); auto|].
    intros [oa xa] [ob xb] Ha Hb Hne. simpl.
    pose proof (tags_distinct cur _ _ N Ha Hb Hne) as Ht. simpl in Ht.
    pose proof (strict_disjoint cur oa xa ob xb S Ha Hb Ht) as Dab.
    destruct (str_eqb_spec oa orig) as [->|Na], (str_eqb_spec ob orig) as [->|Nb]; try congruence; auto.
    + rewrite (tag_functional cur orig xa rc N Ha Hrc) in *.
      intros k K1 K2. apply renamed_prefixes in K1 as [->|(K1 & _)]; [apply (Others ob xb Hb Nb K2)|eapply Dab; eauto].
    + rewrite (tag_functional cur orig xb rc N Hb Hrc) in *.
      intros k K1 K2. apply renamed_prefixes in K2 as [->|(K2 & _)]; [apply (Others oa xa Ha Na K1)|eapply Dab; eauto].
Qed.

(* ---- Stage 2: the whole loop ---- *)
Definition BK (st : rstate) : Prop :=
  NoDup (rs_popped st) /\ NoDup (rs_modified st) /\ (forall o, In o (rs_popped st) <-> In o (rs_modified st)) /\
  (forall o, In o (rs_popped st) -> In o (map fst (rs_cur st))).

Lemma remap_step_bk c m inter st on st' : BK st -> remap_step c m inter (Val st) on = Val st' -> BK st'.
Proof.
  intros (N1 & N2 & E & T) H. unfold remap_step in H. simpl in H. destruct on as [old new].
  destruct (std c old) as [orig|]; [|inversion H; subst; exact (conj N1 (conj N2 (conj E T)))].
  destruct (mem orig (rs_popped st)) eqn:M; [discriminate|]. apply mem_false in M.
  destruct (List.find _ (rs_cur st)) as [[o rc]|] eqn:Ef; [|discriminate]. apply find_tag in Ef as [-> Hrc].
  assert (Ht: In orig (map fst (rs_cur st))) by (apply in_map_iff; exists (orig, rc); auto).
  assert (G: forall cur', map fst cur' = map fst (rs_cur st) ->
     BK {| rs_cur := cur'; rs_popped := orig :: rs_popped st; rs_modified := rs_modified st ++ [orig] |}).
  { intros cur' Et. unfold BK. simpl. repeat split.
    - constructor; auto.
    - apply NoDup_app_inv_rev; auto; [constructor; [intros []|constructor]|]. intros x Hx [<-|[]]. apply M. apply E. auto.
    - intros [<-|Hx]; apply in_or_app; [right; left; auto|left; apply E; auto].
    - intro Hx. apply in_app_or in Hx as [Hx|[<-|[]]]; [right; apply E; auto|left; auto].
    - intros o [<-|Ho]; rewrite Et; auto. }
  destruct (match cur_get_record (rs_cur st) new with Some (o2, _) => negb (str_eqb o2 orig) | None => false end).
  - inversion H; subst. apply G. reflexivity.
  - destruct (mem old inter && _); inversion H; subst; apply G; apply set_cur_tags.
Qed.

Lemma fold_remap_raise c m inter ordering e : fold_left (remap_step c m inter) ordering (Raise e) = Raise e.
Proof. induction ordering; simpl; auto. Qed.

Lemma fold_remap_inv c m inter l0 ordering : forall st st', Frame l0 (rs_cur st) -> Strict (rs_cur st) -> BK st ->
  fold_left (remap_step c m inter) ordering (Val st) = Val st' ->
  Frame l0 (rs_cur st') /\ Strict (rs_cur st') /\ BK st' /\ rs_cur st' = fold_left (step_cur c m inter) ordering (rs_cur st).
Proof.
  induction ordering as [|on ordering IH]; intros st st' F S B H.
  - simpl in H. inversion H; subst. auto.
  - change (fold_left (remap_step c m inter) ordering (remap_step c m inter (Val st) on) = Val st') in H.
    destruct (remap_step c m inter (Val st) on) as [st1|e] eqn:E; [|rewrite fold_remap_raise in H; discriminate].
    pose proof (remap_step_cur _ _ _ _ _ _ E) as Ec. destruct (step_cur_inv c m inter l0 (rs_cur st) on F S) as [F1 S1].
    rewrite <- Ec in F1, S1. destruct (IH st1 st' F1 S1 (remap_step_bk _ _ _ _ _ _ B E) H) as (A1 & A2 & A3 & A4).
    split; [exact A1|]. split; [exact A2|]. split; [exact A3|]. rewrite A4, Ec. reflexivity.
Qed.

(* the records handed to the final Converter(...) are the current records, in another order *)
Lemma result_perm (st : rstate) : Strict (rs_cur st) -> BK st ->
  Permutation (map snd (filter (fun or => negb (mem (fst or) (rs_popped st))) (rs_cur st)) ++
               flat_map (fun o => match List.find (fun or => str_eqb (fst or) o) (rs_cur st) with Some or => [snd or] | None => [] end) (rs_modified st))
              (map snd (rs_cur st)).
Proof.
  intros S (N1 & N2 & E & T). pose proof (strict_values_nodup _ S) as Nv. destruct S as [Nt P].
  set (cur := rs_cur st) in *. set (rem := filter _ cur). set (modi := flat_map _ (rs_modified st)).
  assert (Hmod: forall x, In x modi <-> exists o, In o (rs_popped st) /\ In (o, x) cur).
  { intro x. unfold modi. rewrite in_flat_map. split.
    - intros (o & Ho & Hx). destruct (List.find _ cur) as [[o' x']|] eqn:F; [|destruct Hx]. apply find_tag in F as [-> Hin].
      destruct Hx as [<-|[]]. exists o. split; auto. apply E; auto.
    - intros (o & Ho & Hin). exists o. split; [apply E; auto|].
      destruct (List.find (fun or => str_eqb (fst or) o) cur) as [[o' x']|] eqn:F.
      + apply find_tag in F as [-> Hin']. rewrite (tag_functional cur o x x' Nt Hin Hin'). left; auto.
      + pose proof (find_none _ _ F (o, x) Hin) as Hn. simpl in Hn. rewrite str_eqb_refl in Hn. discriminate. }
  apply NoDup_Permutation; auto.
  - apply NoDup_app_inv_rev.
    + unfold rem. clear -Nv. induction cur as [|a cur IH]; simpl; [constructor|]. inversion Nv; subst.
      destruct (negb _); simpl; auto. constructor; auto. intro Hin. apply H1. apply in_map_iff in Hin as (y & Ey & Hy).
      apply filter_In in Hy as [Hy _]. apply in_map_iff. eauto.
    + unfold modi. clear Hmod. revert N2. generalize (rs_modified st). intro l. induction l as [|o l IH]; simpl; intro N; [constructor|].
      inversion N as [|? ? Hn Hd]; subst. apply NoDup_app_inv_rev; auto.
      * destruct (List.find _ cur); [constructor; [intros []|constructor]|constructor].
      * intros x Hx Hx'. destruct (List.find (fun or => str_eqb (fst or) o) cur) as [[o1 x1]|] eqn:F; [|destruct Hx].
        destruct Hx as [<-|[]]. apply find_tag in F as [-> Hin1]. apply in_flat_map in Hx' as (o2 & Ho2 & Hx2).
        destruct (List.find (fun or => str_eqb (fst or) o2) cur) as [[o3 x3]|] eqn:F2; [|destruct Hx2]. destruct Hx2 as [E2|[]]. simpl in E2. subst x3.
        apply find_tag in F2 as [-> Hin2]. assert (o = o2) by (eapply snd_functional; eauto). subst. contradiction.
    + intros x Hr Hm. apply Hmod in Hm as (o & Ho & Hin). unfold rem in Hr. apply in_map_iff in Hr as ([o' x'] & Ex & Hf). simpl in Ex. subst x'.
      apply filter_In in Hf as [Hin' Hf]. simpl in Hf. apply negb_true_iff, mem_false in Hf.
      assert (o' = o) by (eapply snd_functional; eauto). subst. contradiction.
  - intro x. rewrite in_app_iff, Hmod. split.
    + intros [Hr|(o & _ & Hin)].
      * unfold rem in Hr. apply in_map_iff in Hr as (y & Ey & Hy). apply filter_In in Hy as [Hy _]. apply in_map_iff. eauto.
      * apply in_map_iff. exists (o, x). auto.
    + intro Hx. apply in_map_iff in Hx as ([o x'] & Ex & Hin). simpl in Ex. subst x'.
      destruct (mem o (rs_popped st)) eqn:M.
      * right. exists o. split; auto. apply mem_In; auto.
      * left. unfold rem. apply in_map_iff. exists (o, x). split; auto. apply filter_In. split; auto. simpl. rewrite M. reflexivity.
Qed.

(* ---- Stage 3: structural theorems ---- *)
Lemma pairwise_keys_map keysf (l l' : list record) : map keysf l = map keysf l' ->
  pairwise (disjoint_keys keysf) l -> pairwise (disjoint_keys keysf) l'.
Proof.
  revert l'; induction l as [|a l IH]; intros [|b l'] E P; try discriminate; [constructor|].
  simpl in E. inversion E as [[Ea El]]. inversion P as [|? ? Pa Pl]; subst. constructor; auto.
  intros y Hy k Kb Ky. apply In_nth_error in Hy as [i Hi].
  assert (exists x, nth_error l i = Some x /\ keysf x = keysf y) as (x & Hx & Ex).
  { assert (Hm: nth_error (map keysf l') i = Some (keysf y)) by (rewrite nth_error_map, Hi; reflexivity).
    rewrite <- El in Hm. rewrite nth_error_map in Hm. destruct (nth_error l i) as [x|]; [|discriminate]. inversion Hm. eauto. }
  apply (Pa x (nth_error_In _ _ Hx) k); [rewrite Ea; auto|rewrite Ex; auto].
Qed.

Definition cur0 (c : conv) : tagged := map (fun r => (r_prefix r, r)) (recs c).
Definition st0 (c : conv) : rstate := {| rs_cur := cur0 c; rs_popped := []; rs_modified := [] |}.

Lemma init_inv c : swf c -> Frame (recs c) (cur0 c) /\ Strict (cur0 c) /\ BK (st0 c).
Proof.
  intros (W & Pp & Pu). unfold cur0. repeat split.
  - rewrite map_map. reflexivity.
  - rewrite map_map. reflexivity.
  - rewrite map_map. simpl. apply (pairwise_nodup_map all_prefixes); auto. intro r. left; auto.
  - rewrite map_map. simpl. rewrite map_id. auto.
  - constructor.
  - constructor.
  - intros [].
  - intros [].
  - intros o [].
Qed.

(* if the loop runs through, the result is a strict converter of the same size whose records keep their URI side *)
Theorem remap_struct c m ordering st : swf c -> order_curie_remapping c m = Val ordering ->
  fold_left (remap_step c m (inter (map fst m) (map snd m))) ordering (Val (st0 c)) = Val st ->
  exists rs R, remap_curie_records c m = Val rs /\ Permutation rs (map snd (rs_cur st)) /\
    remap_curie_prefixes c m = Val R /\ recs R = sort_records rs /\ swf R /\
    length rs = length (recs c) /\
    map fst (rs_cur st) = map r_prefix (recs c) /\ map (fun or => frame_of (snd or)) (rs_cur st) = map frame_of (recs c) /\
    rs_cur st = fold_left (step_cur c m (inter (map fst m) (map snd m))) ordering (cur0 c).
Proof.
  intros S Ho Hf. destruct (init_inv c S) as (F0 & S0 & B0).
  destruct (fold_remap_inv c m _ (recs c) ordering (st0 c) st F0 S0 B0 Hf) as (F & St & B & Ecur).
  pose proof (result_perm st St B) as P.
  eexists. unfold remap_curie_prefixes, remap_curie_records. rewrite Ho. cbn [bind]. fold (cur0 c). fold (st0 c). rewrite Hf. cbn [bind].
  set (rs := _ ++ _) in *.
  destruct S as (W & Pp & Pu). destruct F as [F1 F2].
  assert (Pp': pairwise (disjoint_keys all_prefixes) rs).
  { eapply pairwise_perm; [apply disjoint_keys_sym|symmetry; exact P|apply St]. }
  assert (Pu': pairwise (disjoint_keys all_uris) rs).
  { eapply pairwise_perm; [apply disjoint_keys_sym|symmetry; exact P|].
    apply (pairwise_keys_map all_uris (recs c)); auto.
    transitivity (map (fun f : str * list str * option str => fst (fst f) :: snd (fst f)) (map frame_of (recs c))).
    - rewrite map_map. reflexivity.
    - rewrite <- F2, !map_map. reflexivity. }
  assert (L: length rs = length (recs c)).
  { rewrite (Permutation_length P), map_length.
    transitivity (length (map fst (rs_cur st))); [rewrite map_length; reflexivity|]. rewrite F1, map_length. reflexivity. }
  destruct (mk_conv_ok [58%N] rs) as [R HR].
  - eapply pairwise_perm; [apply disjoint_keys_sym|symmetry; apply sort_perm|exact Pu'].
  - eapply pairwise_perm; [apply disjoint_keys_sym|symmetry; apply sort_perm|exact Pp'].
  - exists R. split; [reflexivity|]. split; [exact P|]. split; [exact HR|]. split; [apply (c_recs _ _ _ HR)|]. split; [eapply mk_conv_swf; eauto|].
    split; [exact L|auto].
Qed.

(* ---- Stage 3b: only the documented errors ---- *)
Lemma filter_length_le' {A} (p : A -> bool) l : length (filter p l) <= length l.
Proof. induction l as [|a l IH]; simpl; auto. destruct (p a); simpl; lia. Qed.
Lemma filter_length_lt {A} (p : A -> bool) l x : In x l -> p x = false -> length (filter p l) < length l.
Proof.
  induction l as [|a l IH]; simpl; intros Hin Hp; [destruct Hin|]. destruct Hin as [<-|Hin].
  - rewrite Hp. pose proof (filter_length_le' p l). lia.
  - specialize (IH Hin Hp). destruct (p a); simpl; lia.
Qed.
Lemma filter_perm {A} (p : A -> bool) l : Permutation (filter p l ++ filter (fun x => negb (p x)) l) l.
Proof.
  induction l as [|a l IH]; simpl; auto. destruct (p a); simpl.
  - constructor. exact IH.
  - rewrite <- Permutation_middle. constructor. exact IH.
Qed.

Lemma layers_spec fuel : forall d, length d <= fuel ->
  (forall e, layers fuel d = Raise e -> e = ECycleDetected) /\ (forall out, layers fuel d = Val out -> Permutation out d).
Proof.
  induction fuel as [|f IH]; intros d Hl.
  - destruct d; [|simpl in Hl; lia]. simpl. split; [discriminate|]. intros out H; inversion H; auto.
  - destruct d as [|p0 d0]; [simpl; split; [discriminate|intros out H; inversion H; auto]|].
    set (d := p0 :: d0) in *. unfold layers; fold layers.
    change (match d with [] => Val [] | _ :: _ => _ end) with
      (let keys := map fst d in let no_out := filter (fun v => negb (mem v keys)) (map snd d) in
       match no_out with
       | [] => Raise ECycleDetected
       | _ :: _ => bind (layers f (filter (fun kv => negb (mem (snd kv) no_out)) d))
                        (fun rest => Val (sort_pairs (filter (fun kv => mem (snd kv) no_out) d) ++ rest)) end).
    cbv zeta. set (no_out := filter _ (map snd d)).
    destruct no_out as [|v vs] eqn:En; [split; [intros e H; inversion H; auto|discriminate]|].
    rewrite <- En.
    assert (Hlt: length (filter (fun kv => negb (mem (snd kv) no_out)) d) <= f).
    { assert (Hv: In v no_out) by (rewrite En; left; auto).
      assert (Hv': In v (map snd d)) by (unfold no_out in Hv; apply filter_In in Hv; apply Hv).
      apply in_map_iff in Hv' as (kv & Ekv & Hkv).
      assert (length (filter (fun kv => negb (mem (snd kv) no_out)) d) < length d).
      { apply (filter_length_lt _ d kv); auto. rewrite Ekv. apply negb_false_iff. apply mem_In; auto. }
      lia. }
    destruct (IH _ Hlt) as [IHe IHv].
    destruct (layers f (filter (fun kv => negb (mem (snd kv) no_out)) d)) as [rest|e0] eqn:El; cbn [bind].
    + split; [discriminate|]. intros out H.
      assert (Eo: out = sort_pairs (filter (fun kv => mem (snd kv) no_out) d) ++ rest) by congruence. rewrite Eo. clear H Eo.
      specialize (IHv rest eq_refl). rewrite IHv. unfold sort_pairs. rewrite sort_perm. apply filter_perm.
    + split; [|discriminate]. intros e H; inversion H; subst. auto.
Qed.

Theorem order_errors c m e : order_curie_remapping c m = Raise e ->
  e = EDuplicateKeys \/ e = EDuplicateValues \/ e = EInconsistentMapping \/ e = ECycleDetected.
Proof.
  unfold order_curie_remapping.
  destruct (has_dup_group _ false); [intro H; inversion H; auto|].
  destruct (has_dup_group _ false); [intro H; inversion H; auto|].
  destruct (has_dup_group _ true); [intro H; inversion H; auto|].
  destruct (inter _ _); [discriminate|]. intro H. right; right; right.
  apply (proj1 (layers_spec (length m) m (le_n _)) e H).
Qed.
Theorem order_perm c m ordering : order_curie_remapping c m = Val ordering -> Permutation ordering m.
Proof.
  unfold order_curie_remapping.
  destruct (has_dup_group _ false); [discriminate|]. destruct (has_dup_group _ false); [discriminate|].
  destruct (has_dup_group _ true); [discriminate|].
  destruct (inter _ _).
  - intro H; inversion H. unfold sort_pairs. apply sort_perm.
  - intro H. apply (proj2 (layers_spec (length m) m (le_n _)) ordering H).
Qed.

(* ---- the duplicate-keys check makes the pop bookkeeping safe ---- *)
Lemma okey_eqb_refl k : okey_eqb k k = true.
Proof. destruct k; simpl; auto. apply str_eqb_refl. Qed.
Lemma okey_eqb_eq a b : okey_eqb a b = true <-> a = b.
Proof. destruct a, b; simpl; split; intro H; try discriminate; auto; [apply str_eqb_eq in H; congruence|inversion H; apply str_eqb_refl]. Qed.

Definition glen (K : option str) (g : list (option str * list str)) : nat :=
  match List.find (fun e => okey_eqb K (fst e)) g with Some e => length (snd e) | None => 0 end.
Lemma glen_group_add K k v g : glen K (group_add k v g) = if okey_eqb K k then S (glen K g) else glen K g.
Proof.
  unfold glen. induction g as [|[k' vs] g IH]; simpl.
  - destruct (okey_eqb K k); reflexivity.
  - destruct (okey_eqb k k') eqn:E; simpl.
    + apply okey_eqb_eq in E. subst k'. destruct (okey_eqb K k); simpl; [rewrite app_length; simpl; lia|reflexivity].
    + destruct (okey_eqb K k') eqn:E2; simpl.
      * apply okey_eqb_eq in E2. subst k'. destruct (okey_eqb K k) eqn:E3; auto.
        apply okey_eqb_eq in E3. subst. rewrite okey_eqb_refl in E. discriminate.
      * exact IH.
Qed.
Section Count.
Variables (A : Type) (f : A -> option str) (v : A -> str).
Definition kcount (K : option str) (items : list A) : nat := length (filter (fun x => okey_eqb K (f x)) items).
Lemma glen_fold K items : forall g, glen K (fold_left (fun g x => group_add (f x) (v x) g) items g) = glen K g + kcount K items.
Proof.
  induction items as [|x items IH]; intro g; simpl; [unfold kcount; simpl; lia|].
  rewrite IH, glen_group_add. unfold kcount. simpl. destruct (okey_eqb K (f x)); simpl; lia.
Qed.
End Count.
Lemma has_dup_glen g o : has_dup_group g false = false -> glen (Some o) g <= 1.
Proof.
  unfold has_dup_group, glen. intro H. destruct (List.find _ g) as [[k l]|] eqn:F; [|lia].
  apply find_some in F as [Hin E]. simpl in E. destruct k as [k|]; [|discriminate].
  pose proof (existsb_false _ _ H (Some k, l) Hin) as Hn. simpl in Hn. apply Nat.ltb_ge in Hn. simpl. lia.
Qed.

Definition stds (c : conv) (l : list (str * str)) : list str :=
  flat_map (fun kv => match std c (fst kv) with Some o => [o] | None => [] end) l.
Lemma kcount_stds c l o : kcount _ (fun kv : str * str => std c (fst kv)) (Some o) l = length (filter (str_eqb o) (stds c l)).
Proof.
  unfold kcount, stds. induction l as [|[k w] l IH]; [reflexivity|].
  cbn [filter flat_map fst]. destruct (std c k) as [o'|] eqn:Es.
  - cbn [okey_eqb app filter]. destruct (str_eqb o o'); cbn [length]; [f_equal|]; exact IH.
  - cbn [okey_eqb app]. exact IH.
Qed.
Lemma count_le1_nodup (l : list str) : (forall o, length (filter (str_eqb o) l) <= 1) -> NoDup l.
Proof.
  induction l as [|a l IH]; intro H; constructor.
  - intro Hin. specialize (H a). simpl in H. rewrite str_eqb_refl in H. simpl in H.
    assert (In a (filter (str_eqb a) l)) by (apply filter_In; split; auto; apply str_eqb_refl).
    destruct (filter (str_eqb a) l); [destruct H0|simpl in H; lia].
  - apply IH. intro o. specialize (H o). simpl in H. destruct (str_eqb o a); simpl in H; lia.
Qed.
Theorem order_keys_nodup c m ordering : order_curie_remapping c m = Val ordering -> NoDup (stds c ordering).
Proof.
  intro H. pose proof (order_perm c m ordering H) as P.
  assert (Nm: NoDup (stds c m)).
  { unfold order_curie_remapping in H.
    destruct (has_dup_group (fold_left (fun g kv => group_add (std c (fst kv)) (fst kv) g) m []) false) eqn:D; [discriminate|].
    apply count_le1_nodup. intro o. rewrite <- kcount_stds.
    pose proof (has_dup_glen _ o D) as G. rewrite (glen_fold _ (fun kv => std c (fst kv)) (fun kv => fst kv)) in G.
    unfold glen in G at 1. simpl in G. lia. }
  eapply Permutation_NoDup; [|exact Nm]. unfold stds. apply Permutation_flat_map. symmetry. exact P.
Qed.

(* the loop never raises *)
Lemma std_tag c old orig : swf c -> std c old = Some orig -> In orig (map r_prefix (recs c)).
Proof.
  intros (W & _) H. unfold std in H. rewrite (wf_syn _ _ _ W) in H.
  destruct (owner_by_prefix (recs c) old) as [r|] eqn:E; [|discriminate]. inversion H; subst.
  apply find_some in E as [Hr _]. apply in_map; auto.
Qed.
Lemma fold_never_raises c m inter l0 ordering : swf c -> l0 = recs c -> forall st, Frame l0 (rs_cur st) -> Strict (rs_cur st) -> BK st ->
  NoDup (stds c ordering) -> (forall o, In o (rs_popped st) -> ~ In o (stds c ordering)) ->
  exists st', fold_left (remap_step c m inter) ordering (Val st) = Val st'.
Proof.
  intros S ->. induction ordering as [|[old new] ordering IH]; intros st F St B N D; [simpl; eauto|].
  change (fold_left (remap_step c m inter) ((old, new) :: ordering) (Val st)) with
         (fold_left (remap_step c m inter) ordering (remap_step c m inter (Val st) (old, new))).
  assert (Hstep: exists st1, remap_step c m inter (Val st) (old, new) = Val st1 /\
            (forall o, In o (rs_popped st1) -> In o (rs_popped st) \/ std c old = Some o)).
  { unfold remap_step. cbn [bind]. destruct (std c old) as [orig|] eqn:Es; [|eauto].
    assert (Hnp: ~ In orig (rs_popped st)).
    { intro Hp. apply (D orig Hp). unfold stds. simpl. rewrite Es. left; auto. }
    apply mem_false in Hnp. rewrite Hnp.
    destruct (List.find (fun or => str_eqb (fst or) orig) (rs_cur st)) as [[o rc]|] eqn:Ef.
    - destruct (match cur_get_record (rs_cur st) new with Some (o2, _) => negb (str_eqb o2 orig) | None => false end).
      + eexists. split; [reflexivity|]. simpl. intros o0 [<-|H]; auto.
      + destruct (mem old inter && _); eexists; (split; [reflexivity|]); simpl; intros o0 [<-|H]; auto.
    - exfalso. destruct F as [F1 _]. pose proof (std_tag c old orig S Es) as Ht. rewrite <- F1 in Ht.
      apply in_map_iff in Ht as ([o x] & E & Hin). simpl in E. subst o.
      pose proof (find_none _ _ Ef (orig, x) Hin) as Hn. simpl in Hn. rewrite str_eqb_refl in Hn. discriminate. }
  destruct Hstep as (st1 & E1 & Hpop). rewrite E1.
  pose proof (remap_step_cur _ _ _ _ _ _ E1) as Ec. destruct (step_cur_inv c m inter (recs c) (rs_cur st) (old, new) F St) as [F1 S1].
  rewrite <- Ec in F1, S1.
  apply IH; auto.
  - eapply remap_step_bk; eauto.
  - unfold stds in N. simpl in N. apply NoDup_app_inv in N. apply N.
  - intros o Ho Hin. apply Hpop in Ho as [Ho|Ho].
    + apply (D o Ho). unfold stds. simpl. apply in_or_app. right. exact Hin.
    + unfold stds in N. simpl in N. rewrite Ho in N. simpl in N. inversion N; subst. contradiction.
Qed.

(* ---- Stage 4: nothing is lost ---- *)
(* topological property of the layered ordering: a pair (a -> b) comes before every pair (k -> a) *)
Lemma filter_keys_nodup {V} (p : str * V -> bool) (d : list (str * V)) : NoDup (map fst d) -> NoDup (map fst (filter p d)).
Proof.
  induction d as [|x d IH]; simpl; intro N; [constructor|]. inversion N as [|? ? Hn Hd]; subst.
  destruct (p x); simpl; [|apply IH; exact Hd]. constructor; [|apply IH; exact Hd].
  intro Hin. apply Hn. apply in_map_iff in Hin as (y & Ey & Hy). apply filter_In in Hy as [Hy _]. apply in_map_iff. eauto.
Qed.
Lemma layers_topo fuel : forall d out, length d <= fuel -> NoDup (map fst d) -> layers fuel d = Val out ->
  forall a b k, In (a, b) d -> In (k, a) d -> (k, a) <> (a, b) -> exists l1 l2, out = l1 ++ (a, b) :: l2 /\ In (k, a) l2.
Proof.
  induction fuel as [|f IH]; intros d out Hl N H a b k Hab Hka Hne.
  - destruct d; [destruct Hab|simpl in Hl; lia].
  - destruct d as [|p0 d0]; [destruct Hab|]. set (d := p0 :: d0) in *.
    unfold layers in H; fold layers in H.
    change (match d with [] => Val [] | _ :: _ => _ end) with
      (let keys := map fst d in let no_out := filter (fun v => negb (mem v keys)) (map snd d) in
       match no_out with
       | [] => Raise ECycleDetected
       | _ :: _ => bind (layers f (filter (fun kv => negb (mem (snd kv) no_out)) d))
                        (fun rest => Val (sort_pairs (filter (fun kv => mem (snd kv) no_out) d) ++ rest)) end) in H.
    cbv zeta in H. set (no_out := filter _ (map snd d)) in *.
    destruct no_out as [|v vs] eqn:En; [discriminate|]. rewrite <- En in H.
    assert (Hlt: length (filter (fun kv => negb (mem (snd kv) no_out)) d) <= f).
    { assert (Hv: In v no_out) by (rewrite En; left; auto).
      assert (Hv': In v (map snd d)) by (unfold no_out in Hv; apply filter_In in Hv; apply Hv).
      apply in_map_iff in Hv' as (kv & Ekv & Hkv).
      assert (length (filter (fun kv => negb (mem (snd kv) no_out)) d) < length d).
      { apply (filter_length_lt _ d kv); auto. rewrite Ekv. apply negb_false_iff. apply mem_In; auto. }
      lia. }
    destruct (layers f (filter (fun kv => negb (mem (snd kv) no_out)) d)) as [rest|e0] eqn:El; cbn [bind] in H; [|discriminate].
    assert (Eo: out = sort_pairs (filter (fun kv => mem (snd kv) no_out) d) ++ rest) by congruence. clear H.
    set (restd := filter (fun kv => negb (mem (snd kv) no_out)) d) in *.
    assert (Pr: Permutation rest restd) by (apply (proj2 (layers_spec f restd Hlt) rest El)).
    (* (k, a): a is a key of d, so a is not in no_out *)
    assert (Ha: mem a no_out = false).
    { apply mem_false. unfold no_out. intro Hin. apply filter_In in Hin as [_ Hn]. apply negb_true_iff, mem_false in Hn.
      apply Hn. apply in_map_iff. exists (a, b). auto. }
    assert (Hka': In (k, a) restd) by (unfold restd; apply filter_In; split; auto; simpl; rewrite Ha; reflexivity).
    destruct (mem b no_out) eqn:Hb.
    + (* (a, b) is emitted in this layer *)
      assert (He: In (a, b) (sort_pairs (filter (fun kv => mem (snd kv) no_out) d))).
      { unfold sort_pairs. apply sort_In. apply filter_In. split; auto. }
      apply in_split in He as (e1 & e2 & Ee). exists e1, (e2 ++ rest). split.
      * rewrite Eo, Ee, <- app_assoc. reflexivity.
      * apply in_or_app. right. eapply Permutation_in; [symmetry; exact Pr|exact Hka'].
    + assert (Hab': In (a, b) restd) by (unfold restd; apply filter_In; split; auto; simpl; rewrite Hb; reflexivity).
      assert (Nr: NoDup (map fst restd)).
      { unfold restd. apply filter_keys_nodup. exact N. }
      destruct (IH restd rest Hlt Nr El a b k Hab' Hka' Hne) as (l1 & l2 & E12 & Hin).
      exists (sort_pairs (filter (fun kv => mem (snd kv) no_out) d) ++ l1), l2. split; auto.
      rewrite Eo, E12, <- app_assoc. reflexivity.
Qed.

Theorem order_topo c m ordering : NoDup (map fst m) -> order_curie_remapping c m = Val ordering ->
  forall a b k, In (a, b) m -> In (k, a) m -> (k, a) <> (a, b) -> exists l1 l2, ordering = l1 ++ (a, b) :: l2 /\ In (k, a) l2.
Proof.
  intros N H a b k Hab Hka Hne. unfold order_curie_remapping in H.
  destruct (has_dup_group _ false); [discriminate|]. destruct (has_dup_group _ false); [discriminate|].
  destruct (has_dup_group _ true); [discriminate|].
  destruct (inter (map fst m) (map snd m)) as [|s l] eqn:E.
  - exfalso. assert (In a (inter (map fst m) (map snd m))).
    { apply inter_In. split; apply in_map_iff; [exists (a, b)|exists (k, a)]; auto. }
    rewrite E in H0. destruct H0.
  - apply (layers_topo (length m) m ordering (le_n _) N H a b k Hab Hka Hne).
Qed.

Definition knownc (cur : tagged) (p : str) : Prop := exists o x, In (o, x) cur /\ In p (all_prefixes x).

(* one step: what can happen to a known prefix p *)
Lemma step_known c m inter l0 cur old new p : swf c -> l0 = recs c -> Frame l0 cur -> Strict cur -> knownc cur p ->
  knownc (step_cur c m inter cur (old, new)) p \/
  (p = old /\ old <> new /\ handover_cond c m inter old = true).
Proof.
  intros S -> F St (o & x & Hin & Hp). unfold step_cur.
  destruct (std c old) as [orig|] eqn:Es; [|left; exists o, x; auto].
  destruct (List.find _ cur) as [[o1 rc]|] eqn:Ef; [|left; exists o, x; auto]. apply find_tag in Ef as [-> Hrc].
  destruct (match cur_get_record cur new with Some (o2, _) => negb (str_eqb o2 orig) | None => false end); [left; exists o, x; auto|].
  destruct (str_eq_dec o orig) as [->|Hne].
  - rewrite (tag_functional cur orig x rc (proj1 St) Hin Hrc) in *.
    destruct (str_eq_dec p new) as [->|Hpn].
    + left. exists orig, (renamed rc old new (handover_cond c m inter old)). split; [apply set_cur_In; left; repeat split; auto; apply in_map_iff; exists (orig, rc); auto|].
      apply renamed_prefixes. auto.
    + destruct (handover_cond c m inter old) eqn:Hh; [destruct (str_eq_dec p old) as [->|Hpo]|].
      * right. repeat split; auto.
      * left. exists orig, (renamed rc old new true). split; [apply set_cur_In; left; repeat split; auto; apply in_map_iff; exists (orig, rc); auto|].
        apply renamed_prefixes. right. repeat split; auto.
      * left. exists orig, (renamed rc old new false). split; [apply set_cur_In; left; repeat split; auto; apply in_map_iff; exists (orig, rc); auto|].
        apply renamed_prefixes. right. repeat split; auto. discriminate.
  - left. exists o, x. split; auto. apply set_cur_In. right. auto.
Qed.

(* processing an applicable pair (k -> p) makes p known (it is regained if it was handed over) *)
Lemma step_regain c m inter l0 cur k p : swf c -> l0 = recs c -> Frame l0 cur -> Strict cur -> std c k <> None ->
  knownc (step_cur c m inter cur (k, p)) p.
Proof.
  intros S -> F St Hk. unfold step_cur. destruct (std c k) as [orig|] eqn:Es; [|congruence].
  destruct (List.find _ cur) as [[o1 rc]|] eqn:Ef.
  - apply find_tag in Ef as [-> Hrc].
    destruct (cur_get_record cur p) as [[o2 x2]|] eqn:G.
    + apply cur_get_some in G as [Hin2 Hp2]. destruct (negb (str_eqb o2 orig)) eqn:E.
      * exists o2, x2. auto.
      * exists orig, (renamed rc k p (handover_cond c m inter k)). split; [apply set_cur_In; left; repeat split; auto; apply in_map_iff; exists (orig, rc); auto|].
        apply renamed_prefixes. auto.
    + exists orig, (renamed rc k p (handover_cond c m inter k)). split; [apply set_cur_In; left; repeat split; auto; apply in_map_iff; exists (orig, rc); auto|].
      apply renamed_prefixes. auto.
  - exfalso. destruct F as [F1 _]. pose proof (std_tag c k orig S Es) as Ht. rewrite <- F1 in Ht.
    apply in_map_iff in Ht as ([o x] & E & Hin). simpl in E. subst o.
    pose proof (find_none _ _ Ef (orig, x) Hin) as Hn. simpl in Hn. rewrite str_eqb_refl in Hn. discriminate.
Qed.

Lemma handover_witness c m inter old : handover_cond c m inter old = true -> exists k, In (k, old) m /\ std c k <> None.
Proof.
  unfold handover_cond. intro H. apply andb_true_iff in H as [_ H]. apply existsb_exists in H as ([k v] & Hin & E).
  simpl in E. apply andb_true_iff in E as [E1 E2]. apply str_eqb_eq in E1. subst v. exists k. split; auto.
  unfold std. apply dhas_dget in E2 as [w Hw]. congruence.
Qed.

(* the invariant: every originally known prefix is known, or is waiting for an applicable pair still to come *)
Theorem none_lost_fold c m ordering : swf c -> NoDup (map fst m) -> order_curie_remapping c m = Val ordering ->
  forall pre rem, ordering = pre ++ rem ->
  let cur := fold_left (step_cur c m (inter (map fst m) (map snd m))) pre (cur0 c) in
  Frame (recs c) cur /\ Strict cur /\
  forall p, knownc (cur0 c) p -> knownc cur p \/ exists k, In (k, p) rem /\ std c k <> None.
Proof.
  intros S N Ho. set (I := inter (map fst m) (map snd m)).
  destruct (init_inv c S) as (F0 & S0 & _).
  assert (Pm: forall x, In x ordering <-> In x m) by (intro x; split; apply Permutation_in; [|symmetry]; apply (order_perm c m ordering Ho)).
  induction pre as [|on pre IH] using rev_ind; intros rem E; simpl.
  - repeat split; auto; try apply F0; try apply S0.
  - rewrite fold_left_app. simpl. rewrite <- app_assoc in E. simpl in E.
    destruct (IH (on :: rem) E) as (F & St & J). clear IH.
    set (cur := fold_left (step_cur c m I) pre (cur0 c)) in *.
    destruct (step_cur_inv c m I (recs c) cur on F St) as [F' S'].
    split; [exact F'|]. split; [exact S'|]. intros p Hp0. destruct on as [old new].
    destruct (J p Hp0) as [Hk|(k & Hin & Hkk)].
    + destruct (step_known c m I (recs c) cur old new p S eq_refl F St Hk) as [Hk'|(-> & Hne & Hh)]; [left; auto|].
      right. destruct (handover_witness c m I old Hh) as (k & Hkm & Hkk). exists k. split; auto.
      assert (Hd: (k, old) <> (old, new)) by (intro X; inversion X; subst; congruence).
      assert (Hm: In (old, new) m) by (apply Pm; rewrite E; apply in_or_app; right; left; auto).
      destruct (order_topo c m ordering N Ho old new k Hm Hkm Hd) as (l1 & l2 & E12 & Hin2).
      (* the occurrence of (old, new) in the ordering is unique (dictionary keys), so l1 = pre and l2 = rem *)
      assert (Nk: NoDup (map fst ordering)).
      { eapply Permutation_NoDup; [apply Permutation_map; symmetry; apply (order_perm c m ordering Ho)|exact N]. }
      assert (l2 = rem); [|subst; auto].
      clear -E E12 Nk. revert l1 E12. rewrite E in *. clear E. induction pre as [|a pre IHp]; intros l1 E12.
      * destruct l1 as [|b l1]; simpl in *; [inversion E12; auto|]. inversion E12; subst. exfalso.
        inversion Nk as [|? ? Hn _]; subst. apply Hn. rewrite map_app. apply in_or_app. right. left. reflexivity.
      * destruct l1 as [|b l1]; simpl in *.
        -- inversion E12; subst. exfalso. inversion Nk as [|? ? Hn _]; subst. apply Hn. rewrite map_app. apply in_or_app. right. left. reflexivity.
        -- inversion E12; subst. inversion Nk; subst. eapply IHp; eauto.
    + destruct Hin as [Eq|Hin]; [|right; eauto]. inversion Eq; subst. left.
      apply (step_regain c m I (recs c) cur k p S eq_refl F St Hkk).
Qed.

(* ---- the main theorem ---- *)
Definition documented (e : err) : Prop := e = EDuplicateKeys \/ e = EDuplicateValues \/ e = EInconsistentMapping \/ e = ECycleDetected.

Theorem remap_curie_main c m : swf c -> NoDup (map fst m) ->
  (exists e, remap_curie_prefixes c m = Raise e /\ documented e) \/
  (exists R rs, remap_curie_prefixes c m = Val R /\ recs R = sort_records rs /\ swf R /\
     length rs = length (recs c) /\
     Permutation (map frame_of rs) (map frame_of (recs c)) /\
     (forall p, (exists r, In r (recs c) /\ In p (all_prefixes r)) -> exists r', In r' rs /\ In p (all_prefixes r'))).
Proof.
  intros S N. destruct (order_curie_remapping c m) as [ordering|e] eqn:Ho.
  - right. destruct (init_inv c S) as (F0 & S0 & B0).
    destruct (fold_never_raises c m (inter (map fst m) (map snd m)) (recs c) ordering S eq_refl (st0 c) F0 S0 B0
               (order_keys_nodup c m ordering Ho) (fun o H => match H with end)) as [st Hst].
    destruct (remap_struct c m ordering st S Ho Hst) as (rs & R & E1 & P & E2 & E3 & SR & L & T & Fr & Ecur).
    exists R, rs. refine (conj E2 (conj E3 (conj SR (conj L (conj _ _))))).
    + apply (Permutation_trans (Permutation_map frame_of P)). rewrite map_map. rewrite Fr. reflexivity.
    + intros p (r & Hr & Hp).
      destruct (none_lost_fold c m ordering S N Ho ordering [] (eq_sym (app_nil_r _))) as (_ & _ & J).
      destruct (J p) as [(o & x & Hin & Hx)|(k & [] & _)].
      * exists (r_prefix r), r. split; auto. unfold cur0. apply in_map_iff. exists r. auto.
      * exists x. split; auto. eapply Permutation_in; [symmetry; exact P|]. rewrite Ecur. apply in_map_iff. exists (o, x). auto.
  - left. exists e. split; [|apply (order_errors c m e Ho)].
    unfold remap_curie_prefixes, remap_curie_records. rewrite Ho. reflexivity.
Qed.

(* what one pair does: applied (new becomes the canonical prefix of old's record) or skipped (nothing changes) *)
Theorem pair_applied c m inter cur old new orig rc : std c old = Some orig ->
  List.find (fun or : str * record => str_eqb (fst or) orig) cur = Some (orig, rc) -> cur_get_record cur new = None ->
  step_cur c m inter cur (old, new) = set_cur orig (renamed rc old new (handover_cond c m inter old)) cur /\
  r_prefix (renamed rc old new (handover_cond c m inter old)) = new.
Proof. intros Es Ef G. unfold step_cur. rewrite Es, Ef, G. auto. Qed.
Theorem pair_skipped_unknown c m inter cur old new : std c old = None -> step_cur c m inter cur (old, new) = cur.
Proof. intro Es. unfold step_cur. rewrite Es. reflexivity. Qed.
Theorem pair_skipped_clash c m inter cur old new orig o2 x2 : std c old = Some orig ->
  cur_get_record cur new = Some (o2, x2) -> o2 <> orig -> step_cur c m inter cur (old, new) = cur.
Proof.
  intros Es G Hne. unfold step_cur. rewrite Es. destruct (List.find _ cur) as [[o rc]|]; auto. rewrite G.
  apply str_eqb_neq in Hne. rewrite Hne. reflexivity.
Qed.
(* old names stay behind as synonyms unless they are handed over to the record of an applicable pair *)
Theorem renamed_keeps rc old new h x : In x (all_prefixes rc) -> x <> old \/ h = false \/ old = new -> In x (all_prefixes (renamed rc old new h)).
Proof.
  intros Hx Hc. apply renamed_prefixes. destruct (str_eq_dec x new) as [->|Hn]; auto. right. repeat split; auto.
  intros -> ->. destruct Hc as [H|[H|H]]; congruence.
Qed.

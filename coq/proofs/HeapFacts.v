(* C10: derivations allocate fresh Record objects and write only to objects they allocated. *)
From Coq Require Import Lia.
From Curies.model Require Import Str PyData Trie Conv Query Mutate Reconcile Heap.
From Curies.proofs Require Import StrFacts.

Lemma hwrite_length h a r : length (hwrite h a r) = length h.
Proof. revert a; induction h as [|x h IH]; intros [|a]; simpl; auto. Qed.
Lemma deref_hwrite_other h a r x : x <> a -> deref (hwrite h a r) x = deref h x.
Proof.
  unfold deref. revert a x; induction h as [|y h IH]; intros [|a] [|x] Hne; simpl; auto; try congruence.
Qed.
Lemma deref_hwrite_same h a r : a < length h -> deref (hwrite h a r) a = r.
Proof. unfold deref. revert a; induction h as [|y h IH]; intros [|a] H; simpl in *; auto; try lia. apply IH. lia. Qed.
Lemma deref_alloc_old h r x : x < length h -> deref (h ++ [r]) x = deref h x.
Proof. intro H. unfold deref. apply app_nth1. auto. Qed.
Lemma deref_alloc_new h r : deref (h ++ [r]) (length h) = r.
Proof. unfold deref. rewrite app_nth2, Nat.sub_diag; auto. Qed.

(* h' extends h0 beyond n without touching the first n cells *)
Definition frame (n : nat) (h0 h' : heap) : Prop := n <= length h' /\ forall x, x < n -> deref h' x = deref h0 x.
Definition owned (n : nat) (R : hconv) (h : heap) : Prop := forall a, In a R -> n <= a < length h.

Lemma frame_refl h : frame (length h) h h.
Proof. split; auto. Qed.
Lemma frame_alloc n h0 h r : frame n h0 h -> frame n h0 (h ++ [r]).
Proof. intros [L F]. split; [rewrite app_length; simpl; lia|]. intros x Hx. rewrite deref_alloc_old by lia. auto. Qed.
Lemma frame_write n h0 h a r : frame n h0 h -> n <= a -> frame n h0 (hwrite h a r).
Proof. intros [L F] Ha. split; [rewrite hwrite_length; auto|]. intros x Hx. rewrite deref_hwrite_other by lia. auto. Qed.
Lemma owned_grow n R h h' : owned n R h -> length h <= length h' -> owned n R h'.
Proof. intros O L a Ha. specialize (O a Ha). lia. Qed.

(* copying allocates, never writes; the copies are fresh *)
Definition copy_step (hc : heap * hconv) (a : nat) : heap * hconv :=
  let '(h', a') := halloc (fst hc) (deref (fst hc) a) in (h', snd hc ++ [a']).
Lemma copy_step_eq hc a : copy_step hc a = (fst hc ++ [deref (fst hc) a], snd hc ++ [length (fst hc)]).
Proof. reflexivity. Qed.
Lemma copy_records_acc C : forall n h0 hc, frame n h0 (fst hc) -> owned n (snd hc) (fst hc) ->
  let res := fold_left copy_step C hc in
  frame n h0 (fst res) /\ owned n (snd res) (fst res) /\ length (fst hc) <= length (fst res) /\
  (forall x, x < length (fst hc) -> deref (fst res) x = deref (fst hc) x) /\
  length (snd res) = length (snd hc) + length C.
Proof.
  induction C as [|a C IH]; intros n h0 hc F O; simpl.
  - refine (conj F (conj O (conj (le_n _) (conj (fun x _ => eq_refl) _)))). lia.
  - rewrite copy_step_eq. set (hc1 := (fst hc ++ [deref (fst hc) a], snd hc ++ [length (fst hc)])).
    assert (F1: frame n h0 (fst hc1)) by (apply frame_alloc; auto).
    assert (O1: owned n (snd hc1) (fst hc1)).
    { intros x Hx. simpl in *. apply in_app_or in Hx as [Hx|[<-|[]]].
      - specialize (O x Hx). rewrite app_length. simpl. lia.
      - destruct F as [L _]. rewrite app_length. simpl. lia. }
    destruct (IH n h0 hc1 F1 O1) as (A & B & L & D & E). refine (conj A (conj B (conj _ (conj _ _)))).
    + simpl in L. rewrite app_length in L. simpl in L. lia.
    + intros x Hx. rewrite D by (simpl; rewrite app_length; simpl; lia). simpl. apply deref_alloc_old. auto.
    + rewrite E. simpl. rewrite app_length. simpl. lia.
Qed.
Lemma copy_records_fold h C : copy_records h C = fold_left copy_step C (h, []).
Proof. reflexivity. Qed.
Theorem copy_records_frame h C :
  frame (length h) h (fst (copy_records h C)) /\ owned (length h) (snd (copy_records h C)) (fst (copy_records h C)) /\
  length (snd (copy_records h C)) = length C.
Proof.
  rewrite copy_records_fold.
  destruct (copy_records_acc C (length h) h (h, []) (frame_refl h) (fun a H => match H with end)) as (A & B & _ & _ & E). auto.
Qed.

Section H.
Variable fold_c : chr -> str.

(* add_record on a converter that owns only fresh cells, with a fresh new record: old cells untouched *)
Theorem h_add_record_frame n h0 h R a cs mg h' R' : frame n h0 h -> owned n R h -> n <= a < length h ->
  h_add_record fold_c h R a cs mg = Val (h', R') -> frame n h0 h' /\ owned n R' h' /\ length h' = length h.
Proof.
  intros F O Ha. unfold h_add_record.
  destruct (filter _ R) as [|e [|e2 rest]] eqn:Ef; [| |discriminate].
  - intro H; inversion H; subst. refine (conj F (conj _ eq_refl)). intros x Hx. apply in_app_or in Hx as [Hx|[<-|[]]]; auto.
  - destruct mg; [|discriminate]. intro H; inversion H; subst.
    assert (He: In e R').
    { assert (Hin: In e (filter (fun e => matches_record fold_c cs (deref h a) (deref h e)) R')) by (rewrite Ef; left; auto).
      apply filter_In in Hin. apply Hin. }
    assert (Hge: n <= e) by (specialize (O e He); lia).
    refine (conj (frame_write n h0 h e _ F Hge) (conj _ (hwrite_length _ _ _))).
    intros x Hx. rewrite hwrite_length. auto.
Qed.

(* chain *)
Theorem h_chain_frame h Cs sens h' R : h_chain fold_c h Cs sens = Val (h', R) ->
  frame (length h) h h' /\ owned (length h) R h'.
Proof.
  unfold h_chain. destruct Cs as [|C0 Cs']; [discriminate|]. generalize (concat (C0 :: Cs')). intro l.
  assert (G: forall l hr, frame (length h) h (fst hr) -> owned (length h) (snd hr) (fst hr) ->
             forall h' R, fold_left (fun acc a => bind acc (fun hr => let '(h1, a') := halloc (fst hr) (deref (fst hr) a) in
                                       h_add_record fold_c h1 (snd hr) a' sens true)) l (Val hr) = Val (h', R) ->
             frame (length h) h h' /\ owned (length h) R h').
  { clear l. induction l as [|a l IH]; intros hr F O h1 R1 H; simpl in H.
    - inversion H; subst. auto.
    - unfold halloc in H. simpl in H.
      destruct (h_add_record fold_c (fst hr ++ [deref (fst hr) a]) (snd hr) (length (fst hr)) sens true) as [[h2 R2]|e] eqn:E.
      + assert (F1: frame (length h) h (fst hr ++ [deref (fst hr) a])) by (apply frame_alloc; auto).
        assert (O1: owned (length h) (snd hr) (fst hr ++ [deref (fst hr) a])) by (eapply owned_grow; eauto; rewrite app_length; simpl; lia).
        assert (Ha: length h <= length (fst hr) < length (fst hr ++ [deref (fst hr) a])) by (destruct F; rewrite app_length; simpl; lia).
        destruct (h_add_record_frame _ _ _ _ _ _ _ _ _ F1 O1 Ha E) as (F2 & O2 & _).
        apply (IH (h2, R2)); auto.
      + exfalso. clear -H. induction l; simpl in H; [discriminate|auto]. }
  intro H. apply (G l (h, [])); auto; [apply frame_refl|intros a []].
Qed.

(* get_subconverter *)
Theorem h_sub_frame h C P : let '(h', R) := h_sub h C P in frame (length h) h h' /\ owned (length h) R h'.
Proof.
  unfold h_sub. pose proof (copy_records_frame h (filter (fun a => existsb (fun p => mem p P) (all_prefixes (deref h a))) C)) as H.
  destruct (copy_records h _) as [h' R]. simpl in H. destruct H as (A & B & _). auto.
Qed.

(* remap_curie_prefixes / remap_uri_prefixes / rewire: the copies are mutated, never the originals *)
Lemma h_overwrite_frame n h0 C' : forall vals h, frame n h0 h -> owned n C' h -> frame n h0 (h_overwrite h C' vals) /\ length (h_overwrite h C' vals) = length h.
Proof.
  unfold h_overwrite. induction C' as [|a C' IH]; intros vals h F O; simpl; [auto|]. destruct vals as [|v vals]; simpl; [auto|].
  assert (Ha: n <= a) by (specialize (O a (or_introl eq_refl)); lia).
  destruct (IH vals (hwrite h a v)) as [F' L'].
  - apply frame_write; auto.
  - intros x Hx. rewrite hwrite_length. apply O. right; auto.
  - split; auto. rewrite L'. apply hwrite_length.
Qed.
Theorem h_remap_frame h C f : let '(h', R) := h_remap h C f in frame (length h) h h' /\ owned (length h) R h'.
Proof.
  unfold h_remap. pose proof (copy_records_frame h C) as H. destruct (copy_records h C) as [h1 C']. simpl in H.
  destruct H as (F & O & _). destruct (h_overwrite_frame (length h) h C' (f (view h1 C')) h1 F O) as [F' L'].
  split; auto. intros a Ha. rewrite L'. auto.
Qed.

(* inputs: a converter whose Record objects all existed before the call sees exactly the same records afterwards *)
Theorem inputs_unchanged n h0 h' C : frame n h0 h' -> (forall a, In a C -> a < n) -> view h' C = view h0 C.
Proof. intros [_ F] H. unfold view. apply map_ext_in. intros a Ha. apply F. auto. Qed.

(* later modification of the derived converter: any history of add_record calls with freshly created records *)
Theorem follow_frame n h0 ops : forall hr, frame n h0 (fst hr) -> owned n (snd hr) (fst hr) ->
  frame n h0 (fst (fold_left (follow_step fold_c) ops hr)) /\ owned n (snd (fold_left (follow_step fold_c) ops hr)) (fst (fold_left (follow_step fold_c) ops hr)).
Proof.
  induction ops as [|[[r cs] mg] ops IH]; intros hr F O; simpl; auto. apply IH.
  - unfold halloc. simpl.
    assert (F1: frame n h0 (fst hr ++ [r])) by (apply frame_alloc; auto).
    assert (O1: owned n (snd hr) (fst hr ++ [r])) by (eapply owned_grow; eauto; rewrite app_length; simpl; lia).
    assert (Ha: n <= length (fst hr) < length (fst hr ++ [r])) by (destruct F; rewrite app_length; simpl; lia).
    destruct (h_add_record fold_c (fst hr ++ [r]) (snd hr) (length (fst hr)) cs mg) as [[h2 R2]|e] eqn:E; simpl; auto.
    apply (h_add_record_frame _ _ _ _ _ _ _ _ _ F1 O1 Ha E).
  - unfold halloc. simpl.
    assert (F1: frame n h0 (fst hr ++ [r])) by (apply frame_alloc; auto).
    assert (O1: owned n (snd hr) (fst hr ++ [r])) by (eapply owned_grow; eauto; rewrite app_length; simpl; lia).
    assert (Ha: n <= length (fst hr) < length (fst hr ++ [r])) by (destruct F; rewrite app_length; simpl; lia).
    destruct (h_add_record fold_c (fst hr ++ [r]) (snd hr) (length (fst hr)) cs mg) as [[h2 R2]|e] eqn:E; simpl; auto.
    apply (h_add_record_frame _ _ _ _ _ _ _ _ _ F1 O1 Ha E).
Qed.
End H.

(* defect D3 (repaired): chain without copying wrote into the first converter's Record object *)
Lemma sharing_refuted :
  let ra := {| r_prefix := [97%N]; r_uri := [104%N]; r_psyn := []; r_usyn := []; r_pat := None |} in
  let rb := {| r_prefix := [98%N]; r_uri := [104%N]; r_psyn := []; r_usyn := []; r_pat := None |} in
  let h := [ra; rb] in
  (exists h' R, h_chain_shared (fun c => [c]) h [[0]; [1]] true = Val (h', R) /\ deref h' 0 <> deref h 0 /\ R = [0]) /\
  (exists h' R, h_chain (fun c => [c]) h [[0]; [1]] true = Val (h', R) /\ deref h' 0 = deref h 0 /\ deref h' 1 = deref h 1 /\ R = [2]).
Proof.
  split.
  - eexists. eexists. split; [vm_compute; reflexivity|]. split; [vm_compute; discriminate|reflexivity].
  - eexists. eexists. split; [vm_compute; reflexivity|]. repeat split.
Qed.

(* ---- simulation: the object-level chain computes the value-level chain (Mutate.chain) ---- *)
From Curies.model Require Import Val Answer Spec CheckQ.
From Curies.proofs Require Import TrieFacts DictFacts IndexFacts QueryFacts CheckFacts C04Facts MutateFacts ChainFacts.

Lemma filter_map_commute {A B} (f : A -> B) (p : B -> bool) l : map f (filter (fun x => p (f x)) l) = filter p (map f l).
Proof. induction l as [|a l IH]; simpl; auto. destruct (p (f a)); simpl; rewrite IH; reflexivity. Qed.
Lemma NoDup_map_inj {A B} (f : A -> B) l x y : NoDup (map f l) -> In x l -> In y l -> f x = f y -> x = y.
Proof.
  induction l as [|a l IH]; simpl; intros N Hx Hy E; [destruct Hx|]. inversion N as [|? ? Hn Hd]; subst.
  destruct Hx as [<-|Hx], Hy as [<-|Hy]; auto.
  - exfalso. apply Hn. rewrite E. apply in_map; auto.
  - exfalso. apply Hn. rewrite <- E. apply in_map; auto.
Qed.

Section Sim.
Variable fold_c : chr -> str.

Definition rel (ca : conv) (h : heap) (R : hconv) : Prop :=
  swf ca /\ recs ca = view h R /\ forall a, In a R -> a < length h.

Lemma view_alloc h R r : (forall a, In a R -> a < length h) -> view (h ++ [r]) R = view h R.
Proof. intro H. unfold view. apply map_ext_in. intros a Ha. apply deref_alloc_old. auto. Qed.

Theorem h_add_record_sim ca h R a cs mg : rel ca h R -> a < length h ->
  match add_record fold_c ca (deref h a) cs mg, h_add_record fold_c h R a cs mg with
  | Val ca', Val (h', R') => rel ca' h' R' /\ length h' = length h
  | Raise e, Raise e' => e = e'
  | _, _ => False
  end.
Proof.
  intros (S & Ev & Hv) Ha. pose proof (add_record_cases fold_c ca (deref h a) cs mg S) as C.
  unfold h_add_record. rewrite Ev in C. unfold view in C.
  rewrite <- (filter_map_commute (deref h) (matches_record fold_c cs (deref h a)) R) in C.
  destruct (filter (fun e => matches_record fold_c cs (deref h a) (deref h e)) R) as [|e [|e2 rest]] eqn:Ef; cbn [map] in C.
  - rewrite C. split; auto. split; [apply (add_record_swf fold_c ca (deref h a) cs mg); auto; rewrite C; reflexivity|].
    split.
    + cbn [recs index]. unfold view. rewrite map_app. reflexivity.
    + intros x Hx. apply in_app_or in Hx as [Hx|[<-|[]]]; auto.
  - destruct mg; rewrite C; [|reflexivity].
    assert (He: In e R).
    { assert (Hin: In e (filter (fun e => matches_record fold_c cs (deref h a) (deref h e)) R)) by (rewrite Ef; left; auto).
      apply filter_In in Hin. apply Hin. }
    split; [|apply hwrite_length]. split; [apply (add_record_swf fold_c ca (deref h a) cs true); auto; rewrite C; reflexivity|].
    split.
    + cbn [recs index]. unfold view. rewrite map_map. apply map_ext_in. intros x Hx.
      destruct (Nat.eq_dec x e) as [->|Hne].
      * rewrite deref_hwrite_same by auto. unfold repl. rewrite key_eqb_refl. reflexivity.
      * rewrite deref_hwrite_other by auto. unfold repl.
        destruct (key_eqb (record_key (deref h x)) (record_key (deref h e))) eqn:K; auto. exfalso.
        destruct S as (_ & Pp & _). rewrite Ev in Pp.
        apply (isM_spec (view h R)) in K; [|auto|apply in_map; auto|apply in_map; auto].
        apply Hne. apply (NoDup_map_inj (deref h) R x e); auto.
        eapply pairwise_nodup; [apply all_prefixes_ne|exact Pp].
    + intros x Hx. rewrite hwrite_length. auto.
  - rewrite C. reflexivity.
Qed.

(* the whole chain: same outcome, and the result's records are the cells the object-level result refers to *)
Theorem h_chain_sim h (Cs : list hconv) (cs : list conv) sens :
  Forall2 (fun ci Ci => recs ci = view h Ci /\ forall a, In a Ci -> a < length h) cs Cs ->
  match chain fold_c cs sens, h_chain fold_c h Cs sens with
  | Val ca, Val (h', R) => recs ca = view h' R /\ swf ca
  | Raise e, Raise e' => e = e'
  | _, _ => False
  end.
Proof.
  intro F. destruct cs as [|c0 cs'], Cs as [|C0 Cs']; try (inversion F; fail); [reflexivity|].
  rewrite (chain_absorb fold_c (c0 :: cs') sens) by discriminate. unfold h_chain.
  assert (Hflat: map (deref h) (concat (C0 :: Cs')) = flat_map recs (c0 :: cs') /\ forall a, In a (concat (C0 :: Cs')) -> a < length h).
  { clear -F. induction F as [|ci Ci cs Cs [E V] F IH]; simpl; [split; [reflexivity|intros a []]|].
    destruct IH as [IH1 IH2]. split; [rewrite map_app, IH1, E; reflexivity|].
    intros a Ha. apply in_app_or in Ha as [Ha|Ha]; auto. }
  destruct Hflat as [Hm Hv]. rewrite <- Hm. clear F Hm. generalize dependent (concat (C0 :: Cs')). intros l Hv.
  assert (G: forall (l : list nat) ca hr, rel ca (fst hr) (snd hr) -> (forall a, In a l -> a < length h) ->
              frame (length h) h (fst hr) -> owned (length h) (snd hr) (fst hr) ->
              match absorb fold_c (Val ca) (map (deref h) l) sens,
                    fold_left (fun acc a => bind acc (fun hr => let '(h1, a') := halloc (fst hr) (deref (fst hr) a) in
                                             h_add_record fold_c h1 (snd hr) a' sens true)) l (Val hr) with
              | Val ca', Val (h', R) => recs ca' = view h' R /\ swf ca'
              | Raise e, Raise e' => e = e'
              | _, _ => False end).
  { clear l Hv. intro l. induction l as [|a l IH]; intros ca hr Rl Hl Fr Ow.
    - simpl. destruct hr as [h1 R1]. destruct Rl as (S & Ev & _). auto.
    - cbn [map]. rewrite absorb_cons. cbn [fold_left bind]. unfold halloc. cbn [fst snd].
      assert (Ea: deref (fst hr) a = deref h a) by (apply Fr; apply Hl; left; auto).
      set (h1 := fst hr ++ [deref (fst hr) a]).
      assert (R1: rel ca h1 (snd hr)).
      { destruct Rl as (S & Ev & Hv1). split; auto. split.
        - unfold h1. rewrite view_alloc; auto.
        - intros x Hx. unfold h1. rewrite app_length. simpl. specialize (Hv1 x Hx). lia. }
      assert (Hlt: length (fst hr) < length h1) by (unfold h1; rewrite app_length; simpl; lia).
      assert (F1: frame (length h) h h1) by (apply frame_alloc; auto).
      assert (O1: owned (length h) (snd hr) h1) by (eapply owned_grow; eauto; lia).
      assert (Hrange: length h <= length (fst hr) < length h1) by (destruct Fr; lia).
      pose proof (h_add_record_sim ca h1 (snd hr) (length (fst hr)) sens true R1 Hlt) as Sim.
      assert (Ed: deref h1 (length (fst hr)) = deref h a) by (unfold h1; rewrite deref_alloc_new; exact Ea).
      rewrite Ed in Sim.
      destruct (add_record fold_c ca (deref h a) sens true) as [ca'|e] eqn:E1;
        destruct (h_add_record fold_c h1 (snd hr) (length (fst hr)) sens true) as [[h2 R2]|e'] eqn:E2; try contradiction.
      + destruct Sim as [Rl2 L2].
        destruct (h_add_record_frame fold_c _ _ _ _ _ _ _ _ _ F1 O1 Hrange E2) as (F2 & O2 & _).
        apply (IH ca' (h2, R2)); auto. intros x Hx. apply Hl. right; auto.
      + subst e'. rewrite absorb_raise. clear. induction l; simpl; auto. }
  apply (G l empty_conv (h, [])); auto.
  - split; [apply empty_swf|]. split; [reflexivity|intros a []].
  - apply frame_refl.
  - intros a [].
Qed.
End Sim.

(* The trie refines a finite map; longest_prefix_item returns the longest bound prefix. *)
From Coq Require Import Lia.
From Curies.model Require Import Str Trie.
From Curies.proofs Require Import StrFacts.

Section T.
Variable V : Type.
Lemma find_nil x (f : forest V) : find [] (Node x f) = x. Proof. reflexivity. Qed.
Lemma find_cons c r x (f : forest V) : find (c :: r) (Node x f) = find_f c r f. Proof. reflexivity. Qed.
Lemma find_f_nil c r : find_f c r (@FNil V) = None. Proof. reflexivity. Qed.
Lemma find_f_cons c r c' t' (f' : forest V) : find_f c r (FCons c' t' f') = if N.eqb c c' then find r t' else find_f c r f'. Proof. reflexivity. Qed.
Lemma insert_nil v x (f : forest V) : insert [] v (Node x f) = Node (Some v) f. Proof. reflexivity. Qed.
Lemma insert_cons c r v x (f : forest V) : insert (c :: r) v (Node x f) = Node x (insert_f c r v f). Proof. reflexivity. Qed.
Lemma insert_f_nil c r (v : V) : insert_f c r v FNil = FCons c (singleton r v) FNil. Proof. reflexivity. Qed.
Lemma insert_f_cons c r v c' t' (f' : forest V) :
  insert_f c r v (FCons c' t' f') = if N.eqb c c' then FCons c' (insert r v t') f' else FCons c' t' (insert_f c r v f'). Proof. reflexivity. Qed.
Lemma lpi_nil x (f : forest V) : lpi [] (Node x f) = match x with Some v => Some (0, v) | None => None end. Proof. reflexivity. Qed.
Lemma lpi_cons c r x (f : forest V) : lpi (c :: r) (Node x f) =
  match lpi_f c r f with Some (n, v) => Some (S n, v) | None => match x with Some v => Some (0, v) | None => None end end. Proof. reflexivity. Qed.
Lemma lpi_f_nil c r : lpi_f c r (@FNil V) = None. Proof. reflexivity. Qed.
Lemma lpi_f_cons c r c' t' (f' : forest V) : lpi_f c r (FCons c' t' f') = if N.eqb c c' then lpi r t' else lpi_f c r f'. Proof. reflexivity. Qed.
Lemma singleton_nil (v : V) : singleton [] v = Node (Some v) FNil. Proof. reflexivity. Qed.
Lemma singleton_cons c r (v : V) : singleton (c :: r) v = Node None (FCons c (singleton r v) FNil). Proof. reflexivity. Qed.
Ltac ts := repeat (rewrite ?find_nil, ?find_cons, ?find_f_nil, ?find_f_cons, ?insert_nil, ?insert_cons, ?insert_f_nil, ?insert_f_cons,
                    ?lpi_nil, ?lpi_cons, ?lpi_f_nil, ?lpi_f_cons, ?singleton_nil, ?singleton_cons); simpl length; simpl firstn.
Scheme trie_ind2 := Induction for trie Sort Prop
with forest_ind2 := Induction for forest Sort Prop.

Lemma find_singleton k (v : V) k' : find k' (singleton k v) = if str_eq_dec k' k then Some v else None.
Proof.
  revert k'; induction k as [|c r IH]; intros k'; ts.
  - destruct k'; ts; [destruct (str_eq_dec _ _); congruence|]. destruct (str_eq_dec _ _); congruence.
  - destruct k' as [|c' r']; ts. destruct (str_eq_dec _ _); congruence.
    destruct (N.eqb_spec c' c).
    + subst. rewrite IH. destruct (str_eq_dec r' r), (str_eq_dec (c::r') (c::r)); congruence.
    + destruct (str_eq_dec _ _); congruence.
Qed.

Lemma find_insert : forall (t : trie V) k v k', find k' (insert k v t) = if str_eq_dec k' k then Some v else find k' t.
Proof.
  apply (trie_ind2 V
    (fun t => forall k v k', find k' (insert k v t) = if str_eq_dec k' k then Some v else find k' t)
    (fun f => forall c r v c' r', find_f c' r' (insert_f c r v f) = if str_eq_dec (c'::r') (c::r) then Some v else find_f c' r' f)).
  - intros o f IHf k v k'. destruct k as [|c r]; ts.
    + destruct k'; ts; destruct (str_eq_dec _ _); congruence.
    + destruct k' as [|c' r']; ts. destruct (str_eq_dec _ _); congruence. apply IHf.
  - intros c r v c' r'; ts. destruct (N.eqb_spec c' c).
    + subst. rewrite find_singleton. destruct (str_eq_dec r' r), (str_eq_dec (c::r') (c::r)); congruence.
    + destruct (str_eq_dec _ _); congruence.
  - intros c0 t IHt f IHf c r v c' r'. ts. destruct (N.eqb_spec c c0).
    + subst. ts. destruct (N.eqb_spec c' c0).
      * subst. rewrite IHt. destruct (str_eq_dec r' r), (str_eq_dec (c0::r') (c0::r)); congruence.
      * destruct (str_eq_dec _ _); congruence.
    + ts. destruct (N.eqb_spec c' c0).
      * subst. destruct (str_eq_dec _ _); congruence.
      * apply IHf.
Qed.

Lemma find_empty k : find k (@empty V) = None.
Proof. destruct k; reflexivity. Qed.

Definition lpi_ok (key : str) (t : trie V) (r : option (nat * V)) : Prop :=
  match r with
  | Some (n, v) => n <= length key /\ find (firstn n key) t = Some v /\ forall m, n < m <= length key -> find (firstn m key) t = None
  | None => forall m, m <= length key -> find (firstn m key) t = None
  end.
Definition lpi_f_ok (c : chr) (r : str) (f : forest V) (res : option (nat * V)) : Prop :=
  match res with
  | Some (n, v) => n <= length r /\ find_f c (firstn n r) f = Some v /\ forall m, n < m <= length r -> find_f c (firstn m r) f = None
  | None => forall m, m <= length r -> find_f c (firstn m r) f = None
  end.

Lemma lpi_spec : forall (t : trie V) key, lpi_ok key t (lpi key t).
Proof.
  apply (trie_ind2 V (fun t => forall key, lpi_ok key t (lpi key t))
                   (fun f => forall c r, lpi_f_ok c r f (lpi_f c r f))); unfold lpi_ok, lpi_f_ok.
  - intros o f IHf key. destruct key as [|c r].
    + rewrite lpi_nil. destruct o; simpl.
      * split; [lia|]. split; [reflexivity|]. intros; lia.
      * intros m Hm. assert (m = 0) by lia. subst. reflexivity.
    + rewrite lpi_cons. specialize (IHf c r). destruct (lpi_f c r f) as [[n' v']|] eqn:E; simpl in *.
      * destruct IHf as (A & B & C). split; [lia|]. split; [rewrite find_cons; exact B|].
        intros m Hm. destruct m; [lia|]. simpl. rewrite find_cons. apply C. lia.
      * destruct o; simpl.
        -- split; [lia|]. split; [reflexivity|]. intros m Hm. destruct m; [lia|]. simpl. rewrite find_cons. apply IHf. lia.
        -- intros m Hm. destruct m; simpl; [reflexivity|]. rewrite find_cons. apply IHf. lia.
  - intros c r. rewrite lpi_f_nil. intros; apply find_f_nil.
  - intros c0 t IHt f IHf c r. rewrite lpi_f_cons. destruct (N.eqb_spec c c0).
    + subst. specialize (IHt r). destruct (lpi r t) as [[n v]|].
      * destruct IHt as (A & B & C). split; [auto|]. split; [rewrite find_f_cons, N.eqb_refl; exact B|].
        intros m Hm. rewrite find_f_cons, N.eqb_refl. auto.
      * intros m Hm. rewrite find_f_cons, N.eqb_refl. auto.
    + specialize (IHf c r). destruct (lpi_f c r f) as [[n' v]|].
      * destruct IHf as (A & B & C). split; [auto|]. split.
        -- rewrite find_f_cons. destruct (N.eqb_spec c c0); [congruence|]. exact B.
        -- intros m Hm. rewrite find_f_cons. destruct (N.eqb_spec c c0); [congruence|]. auto.
      * intros m Hm. rewrite find_f_cons. destruct (N.eqb_spec c c0); [congruence|]. auto.
Qed.

(* lpi is determined by the finite map the trie denotes *)
Lemma lpi_ext (t1 t2 : trie V) : (forall k, find k t1 = find k t2) -> forall key, lpi key t1 = lpi key t2.
Proof.
  intros E key. pose proof (lpi_spec t1 key) as H1. pose proof (lpi_spec t2 key) as H2.
  unfold lpi_ok in *.
  destruct (lpi key t1) as [[n1 v1]|], (lpi key t2) as [[n2 v2]|]; auto.
  - destruct H1 as (A1 & B1 & C1), H2 as (A2 & B2 & C2).
    destruct (Nat.lt_trichotomy n1 n2) as [L|[L|L]].
    + specialize (C1 n2 ltac:(lia)). rewrite E in C1. congruence.
    + subst. rewrite E in B1. congruence.
    + specialize (C2 n1 ltac:(lia)). rewrite <- E in C2. congruence.
  - destruct H1 as (A1 & B1 & C1). specialize (H2 n1 A1). rewrite <- E in H2. congruence.
  - destruct H2 as (A2 & B2 & C2). specialize (H1 n2 A2). rewrite E in H1. congruence.
Qed.
End T.

(* C15: references parse, print, compare and hash consistently. *)
From Coq Require Import Lia.
From Curies.model Require Import Str PyData Trie Conv Query Val Answer Spec CheckQ Reference.
From Curies.proofs Require Import StrFacts IndexFacts QueryFacts LawFacts SortFacts.

(* print / parse *)
Theorem curie_roundtrip p i c n : ~ In 58%N p -> from_curie colon (curie (mk c p i n)) = Val (p, i).
Proof. intro H. unfold from_curie, curie, colon, mk. cbn [rf_prefix rf_id]. rewrite partition_single; auto. Qed.
Theorem from_curie_first sep s p i : from_curie sep s = Val (p, i) ->
  s = p ++ sep ++ i /\ forall k, k < length p -> occurs_at sep s k = false.
Proof. unfold from_curie. destruct (partition sep s) as [[a b]|] eqn:E; [|discriminate]. intro H; inversion H; subst. apply partition_some; auto. Qed.
Theorem from_curie_none sep s : (forall k, occurs_at sep s k = false) -> from_curie sep s = Raise ENoCURIEDelimiter.
Proof.
  intro H. unfold from_curie. destruct (partition sep s) as [[a b]|] eqn:E; auto.
  apply partition_some in E as [-> _]. specialize (H (length a)). unfold occurs_at in H.
  rewrite skipn_app_exact, prefixb_app in H. discriminate.
Qed.
Theorem from_curie_rejects sep s e : from_curie sep s = Raise e -> e = ENoCURIEDelimiter /\ forall k, occurs_at sep s k = false.
Proof. unfold from_curie. destruct (partition sep s) as [[a b]|] eqn:E; [discriminate|]. intro H; inversion H. split; auto. apply partition_none; auto. Qed.

(* equality *)
Theorem ref_eq_pair a b : is_pydantic (rf_cls a) = true -> is_pydantic (rf_cls b) = true ->
  (ref_eq a b = true <-> pair a = pair b).
Proof.
  unfold ref_eq, pair. destruct (rf_cls a), (rf_cls b); simpl; try discriminate; intros _ _;
    rewrite andb_true_iff, !str_eqb_eq; (split; [intros [-> ->]; auto|intro H; inversion H; auto]).
Qed.
Theorem ref_eq_refl a : ref_eq a a = true.
Proof. unfold ref_eq. destruct (rf_cls a); rewrite !str_eqb_refl; reflexivity. Qed.
Theorem ref_eq_sym a b : ref_eq a b = ref_eq b a.
Proof. unfold ref_eq. destruct (rf_cls a), (rf_cls b); auto; rewrite (str_eqb_sym (rf_prefix a)), (str_eqb_sym (rf_id a)); reflexivity. Qed.
Theorem ref_eq_trans a b c : ref_eq a b = true -> ref_eq b c = true -> ref_eq a c = true.
Proof.
  unfold ref_eq. destruct (rf_cls a), (rf_cls b), (rf_cls c); try discriminate;
    rewrite !andb_true_iff, !str_eqb_eq; intros [-> ->] [-> ->]; auto.
Qed.
(* a name never matters; the class among the three pydantic classes never matters *)
Theorem ref_eq_name_class c1 c2 p i n1 n2 : is_pydantic c1 = true -> is_pydantic c2 = true -> ref_eq (mk c1 p i n1) (mk c2 p i n2) = true.
Proof. destruct c1, c2; try discriminate; intros _ _; unfold ref_eq; simpl; rewrite !str_eqb_refl; reflexivity. Qed.
Theorem tuple_never_equal_pydantic a b : rf_cls a = CTuple -> is_pydantic (rf_cls b) = true -> ref_eq a b = false /\ ref_eq b a = false.
Proof. unfold ref_eq. intros ->. destruct (rf_cls b); try discriminate; auto. Qed.
(* equal references hash equally, for any hash of the pair *)
Theorem ref_eq_hash (h : str * str -> N) a b : ref_eq a b = true -> ref_hash h a = ref_hash h b.
Proof.
  unfold ref_eq, ref_hash, pair. destruct (rf_cls a), (rf_cls b); try discriminate;
    rewrite andb_true_iff, !str_eqb_eq; intros [-> ->]; reflexivity.
Qed.

(* order: the lexicographic order on (prefix, identifier) *)
Lemma str_ltb_slt a b : str_ltb a b = true <-> slt a b.
Proof. unfold str_ltb, slt. destruct (str_cmp a b); split; congruence. Qed.
Theorem ref_lt_irrefl a : ref_lt a a = false.
Proof.
  unfold ref_lt, pair_ltb. rewrite (proj2 (str_cmp_eq _ _) eq_refl). destruct (str_ltb (snd (pair a)) (snd (pair a))) eqn:E; auto.
  apply str_ltb_slt in E. exfalso. eapply slt_irrefl; eauto.
Qed.
Theorem ref_lt_trans a b c : ref_lt a b = true -> ref_lt b c = true -> ref_lt a c = true.
Proof.
  unfold ref_lt, pair_ltb. destruct (pair a) as [a1 a2], (pair b) as [b1 b2], (pair c) as [c1 c2]. simpl.
  destruct (str_cmp a1 b1) eqn:E1; try discriminate; destruct (str_cmp b1 c1) eqn:E2; try discriminate; intros H1 H2.
  - apply str_cmp_eq in E1, E2. subst. rewrite (proj2 (str_cmp_eq c1 c1) eq_refl).
    apply str_ltb_slt. apply str_ltb_slt in H1, H2. eapply slt_trans; eauto.
  - apply str_cmp_eq in E1. subst. rewrite E2. auto.
  - apply str_cmp_eq in E2. subst. rewrite E1. auto.
  - rewrite (str_cmp_lt_trans _ _ _ E1 E2). auto.
Qed.
Theorem ref_lt_total a b : ref_lt a b = true \/ pair a = pair b \/ ref_lt b a = true.
Proof.
  unfold ref_lt, pair_ltb. destruct (pair a) as [a1 a2], (pair b) as [b1 b2]. simpl.
  rewrite (str_cmp_antisym a1 b1). destruct (str_cmp a1 b1) eqn:E1; simpl; auto.
  apply str_cmp_eq in E1. subst. destruct (slt_total a2 b2) as [H|[->|H]]; [left|right; left|right; right]; auto; apply str_ltb_slt; auto.
Qed.

(* validation against a converter *)
Theorem validate_ctx_spec d rs c p i : mk_conv true d rs = Val c ->
  validate_ctx c p i = match owner_by_prefix rs p with Some r => Val (r_prefix r, i) | None => Raise EPrefixStd end.
Proof.
  intro Hc. unfold validate_ctx, standardize_prefix. rewrite (L_synmap _ _ _ Hc). destruct (owner_by_prefix rs p); reflexivity.
Qed.

(* triples rows *)
Theorem triples_roundtrip s p o : ~ In 58%N (rf_prefix s) -> ~ In 58%N (rf_prefix p) -> ~ In 58%N (rf_prefix o) ->
  row_triple (triple_row s p o) = Val [pair s; pair p; pair o].
Proof.
  intros H1 H2 H3. unfold row_triple, triple_row, from_curie, curie, colon, pair.
  rewrite !partition_single; auto.
Qed.

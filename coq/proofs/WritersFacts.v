(* C14: what the writers write reads back. *)
From Coq Require Import Lia.
From Curies.model Require Import Str PyData Conv Loaders Val Spec CheckQ Writers.
From Curies.proofs Require Import StrFacts DictFacts CheckFacts.

(* ---- extended prefix map: every record is reproduced exactly, synonym lists up to order ---- *)
Theorem epm_roundtrip r : record_of_dict (record_to_dict r) = Some (normalise r).
Proof.
  unfold record_of_dict, record_to_dict, normalise.
  destruct r as [p u ps us pat]; simpl.
  destruct ps as [|p1 ps], us as [|u1 us], pat as [pt|]; reflexivity.
Qed.
Theorem epm_roundtrip_all rs : all_some (map (fun r => record_of_dict (record_to_dict r)) rs) = Some (map normalise rs).
Proof. induction rs as [|r rs IH]; [reflexivity|]. cbn [map all_some]. rewrite epm_roundtrip, IH. reflexivity. Qed.
Lemma normalise_fields r : r_prefix (normalise r) = r_prefix r /\ r_uri (normalise r) = r_uri r /\ r_pat (normalise r) = r_pat r /\
  (forall x, In x (r_psyn (normalise r)) <-> In x (r_psyn r)) /\ (forall x, In x (r_usyn (normalise r)) <-> In x (r_usyn r)).
Proof. unfold normalise; simpl. repeat split; try (apply sort_In); try (intro; apply sort_In; auto). Qed.

(* ---- JSON-LD ---- *)
Definition term_uri (t : term) : option str := match t with TStr s => Some s | TPrefix s => Some s | TOther => None end.
Lemma map_val_dset {V W} (f : V -> W) k v (d : dict V) :
  map (fun kv => (fst kv, f (snd kv))) (dset k v d) = dset k (f v) (map (fun kv => (fst kv, f (snd kv))) d).
Proof. induction d as [|[a b] d IH]; simpl; auto. destruct (str_eqb k a); simpl; [reflexivity|rewrite IH; reflexivity]. Qed.

(* reading a context whose terms are all strings / @prefix dictionaries under valid keys: the terms' URIs, key by key *)
Lemma jsonld_read_acc ctx : forall pm,
  (forall k t, In (k, t) ctx -> jsonld_key_ok k = true /\ t <> TOther) ->
  fold_left (fun pm kt =>
    if jsonld_key_ok (fst kt)
    then match snd kt with TStr s => dset (fst kt) s pm | TPrefix id => dset (fst kt) id pm | TOther => pm end
    else pm) ctx pm
  = fold_left (fun pm kt => dset (fst kt) (match snd kt with TStr s => s | TPrefix s => s | TOther => [] end) pm) ctx pm.
Proof.
  induction ctx as [|[k t] ctx IH]; intros pm H; simpl; auto.
  destruct (H k t (or_introl eq_refl)) as [Hk Ht]. rewrite Hk.
  rewrite IH by (intros k' t' Hin; apply H; right; auto). destruct t; try congruence; reflexivity.
Qed.

Lemma dset_fresh {V} k (v : V) d : ~ In k (dkeys d) -> dset k v d = d ++ [(k, v)].
Proof.
  induction d as [|[a b] d IH]; simpl; intro H; auto.
  destruct (str_eqb_spec k a); [subst; exfalso; apply H; left; auto|]. rewrite IH; auto.
Qed.
Lemma fold_dset_nodup {V} (l : list (str * V)) : forall d, NoDup (dkeys d ++ map fst l) ->
  fold_left (fun d kv => dset (fst kv) (snd kv) d) l d = d ++ l.
Proof.
  induction l as [|[k v] l IH]; intros d H; simpl; [rewrite app_nil_r; auto|].
  rewrite dset_fresh.
  - rewrite IH; [rewrite <- app_assoc; reflexivity|]. unfold dkeys. rewrite map_app. simpl. rewrite <- app_assoc. exact H.
  - intro Hin. apply NoDup_remove_2 in H. apply H. apply in_or_app. left. exact Hin.
Qed.
Lemma fold_flat_map {A B C} (f : C -> B -> C) (g : A -> list B) l : forall a,
  fold_left f (flat_map g l) a = fold_left (fun a x => fold_left f (g x) a) l a.
Proof. induction l as [|x l IH]; intro a; simpl; auto. rewrite fold_left_app. apply IH. Qed.

Lemma fold_left_ext_eq {A B} (f g : A -> B -> A) l : (forall a x, f a x = g a x) -> forall a, fold_left f l a = fold_left g l a.
Proof. intro E. induction l as [|x l IH]; intro a; simpl; auto. rewrite E. apply IH. Qed.

Definition written_prefixes (syn : bool) (r : record) : list str := r_prefix r :: (if syn then r_psyn r else []).
Definition term_of (ex : bool) (r : record) : term := if ex then TPrefix (r_uri r) else TStr (r_uri r).
Definition term_items (rs : list record) (ex syn : bool) : list (str * term) :=
  flat_map (fun r => map (fun p => (p, term_of ex r)) (written_prefixes syn r)) rs.

Lemma ctx_is_items rs ex syn : NoDup (flat_map (written_prefixes syn) rs) -> jsonld_context rs ex syn = term_items rs ex syn.
Proof.
  intro N. unfold jsonld_context.
  transitivity (fold_left (fun d kv => dset (fst kv) (snd kv) d) (term_items rs ex syn) []).
  - unfold term_items. rewrite fold_flat_map. apply fold_left_ext_eq. intros ctx r. unfold written_prefixes, term_of.
    change (fold_left (fun ctx0 p => dset p (if ex then TPrefix (r_uri r) else TStr (r_uri r)) ctx0) (r_prefix r :: (if syn then r_psyn r else [])) ctx =
            fold_left (fun d kv => dset (fst kv) (snd kv) d) (map (fun p => (p, if ex then TPrefix (r_uri r) else TStr (r_uri r))) (r_prefix r :: (if syn then r_psyn r else []))) ctx). unfold written_prefixes, term_of.
    generalize (r_prefix r :: (if syn then r_psyn r else [])). intro l. revert ctx. induction l as [|p l IH]; intro ctx; simpl; auto.
  - rewrite fold_dset_nodup; auto. simpl. unfold term_items. rewrite flat_map_concat_map, concat_map, map_map.
    rewrite <- flat_map_concat_map. erewrite flat_map_ext; [exact N|]. intro r. rewrite map_map. rewrite <- (map_id (written_prefixes syn r)) at 2. apply map_ext. reflexivity.
Qed.

(* JSON-LD round trip: what is read back is exactly the written (prefix, URI prefix) pairs *)
Theorem jsonld_roundtrip rs ex syn : NoDup (flat_map (written_prefixes syn) rs) ->
  (forall r p, In r rs -> In p (written_prefixes syn r) -> jsonld_key_ok p = true) ->
  jsonld_prefix_map (jsonld_context rs ex syn) = pm_items rs syn.
Proof.
  intros N K. rewrite ctx_is_items by auto. unfold jsonld_prefix_map. rewrite jsonld_read_acc.
  - transitivity (fold_left (fun d kv => dset (fst kv) (snd kv) d)
                   (map (fun kt => (fst kt, match snd kt with TStr s => s | TPrefix s => s | TOther => [] end)) (term_items rs ex syn)) []).
    + generalize (@nil (str * str)). induction (term_items rs ex syn) as [|[k t] l IH]; intro d; simpl; auto.
    + rewrite fold_dset_nodup.
      * simpl. unfold term_items, pm_items. rewrite !flat_map_concat_map, concat_map, map_map. f_equal. apply map_ext.
        intro r. rewrite map_map. unfold written_prefixes, term_of. apply map_ext. intro p. destruct ex; reflexivity.
      * simpl. rewrite map_map. simpl. unfold term_items. rewrite flat_map_concat_map, concat_map, map_map.
        rewrite <- flat_map_concat_map. erewrite flat_map_ext; [exact N|]. intro r. rewrite map_map. rewrite <- (map_id (written_prefixes syn r)) at 2. apply map_ext. reflexivity.
  - intros k t Hin. unfold term_items in Hin. apply in_flat_map in Hin as (r & Hr & Hin). apply in_map_iff in Hin as (p & E & Hp).
    inversion E; subst. split; [eapply K; eauto|]. unfold term_of. destruct ex; discriminate.
Qed.

(* ---- SHACL: escaping backslashes is undone by the Turtle short-string lexer ---- *)
Definition turtle_safe (c : chr) : bool := negb (N.eqb c 34) && negb (N.eqb c 10) && negb (N.eqb c 13).
Lemma tu_bs t : turtle_unescape (backslash :: backslash :: t) = option_map (cons backslash) (turtle_unescape t).
Proof. reflexivity. Qed.
Lemma tu_plain c t : turtle_safe c = true -> c <> backslash -> turtle_unescape (c :: t) = option_map (cons c) (turtle_unescape t).
Proof.
  unfold turtle_safe. intros H Hne. apply andb_true_iff in H as [H H3]. apply andb_true_iff in H as [H1 H2].
  apply negb_true_iff in H1, H2, H3. apply N.eqb_neq in Hne.
  cbn [turtle_unescape]. rewrite H1, H2, H3, Hne. reflexivity.
Qed.
Lemma escape_cons c s : escape_bs (c :: s) = (if N.eqb c backslash then [backslash; backslash] else [c]) ++ escape_bs s.
Proof. reflexivity. Qed.
Theorem turtle_roundtrip s : forallb turtle_safe s = true -> turtle_unescape (escape_bs s) = Some s.
Proof.
  induction s as [|c s IH]; intro H; [reflexivity|]. cbn [forallb] in H. apply andb_true_iff in H as [Hc Hs]. specialize (IH Hs).
  rewrite escape_cons. destruct (N.eqb_spec c backslash) as [->|Hne].
  - cbn [app]. rewrite tu_bs, IH. reflexivity.
  - cbn [app]. rewrite tu_plain, IH; auto.
Qed.
Lemma printable_turtle_safe s : printable_ok s = true -> forallb turtle_safe s = true.
Proof.
  unfold printable_ok. rewrite !forallb_forall. intros H c Hc. specialize (H c Hc).
  repeat (apply andb_true_iff in H as [H ?]). unfold turtle_safe.
  apply negb_true_iff in H3. rewrite H3. simpl.
  apply N.leb_le in H. destruct (N.eqb_spec c 10); [lia|]. destruct (N.eqb_spec c 13); [lia|]. reflexivity.
Qed.
Theorem shacl_roundtrip p u pat : printable_ok p = true -> printable_ok u = true ->
  match pat with Some x => printable_ok x = true | None => True end ->
  shacl_read (shacl_line_fields p u pat) = Some ([p; u] ++ match pat with Some (c :: x) => [c :: x] | _ => [] end).
Proof.
  intros Hp Hu Hpat. unfold shacl_read, shacl_line_fields.
  cbn [map app all_some]. rewrite !turtle_roundtrip by (apply printable_turtle_safe; auto).
  destruct pat as [[|c x]|]; cbn [map all_some app]; auto.
  rewrite turtle_roundtrip by (apply printable_turtle_safe; auto). reflexivity.
Qed.

(* ---- TSV: over the printable alphabet nothing is quoted and the line splits back ---- *)
Lemma printable_no_quote s : printable_ok s = true -> needs_quote s = false /\ ~ In 9%N s.
Proof.
  unfold printable_ok, needs_quote. intro H. rewrite forallb_forall in H. split.
  - match goal with |- existsb ?f s = false => destruct (existsb f s) eqn:E end; auto. apply existsb_exists in E as (c & Hc & E). specialize (H c Hc).
    repeat (apply andb_true_iff in H as [H ?]). apply N.leb_le in H. apply negb_true_iff in H3.
    repeat (apply orb_true_iff in E as [E|E]); apply N.eqb_eq in E; subst; try lia. discriminate.
  - intro Hin. specialize (H _ Hin). repeat (apply andb_true_iff in H as [H ?]). apply N.leb_le in H. lia.
Qed.
Lemma split_tab_go s : forall cur u, ~ In 9%N s ->
  (fix go (s cur : str) : list str :=
     match s with [] => [rev cur] | c :: t => if N.eqb c 9 then rev cur :: go t [] else go t (c :: cur) end) (s ++ u) cur
  = (fix go (s cur : str) : list str :=
     match s with [] => [rev cur] | c :: t => if N.eqb c 9 then rev cur :: go t [] else go t (c :: cur) end) u (rev s ++ cur).
Proof.
  induction s as [|c s IH]; intros cur u H; simpl; auto.
  destruct (N.eqb_spec c 9); [exfalso; apply H; left; auto|]. rewrite IH by (intro; apply H; right; auto).
  rewrite <- app_assoc. reflexivity.
Qed.
Theorem tsv_roundtrip p u : printable_ok p = true -> printable_ok u = true ->
  exists line, tsv_line p u = Some line /\ split_tab line = [p; u].
Proof.
  intros Hp Hu. destruct (printable_no_quote p Hp) as [Q1 T1]. destruct (printable_no_quote u Hu) as [Q2 T2].
  unfold tsv_line. rewrite Q1, Q2. cbn [orb]. eexists. split; [reflexivity|].
  unfold split_tab. etransitivity; [exact (split_tab_go p [] ([9%N] ++ u) T1)|].
  cbn [app]. rewrite app_nil_r, rev_involutive. f_equal.
  pose proof (split_tab_go u [] [] T2) as E. rewrite app_nil_r in E. etransitivity; [exact E|].
  rewrite app_nil_r, rev_involutive. reflexivity.
Qed.

(* ---- the observation of the run is the property stated on the records alone ---- *)
Lemma all_some_map_ok {A B} (f : A -> option B) (g : A -> B) l : (forall x, In x l -> f x = Some (g x)) -> all_some (map f l) = Some (map g l).
Proof.
  induction l as [|a l IH]; intro H; simpl; auto.
  rewrite (H a) by (left; auto). rewrite IH by (intros; apply H; right; auto). reflexivity.
Qed.
Lemma nodup_written syn rs : NoDup (flat_map all_prefixes rs) -> NoDup (flat_map (written_prefixes syn) rs).
Proof.
  destruct syn; [exact (fun H => H)|].
  induction rs as [|r rs IH]; simpl; intro H; [constructor|].
  unfold all_prefixes in H. simpl in H. inversion H as [|x l Hx Hl]; subst. constructor.
  - intro Hin. apply Hx. apply in_or_app. right. apply in_flat_map in Hin as (r' & Hr' & Hin).
    apply in_flat_map. exists r'. split; auto. simpl in Hin. destruct Hin as [<-|[]]. left; auto.
  - apply IH. apply NoDup_app_inv in Hl. apply Hl.
Qed.

Theorem model_is_spec rs fmt syn ex : valid_wr rs fmt = true -> model_wobs rs fmt syn ex = spec_wobs rs fmt syn.
Proof.
  unfold valid_wr, model_wobs, spec_wobs. rewrite andb_true_iff. intros [S V].
  destruct (Z.eqb fmt 0); [rewrite epm_roundtrip_all; reflexivity|].
  destruct (Z.eqb fmt 1).
  { rewrite jsonld_roundtrip; auto.
    - apply nodup_written. unfold strict_okb in S. apply andb_true_iff in S as [S _]. apply nodup_str_spec; exact S.
    - intros r p Hr Hp. rewrite forallb_forall in V. specialize (V r Hr). rewrite forallb_forall in V. apply V.
      unfold written_prefixes in Hp. unfold all_prefixes. destruct Hp as [<-|Hp]; [left; auto|]. destruct syn; [right; auto|destruct Hp]. }
  destruct (Z.eqb fmt 2).
  { apply andb_true_iff in V as [_ V]. rewrite forallb_forall in V.
    erewrite all_some_map_ok; [reflexivity|]. intros r Hr. specialize (V r Hr).
    apply andb_true_iff in V as [V Vp]. apply andb_true_iff in V as [Va Vu]. rewrite forallb_forall in Va.
    apply shacl_roundtrip; auto. apply Va. left; auto. destruct (r_pat r); auto. }
  rewrite forallb_forall in V.
  assert (E: all_some (map (fun r => tsv_line (r_prefix r) (r_uri r)) rs) = Some (map (fun r => r_prefix r ++ [9%N] ++ r_uri r) rs)).
  { apply all_some_map_ok. intros r Hr. specialize (V r Hr). apply andb_true_iff in V as [Vp Vu].
    destruct (printable_no_quote _ Vp) as [Q1 _]. destruct (printable_no_quote _ Vu) as [Q2 _]. unfold tsv_line. rewrite Q1, Q2. reflexivity. }
  rewrite E. f_equal. f_equal. clear E S. revert V. induction rs as [|r rs IH]; intro V; simpl; auto.
  assert (Vr := V r (or_introl eq_refl)). apply andb_true_iff in Vr as [Vp Vu].
  destruct (tsv_roundtrip _ _ Vp Vu) as (line & L & Sp).
  destruct (printable_no_quote _ Vp) as [Q1 _]. destruct (printable_no_quote _ Vu) as [Q2 _]. unfold tsv_line in L. rewrite Q1, Q2 in L.
  cbn [orb] in L. inversion L; subst line. cbn [app] in Sp. rewrite Sp. cbn [app]. f_equal. apply IH. intros x Hx. apply V. right; auto.
Qed.

(* C09: chain is a priority union, get_subconverter a restriction. *)
From Coq Require Import Lia Permutation.
From Curies.model Require Import Str PyData Trie Conv Query Val Answer Spec CheckQ Mutate.
From Curies.proofs Require Import StrFacts TrieFacts DictFacts IndexFacts QueryFacts CheckFacts C04Facts MutateFacts LawFacts.

Lemma empty_swf : swf empty_conv.
Proof.
  unfold swf, empty_conv. simpl. split; [|split; constructor].
  constructor; simpl; auto; try (intros r1 r2 k []); try tauto.
  intro u. apply find_empty.
Qed.

Section C.
Variable fold_c : chr -> str.
Notation add_record := (add_record fold_c).
Notation matches_record := (matches_record fold_c).

(* the fold of chain *)
Definition absorb (acc : res conv) (rs : list record) (sens : bool) : res conv :=
  fold_left (fun acc r => bind acc (fun a => add_record a r sens true)) rs acc.
Lemma absorb_raise rs sens e : absorb (Raise e) rs sens = Raise e.
Proof. induction rs; simpl; auto. Qed.
Lemma chain_absorb cs sens : cs <> [] -> chain fold_c cs sens = absorb (Val empty_conv) (flat_map recs cs) sens.
Proof. destruct cs; [congruence|reflexivity]. Qed.

(* descendant: y' continues y -- same canonical prefix / URI prefix / pattern, all keys kept *)
Definition continues (y y' : record) : Prop :=
  r_prefix y' = r_prefix y /\ r_uri y' = r_uri y /\ r_pat y' = r_pat y /\
  (forall k, In k (all_prefixes y) -> In k (all_prefixes y')) /\ (forall k, In k (all_uris y) -> In k (all_uris y')).
Lemma continues_refl y : continues y y.
Proof. unfold continues. tauto. Qed.
Lemma continues_trans a b c : continues a b -> continues b c -> continues a c.
Proof. unfold continues. intros (A1 & A2 & A3 & A4 & A5) (B1 & B2 & B3 & B4 & B5). repeat split; try congruence; auto. Qed.

(* one accepted step: every old record has a descendant; the new record's keys end up inside one record;
   no key is invented *)
Lemma step_facts c r cs c' : swf c -> add_record c r cs true = Val c' ->
  (forall y, In y (recs c) -> exists y', In y' (recs c') /\ continues y y') /\
  (exists y', In y' (recs c') /\ (forall k, In k (all_prefixes r) -> In k (all_prefixes y')) /\ (forall k, In k (all_uris r) -> In k (all_uris y'))
              /\ ((y' = r /\ forall r0, In r0 (recs c) -> matches_record cs r r0 = false) \/ exists m, In m (recs c) /\ continues m y')) /\
  (forall y', In y' (recs c') -> forall k, (In k (all_prefixes y') -> In k (all_prefixes r) \/ exists y, In y (recs c) /\ In k (all_prefixes y)) /\
                                             (In k (all_uris y') -> In k (all_uris r) \/ exists y, In y (recs c) /\ In k (all_uris y))).
Proof.
  intros S H. destruct (add_record_accept fold_c c r cs true c' S H) as [[E NM]|(m & Hm & Hmm & _ & E & P1 & P2 & P3 & Ap & Au)].
  - rewrite E. repeat split.
    + intros y Hy. exists y. split; [apply in_or_app; auto|apply continues_refl].
    + exists r. split; [apply in_or_app; right; left; auto|]. repeat split; auto.
    + intro Hk. apply in_app_or in H0 as [Hy|[<-|[]]]; eauto.
    + intro Hk. apply in_app_or in H0 as [Hy|[<-|[]]]; eauto.
  - rewrite E. set (m' := merge r m) in *.
    assert (Cm: continues m m').
    { repeat split; auto; intros k Hk; [apply Ap|apply Au]; auto. }
    assert (Hm': In m' (map (repl m m') (recs c))).
    { apply in_map_iff. exists m. split; auto. unfold repl. rewrite key_eqb_refl. reflexivity. }
    repeat split.
    + intros y Hy. unfold repl. destruct (key_eqb (record_key y) (record_key m)) eqn:K.
      * apply (isM_spec (recs c)) in K; [|apply S|auto|auto]. subst y. eauto.
      * exists y. split; [|apply continues_refl]. apply in_map_iff. exists y. unfold repl. rewrite K. auto.
    + exists m'. split; auto. repeat split; [intros k Hk; apply Ap; auto|intros k Hk; apply Au; auto|right; eauto].
    + intro Hk. apply in_map_iff in H0 as (y & Ey & Hy). unfold repl in Ey.
      destruct (key_eqb (record_key y) (record_key m)); subst y'; [|eauto]. apply Ap in Hk as [Hk|Hk]; eauto.
    + intro Hk. apply in_map_iff in H0 as (y & Ey & Hy). unfold repl in Ey.
      destruct (key_eqb (record_key y) (record_key m)); subst y'; [|eauto]. apply Au in Hk as [Hk|Hk]; eauto.
Qed.

(* all the facts about absorbing a list of records, by induction *)
Definition known_p (c : conv) (k : str) : Prop := exists y, In y (recs c) /\ In k (all_prefixes y).
Definition known_u (c : conv) (k : str) : Prop := exists y, In y (recs c) /\ In k (all_uris y).

Lemma absorb_facts rs sens : forall c R, swf c -> absorb (Val c) rs sens = Val R ->
  swf R /\
  (forall y, In y (recs c) -> exists y', In y' (recs R) /\ continues y y') /\
  (forall r, In r rs -> exists y', In y' (recs R) /\ (forall k, In k (all_prefixes r) -> In k (all_prefixes y')) /\
                                                    (forall k, In k (all_uris r) -> In k (all_uris y'))) /\
  (forall k, known_p R k -> known_p c k \/ exists r, In r rs /\ In k (all_prefixes r)) /\
  (forall k, known_u R k -> known_u c k \/ exists r, In r rs /\ In k (all_uris r)).
Proof.
  induction rs as [|r rs IH]; intros c R S H; simpl in H.
  - inversion H; subst. repeat split; auto.
    + intros y Hy. exists y. split; auto. apply continues_refl.
    + intros r [].
  - destruct (add_record c r sens true) as [c1|e] eqn:E; simpl in H; [|unfold absorb in H; rewrite absorb_raise in H; discriminate].
    pose proof (add_record_swf fold_c c r sens true c1 S E) as S1.
    destruct (step_facts c r sens c1 S E) as (F1 & (yr & Hyr & Fp & Fu & _) & F3).
    destruct (IH c1 R S1 H) as (SR & G1 & G2 & G3 & G4). repeat split; auto.
    + intros y Hy. destruct (F1 y Hy) as (y1 & Hy1 & C1). destruct (G1 y1 Hy1) as (y2 & Hy2 & C2).
      exists y2. split; auto. eapply continues_trans; eauto.
    + intros r0 [<-|Hr0]; [|apply G2; auto].
      destruct (G1 yr Hyr) as (y2 & Hy2 & (_ & _ & _ & C4 & C5)). exists y2. repeat split; auto.
    + intros k Hk. apply G3 in Hk as [(y1 & Hy1 & Hk1)|(r0 & Hr0 & Hk0)].
      * apply (F3 y1 Hy1 k) in Hk1 as [Hk1|(y & Hy & Hky)]; [right; exists r; split; [left|]; auto|left; exists y; auto].
      * right. exists r0. split; [right|]; auto.
    + intros k Hk. apply G4 in Hk as [(y1 & Hy1 & Hk1)|(r0 & Hr0 & Hk0)].
      * apply (F3 y1 Hy1 k) in Hk1 as [Hk1|(y & Hy & Hky)]; [right; exists r; split; [left|]; auto|left; exists y; auto].
      * right. exists r0. split; [right|]; auto.
Qed.

Lemma absorb_errors rs sens : forall c e, swf c -> absorb (Val c) rs sens = Raise e -> e = EValueError.
Proof.
  induction rs as [|r rs IH]; intros c e S H; simpl in H; [discriminate|].
  destruct (add_record c r sens true) as [c1|e1] eqn:E; simpl in H.
  - eapply IH; eauto. eapply add_record_swf; eauto.
  - unfold absorb in H. rewrite absorb_raise in H. inversion H; subst. eapply add_record_reject; eauto.
Qed.

(* C09_raise_or_wf *)
Theorem chain_outcome cs sens : chain fold_c cs sens = Raise EValueError \/ exists R, chain fold_c cs sens = Val R /\ swf R.
Proof.
  destruct cs as [|c0 cs']; [left; reflexivity|]. rewrite chain_absorb by discriminate.
  destruct (absorb (Val empty_conv) (flat_map recs (c0 :: cs')) sens) as [R|e] eqn:E.
  - right. exists R. split; auto. apply (absorb_facts _ sens empty_conv R empty_swf E).
  - left. f_equal. eapply absorb_errors; eauto. apply empty_swf.
Qed.

(* C09_union and C09_grouping *)
Theorem chain_union cs sens R : chain fold_c cs sens = Val R ->
  (forall k, known_p R k <-> exists c r, In c cs /\ In r (recs c) /\ In k (all_prefixes r)) /\
  (forall k, known_u R k <-> exists c r, In c cs /\ In r (recs c) /\ In k (all_uris r)) /\
  (forall c r, In c cs -> In r (recs c) -> exists y, In y (recs R) /\
       (forall k, In k (all_prefixes r) -> In k (all_prefixes y)) /\ (forall k, In k (all_uris r) -> In k (all_uris y))).
Proof.
  intro H. destruct cs as [|c0 cs']; [discriminate|]. rewrite chain_absorb in H by discriminate.
  destruct (absorb_facts _ sens empty_conv R empty_swf H) as (_ & _ & G2 & G3 & G4).
  assert (Fl: forall r, In r (flat_map recs (c0 :: cs')) <-> exists c, In c (c0 :: cs') /\ In r (recs c)) by (intro r; apply in_flat_map).
  repeat split.
  - intro Hk. apply G3 in Hk as [(y & [] & _)|(r & Hr & Hk)]. apply Fl in Hr as (c & Hc & Hr). eauto.
  - intros (c & r & Hc & Hr & Hk). destruct (G2 r) as (y & Hy & Ap & _); [apply Fl; eauto|]. exists y. auto.
  - intro Hk. apply G4 in Hk as [(y & [] & _)|(r & Hr & Hk)]. apply Fl in Hr as (c & Hc & Hr). eauto.
  - intros (c & r & Hc & Hr & Hk). destruct (G2 r) as (y & Hy & _ & Au); [apply Fl; eauto|]. exists y. auto.
  - intros c r Hc Hr. apply G2. apply Fl. eauto.
Qed.

(* ---- case-sensitive: the first converter wins ---- *)
Lemma strict_no_match c r0 r : pairwise (disjoint_keys all_prefixes) (recs c) -> pairwise (disjoint_keys all_uris) (recs c) ->
  In r0 (recs c) -> In r (recs c) -> r0 <> r -> matches_record true r r0 = false.
Proof.
  intros Pp Pu H0 H Hne. unfold Mutate.matches_record.
  pose proof (pairwise_in_neq _ (disjoint_keys_sym all_prefixes) _ r r0 Pp H H0 (not_eq_sym Hne)) as Dp.
  pose proof (pairwise_in_neq _ (disjoint_keys_sym all_uris) _ r r0 Pu H H0 (not_eq_sym Hne)) as Du.
  apply orb_false_iff. split.
  - destruct (existsb _ (all_prefixes r)) eqn:E; auto. apply existsb_exists in E as (p & Hp & E). exfalso.
    apply orb_true_iff in E as [E|E].
    + simpl in E. apply str_eqb_eq in E. apply (Dp p); auto. subst. left; auto.
    + unfold in_cs in E. apply existsb_exists in E as (q & Hq & E). simpl in E. apply str_eqb_eq in E. subst. apply (Dp q); auto. right; auto.
  - destruct (existsb _ (all_uris r)) eqn:E; auto. apply existsb_exists in E as (p & Hp & E). exfalso.
    apply orb_true_iff in E as [E|E].
    + simpl in E. apply str_eqb_eq in E. apply (Du p); auto. subst. left; auto.
    + unfold in_cs in E. apply existsb_exists in E as (q & Hq & E). simpl in E. apply str_eqb_eq in E. subst. apply (Du q); auto. right; auto.
Qed.
End C.

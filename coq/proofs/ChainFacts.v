(* C09: chain is a priority union, get_subconverter a restriction. *)
From Coq Require Import Lia Permutation.
From Curies.model Require Import Str PyData Trie Conv Query Val Answer Spec CheckQ Mutate.
From Curies.proofs Require Import StrFacts TrieFacts DictFacts IndexFacts QueryFacts CheckFacts C04Facts MutateFacts LawFacts.

Lemma empty_swf : swf empty_conv.
Proof.
  unfold swf, empty_conv. simpl. split; [|split; constructor].
  constructor; simpl; auto; try (intros r1 r2 k []); try tauto.
  intro u. apply find_empty.
Qed.

Section C.
Variable fold_c : chr -> str.
Notation add_record := (add_record fold_c).
Notation matches_record := (matches_record fold_c).

(* the fold of chain *)
Definition absorb (acc : res conv) (rs : list record) (sens : bool) : res conv :=
  fold_left (fun acc r => bind acc (fun a => add_record a r sens true)) rs acc.
Lemma absorb_raise rs sens e : absorb (Raise e) rs sens = Raise e.
Proof. induction rs; simpl; auto. Qed.
Lemma absorb_cons c r rs sens : absorb (Val c) (r :: rs) sens = absorb (add_record c r sens true) rs sens.
Proof. reflexivity. Qed.
Lemma chain_absorb cs sens : cs <> [] -> chain fold_c cs sens = absorb (Val empty_conv) (flat_map recs cs) sens.
Proof. destruct cs; [congruence|reflexivity]. Qed.

(* descendant: y' continues y -- same canonical prefix / URI prefix / pattern, all keys kept *)
Definition continues (y y' : record) : Prop :=
  r_prefix y' = r_prefix y /\ r_uri y' = r_uri y /\ r_pat y' = r_pat y /\
  (forall k, In k (all_prefixes y) -> In k (all_prefixes y')) /\ (forall k, In k (all_uris y) -> In k (all_uris y')).
Lemma continues_refl y : continues y y.
Proof. unfold continues. tauto. Qed.
Lemma continues_trans a b c : continues a b -> continues b c -> continues a c.
Proof. unfold continues. intros (A1 & A2 & A3 & A4 & A5) (B1 & B2 & B3 & B4 & B5). repeat split; try congruence; auto. Qed.

(* one accepted step: every old record has a descendant; the new record's keys end up inside one record;
   no key is invented *)
Lemma step_facts c r cs c' : swf c -> add_record c r cs true = Val c' ->
  (forall y, In y (recs c) -> exists y', In y' (recs c') /\ continues y y') /\
  (exists y', In y' (recs c') /\ (forall k, In k (all_prefixes r) -> In k (all_prefixes y')) /\ (forall k, In k (all_uris r) -> In k (all_uris y'))
              /\ ((y' = r /\ forall r0, In r0 (recs c) -> matches_record cs r r0 = false) \/ exists m, In m (recs c) /\ continues m y')) /\
  (forall y', In y' (recs c') -> forall k, (In k (all_prefixes y') -> In k (all_prefixes r) \/ exists y, In y (recs c) /\ In k (all_prefixes y)) /\
                                             (In k (all_uris y') -> In k (all_uris r) \/ exists y, In y (recs c) /\ In k (all_uris y))).
Proof.
  intros S H. destruct (add_record_accept fold_c c r cs true c' S H) as [[E NM]|(m & Hm & Hmm & _ & E & P1 & P2 & P3 & Ap & Au)].
  - rewrite E. repeat split.
    + intros y Hy. exists y. split; [apply in_or_app; auto|apply continues_refl].
    + exists r. split; [apply in_or_app; right; left; auto|]. repeat split; auto.
    + intro Hk. apply in_app_or in H0 as [Hy|[<-|[]]]; eauto.
    + intro Hk. apply in_app_or in H0 as [Hy|[<-|[]]]; eauto.
  - rewrite E. set (m' := merge r m) in *.
    assert (Cm: continues m m').
    { repeat split; auto; intros k Hk; [apply Ap|apply Au]; auto. }
    assert (Hm': In m' (map (repl m m') (recs c))).
    { apply in_map_iff. exists m. split; auto. unfold repl. rewrite key_eqb_refl. reflexivity. }
    repeat split.
    + intros y Hy. unfold repl. destruct (key_eqb (record_key y) (record_key m)) eqn:K.
      * apply (isM_spec (recs c)) in K; [|apply S|auto|auto]. subst y. eauto.
      * exists y. split; [|apply continues_refl]. apply in_map_iff. exists y. unfold repl. rewrite K. auto.
    + exists m'. split; auto. repeat split; [intros k Hk; apply Ap; auto|intros k Hk; apply Au; auto|right; eauto].
    + intro Hk. apply in_map_iff in H0 as (y & Ey & Hy). unfold repl in Ey.
      destruct (key_eqb (record_key y) (record_key m)); subst y'; [|eauto]. apply Ap in Hk as [Hk|Hk]; eauto.
    + intro Hk. apply in_map_iff in H0 as (y & Ey & Hy). unfold repl in Ey.
      destruct (key_eqb (record_key y) (record_key m)); subst y'; [|eauto]. apply Au in Hk as [Hk|Hk]; eauto.
Qed.

(* all the facts about absorbing a list of records, by induction *)
Definition known_p (c : conv) (k : str) : Prop := exists y, In y (recs c) /\ In k (all_prefixes y).
Definition known_u (c : conv) (k : str) : Prop := exists y, In y (recs c) /\ In k (all_uris y).

Lemma absorb_facts rs sens : forall c R, swf c -> absorb (Val c) rs sens = Val R ->
  swf R /\
  (forall y, In y (recs c) -> exists y', In y' (recs R) /\ continues y y') /\
  (forall r, In r rs -> exists y', In y' (recs R) /\ (forall k, In k (all_prefixes r) -> In k (all_prefixes y')) /\
                                                    (forall k, In k (all_uris r) -> In k (all_uris y'))) /\
  (forall k, known_p R k -> known_p c k \/ exists r, In r rs /\ In k (all_prefixes r)) /\
  (forall k, known_u R k -> known_u c k \/ exists r, In r rs /\ In k (all_uris r)).
Proof.
  induction rs as [|r rs IH]; intros c R S H; [simpl in H|rewrite absorb_cons in H].
  - inversion H; subst. refine (conj S (conj _ (conj _ (conj _ _)))); auto.
    + intros y Hy. exists y. split; auto. apply continues_refl.
    + intros r [].
  - destruct (add_record c r sens true) as [c1|e] eqn:E; [|rewrite absorb_raise in H; discriminate].
    pose proof (add_record_swf fold_c c r sens true c1 S E) as S1.
    destruct (step_facts c r sens c1 S E) as (F1 & (yr & Hyr & Fp & Fu & _) & F3).
    destruct (IH c1 R S1 H) as (SR & G1 & G2 & G3 & G4). refine (conj SR (conj _ (conj _ (conj _ _)))).
    + intros y Hy. destruct (F1 y Hy) as (y1 & Hy1 & C1). destruct (G1 y1 Hy1) as (y2 & Hy2 & C2).
      exists y2. split; auto. eapply continues_trans; eauto.
    + intros r0 [<-|Hr0]; [|apply G2; auto].
      destruct (G1 yr Hyr) as (y2 & Hy2 & (_ & _ & _ & C4 & C5)). exists y2. repeat split; auto.
    + intros k Hk. apply G3 in Hk as [(y1 & Hy1 & Hk1)|(r0 & Hr0 & Hk0)].
      * apply (F3 y1 Hy1 k) in Hk1 as [Hk1|(y & Hy & Hky)]; [right; exists r; split; [left|]; auto|left; exists y; auto].
      * right. exists r0. split; [right|]; auto.
    + intros k Hk. apply G4 in Hk as [(y1 & Hy1 & Hk1)|(r0 & Hr0 & Hk0)].
      * apply (F3 y1 Hy1 k) in Hk1 as [Hk1|(y & Hy & Hky)]; [right; exists r; split; [left|]; auto|left; exists y; auto].
      * right. exists r0. split; [right|]; auto.
Qed.

Lemma absorb_errors rs sens : forall c e, swf c -> absorb (Val c) rs sens = Raise e -> e = EValueError.
Proof.
  induction rs as [|r rs IH]; intros c e S H; [simpl in H; discriminate|rewrite absorb_cons in H].
  destruct (add_record c r sens true) as [c1|e1] eqn:E.
  - apply (IH c1 e); auto. eapply add_record_swf; eauto.
  - rewrite absorb_raise in H. inversion H; subst. eapply add_record_reject; eauto.
Qed.

(* C09_raise_or_wf *)
Theorem chain_outcome cs sens : chain fold_c cs sens = Raise EValueError \/ exists R, chain fold_c cs sens = Val R /\ swf R.
Proof.
  destruct cs as [|c0 cs']; [left; reflexivity|]. rewrite chain_absorb by discriminate.
  destruct (absorb (Val empty_conv) (flat_map recs (c0 :: cs')) sens) as [R|e] eqn:E.
  - right. exists R. split; auto. apply (absorb_facts _ sens empty_conv R empty_swf E).
  - left. f_equal. eapply absorb_errors; eauto. apply empty_swf.
Qed.

(* C09_union and C09_grouping *)
Theorem chain_union cs sens R : chain fold_c cs sens = Val R ->
  (forall k, known_p R k <-> exists c r, In c cs /\ In r (recs c) /\ In k (all_prefixes r)) /\
  (forall k, known_u R k <-> exists c r, In c cs /\ In r (recs c) /\ In k (all_uris r)) /\
  (forall c r, In c cs -> In r (recs c) -> exists y, In y (recs R) /\
       (forall k, In k (all_prefixes r) -> In k (all_prefixes y)) /\ (forall k, In k (all_uris r) -> In k (all_uris y))).
Proof.
  intro H. destruct cs as [|c0 cs']; [discriminate|]. rewrite chain_absorb in H by discriminate.
  destruct (absorb_facts _ sens empty_conv R empty_swf H) as (_ & _ & G2 & G3 & G4).
  assert (Fl: forall r, In r (flat_map recs (c0 :: cs')) <-> exists c, In c (c0 :: cs') /\ In r (recs c)) by (intro r; apply in_flat_map).
  repeat split.
  - intro Hk. apply G3 in Hk as [(y & [] & _)|(r & Hr & Hk)]. apply Fl in Hr as (c & Hc & Hr). eauto.
  - intros (c & r & Hc & Hr & Hk). destruct (G2 r) as (y & Hy & Ap & _); [apply Fl; eauto|]. exists y. auto.
  - intro Hk. apply G4 in Hk as [(y & [] & _)|(r & Hr & Hk)]. apply Fl in Hr as (c & Hc & Hr). eauto.
  - intros (c & r & Hc & Hr & Hk). destruct (G2 r) as (y & Hy & _ & Au); [apply Fl; eauto|]. exists y. auto.
  - intros c r Hc Hr. apply G2. apply Fl. eauto.
Qed.

(* ---- case-sensitive: the first converter wins ---- *)
Lemma strict_no_match c r0 r : pairwise (disjoint_keys all_prefixes) (recs c) -> pairwise (disjoint_keys all_uris) (recs c) ->
  In r0 (recs c) -> In r (recs c) -> r0 <> r -> matches_record true r r0 = false.
Proof.
  intros Pp Pu H0 H Hne. unfold Mutate.matches_record.
  pose proof (pairwise_in_neq _ (disjoint_keys_sym all_prefixes) _ r r0 Pp H H0 (not_eq_sym Hne)) as Dp.
  pose proof (pairwise_in_neq _ (disjoint_keys_sym all_uris) _ r r0 Pu H H0 (not_eq_sym Hne)) as Du.
  apply orb_false_iff. split.
  - destruct (existsb _ (all_prefixes r)) eqn:E; auto. apply existsb_exists in E as (p & Hp & E). exfalso.
    apply orb_true_iff in E as [E|E].
    + simpl in E. apply str_eqb_eq in E. apply (Dp p); auto. subst. left; auto.
    + unfold in_cs in E. apply existsb_exists in E as (q & Hq & E). simpl in E. apply str_eqb_eq in E. subst. apply (Dp q); auto. right; auto.
  - destruct (existsb _ (all_uris r)) eqn:E; auto. apply existsb_exists in E as (p & Hp & E). exfalso.
    apply orb_true_iff in E as [E|E].
    + simpl in E. apply str_eqb_eq in E. apply (Du p); auto. subst. left; auto.
    + unfold in_cs in E. apply existsb_exists in E as (q & Hq & E). simpl in E. apply str_eqb_eq in E. subst. apply (Du q); auto. right; auto.
Qed.
End C.

Section C2.
Variable fold_c : chr -> str.
Notation add_record := (add_record fold_c).
Notation matches_record := (matches_record fold_c).
Notation absorb := (absorb fold_c).

Lemma disjoint_no_match r r0 : disjoint_keys all_prefixes r r0 -> disjoint_keys all_uris r r0 -> matches_record true r r0 = false.
Proof.
  intros Dp Du. unfold Mutate.matches_record. apply orb_false_iff. split.
  - destruct (existsb _ (all_prefixes r)) eqn:E; auto. apply existsb_exists in E as (p & Hp & E). exfalso.
    apply orb_true_iff in E as [E|E].
    + simpl in E. apply str_eqb_eq in E. apply (Dp p); auto. subst. left; auto.
    + unfold in_cs in E. apply existsb_exists in E as (q & Hq & E). simpl in E. apply str_eqb_eq in E. subst. apply (Dp q); auto. right; auto.
  - destruct (existsb _ (all_uris r)) eqn:E; auto. apply existsb_exists in E as (p & Hp & E). exfalso.
    apply orb_true_iff in E as [E|E].
    + simpl in E. apply str_eqb_eq in E. apply (Du p); auto. subst. left; auto.
    + unfold in_cs in E. apply existsb_exists in E as (q & Hq & E). simpl in E. apply str_eqb_eq in E. subst. apply (Du q); auto. right; auto.
Qed.

Lemma pairwise_app_inv {A} (R : A -> A -> Prop) l1 l2 : pairwise R (l1 ++ l2) ->
  pairwise R l1 /\ pairwise R l2 /\ forall a b, In a l1 -> In b l2 -> R a b.
Proof.
  induction l1 as [|x l1 IH]; simpl; intro H.
  - repeat split; auto; [constructor|intros a b []].
  - inversion H as [|? ? Hx Hl]; subst. destruct (IH Hl) as (A1 & A2 & A3). repeat split; auto.
    + constructor; auto. intros b Hb. apply Hx. apply in_or_app; auto.
    + intros a b [<-|Ha] Hb; auto. apply Hx. apply in_or_app; auto.
Qed.

(* absorbing pairwise-disjoint records case-sensitively never merges: they are appended in order *)
Lemma absorb_strict rs : forall c, swf c ->
  pairwise (disjoint_keys all_prefixes) (recs c ++ rs) -> pairwise (disjoint_keys all_uris) (recs c ++ rs) ->
  exists c', absorb (Val c) rs true = Val c' /\ recs c' = recs c ++ rs /\ swf c'.
Proof.
  induction rs as [|r rs IH]; intros c S Pp Pu.
  - exists c. rewrite app_nil_r. auto.
  - rewrite absorb_cons.
    assert (NM: forall r0, In r0 (recs c) -> matches_record true r r0 = false).
    { intros r0 H0. apply disjoint_no_match; apply disjoint_keys_sym.
      - destruct (pairwise_app_inv _ _ _ Pp) as (_ & _ & H). apply H; [auto|left; auto].
      - destruct (pairwise_app_inv _ _ _ Pu) as (_ & _ & H). apply H; [auto|left; auto]. }
    pose proof (add_record_cases fold_c c r true true S) as C.
    assert (F: filter (matches_record true r) (recs c) = []).
    { destruct (filter _ (recs c)) as [|x l] eqn:E; auto. exfalso.
      assert (Hx: In x (filter (matches_record true r) (recs c))) by (rewrite E; left; auto).
      apply filter_In in Hx as [H1 H2]. rewrite NM in H2; auto. discriminate. }
    rewrite F in C. rewrite C.
    destruct (IH (index c r (recs c ++ [r]))) as (c' & E' & R' & S').
    + apply (swf_append fold_c c r true); auto.
    + simpl. rewrite <- app_assoc. exact Pp.
    + simpl. rewrite <- app_assoc. exact Pu.
    + exists c'. split; auto. split; auto. rewrite R'. simpl. rewrite <- app_assoc. reflexivity.
Qed.

(* C09_singleton *)
Theorem chain_singleton c : swf c -> exists R, chain fold_c [c] true = Val R /\ recs R = recs c /\ swf R.
Proof.
  intro S. rewrite chain_absorb by discriminate. simpl. rewrite app_nil_r.
  destruct S as (W & Pp & Pu).
  destruct (absorb_strict (recs c) empty_conv (empty_swf)) as (R & E & Er & SR); auto.
  exists R. auto.
Qed.

(* C09_priority: in case-sensitive mode every record of the first converter survives with its canonical prefix,
   canonical URI prefix and pattern, and keeps all its keys *)
Theorem chain_priority c1 cs R : swf c1 -> chain fold_c (c1 :: cs) true = Val R ->
  forall y, In y (recs c1) -> exists y', In y' (recs R) /\ continues y y'.
Proof.
  intros S H. rewrite chain_absorb in H by discriminate. simpl in H.
  unfold ChainFacts.absorb in H. rewrite fold_left_app in H. fold (absorb (Val empty_conv) (recs c1) true) in H.
  destruct S as (W & Pp & Pu).
  destruct (absorb_strict (recs c1) empty_conv empty_swf) as (c' & E & Er & S'); auto.
  rewrite E in H. fold (absorb (Val c') (flat_map recs cs) true) in H.
  destruct (absorb_facts fold_c _ true c' R S' H) as (_ & G1 & _). intros y Hy. apply G1. rewrite Er. auto.
Qed.
Theorem chain_priority_expand c1 cs R p i st pa : swf c1 -> chain fold_c (c1 :: cs) true = Val R ->
  (exists y, In y (recs c1) /\ In p (all_prefixes y)) ->
  expand_pair R p i st pa = expand_pair c1 p i st pa.
Proof.
  intros S H (y & Hy & Hp).
  destruct (chain_priority c1 cs R S H y Hy) as (y' & Hy' & (_ & Eu & _ & Kp & _)).
  destruct (chain_outcome fold_c (c1 :: cs) true) as [E|(R' & E & SR)]; [congruence|]. rewrite H in E. inversion E; subst R'.
  destruct S as (W1 & Pp1 & _). destruct SR as (WR & PpR & _).
  unfold expand_pair, expand_reference. simpl.
  rewrite (wf_pmap _ _ _ W1), (wf_pmap _ _ _ WR). unfold owner_by_prefix.
  fold (owner all_prefixes (recs c1) p). fold (owner all_prefixes (recs R) p).
  rewrite (owner_reg all_prefixes (recs c1) p y), (owner_reg all_prefixes (recs R) p y'); auto; try (apply pairwise_one_owner; auto).
  simpl. rewrite Eu. reflexivity.
Qed.

(* ---- case-insensitive mode: no two records of the result hold keys equal up to case ---- *)
Definition ci_disjoint (a b : record) : Prop :=
  (forall ka kb, In ka (all_prefixes a) -> In kb (all_prefixes b) -> casefold fold_c ka <> casefold fold_c kb) /\
  (forall ka kb, In ka (all_uris a) -> In kb (all_uris b) -> casefold fold_c ka <> casefold fold_c kb).
Lemma ci_disjoint_sym a b : ci_disjoint a b -> ci_disjoint b a.
Proof. intros [A B]. split; intros ka kb Ha Hb E; [eapply A|eapply B]; eauto. Qed.
Lemma no_match_ci ext r : matches_record false ext r = false -> ci_disjoint ext r.
Proof.
  unfold Mutate.matches_record. intro H. apply orb_false_iff in H as [H1 H2]. split; intros ka kb Ha Hb E.
  - pose proof (existsb_false _ _ H1 ka Ha) as H. apply orb_false_iff in H as [A B].
    destruct Hb as [<-|Hb].
    + unfold eq_cs in A. rewrite E, str_eqb_refl in A. discriminate.
    + unfold in_cs in B. pose proof (existsb_false _ _ B kb Hb) as B'. unfold eq_cs in B'. rewrite E, str_eqb_refl in B'. discriminate.
  - pose proof (existsb_false _ _ H2 ka Ha) as H. apply orb_false_iff in H as [A B].
    destruct Hb as [<-|Hb].
    + unfold eq_cs in A. rewrite E, str_eqb_refl in A. discriminate.
    + unfold in_cs in B. pose proof (existsb_false _ _ B kb Hb) as B'. unfold eq_cs in B'. rewrite E, str_eqb_refl in B'. discriminate.
Qed.

Lemma ci_step c r c' : swf c -> pairwise ci_disjoint (recs c) -> add_record c r false true = Val c' -> pairwise ci_disjoint (recs c').
Proof.
  intros S P H. destruct (add_record_accept fold_c c r false true c' S H) as [[E NM]|(m & Hm & Hmm & _ & E & _ & _ & _ & Ap & Au)].
  - rewrite E. apply pairwise_snoc; auto. intros b Hb. apply ci_disjoint_sym. apply no_match_ci. auto.
  - rewrite E. unfold repl.
    assert (ND: NoDup (recs c)) by (destruct S as (_ & Pp & _); eapply pairwise_nodup; [apply all_prefixes_ne|exact Pp]).
    pose proof (add_record_cases fold_c c r false true S) as C.
    assert (Ho: forall b, In b (recs c) -> b <> m -> matches_record false r b = false).
    { destruct (filter (matches_record false r) (recs c)) as [|m0 [|m2 rest]] eqn:F.
      - intros b Hb _. eapply filter_nil; eauto.
      - destruct (filter_single _ _ _ ND F) as (Hm0 & _ & Ho0).
        rewrite C in H. inversion H as [H']. 
        assert (m0 = m).
        { destruct (record_eq_dec m0 m); auto. exfalso. rewrite (Ho0 m Hm (not_eq_sym n)) in Hmm. discriminate. }
        subst m0. auto.
      - rewrite C in H. discriminate. }
    apply (pairwise_replace _ ci_disjoint_sym (recs c) m (merge r m)); auto.
    + intros b Hb. apply (isM_spec (recs c)); auto. apply S.
    + intros b Hb Hne. destruct (no_match_ci r b (Ho b Hb Hne)) as [N1 N2].
      pose proof (pairwise_in_neq _ ci_disjoint_sym _ m b P Hm Hb (not_eq_sym Hne)) as [M1 M2].
      split; intros ka kb Ha Hkb.
      * apply Ap in Ha as [Ha|Ha]; [apply M1|apply N1]; auto.
      * apply Au in Ha as [Ha|Ha]; [apply M2|apply N2]; auto.
Qed.
Lemma ci_absorb rs : forall c R, swf c -> pairwise ci_disjoint (recs c) -> absorb (Val c) rs false = Val R -> pairwise ci_disjoint (recs R).
Proof.
  induction rs as [|r rs IH]; intros c R S P H; [simpl in H; inversion H; subst; auto|rewrite absorb_cons in H].
  destruct (add_record c r false true) as [c1|e] eqn:E; [|rewrite absorb_raise in H; discriminate].
  apply (IH c1 R); auto; [eapply add_record_swf; eauto|eapply ci_step; eauto].
Qed.
(* C09_fold_distinct *)
Theorem chain_fold_distinct cs R : chain fold_c cs false = Val R -> pairwise ci_disjoint (recs R).
Proof.
  intro H. destruct cs as [|c0 cs']; [discriminate|]. rewrite chain_absorb in H by discriminate.
  apply (ci_absorb (flat_map recs (c0 :: cs')) empty_conv R empty_swf); auto. constructor.
Qed.
End C2.

(* ---- get_subconverter ---- *)
Lemma pairwise_filter {A} (R : A -> A -> Prop) f l : pairwise R l -> pairwise R (filter f l).
Proof.
  induction 1 as [|a l Ha Hl IH]; simpl; [constructor|]. destruct (f a); auto. constructor; auto.
  intros b Hb. apply filter_In in Hb as [Hb _]. auto.
Qed.
Definition keep (P : list str) (r : record) : bool := existsb (fun p => mem p P) (all_prefixes r).
Theorem sub_ok c P : swf c -> exists S, get_subconverter c P = Val S /\ recs S = sort_records (filter (keep P) (recs c)) /\ swf S /\
  forall q, conv_query q = true -> answer S q = spec_answer (filter (keep P) (recs c)) [58%N] q.
Proof.
  intros (W & Pp & Pu). unfold get_subconverter. fold (keep P).
  destruct (mk_conv_ok [58%N] (filter (keep P) (recs c))) as [S HS].
  - eapply pairwise_perm; [apply disjoint_keys_sym|symmetry; apply sort_perm|apply pairwise_filter; auto].
  - eapply pairwise_perm; [apply disjoint_keys_sym|symmetry; apply sort_perm|apply pairwise_filter; auto].
  - exists S. split; auto. split; [apply (c_recs _ _ _ HS)|]. split; [eapply mk_conv_swf; eauto|].
    intros q Hq. apply (answer_spec _ _ _ HS q Hq).
Qed.
(* kept records answer as in the parent; dropped records' prefixes are unknown *)
Theorem sub_owner c P p : swf c ->
  owner_by_prefix (filter (keep P) (recs c)) p =
  match owner_by_prefix (recs c) p with Some r => if keep P r then Some r else None | None => None end.
Proof.
  intros (W & Pp & Pu). pose proof (pairwise_one_owner _ _ Pp) as O.
  unfold owner_by_prefix. fold (owner all_prefixes (filter (keep P) (recs c)) p). fold (owner all_prefixes (recs c) p).
  destruct (owner all_prefixes (recs c) p) as [r|] eqn:E.
  - apply find_some in E as [Hr Hm]. apply mem_In in Hm. destruct (keep P r) eqn:K.
    + apply owner_reg; auto.
      * intros r1 r2 k H1 H2. apply filter_In in H1 as [H1 _]. apply filter_In in H2 as [H2 _]. apply O; auto.
      * apply filter_In; auto.
    + apply owner_none. intros y Hy Hp. apply filter_In in Hy as [Hy Ky].
      assert (y = r) by (apply (O y r p); auto). subst. congruence.
  - apply owner_none. intros y Hy Hp. apply filter_In in Hy as [Hy _].
    unfold owner in E. pose proof (find_none _ _ E y Hy) as Hn. simpl in Hn. apply mem_In in Hp. congruence.
Qed.
Theorem sub_longest c P u p r : swf c -> longest_match (recs c) u = Some (p, r) -> keep P r = true ->
  longest_match (filter (keep P) (recs c)) u = Some (p, r).
Proof.
  intros (W & Pp & Pu) L K. apply longest_match_some in L as (Hr & Hp & Hpre & Hmax).
  pose proof (pairwise_one_owner _ _ Pu) as O.
  destruct (longest_match (filter (keep P) (recs c)) u) as [[p' r']|] eqn:E.
  - apply longest_match_some in E as (Hr' & Hp' & Hpre' & Hmax').
    apply filter_In in Hr' as [Hr' K'].
    assert (length p = length p').
    { apply Nat.le_antisymm; [apply (Hmax' p r); auto; apply filter_In; auto | apply (Hmax p' r'); auto]. }
    assert (p' = p) by (eapply prefixb_same_len; eauto). subst p'. f_equal. f_equal. apply (O r' r p); auto.
  - pose proof (longest_match_none _ _ E p r) as Hn. rewrite Hn in Hpre; [discriminate| apply filter_In; auto | auto].
Qed.

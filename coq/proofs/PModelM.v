(* The executable predicate P_C05 accepts the model's own observation on every valid case: the link between the C05
   theorems (MutateFacts) and what the run evaluates on the implementation. *)
From Coq Require Import Lia Permutation Sorted.
From Curies.model Require Import Str PyData Trie Conv Query Val Answer Spec CheckQ Mutate CheckM.
From Curies.proofs Require Import StrFacts TrieFacts DictFacts IndexFacts QueryFacts CheckFacts SortFacts C04Facts
  MutateFacts ReconcileFacts.

(* ---------------------------------------------------------------- generic list facts *)
Lemma forallb_combine_map' {A B} (f : A -> B) (P : A * B -> bool) l :
  (forall x, In x l -> P (x, f x) = true) -> forallb P (combine l (map f l)) = true.
Proof. induction l as [|a l IH]; simpl; intro H; auto. rewrite H by auto. simpl. apply IH. intros; apply H; auto. Qed.

Lemma filter_filter' {A} (f g : A -> bool) l : filter f (filter g l) = filter (fun x => g x && f x) l.
Proof.
  induction l as [|a l IH]; simpl; auto. destruct (g a); simpl; [destruct (f a); simpl; rewrite IH; reflexivity|exact IH].
Qed.
Lemma filter_id {A} (f : A -> bool) l : (forall x, In x l -> f x = true) -> filter f l = l.
Proof.
  induction l as [|a l IH]; simpl; intro H; auto. rewrite H by auto. f_equal. apply IH. intros; apply H; auto.
Qed.
Lemma filter_comm {A} (f g : A -> bool) l : filter f (filter g l) = filter g (filter f l).
Proof. rewrite !filter_filter'. apply filter_ext. intro x. apply andb_comm. Qed.

Lemma Permutation_filter' {A} (f : A -> bool) l1 l2 : Permutation l1 l2 -> Permutation (filter f l1) (filter f l2).
Proof.
  induction 1 as [|x l1 l2 P IH|x y l|l1 l2 l3 P1 IH1 P2 IH2]; simpl; auto.
  - destruct (f x); auto.
  - destruct (f x), (f y); auto. apply perm_swap.
  - eapply perm_trans; eauto.
Qed.

Lemma nodup_map_inj {A B} (f : A -> B) l a b : NoDup (map f l) -> In a l -> In b l -> f a = f b -> a = b.
Proof.
  induction l as [|x l IH]; simpl; intros N Ha Hb E; [destruct Ha|].
  inversion N as [|? ? Hn Hd]; subst.
  destruct Ha as [<-|Ha], Hb as [<-|Hb]; auto.
  - exfalso. apply Hn. rewrite E. apply in_map; auto.
  - exfalso. apply Hn. rewrite <- E. apply in_map; auto.
Qed.

(* ---------------------------------------------------------------- sorting by a key that has no duplicates *)
Lemma str_leb_antisym a b : str_leb a b = true -> str_leb b a = true -> a = b.
Proof.
  unfold str_leb. rewrite (str_cmp_antisym a b). destruct (str_cmp a b) eqn:E; simpl; try discriminate.
  intros _ _. apply str_cmp_eq; auto.
Qed.

Section KeySort.
Context {A : Type}.
Variable key : A -> str.
Let le (a b : A) : Prop := str_leb (key a) (key b) = true.

Lemma ssorted_perm_unique l1 : forall l2, StronglySorted le l1 -> StronglySorted le l2 ->
  Permutation l1 l2 -> NoDup (map key l1) -> l1 = l2.
Proof.
  induction l1 as [|a l1 IH]; intros l2 S1 S2 P N.
  - apply Permutation_nil in P. auto.
  - destruct l2 as [|b l2]; [apply Permutation_sym, Permutation_nil in P; discriminate|].
    assert (E: a = b).
    { assert (Ha: In a (b :: l2)) by (eapply Permutation_in; [exact P|left; auto]).
      assert (Hb: In b (a :: l1)) by (eapply Permutation_in; [apply Permutation_sym; exact P|left; auto]).
      destruct Ha as [Ha|Ha]; auto. destruct Hb as [Hb|Hb]; auto.
      inversion S1 as [|? ? _ F1]; subst. inversion S2 as [|? ? _ F2]; subst.
      rewrite Forall_forall in F1, F2. pose proof (F1 b Hb) as L1. pose proof (F2 a Ha) as L2.
      apply (nodup_map_inj key (a :: l1)); auto; [left; auto|right; auto|]. apply str_leb_antisym; auto. }
    subst b. f_equal. inversion S1; subst. inversion S2; subst. inversion N; subst.
    apply IH; auto. eapply Permutation_cons_inv; eauto.
Qed.

Lemma sort_by_key_ssorted l : StronglySorted le (sort_by_key key l).
Proof.
  apply Sorted_StronglySorted.
  - intros a b c. unfold le. apply str_leb_trans.
  - unfold sort_by_key. apply (sort_sorted A (fun a b => str_leb (key a) (key b))). intros a b. apply str_leb_total.
Qed.

Lemma sort_by_key_perm_eq l1 l2 : Permutation l1 l2 -> NoDup (map key l1) -> sort_by_key key l1 = sort_by_key key l2.
Proof.
  intros P N. apply ssorted_perm_unique; try apply sort_by_key_ssorted.
  - unfold sort_by_key. eapply perm_trans; [apply sort_perm|]. eapply perm_trans; [exact P|]. apply Permutation_sym, sort_perm.
  - eapply Permutation_NoDup; [|exact N]. apply Permutation_map. apply Permutation_sym. unfold sort_by_key. apply sort_perm.
Qed.
End KeySort.

Lemma sort_str_idem l : sort_str (sort_str l) = sort_str l.
Proof. unfold sort_str at 1. apply sort_sorted_id. apply sort_str_sorted. Qed.

Lemma mem_nil x : mem x [] = false.
Proof. apply mem_false. intros []. Qed.
Lemma mem_sort x l : mem x (sort_str l) = mem x l.
Proof.
  destruct (mem x l) eqn:E.
  - apply mem_In. apply sort_In. apply mem_In; auto.
  - apply mem_false. intro H. apply sort_In in H. apply mem_In in H. congruence.
Qed.

(* ---------------------------------------------------------------- dedup and _merge *)
Lemma dedup_filter (p : str -> bool) l : filter p (dedup l) = dedup (filter p l).
Proof.
  induction l as [|a l IH]; auto. cbn [dedup filter]. destruct (p a) eqn:Pa.
  - cbn [dedup]. f_equal. rewrite filter_comm, IH. reflexivity.
  - rewrite filter_comm, IH. apply filter_id. intros x Hx. apply (proj1 (dedup_In _ _)) in Hx. apply filter_In in Hx as [_ Px].
    apply negb_true_iff. apply str_eqb_neq. intro; subst. congruence.
Qed.

Lemma merge_fold_eq canon news : forall acc,
  fold_left (fun acc x => if str_eqb x canon || mem x acc then acc else acc ++ [x]) news acc
  = acc ++ dedup (filter (fun x => negb (mem x (canon :: acc))) news).
Proof.
  induction news as [|n news IH]; intro acc; [cbn; rewrite app_nil_r; reflexivity|].
  cbn [fold_left filter]. rewrite <- (mem_cons n canon acc). destruct (mem n (canon :: acc)) eqn:M; cbn [negb].
  - apply IH.
  - rewrite IH. cbn [dedup]. rewrite <- app_assoc. cbn [app]. f_equal. f_equal.
    rewrite dedup_filter, filter_filter'. f_equal. apply filter_ext. intro x.
    rewrite app_comm_cons, mem_app, (mem_cons x n []), mem_nil, orb_false_r, negb_orb, (str_eqb_sym n x). reflexivity.
Qed.

Lemma norm_merge ext m : norm_record (merge ext m) = norm_record (spec_merge ext m).
Proof.
  unfold norm_record, merge, spec_merge, merge_list. cbn [r_prefix r_uri r_psyn r_usyn r_pat].
  rewrite !merge_fold_eq, !sort_str_idem. reflexivity.
Qed.

(* ---------------------------------------------------------------- decoding the observed record list *)
Lemma as_strs_vstrs l : as_strs (vstrs l) = Some l.
Proof.
  unfold as_strs, vstrs, as_list_of. induction l as [|a l IH]; cbn [map all_some as_str]; auto.
  cbn [map all_some as_str] in IH. rewrite IH. reflexivity.
Qed.
Lemma as_record_vrecord r : as_record (vrecord r) = Some r.
Proof.
  unfold vrecord, as_record. rewrite !as_strs_vstrs. destruct r as [p u ps us [pat|]]; reflexivity.
Qed.
Lemma as_records_vrecords rs : as_records (VList (map vrecord rs)) = Some rs.
Proof.
  unfold as_records, as_list_of. induction rs as [|a l IH]; cbn [map all_some]; auto.
  rewrite as_record_vrecord. cbn [map] in IH. rewrite IH. reflexivity.
Qed.

Lemma all_conv_queries_eq q : all_conv_queries q = conv_query q.
Proof. destruct q; reflexivity. Qed.

Lemma find_obs_records c : forall B, (forall q, In q B -> q <> QRecords) ->
  find_obs (fun q => match q with QRecords => true | _ => false end)
           (combine (B ++ battery_intro) (map (answer c) (B ++ battery_intro))) = Some (answer c QRecords).
Proof.
  unfold find_obs. induction B as [|b B IH]; intro H.
  - reflexivity.
  - cbn [app map combine List.find fst].
    assert (Hb: b <> QRecords) by (apply H; left; auto).
    destruct b; try (apply IH; intros q Hq; apply H; right; exact Hq). congruence.
Qed.

Lemma obs_records_model c ss ps :
  obs_records (battery ss ps) (map (answer c) (battery ss ps)) = Some (sort_records (recs c)).
Proof.
  unfold obs_records, battery. rewrite app_assoc. rewrite find_obs_records.
  - cbn [answer vres]. apply as_records_vrecords.
  - intros q Hq. apply in_app_or in Hq as [Hq|Hq]; apply in_flat_map in Hq as (x & _ & Hx).
    + unfold battery_str in Hx. apply in_app_or in Hx as [Hx|Hx].
      * simpl in Hx. intuition (subst; discriminate).
      * apply in_flat_map in Hx as ([st pa] & _ & Hx). simpl in Hx. intuition (subst; discriminate).
    + destruct x as [p i]. unfold battery_pair in Hx. apply in_app_or in Hx as [Hx|Hx].
      * simpl in Hx. intuition (subst; discriminate).
      * apply in_flat_map in Hx as ([st pa] & _ & Hx). simpl in Hx. intuition (subst; discriminate).
Qed.

(* ---------------------------------------------------------------- norm_records *)
Lemma swf_nodup_prefix c : swf c -> NoDup (map r_prefix (recs c)).
Proof. intros (_ & Pp & _). apply (pairwise_nodup_map all_prefixes); auto. intro r. left; auto. Qed.

Lemma norm_eq_of_swf c X : swf c -> Permutation (map norm_record (recs c)) (map norm_record X) ->
  norm_records (sort_records (recs c)) = norm_records X.
Proof.
  intros S P. unfold norm_records. f_equal. f_equal. unfold sort_records. apply sort_by_key_perm_eq.
  - eapply perm_trans; [|exact P]. apply Permutation_map. unfold sort_by_key. apply sort_perm.
  - rewrite map_map. cbn [norm_record r_prefix].
    eapply Permutation_NoDup; [|apply (swf_nodup_prefix c S)].
    apply Permutation_map. apply Permutation_sym. unfold sort_by_key. apply sort_perm.
Qed.

(* ---------------------------------------------------------------- one observed state *)
Section PM.
Variable k : mcase.
Let B := mbattery k.
Let fc := fold_of (mc_fold k).

Lemma P_state_model c : swf c -> delim c = mc_delim k ->
  P_state k (obs_conv B c) = Some (sort_records (recs c)).
Proof.
  intros S Ed. destruct (fresh_equiv c S) as (c0 & H0 & Hq).
  unfold obs_conv. rewrite H0. cbn [ctor_code]. unfold P_state. fold B.
  rewrite map_length, Nat.eqb_refl. unfold B, mbattery. rewrite obs_records_model.
  pose proof (mk_conv_swf _ _ _ H0) as S0.
  pose proof (mk_conv_inv _ _ _ H0) as (_ & _ & _ & _ & Ed0 & Er0 & _).
  assert (St: strictb (sort_records (recs c)) = true) by (rewrite <- Er0; apply swf_strict; auto).
  rewrite St, andb_true_r.
  rewrite forallb_combine_map'; auto.
  intros q _. cbn [fst snd]. rewrite all_conv_queries_eq. destruct (conv_query q) eqn:Cq; auto.
  destruct (Hq q Cq) as [E1 _]. rewrite E1. destruct S0 as (W0 & _).
  rewrite (WF.answer_spec _ _ _ W0 q Cq), Er0, Ed0, Ed. apply val_eqb_refl.
Qed.

(* ---------------------------------------------------------------- one step *)
Definition spec_add (rs : list record) (ext : record) (cs mg : bool) : Z * list record :=
  match filter (matches_record fc cs ext) rs with
  | [] => (0%Z, rs ++ [ext])
  | [m] => if mg
           then (0%Z, map (fun r => if str_eqb (r_prefix r) (r_prefix m) then spec_merge ext m else r) rs)
           else (1%Z, rs)
  | _ => (1%Z, rs)
  end.

Lemma add_record_spec c ext cs mg : swf c ->
  match add_record fc c ext cs mg with
  | Val c' => swf c' /\ delim c' = delim c /\ fst (spec_add (sort_records (recs c)) ext cs mg) = 0%Z /\
              norm_records (sort_records (recs c')) = norm_records (snd (spec_add (sort_records (recs c)) ext cs mg))
  | Raise e => e = EValueError /\ spec_add (sort_records (recs c)) ext cs mg = (1%Z, sort_records (recs c))
  end.
Proof.
  intro S. pose proof (add_record_cases fc c ext cs mg S) as C.
  assert (PS: Permutation (sort_records (recs c)) (recs c)) by (unfold sort_records, sort_by_key; apply sort_perm).
  pose proof (Permutation_filter' (matches_record fc cs ext) _ _ PS) as PF.
  unfold spec_add.
  destruct (filter (matches_record fc cs ext) (recs c)) as [|m [|m2 rest]] eqn:F.
  - apply Permutation_sym, Permutation_nil in PF. rewrite PF, C. cbn [fst snd].
    assert (S': swf (index c ext (recs c ++ [ext]))) by (eapply add_record_swf; eauto).
    refine (conj S' (conj eq_refl (conj eq_refl _))).
    apply norm_eq_of_swf; auto. apply Permutation_map.
    change (recs (index c ext (recs c ++ [ext]))) with (recs c ++ [ext]).
    apply Permutation_app; auto. apply Permutation_sym; auto.
  - apply Permutation_sym, Permutation_length_1_inv in PF. rewrite PF.
    destruct mg; rewrite C; [|auto]. cbn [fst snd].
    assert (S': swf (index c (merge ext m) (map (repl m (merge ext m)) (recs c)))) by (eapply add_record_swf; eauto).
    refine (conj S' (conj eq_refl (conj eq_refl _))).
    apply norm_eq_of_swf; auto.
    change (recs (index c (merge ext m) (map (repl m (merge ext m)) (recs c)))) with (map (repl m (merge ext m)) (recs c)).
    destruct S as (_ & Pp & _).
    assert (ND: NoDup (recs c)) by (eapply pairwise_nodup; [apply all_prefixes_ne|exact Pp]).
    destruct (filter_single _ _ _ ND F) as (Hm & _ & _).
    rewrite !map_map.
    eapply perm_trans; [|apply Permutation_map; apply Permutation_sym; exact PS].
    erewrite map_ext_in; [apply Permutation_refl|].
    intros x Hx. cbv beta. unfold repl. destruct (record_eq_dec x m) as [->|Hne].
    + rewrite key_eqb_refl, str_eqb_refl. apply norm_merge.
    + assert (K: key_eqb (record_key x) (record_key m) = false).
      { destruct (key_eqb (record_key x) (record_key m)) eqn:K; auto. apply (isM_spec (recs c)) in K; auto. contradiction. }
      rewrite K.
      assert (E: str_eqb (r_prefix x) (r_prefix m) = false).
      { apply str_eqb_neq. intro E.
        pose proof (pairwise_in_neq _ (disjoint_keys_sym all_prefixes) _ x m Pp Hx Hm Hne) as D.
        apply (D (r_prefix x)); [left; auto|rewrite E; left; auto]. }
      rewrite E. reflexivity.
  - rewrite C. split; auto.
    pose proof (Permutation_length PF) as L.
    destruct (filter (matches_record fc cs ext) (sort_records (recs c))) as [|a [|b r]]; try discriminate; reflexivity.
Qed.

Lemma spec_step_add rs o :
  spec_step fc rs o =
  if op_ap o && (mem (r_prefix (op_rec o)) (r_psyn (op_rec o)) || mem (r_uri (op_rec o)) (r_usyn (op_rec o)))
  then (1%Z, rs)
  else spec_add rs (if op_ap o then {| r_prefix := r_prefix (op_rec o); r_uri := r_uri (op_rec o);
                                       r_psyn := sort_str (r_psyn (op_rec o)); r_usyn := sort_str (r_usyn (op_rec o));
                                       r_pat := None |} else op_rec o) (op_cs o) (op_mg o).
Proof. reflexivity. Qed.

Lemma apply_op_spec c o : swf c ->
  match apply_op fc c o with
  | Val c' => swf c' /\ delim c' = delim c /\ fst (spec_step fc (sort_records (recs c)) o) = 0%Z /\
              norm_records (sort_records (recs c')) = norm_records (snd (spec_step fc (sort_records (recs c)) o))
  | Raise e => spec_step fc (sort_records (recs c)) o = (step_code (@Raise conv e), sort_records (recs c))
  end.
Proof.
  intro S. rewrite spec_step_add. unfold apply_op. destruct (op_ap o) eqn:AP; cbn [andb].
  - unfold add_prefix, mk_record. rewrite !mem_sort.
    destruct (mem (r_prefix (op_rec o)) (r_psyn (op_rec o))); cbn [orb bind]; [reflexivity|].
    destruct (mem (r_uri (op_rec o)) (r_usyn (op_rec o))); cbn [orb bind]; [reflexivity|].
    match goal with |- context [add_record fc c ?e ?cs ?mg] => pose proof (add_record_spec c e cs mg S) as H;
      destruct (add_record fc c e cs mg) as [c'|e'] end; auto.
    destruct H as [-> H]. exact H.
  - pose proof (add_record_spec c (op_rec o) (op_cs o) (op_mg o) S) as H.
    destruct (add_record fc c (op_rec o) (op_cs o) (op_mg o)) as [c'|e']; auto.
    destruct H as [-> H]. exact H.
Qed.

(* ---------------------------------------------------------------- histories *)
Lemma P_steps_model ops : forall c, swf c -> delim c = mc_delim k ->
  P_steps k fc (sort_records (recs c)) ops (run_ops fc B c ops) = true.
Proof.
  induction ops as [|o ops IH]; intros c S Ed; [reflexivity|].
  cbn [run_ops]. pose proof (apply_op_spec c o S) as H.
  destruct (apply_op fc c o) as [c'|e].
  - destruct H as (S' & Ed' & Hc & Hn). cbn [P_steps].
    destruct (spec_step fc (sort_records (recs c)) o) as [ecode ers]. cbn [fst snd] in Hc, Hn. subst ecode.
    rewrite (P_state_model c' S') by congruence. rewrite Hn, val_eqb_refl. cbn [Z.eqb andb].
    apply IH; auto. congruence.
  - cbn [P_steps]. rewrite H. rewrite Z.eqb_refl. cbn [andb].
    rewrite (P_state_model c S Ed), val_eqb_refl. cbn [andb]. apply IH; auto.
Qed.
End PM.

(* ---------------------------------------------------------------- the theorem *)
Theorem P_C05_model : forall k : mcase, valid_m k = true -> P_C05 k (model_mobs k) = true.
Proof.
  intros k V. unfold valid_m, strict_okb in V. rewrite !andb_true_iff, !nodup_str_spec in V. destruct V as [[Np Nu] _].
  destruct (nodup_mk_conv (mc_delim k) (mc_recs k) Np Nu) as [c Hc].
  unfold model_mobs. rewrite Hc.
  pose proof (mk_conv_swf _ _ _ Hc) as S.
  pose proof (mk_conv_inv _ _ _ Hc) as (_ & _ & _ & _ & Ed & Er & _).
  unfold P_C05. rewrite (P_state_model k c S Ed).
  rewrite (P_steps_model k (mc_ops k) c S Ed), andb_true_r.
  rewrite (norm_eq_of_swf c (mc_recs k) S); [apply val_eqb_refl|].
  apply Permutation_map. rewrite Er. unfold sort_records, sort_by_key. apply sort_perm.
Qed.
Print Assumptions P_C05_model.

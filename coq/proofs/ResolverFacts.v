(* C17: the handler redirects exactly where expand points. *)
From Coq Require Import Lia.
From Curies.model Require Import Str PyData Trie Conv Query Val Answer Spec CheckQ Resolver.
From Curies.proofs Require Import StrFacts IndexFacts QueryFacts CheckFacts LawFacts MutateFacts.

Section R.
Variables (d : str) (rs : list record) (c : conv).
Hypothesis Hc : mk_conv true d rs = Val c.

(* the response is the specified one on every well-formed request *)
Theorem resolve_spec rest : request_ok d rest = true -> vresponse (resolve c rest) = spec_response rs d rest.
Proof.
  unfold request_ok, resolve, spec_response. rewrite (c_delim _ _ _ Hc).
  destruct (partition d rest) as [[p i]|]; [|discriminate]. intro H.
  apply andb_true_iff in H as [H _]. apply andb_true_iff in H as [H _].
  apply andb_true_iff in H as [H H3]. apply andb_true_iff in H as [H1 H2].
  apply negb_true_iff in H1, H2, H3. rewrite H1, H2, H3. simpl.
  unfold expand_pair. rewrite (A_expand_ref _ _ _ Hc). simpl. unfold sp_expand_pair.
  destruct (owner_by_prefix rs p); reflexivity.
Qed.

(* known prefix (canonical or synonym) whose first delimiter in p ++ d is at |p|, non-empty identifier:
   302 to the expansion of that CURIE, identifiers with '/' or with the delimiter passed whole *)
Theorem resolve_known p i r : delim_safe d p = true -> p <> [] -> has_slash p = false -> i <> [] ->
  In r rs -> In p (all_prefixes r) ->
  resolve c (p ++ d ++ i) = Redirect302 (r_uri r ++ i) /\ expand c (p ++ d ++ i) false false = Val (Some (r_uri r ++ i)).
Proof.
  intros Hd Hp Hs Hi Hr Hin.
  assert (O: owner_by_prefix rs p = Some r).
  { unfold owner_by_prefix. fold (owner all_prefixes rs p). apply owner_reg; auto. apply (own_p _ _ _ Hc). }
  split.
  - unfold resolve. rewrite (c_delim _ _ _ Hc). rewrite (delim_safe_partition d p i Hd).
    assert (E1: is_nil p = false) by (destruct p; [congruence|reflexivity]).
    assert (E2: is_nil i = false) by (destruct i; [congruence|reflexivity]).
    rewrite E1, E2, Hs. cbn [orb]. unfold expand_pair. rewrite (A_expand_ref _ _ _ Hc). unfold sp_expand_pair. rewrite O. reflexivity.
  - rewrite (A_expand _ _ _ Hc). unfold sp_expand. rewrite (delim_safe_partition d p i Hd). rewrite O. reflexivity.
Qed.
End R.

Section R2.
Variables (d : str) (rs : list record) (c : conv).
Hypothesis Hc : mk_conv true d rs = Val c.
(* unknown prefix: 422 *)
Theorem resolve_unknown rest p i : request_ok d rest = true -> partition d rest = Some (p, i) ->
  (forall r, In r rs -> ~ In p (all_prefixes r)) -> resolve c rest = Status failure_code.
Proof.
  intros Hok Hp Hn. pose proof (resolve_spec d rs c Hc rest Hok) as E. unfold spec_response in E. rewrite Hp in E.
  assert (O: owner_by_prefix rs p = None) by (apply owner_none; auto). rewrite O in E.
  destruct (resolve c rest) as [l|code|]; simpl in E; try discriminate.
  f_equal. unfold failure_code. injection E as E'. apply N2Z.inj. exact E'.
Qed.
(* "redirects to the result of converter.expand": the response is determined by what expand answers on the same string *)
Theorem resolve_relative rest e : request_ok d rest = true -> expand c rest false false = Val e ->
  vresponse (resolve c rest) = rel_response d rest e.
Proof.
  intros Hok He. rewrite (resolve_spec d rs c Hc rest Hok). rewrite (A_expand _ _ _ Hc), wrap_default in He.
  injection He as <-. unfold spec_response, rel_response, sp_expand.
  destruct (partition d rest) as [[p i]|]; auto. destruct (owner_by_prefix rs p); reflexivity.
Qed.
End R2.

(* the model observation of the run satisfies the run's predicate whenever the table holds expand's answers *)
Theorem P_C17_model k : valid_w k = true ->
  P_C17 k (VList (map (fun pe => let r := rel_response (wc_delim k) (fst pe) (snd pe) in VList [r; r]) (combine (wc_paths k) (wc_expands k)))) = true.
Proof.
  intros Hv. unfold P_C17. rewrite map_length, combine_length.
  unfold valid_w in Hv. apply andb_true_iff in Hv as [_ Hl]. apply Nat.eqb_eq in Hl. rewrite Hl, Nat.min_id, Nat.eqb_refl. simpl.
  generalize (combine (wc_paths k) (wc_expands k)). intro l. induction l as [|a l IH]; simpl; auto.
  rewrite !CheckFacts.val_eqb_refl. simpl. exact IH.
Qed.

(* C17: the handler redirects exactly where expand points. *)
From Coq Require Import Lia.
From Curies.model Require Import Str PyData Trie Conv Query Val Answer Spec CheckQ Resolver.
From Curies.proofs Require Import StrFacts IndexFacts QueryFacts CheckFacts LawFacts MutateFacts.

Section R.
Variables (d : str) (rs : list record) (c : conv).
Hypothesis Hc : mk_conv true d rs = Val c.

(* the response is the specified one on every well-formed request *)
Theorem resolve_spec rest : request_ok d rest = true -> vresponse (resolve c rest) = spec_response rs d rest.
Proof.
  unfold request_ok, resolve, spec_response. rewrite (c_delim _ _ _ Hc).
  destruct (partition d rest) as [[p i]|]; [|discriminate]. intro H.
  apply andb_true_iff in H as [H _]. apply andb_true_iff in H as [H _].
  apply andb_true_iff in H as [H H3]. apply andb_true_iff in H as [H1 H2].
  apply negb_true_iff in H1, H2, H3. rewrite H1, H2, H3. simpl.
  unfold expand_pair. rewrite (A_expand_ref _ _ _ Hc). simpl. unfold sp_expand_pair.
  destruct (owner_by_prefix rs p); reflexivity.
Qed.

(* known prefix (canonical or synonym) whose first delimiter in p ++ d is at |p|, non-empty identifier:
   302 to the expansion of that CURIE, identifiers with '/' or with the delimiter passed whole *)
Theorem resolve_known p i r : delim_safe d p = true -> p <> [] -> has_slash p = false -> i <> [] ->
  In r rs -> In p (all_prefixes r) ->
  resolve c (p ++ d ++ i) = Redirect302 (r_uri r ++ i) /\ expand c (p ++ d ++ i) false false = Val (Some (r_uri r ++ i)).
Proof.
  intros Hd Hp Hs Hi Hr Hin.
  assert (O: owner_by_prefix rs p = Some r).
  { unfold owner_by_prefix. fold (owner all_prefixes rs p). apply owner_reg; auto. apply (own_p _ _ _ Hc). }
  split.
  - unfold resolve. rewrite (c_delim _ _ _ Hc). rewrite (delim_safe_partition d p i Hd).
    assert (E1: is_nil p = false) by (destruct p; [congruence|reflexivity]).
    assert (E2: is_nil i = false) by (destruct i; [congruence|reflexivity]).
    rewrite E1, E2, Hs. cbn [orb]. unfold expand_pair. rewrite (A_expand_ref _ _ _ Hc). unfold sp_expand_pair. rewrite O. reflexivity.
  - rewrite (A_expand _ _ _ Hc). unfold sp_expand. rewrite (delim_safe_partition d p i Hd). rewrite O. reflexivity.
Qed.
End R.

Section R2.
Variables (d : str) (rs : list record) (c : conv).
Hypothesis Hc : mk_conv true d rs = Val c.
(* unknown prefix: 422 *)
Theorem resolve_unknown rest p i : request_ok d rest = true -> partition d rest = Some (p, i) ->
  (forall r, In r rs -> ~ In p (all_prefixes r)) -> resolve c rest = Status failure_code.
Proof.
  intros Hok Hp Hn. pose proof (resolve_spec d rs c Hc rest Hok) as E. unfold spec_response in E. rewrite Hp in E.
  assert (O: owner_by_prefix rs p = None) by (apply owner_none; auto). rewrite O in E.
  destruct (resolve c rest) as [l|code|]; simpl in E; try discriminate.
  f_equal. unfold failure_code. injection E as E'. apply N2Z.inj. exact E'.
Qed.
(* "redirects to the result of converter.expand": the response is determined by what expand answers on the same string *)
Theorem resolve_relative rest e : request_ok d rest = true -> expand c rest false false = Val e ->
  vresponse (resolve c rest) = rel_response d rest e.
Proof.
  intros Hok He. rewrite (resolve_spec d rs c Hc rest Hok). rewrite (A_expand _ _ _ Hc), wrap_default in He.
  injection He as <-. unfold spec_response, rel_response, sp_expand.
  destruct (partition d rest) as [[p i]|]; auto. destruct (owner_by_prefix rs p); reflexivity.
Qed.
End R2.

(* the model observation of the run satisfies the run's predicate whenever the table holds expand's answers *)
Theorem P_C17_model k : valid_w k = true ->
  P_C17 k (VList (map (fun pe => let r := rel_response (wc_delim k) (fst pe) (snd pe) in VList [r; r]) (combine (wc_paths k) (wc_expands k)))) = true.
Proof.
  intros Hv. unfold P_C17. rewrite map_length, combine_length.
  unfold valid_w in Hv. apply andb_true_iff in Hv as [_ Hl]. apply Nat.eqb_eq in Hl. rewrite Hl, Nat.min_id, Nat.eqb_refl. simpl.
  generalize (combine (wc_paths k) (wc_expands k)). intro l. induction l as [|a l IH]; simpl; auto.
  rewrite !CheckFacts.val_eqb_refl. simpl. exact IH.
Qed.

(* ---- the route contract, stated the way a router guarantees it ----
   Both routers accept "/" ++ rest for the route /<prefix><delimiter><path:identifier> iff SOME decomposition
   rest = p ++ d ++ i exists with a non-empty slash-free p and a non-empty i (which one they capture does not matter: the
   handler re-joins the captures and splits again).  The model's handler tests the FIRST split only; the theorem shows that
   this is the same condition, for every delimiter, as long as rest does not begin with the delimiter. *)
Definition route_matches (d rest : str) : Prop :=
  exists p i, rest = p ++ d ++ i /\ p <> [] /\ has_slash p = false /\ i <> [].
Definition first_split_ok (d rest : str) : Prop :=
  exists p i, partition d rest = Some (p, i) /\ p <> [] /\ has_slash p = false /\ i <> [].

Lemma occurs_at_here d p i : occurs_at d (p ++ d ++ i) (length p) = true.
Proof. unfold occurs_at. rewrite skipn_app_exact. apply prefixb_app. Qed.

Lemma partition_le d p i : exists a b, partition d (p ++ d ++ i) = Some (a, b) /\ length a <= length p.
Proof.
  destruct (partition d (p ++ d ++ i)) as [[a b]|] eqn:E.
  - exists a, b. split; auto. apply partition_some in E as [_ Hno].
    destruct (Nat.le_gt_cases (length a) (length p)) as [L|G]; auto.
    specialize (Hno (length p) G). rewrite occurs_at_here in Hno. discriminate.
  - pose proof (partition_none _ _ E (length p)) as H. rewrite occurs_at_here in H. discriminate.
Qed.

Lemma has_slash_app a b : has_slash (a ++ b) = has_slash a || has_slash b.
Proof. unfold has_slash. apply existsb_app. Qed.

Lemma app_prefix_of {A} (a b p q : list A) : a ++ b = p ++ q -> length a <= length p -> exists t, p = a ++ t.
Proof.
  revert p; induction a as [|x a IH]; intros p E L; [exists p; reflexivity|].
  destruct p as [|y p]; [simpl in L; lia|]. simpl in E. injection E as -> E.
  destruct (IH p E) as [t ->]; [simpl in L; lia|]. exists t. reflexivity.
Qed.

Theorem route_first_split d rest : d <> [] -> prefixb d rest = false ->
  (route_matches d rest <-> first_split_ok d rest).
Proof.
  intros Hd Hstart. split.
  - intros (p & i & E & Hp & Hs & Hi). subst rest.
    destruct (partition_le d p i) as (a & b & Pa & L). exists a, b. split; auto.
    apply partition_some in Pa as [Eq _].
    destruct (app_prefix_of _ _ _ _ (eq_sym Eq) L) as [t Et].
    repeat split.
    + intro Ea. subst a. simpl in Eq. rewrite Eq in Hstart. rewrite prefixb_app in Hstart. discriminate.
    + rewrite Et, has_slash_app in Hs. apply orb_false_iff in Hs. apply Hs.
    + intro Eb. subst b. assert (Len: length (p ++ d ++ i) = length (a ++ d ++ [])) by (rewrite Eq; reflexivity).
      rewrite !app_length in Len. simpl in Len. destruct i; [congruence|simpl in Len; lia].
  - intros (p & i & Pa & Hp & Hs & Hi). apply partition_some in Pa as [E _]. exists p, i. auto.
Qed.

(* hence: on a request the routers accept and that does not begin with the delimiter, the handler never answers 404 *)
Theorem routed_not_404 d rs c rest : mk_conv true d rs = Val c -> d <> [] -> prefixb d rest = false ->
  route_matches d rest -> resolve c rest <> NotFound404.
Proof.
  intros Hc Hd Hst Hr. apply (route_first_split d rest Hd Hst) in Hr as (p & i & Pa & Hp & Hs & Hi).
  unfold resolve. rewrite (c_delim _ _ _ Hc), Pa.
  destruct p; [congruence|]. destruct i; [congruence|]. cbn [is_nil orb]. rewrite Hs. cbn [orb].
  destruct (expand_pair c _ _ false false) as [[l|]|e]; discriminate.
Qed.

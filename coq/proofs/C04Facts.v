(* C04: the strict constructor accepts exactly the collections without a shared string; consequences. *)
From Coq Require Import Lia Permutation.
From Curies.model Require Import Str PyData Trie Conv Query Val Answer Spec CheckQ Loaders CheckL.
From Curies.proofs Require Import StrFacts TrieFacts DictFacts IndexFacts QueryFacts CheckFacts.

Lemma disjoint_keys_sym keysf a b : disjoint_keys keysf a b -> disjoint_keys keysf b a.
Proof. intros H k A B. eapply H; eauto. Qed.

Lemma pairwise_in {A} (R : A -> A -> Prop) l : pairwise R l ->
  forall l1 a l2 b l3, l = l1 ++ a :: l2 ++ b :: l3 -> R a b.
Proof.
  induction 1 as [|x l Hx Hl IH]; intros l1 a l2 b l3 E.
  - destruct l1; discriminate.
  - destruct l1 as [|y l1]; simpl in E; inversion E; subst.
    + apply Hx. apply in_or_app. right. left. auto.
    + eapply IH; eauto.
Qed.

Lemma pairwise_perm {A} (R : A -> A -> Prop) (Rs : forall a b, R a b -> R b a) l l' :
  Permutation l l' -> pairwise R l -> pairwise R l'.
Proof.
  induction 1 as [|x l l' P IH|x y l|l l' l'' P1 IH1 P2 IH2]; intro H; auto.
  - inversion H as [|? ? Hx Hl]; subst. constructor; auto. intros b Hb. apply Hx. eapply Permutation_in; [symmetry|]; eauto.
  - inversion H as [|? ? Hy Hl]; subst. inversion Hl as [|? ? Hx Hl']; subst.
    constructor; [|constructor; auto].
    + intros b [<-|Hb]; [apply Rs; apply Hy; left; auto | apply Hx; auto].
    + intros b Hb. apply Hy. right; auto.
Qed.

Lemma clash_spec keysf rs : clash keysf rs = false <-> pairwise (disjoint_keys keysf) rs.
Proof.
  induction rs as [|r rs IH]; simpl.
  - split; [constructor|auto].
  - rewrite orb_false_iff, IH. split.
    + intros [H1 H2]. constructor; auto. intros b Hb k Ka Kb.
      assert (existsb (fun r' => existsb (fun k => mem k (keysf r')) (keysf r)) rs = true).
      { apply existsb_exists. exists b. split; auto. apply existsb_exists. exists k. split; auto. apply mem_In; auto. }
      congruence.
    + intro H. inversion H as [|? ? Hr Hrs]; subst. split; auto.
      destruct (existsb _ rs) eqn:E; auto. apply existsb_exists in E as (b & Hb & E).
      apply existsb_exists in E as (k & Hk & E). apply mem_In in E. exfalso. eapply Hr; eauto.
Qed.

(* Converter(records) succeeds iff no CURIE prefix / synonym and no URI prefix / synonym is claimed by two records *)
Theorem mk_conv_iff d rs : (exists c, mk_conv true d rs = Val c) <-> strictb rs = true.
Proof.
  unfold strictb. rewrite andb_true_iff, !negb_true_iff, !clash_spec. split.
  - intros [c H]. apply mk_conv_inv in H as (_ & _ & Hu & Hp & _). split.
    + eapply pairwise_perm; [apply disjoint_keys_sym|apply sort_perm|exact Hu].
    + eapply pairwise_perm; [apply disjoint_keys_sym|apply sort_perm|exact Hp].
  - intros [Hu Hp]. apply mk_conv_ok.
    + eapply pairwise_perm; [apply disjoint_keys_sym|symmetry; apply sort_perm|exact Hu].
    + eapply pairwise_perm; [apply disjoint_keys_sym|symmetry; apply sort_perm|exact Hp].
Qed.

(* URI clashes are reported first *)
Theorem mk_conv_error d rs :
  (clash all_uris rs = true -> mk_conv true d rs = Raise EDuplicateURIPrefixes /\ dups all_uris (sort_records rs) <> []) /\
  (clash all_uris rs = false -> clash all_prefixes rs = true ->
     mk_conv true d rs = Raise EDuplicatePrefixes /\ dups all_prefixes (sort_records rs) <> []).
Proof.
  split.
  - intro H. assert (Hn: dups all_uris (sort_records rs) <> []).
    { intro E. apply dups_nil_iff in E. assert (clash all_uris rs = false); [|congruence].
      apply clash_spec. eapply pairwise_perm; [apply disjoint_keys_sym|apply sort_perm|exact E]. }
    split; auto. unfold mk_conv. simpl. destruct (dups all_uris (sort_records rs)); [congruence|reflexivity].
  - intros Hu Hp. assert (Hn: dups all_prefixes (sort_records rs) <> []).
    { intro E. apply dups_nil_iff in E. assert (clash all_prefixes rs = false); [|congruence].
      apply clash_spec. eapply pairwise_perm; [apply disjoint_keys_sym|apply sort_perm|exact E]. }
    split; auto. unfold mk_conv. simpl.
    assert (Eu: dups all_uris (sort_records rs) = []).
    { apply dups_nil_iff. apply clash_spec in Hu. eapply pairwise_perm; [apply disjoint_keys_sym|symmetry; apply sort_perm|exact Hu]. }
    rewrite Eu. simpl. destruct (dups all_prefixes (sort_records rs)); [congruence|reflexivity].
Qed.

(* what the exception lists *)
Theorem dups_listing keysf rs r1 r2 x : In (r1, r2, x) (dups keysf rs) <->
  In (r1, r2) (combinations2 rs) /\ In x (keysf r1) /\ In x (keysf r2).
Proof.
  unfold dups. rewrite in_flat_map. split.
  - intros ([a b] & Hab & Hin). apply in_flat_map in Hin as ([k1 k2] & Hk & Hin).
    destruct (str_eqb_spec k1 k2); [|contradiction]. destruct Hin as [E|[]]. inversion E; subst.
    unfold product in Hk. apply in_flat_map in Hk as (k & Hk1 & Hk2). apply in_map_iff in Hk2 as (k' & E' & Hk2).
    inversion E'; subst. auto.
  - intros (Hc & H1 & H2). exists (r1, r2). split; auto. apply in_flat_map. exists (x, x). split.
    + unfold product. apply in_flat_map. exists x. split; auto. apply in_map_iff. eauto.
    + rewrite str_eqb_refl. left; auto.
Qed.

(* a single record can never list its own canonical prefix / URI prefix among its synonyms *)
Theorem mk_record_iff p u ps us pat : (exists r, mk_record p u ps us pat = Val r) <-> ~ In p ps /\ ~ In u us.
Proof.
  unfold mk_record. rewrite <- !mem_false. destruct (mem p ps), (mem u us); split; intro H;
    try (destruct H as [r H]; discriminate); try (destruct H; discriminate); eauto.
Qed.

(* ---- bimap / reverse_bimap ---- *)
Lemma dget_fold_dset_notin {V} (items : list (str * V)) : forall d k, ~ In k (map fst items) ->
  dget k (fold_left (fun d kv => dset (fst kv) (snd kv) d) items d) = dget k d.
Proof.
  induction items as [|[a b] items IH]; intros d k H; simpl; auto.
  rewrite IH; [|intro; apply H; right; auto]. rewrite dget_dset.
  destruct (str_eqb_spec k a); auto. subst. exfalso. apply H. left; auto.
Qed.
Lemma dget_fold_dset_in {V} (items : list (str * V)) : forall d k v, NoDup (map fst items) -> In (k, v) items ->
  dget k (fold_left (fun d kv => dset (fst kv) (snd kv) d) items d) = Some v.
Proof.
  induction items as [|[a b] items IH]; intros d k v N H; simpl; [destruct H|].
  inversion N as [|? ? Hn Hd]; subst. destruct H as [E|H].
  - inversion E; subst. rewrite dget_fold_dset_notin; auto. rewrite dget_dset, str_eqb_refl. reflexivity.
  - apply IH; auto.
Qed.
Lemma dget_dict_of {V} (items : list (str * V)) k : NoDup (map fst items) ->
  forall v, dget k (dict_of items) = Some v <-> In (k, v) items.
Proof.
  intros N v. unfold dict_of. split.
  - intro H. destruct (in_dec str_eq_dec k (map fst items)) as [Hin|Hn].
    + apply in_map_iff in Hin as ([k' v'] & E & Hin). simpl in E. subst k'.
      rewrite (dget_fold_dset_in items [] k v' N Hin) in H. inversion H; subst. auto.
    + rewrite dget_fold_dset_notin in H; auto. discriminate.
  - apply dget_fold_dset_in; auto.
Qed.

Lemma pairwise_nodup_map keysf (f : record -> str) rs : (forall r, In (f r) (keysf r)) ->
  pairwise (disjoint_keys keysf) rs -> NoDup (map f rs).
Proof.
  intros Hf. induction 1 as [|a l Ha Hl IH]; simpl; constructor; auto.
  intro Hin. apply in_map_iff in Hin as (b & E & Hb). apply (Ha b Hb (f a)); auto. rewrite <- E. auto.
Qed.

Definition rec_with rs p u := exists r : record, In r rs /\ r_prefix r = p /\ r_uri r = u.
Theorem bimap_inverse d rs c : mk_conv true d rs = Val c -> forall p u,
  (dget p (bimap c) = Some u <-> rec_with rs p u) /\ (dget u (reverse_bimap c) = Some p <-> rec_with rs p u).
Proof.
  intros Hc p u. pose proof (mk_conv_inv d rs c Hc) as (_ & _ & Hu & Hp & _ & Er & _).
  unfold bimap, reverse_bimap. rewrite Er.
  assert (N1: NoDup (map fst (map (fun r => (r_prefix r, r_uri r)) (sort_records rs)))).
  { rewrite map_map. simpl. apply (pairwise_nodup_map all_prefixes); auto. intro r. left; auto. }
  assert (N2: NoDup (map fst (map (fun r => (r_uri r, r_prefix r)) (sort_records rs)))).
  { rewrite map_map. simpl. apply (pairwise_nodup_map all_uris); auto. intro r. left; auto. }
  unfold rec_with. rewrite (dget_dict_of _ p N1 u), (dget_dict_of _ u N2 p), !in_map_iff.
  split; split.
  - intros (r & E & Hr). inversion E; subst. exists r. split; auto. apply sort_records_In; auto.
  - intros (r & Hr & <- & <-). exists r. split; auto. apply sort_records_In; auto.
  - intros (r & E & Hr). inversion E; subst. exists r. split; auto. apply sort_records_In; auto.
  - intros (r & Hr & <- & <-). exists r. split; auto. apply sort_records_In; auto.
Qed.
(* mutually inverse *)
Theorem bimap_reverse_bimap d rs c : mk_conv true d rs = Val c -> forall p u,
  dget p (bimap c) = Some u <-> dget u (reverse_bimap c) = Some p.
Proof. intros Hc p u. destruct (bimap_inverse d rs c Hc p u) as [A B]. rewrite A, B. tauto. Qed.

(* the model's outcome code is the specified one *)
Theorem load_code_spec d rs : load_code (mk_conv true d rs) = expected_code rs.
Proof.
  unfold expected_code. destruct (clash all_uris rs) eqn:Eu.
  - destruct (mk_conv_error d rs) as [H _]. destruct (H Eu) as [-> _]. reflexivity.
  - destruct (clash all_prefixes rs) eqn:Ep.
    + destruct (mk_conv_error d rs) as [_ H]. destruct (H Eu Ep) as [-> _]. reflexivity.
    + assert (S: strictb rs = true) by (unfold strictb; rewrite Eu, Ep; reflexivity).
      apply (mk_conv_iff d rs) in S. destruct S as [c ->]. reflexivity.
Qed.

(* The executable predicate P_C19 (with the known finding K1 excluded) accepts the model's own observations on every valid
   case: the link between the C19 theorems and what the run evaluates on the implementation. *)
From Coq Require Import Lia Sorted.
From Curies.model Require Import Str PyData Trie Conv Query Val Answer Spec CheckQ Discovery CheckD.
From Curies.proofs Require Import StrFacts IndexFacts QueryFacts CheckFacts SortFacts LawFacts DiscoveryFacts ReconcileFacts.

Lemma forallb_combine_map {A B} (f : A -> B) (P : A * B -> bool) l :
  (forall x, In x l -> P (x, f x) = true) -> forallb P (combine l (map f l)) = true.
Proof. induction l as [|a l IH]; simpl; intro H; auto. rewrite H by auto. simpl. apply IH. intros; apply H; auto. Qed.

Section PD.
Variable k : dcase.
Let al := alnum_of k.
Let rc := recog_tbl k.
Let spec us := spec_records al rc true (dc_delims k) (dc_cutoff k) (dc_meta k) us.

Lemma discover_val us : exists D, discover al rc (dc_delims k) (dc_cutoff k) (dc_meta k) us = Val D /\
  mk_conv true [58%N] (spec us) = Val D /\ recs D = sort_records (spec us).
Proof.
  unfold discover. rewrite discover_records_spec.
  destruct (spec_records_valid al rc true (dc_delims k) (dc_cutoff k) (dc_meta k) us) as [D HD].
  exists D. repeat split; auto. apply (c_recs _ _ _ HD).
Qed.

Definition rt_obs (D : conv) (u : str) : val :=
  let x := compress D u false false in
  VList [vres vostr x; match x with Val (Some y) => vres vostr (expand D y false false) | _ => VList [VInt 0; VNone] end].
Definition rt_ok (ur : str * val) : bool :=
  let '(u, r) := ur in
  if skipped rc true u then true
  else match classify al (eff_delims (dc_delims k)) u with
       | None => true
       | Some _ => match r with
                   | VList [VList [VInt 0; VSome (VStr x)]; e] =>
                       negb (delim_safe [58%N] (dc_meta k)) || val_eqb e (VList [VInt 0; VSome (VStr u)])
                   | _ => false end end.

Lemma roundtrip_model D : match dc_cutoff k with None => True | Some k0 => k0 = 0 end ->
  mk_conv true [58%N] (spec (dc_uris k)) = Val D ->
  forallb rt_ok (combine (dc_uris k) (map (rt_obs D) (dc_uris k))) = true.
Proof.
  intros Hcut HD. apply forallb_combine_map. intros u Hu. unfold rt_ok, rt_obs.
  destruct (skipped rc true u) eqn:Sk; auto.
  destruct (classify al (eff_delims (dc_delims k)) u) as [[p l]|] eqn:Cl; auto.
  destruct (compresses al rc true (dc_delims k) (dc_cutoff k) (dc_meta k) (dc_uris k) u p l D Hcut Hu Sk Cl HD) as [x Hx].
  cbv zeta. rewrite Hx. cbn [vres vostr vopt].
  destruct (delim_safe [58%N] (dc_meta k)) eqn:Ds; cbn [negb orb]; auto.
  apply delim_safe_single in Ds.
  destruct (roundtrip al rc true (dc_delims k) (dc_cutoff k) (dc_meta k) (dc_uris k) u p l D Hcut Ds Hu Sk Cl HD) as (x' & Hx' & Hex).
  assert (x' = x) by congruence. subst x'. rewrite Hex. apply val_eqb_refl.
Qed.

Lemma P_one_model : P_one true k (obs_discover al rc k (dc_uris k)) = true.
Proof.
  unfold obs_discover. destruct (discover_val (dc_uris k)) as (D & E & HD & R). rewrite E.
  unfold P_one. fold al rc. fold (spec (dc_uris k)). rewrite !andb_true_iff. repeat split.
  - rewrite R, sort_records_idem. apply val_eqb_refl.
  - apply forallb_forall. intros r Hr. unfold spec, spec_records in Hr.
    apply number_from_in in Hr as (_ & _ & Hu & _). eapply spec_prefixes_end; eauto.
  - pose proof (roundtrip_model D) as M. fold (rt_obs D). 
    change (match dc_cutoff k with
            | Some (S _) => true
            | _ => Nat.eqb (length (map (rt_obs D) (dc_uris k))) (length (dc_uris k)) &&
                   forallb rt_ok (combine (dc_uris k) (map (rt_obs D) (dc_uris k)))
            end = true).
    rewrite map_length, Nat.eqb_refl. cbn [andb].
    destruct (dc_cutoff k) as [[|n]|]; auto.
Qed.

Lemma same_set_iff a b : same_set a b = true -> forall x, In x a <-> In x b.
Proof.
  unfold same_set. rewrite andb_true_iff, !forallb_forall. intros [H1 H2] x. split; intro H.
  - apply mem_In. auto.
  - apply mem_In. auto.
Qed.

Theorem P_C19_model : valid_d k = true -> P_C19 true k (model_dobs k) = true.
Proof.
  intro V. unfold model_dobs, P_C19. fold al rc. rewrite P_one_model. simpl.
  unfold obs_discover.
  destruct (discover_val (dc_uris k)) as (D1 & E1 & _ & R1). destruct (discover_val (dc_uris2 k)) as (D2 & E2 & _ & R2).
  rewrite E1, E2, R1, R2.
  assert (S: spec (dc_uris k) = spec (dc_uris2 k)).
  { apply spec_records_set. apply same_set_iff. unfold valid_d in V. rewrite !andb_true_iff in V. tauto. }
  rewrite S. apply val_eqb_refl.
Qed.
End PD.

(* Python dicts as association lists; sorting; combinations. *)
From Coq Require Import Lia Permutation Sorted.
From Curies.model Require Import Str PyData Trie.
From Curies.proofs Require Import StrFacts TrieFacts.

Lemma dget_dset {V} k v (d : dict V) k' : dget k' (dset k v d) = if str_eqb k' k then Some v else dget k' d.
Proof.
  induction d as [|[k0 v0] d IH]; simpl.
  - reflexivity.
  - destruct (str_eqb_spec k k0).
    + subst. simpl. destruct (str_eqb_spec k' k0); auto.
    + simpl. destruct (str_eqb_spec k' k0).
      * subst. destruct (str_eqb_spec k0 k); congruence.
      * apply IH.
Qed.
Lemma dkeys_dset_in {V} k v (d : dict V) x : In x (dkeys (dset k v d)) <-> x = k \/ In x (dkeys d).
Proof.
  unfold dkeys. induction d as [|[a b] d IH]; simpl.
  - split; [intros [<-|[]]; auto | intros [->|[]]; auto].
  - destruct (str_eqb_spec k a); simpl.
    + subst. split; [intros [<-|H]; auto | intros [->|[<-|H]]; auto].
    + rewrite IH. split; [intros [<-|[->|H]]; auto | intros [->|[<-|H]]; auto].
Qed.
Lemma dkeys_dset_nodup {V} k v (d : dict V) : NoDup (dkeys d) -> NoDup (dkeys (dset k v d)).
Proof.
  induction d as [|[k0 v0] d IH]; simpl; intro H.
  - constructor; [intros []|constructor].
  - inversion H as [|? ? Hn Hd]; subst. destruct (str_eqb_spec k k0).
    + subst. simpl. constructor; auto.
    + simpl. constructor; auto. intro Hin. apply (dkeys_dset_in k v d k0) in Hin. destruct Hin; congruence.
Qed.
Lemma dget_in_keys {V} k (d : dict V) v : dget k d = Some v -> In k (dkeys d).
Proof.
  induction d as [|[a b] d IH]; simpl; [discriminate|]. destruct (str_eqb_spec k a); auto.
Qed.
Lemma dget_none_keys {V} k (d : dict V) : dget k d = None <-> ~ In k (dkeys d).
Proof.
  induction d as [|[a b] d IH]; simpl; [tauto|]. destruct (str_eqb_spec k a).
  - subst. split; [discriminate|intro H; exfalso; auto].
  - rewrite IH. split; [intros H [E|E]; [congruence|auto] | intros H E; auto].
Qed.

(* StringTrie(d): the trie denotes the dict *)
Definition trie_of_acc (d : dict str) (t : trie str) := fold_left (fun t kv => insert (fst kv) (snd kv) t) d t.
Lemma find_fold_insert (l : dict str) : forall t k, NoDup (dkeys l) ->
   find k (trie_of_acc l t) = match dget k l with Some v => Some v | None => find k t end.
Proof.
  unfold trie_of_acc. induction l as [|[k0 v0] l IH]; intros t k Hnd; simpl; auto.
  inversion Hnd as [|? ? Hn Hd]; subst. rewrite IH by auto. simpl.
  destruct (dget k l) eqn:E.
  - destruct (str_eqb_spec k k0); auto. subst. exfalso. apply Hn. eapply dget_in_keys; eauto.
  - rewrite find_insert. destruct (str_eq_dec k k0), (str_eqb_spec k k0); congruence.
Qed.

(* ---- sorting ---- *)
Section Sort.
  Variable A : Type.
  Variable leb : A -> A -> bool.
  Lemma insert_sorted_perm x l : Permutation (insert_sorted leb x l) (x :: l).
  Proof.
    induction l as [|y l IH]; simpl; auto. destruct (leb x y); auto.
    rewrite IH. apply perm_swap.
  Qed.
  Lemma sort_perm l : Permutation (sort leb l) l.
  Proof. induction l as [|x l IH]; simpl; auto. rewrite insert_sorted_perm. auto. Qed.
  Lemma sort_In l x : In x (sort leb l) <-> In x l.
  Proof. split; apply Permutation_in; [|symmetry]; apply sort_perm. Qed.

  Hypothesis leb_total : forall a b, leb a b = true \/ leb b a = true.
  Hypothesis leb_trans : forall a b c, leb a b = true -> leb b c = true -> leb a c = true.
  Definition le (a b : A) : Prop := leb a b = true.
  Lemma insert_sorted_sorted x l : Sorted le l -> Sorted le (insert_sorted leb x l).
  Proof.
    induction l as [|y l IH]; intro H; simpl.
    - constructor; auto.
    - destruct (leb x y) eqn:E.
      + constructor; auto.
      + inversion H as [|? ? Hs Hh]; subst. constructor; auto.
        destruct l as [|z l]; simpl.
        * constructor. destruct (leb_total x y); [congruence|auto].
        * destruct (leb x z) eqn:E2.
          -- constructor. destruct (leb_total x y); [congruence|auto].
          -- inversion Hh; subst. constructor; auto.
  Qed.
  Lemma sort_sorted l : Sorted le (sort leb l).
  Proof. induction l; simpl; [constructor|apply insert_sorted_sorted; auto]. Qed.
End Sort.
Arguments sort_perm {A}. Arguments sort_In {A}.

(* combinations *)
Lemma in_combinations2 {A} (l : list A) a b : In (a, b) (combinations2 l) -> In a l /\ In b l.
Proof.
  induction l as [|x l IH]; simpl; [tauto|]. rewrite in_app_iff, in_map_iff.
  intros [(y & E & Hy)|H]; [inversion E; subst; auto|]. destruct (IH H); auto.
Qed.

Lemma NoDup_app_inv_rev {A} (l1 l2 : list A) : NoDup l1 -> NoDup l2 -> (forall x, In x l1 -> In x l2 -> False) -> NoDup (l1 ++ l2).
Proof.
  induction l1 as [|a l1 IH]; simpl; intros N1 N2 D; auto.
  inversion N1 as [|? ? Hn Hd]; subst. constructor.
  - intro Hin. apply in_app_or in Hin as [H|H]; [auto|eapply D; eauto].
  - apply IH; auto. intros x Hx. apply D. auto.
Qed.

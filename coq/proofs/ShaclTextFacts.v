(* The text of a SHACL line written by _get_shacl_line is read back by the Turtle reader: the backslash doubling
   is exactly what keeps the closing quote of every literal where the writer put it.
   (In the comments Q is the double quote and B the backslash, as in model/ShaclText.v.) *)
From Coq Require Import Lia.
From Curies.model Require Import Str Writers ShaclText.
From Curies.proofs Require Import StrFacts WritersFacts.

(* ---- scanning for the closing quote ---- *)
Lemma scan_quote_end rest : scan_quote (dquote :: rest) = Some ([], rest).
Proof. reflexivity. Qed.
Lemma scan_quote_bs e t :
  scan_quote (backslash :: e :: t) = match scan_quote t with Some (b, r) => Some (backslash :: e :: b, r) | None => None end.
Proof. reflexivity. Qed.
Lemma scan_quote_plain c t : c <> dquote -> c <> backslash ->
  scan_quote (c :: t) = match scan_quote t with Some (b, r) => Some (c :: b, r) | None => None end.
Proof.
  intros Hq Hb. apply N.eqb_neq in Hq, Hb. cbn [scan_quote]. rewrite Hq, Hb. reflexivity.
Qed.

Lemma turtle_safe_not_quote c : turtle_safe c = true -> c <> dquote.
Proof.
  unfold turtle_safe, dquote. intros H E. subst c. discriminate H.
Qed.

(* an escaped field followed by a quote: the scan stops exactly at that quote, whatever the field ends with *)
Lemma scan_quote_escape s rest : forallb turtle_safe s = true ->
  scan_quote (escape_bs s ++ dquote :: rest) = Some (escape_bs s, rest).
Proof.
  induction s as [|c s IH]; intro H.
  - reflexivity.
  - cbn [forallb] in H. apply andb_true_iff in H as [Hc Hs]. specialize (IH Hs).
    rewrite escape_cons. destruct (N.eqb_spec c backslash) as [->|Hne].
    + cbn [app]. rewrite scan_quote_bs, IH. reflexivity.
    + cbn [app]. rewrite scan_quote_plain, IH; auto using turtle_safe_not_quote.
Qed.

(* the literal Q<escaped field>Q is read as the field *)
Lemma string_lit_escape s rest : forallb turtle_safe s = true ->
  string_lit (dquote :: escape_bs s ++ dquote :: rest) = Some (s, rest).
Proof.
  intro H. unfold string_lit. change (N.eqb dquote dquote) with true. cbv iota.
  rewrite scan_quote_escape, turtle_roundtrip by exact H. reflexivity.
Qed.

(* ---- the fixed text between the fields: computation with an arbitrary continuation X ---- *)
Lemma head_ok X : expect_tok tok_lbr (t_open ++ X) = Some ([32;115;104;58;112;114;101;102;105;120;32]%N ++ dquote :: X).
Proof. reflexivity. Qed.
Lemma prefix_key_ok X : read_field tok_prefix ([32;115;104;58;112;114;101;102;105;120;32]%N ++ dquote :: X) = string_lit (dquote :: X).
Proof. reflexivity. Qed.
Lemma mid_semi_ok X : expect_tok tok_semi (t_mid ++ X) = Some ([32;115;104;58;110;97;109;101;115;112;97;99;101;32]%N ++ dquote :: X).
Proof. reflexivity. Qed.
Lemma ns_key_ok X : read_field tok_ns ([32;115;104;58;110;97;109;101;115;112;97;99;101;32]%N ++ dquote :: X) = string_lit (dquote :: X).
Proof. reflexivity. Qed.
Lemma dt_ok X : expect tok_dt (t_dt ++ X) = Some (32%N :: X).
Proof. reflexivity. Qed.
Lemma skip_one_blank X : skip_blanks (32%N :: X) = skip_blanks X.
Proof. reflexivity. Qed.
Lemma tail_close_ok p u : parse_tail p u (skip_blanks ([] ++ t_close)) = Some (p, u, None).
Proof. reflexivity. Qed.
Lemma tail_pat_ok p u X :
  parse_tail p u (skip_blanks (t_pat ++ X)) =
  match string_lit (dquote :: X) with
  | Some (pat, s2) => if read_close s2 then Some (p, u, Some pat) else None
  | None => None
  end.
Proof. reflexivity. Qed.
Lemma close_ok : read_close t_close = true.
Proof. reflexivity. Qed.

(* the two mandatory fields, for any continuation after the datatype *)
Lemma shacl_parse_fields esc_p esc_u p u Y :
  (forall rest, string_lit (dquote :: esc_p ++ dquote :: rest) = Some (p, rest)) ->
  (forall rest, string_lit (dquote :: esc_u ++ dquote :: rest) = Some (u, rest)) ->
  shacl_parse_line (t_open ++ esc_p ++ dquote :: t_mid ++ esc_u ++ dquote :: t_dt ++ Y) = parse_tail p u (skip_blanks Y).
Proof.
  intros Hp Hu. unfold shacl_parse_line.
  rewrite head_ok, prefix_key_ok, Hp, mid_semi_ok, ns_key_ok, Hu, dt_ok, skip_one_blank. reflexivity.
Qed.

(* ---- the round trip of the whole line ---- *)
Theorem shacl_line_roundtrip p u pat :
  printable_ok p = true -> printable_ok u = true ->
  match pat with Some x => printable_ok x = true | None => True end ->
  shacl_parse_line (shacl_line p u pat) = Some (p, u, match pat with Some (c :: x) => Some (c :: x) | _ => None end).
Proof.
  intros Hp Hu Hpat.
  apply printable_turtle_safe in Hp, Hu.
  unfold shacl_line, shacl_line_with.
  rewrite shacl_parse_fields with (p := p) (u := u) by (intro rest; apply string_lit_escape; assumption).
  destruct pat as [[|c x]|].
  - apply tail_close_ok.
  - apply printable_turtle_safe in Hpat.
    rewrite <- !app_assoc. rewrite tail_pat_ok.
    change ([dquote] ++ t_close) with (dquote :: t_close).
    rewrite string_lit_escape by exact Hpat. rewrite close_ok. reflexivity.
  - apply tail_close_ok.
Qed.

(* the field-level statement of WritersFacts (shacl_roundtrip) is the projection of the text-level one *)
Corollary shacl_line_roundtrip_fields p u pat :
  printable_ok p = true -> printable_ok u = true ->
  match pat with Some x => printable_ok x = true | None => True end ->
  option_map (fun r => match r with (p', u', pat') => [p'; u'] ++ match pat' with Some x => [x] | None => [] end end)
             (shacl_parse_line (shacl_line p u pat))
  = shacl_read (shacl_line_fields p u pat).
Proof.
  intros Hp Hu Hpat. rewrite shacl_line_roundtrip, shacl_roundtrip by assumption.
  destruct pat as [[|c x]|]; reflexivity.
Qed.

(* the hypothesis is only used through turtle_safe: no quote, LF or CR in the fields *)
Theorem shacl_line_roundtrip_safe p u pat :
  forallb turtle_safe p = true -> forallb turtle_safe u = true ->
  match pat with Some x => forallb turtle_safe x = true | None => True end ->
  shacl_parse_line (shacl_line p u pat) = Some (p, u, match pat with Some (c :: x) => Some (c :: x) | _ => None end).
Proof.
  intros Hp Hu Hpat.
  unfold shacl_line, shacl_line_with.
  rewrite shacl_parse_fields with (p := p) (u := u) by (intro rest; apply string_lit_escape; assumption).
  destruct pat as [[|c x]|].
  - apply tail_close_ok.
  - rewrite <- !app_assoc. rewrite tail_pat_ok.
    change ([dquote] ++ t_close) with (dquote :: t_close).
    rewrite string_lit_escape by exact Hpat. rewrite close_ok. reflexivity.
  - apply tail_close_ok.
Qed.

(* ---- without the backslash doubling the line does not read back ----
   prefix aB : the written text is  Q a B Q ; ...  and B Q is an escaped quote: the literal runs on into the rest of
               the line and the parse fails;
   prefix aBB: the line parses, but the prefix read back is aB. *)
Theorem shacl_line_unescaped_refuted :
  shacl_parse_line (shacl_line_raw [97; 92]%N [120]%N None) = None /\
  shacl_parse_line (shacl_line_raw [97; 92; 92]%N [120]%N None) = Some ([97; 92]%N, [120]%N, None) /\
  printable_ok [97; 92]%N = true /\ printable_ok [97; 92; 92]%N = true /\ printable_ok [120]%N = true.
Proof. vm_compute. repeat split; reflexivity. Qed.


(* ---- in general: without the doubling NO prefix that contains a backslash reads back ---- *)
(* does the (unescaped) field end in the middle of an escape, i.e. with a backslash that is not itself escaped *)
Fixpoint open_escape (s : str) : bool :=
  match s with
  | [] => false
  | c :: t => if N.eqb c backslash then match t with [] => true | _ :: t' => open_escape t' end else open_escape t
  end.

Lemma list_ind2 {A} (P : list A -> Prop) :
  P [] -> (forall a, P [a]) -> (forall a b l, P l -> P (b :: l) -> P (a :: b :: l)) -> forall l, P l.
Proof.
  intros H0 H1 H2.
  assert (H : forall l, P l /\ forall a, P (a :: l)).
  { induction l as [|b l [IHa IHb]]; split; auto. }
  intro l. apply H.
Qed.

Lemma open_escape_plain c t : c <> backslash -> open_escape (c :: t) = open_escape t.
Proof. intro H. apply N.eqb_neq in H. cbn [open_escape]. rewrite H. reflexivity. Qed.

(* the field ends inside an escape: the quote written after it is swallowed and the literal runs on *)
Lemma scan_quote_open s : forall rest, forallb turtle_safe s = true -> open_escape s = true ->
  scan_quote (s ++ dquote :: rest) =
  match scan_quote rest with Some (b, r) => Some (s ++ dquote :: b, r) | None => None end.
Proof.
  induction s as [|a|a b l IHl IHbl] using list_ind2; intros rest H O.
  - discriminate O.
  - destruct (N.eqb_spec a backslash) as [->|Hne].
    + cbn [app]. rewrite scan_quote_bs. reflexivity.
    + rewrite open_escape_plain in O by exact Hne. discriminate O.
  - cbn [forallb] in H. apply andb_true_iff in H as [Ha H].
    destruct (N.eqb_spec a backslash) as [->|Hne].
    + cbn [forallb] in H. apply andb_true_iff in H as [_ H].
      change (open_escape (backslash :: b :: l)) with (open_escape l) in O.
      cbn [app]. rewrite scan_quote_bs, (IHl rest H O). destruct (scan_quote rest) as [[b' r]|]; reflexivity.
    + rewrite open_escape_plain in O by exact Hne.
      change ((a :: b :: l) ++ dquote :: rest) with (a :: ((b :: l) ++ dquote :: rest)).
      rewrite scan_quote_plain by auto using turtle_safe_not_quote.
      rewrite (IHbl rest H O). destruct (scan_quote rest) as [[b' r]|]; reflexivity.
Qed.
(* the field does not end inside an escape: the literal ends where the writer closed it *)
Lemma scan_quote_closed s : forall rest, forallb turtle_safe s = true -> open_escape s = false ->
  scan_quote (s ++ dquote :: rest) = Some (s, rest).
Proof.
  induction s as [|a|a b l IHl IHbl] using list_ind2; intros rest H O.
  - reflexivity.
  - destruct (N.eqb_spec a backslash) as [->|Hne].
    + discriminate O.
    + cbn [forallb] in H. apply andb_true_iff in H as [Ha _].
      cbn [app]. rewrite scan_quote_plain by auto using turtle_safe_not_quote. reflexivity.
  - cbn [forallb] in H. apply andb_true_iff in H as [Ha H].
    destruct (N.eqb_spec a backslash) as [->|Hne].
    + cbn [forallb] in H. apply andb_true_iff in H as [_ H].
      change (open_escape (backslash :: b :: l)) with (open_escape l) in O.
      cbn [app]. rewrite scan_quote_bs, (IHl rest H O). reflexivity.
    + rewrite open_escape_plain in O by exact Hne.
      change ((a :: b :: l) ++ dquote :: rest) with (a :: ((b :: l) ++ dquote :: rest)).
      rewrite scan_quote_plain by auto using turtle_safe_not_quote.
      rewrite (IHbl rest H O). reflexivity.
Qed.

(* what turtle_unescape does at one position *)
Lemma tu_step c t v : turtle_unescape (c :: t) = Some v ->
  (c <> backslash /\ exists v', turtle_unescape t = Some v' /\ v = c :: v') \/
  (c = backslash /\ exists e t' k v', t = e :: t' /\ turtle_unescape t' = Some v' /\ v = k :: v' /\ (e = dquote -> k = dquote)).
Proof.
  intro E. cbn [turtle_unescape] in E.
  destruct (N.eqb c 34 || N.eqb c 10 || N.eqb c 13); [discriminate|].
  destruct (N.eqb_spec c backslash) as [->|Hne].
  - right. split; [reflexivity|]. destruct t as [|e t']; [discriminate|].
    destruct (turtle_unescape t') as [v'|] eqn:U.
    + cbn [option_map] in E.
      destruct (N.eqb_spec e backslash) as [->|N1]; [inversion E; subst; exists backslash, t', backslash, v'; repeat split; auto; discriminate|].
      destruct (N.eqb_spec e 34) as [->|N2]; [inversion E; subst; exists 34%N, t', 34%N, v'; repeat split; auto|].
      assert (Hq : forall k : chr, e = dquote -> k = dquote) by (intros k Hk; exfalso; apply N2; exact Hk).
      repeat match type of E with
             | (if ?c then _ else _) = _ => destruct c; [inversion E; subst; eexists e, t', _, v'; repeat split; eauto|]
             end.
      discriminate E.
    + cbn [option_map] in E. repeat match type of E with (if ?c then _ else _) = _ => destruct c; [discriminate E|] end. discriminate E.
  - left. split; [exact Hne|]. destruct (turtle_unescape t) as [v'|]; [|discriminate]. inversion E; subst. exists v'. auto.
Qed.

(* the swallowed quote shows up in the value *)
Lemma unescape_open_has_quote s : forall b v, open_escape s = true ->
  turtle_unescape (s ++ dquote :: b) = Some v -> In dquote v.
Proof.
  induction s as [|a|a e l IHl IHel] using list_ind2; intros b' v O U.
  - discriminate O.
  - cbn [app] in U. apply tu_step in U as [(Hne & v' & U & ->)|(-> & e & t' & k & v' & Et & U & -> & Hk)].
    + rewrite open_escape_plain in O by exact Hne. discriminate O.
    + inversion Et; subst. left. apply Hk. reflexivity.
  - change ((a :: e :: l) ++ dquote :: b') with (a :: e :: (l ++ dquote :: b')) in U.
    apply tu_step in U as [(Hne & v' & U & ->)|(-> & e0 & t' & k & v' & Et & U & -> & Hk)].
    + rewrite open_escape_plain in O by exact Hne. right. apply (IHel b' v' O). exact U.
    + inversion Et; subst. change (open_escape (backslash :: e0 :: l)) with (open_escape l) in O.
      right. apply (IHl b' v' O U).
Qed.

(* every escape shortens the text *)
Lemma unescape_length s : forall v, turtle_unescape s = Some v ->
  length v <= length s /\ (In backslash s -> length v < length s).
Proof.
  induction s as [|a|a e l IHl IHel] using list_ind2; intros v U.
  - inversion U; subst. split; [auto|intros []].
  - apply tu_step in U as [(Hne & v' & U & ->)|(-> & e & t' & k & v' & Et & U & -> & Hk)]; [|discriminate Et].
    inversion U; subst. cbn [length]. split; [lia|]. intros [E|[]]. congruence.
  - apply tu_step in U as [(Hne & v' & U & ->)|(-> & e0 & t' & k & v' & Et & U & -> & Hk)].
    + destruct (IHel v' U) as [L1 L2]. cbn [length] in *. split; [lia|].
      intros [E|Hin]; [congruence|]. specialize (L2 Hin). lia.
    + inversion Et; subst. destruct (IHl v' U) as [L1 _]. cbn [length]. split; lia.
Qed.

(* whatever the reader returns, its first component is what read_field read after the bracket *)
Lemma shacl_parse_line_prefix s r : shacl_parse_line s = Some r ->
  exists s1 s2, expect_tok tok_lbr s = Some s1 /\ read_field tok_prefix s1 = Some (fst (fst r), s2).
Proof.
  unfold shacl_parse_line. intro H.
  destruct (expect_tok tok_lbr s) as [s1|]; [|discriminate]. exists s1.
  destruct (read_field tok_prefix s1) as [[p s2]|]; [|discriminate]. exists s2. split; [reflexivity|].
  destruct (expect_tok tok_semi s2) as [s3|]; [|discriminate].
  destruct (read_field tok_ns s3) as [[u s4]|]; [|discriminate].
  destruct (expect tok_dt s4) as [s5|]; [|discriminate].
  unfold parse_tail in H.
  destruct (expect tok_rbr (skip_blanks s5)) as [r0|].
  - destruct (is_nil (skip_blanks r0)); [|discriminate]. inversion H; subst. reflexivity.
  - destruct (expect tok_semi (skip_blanks s5)) as [s6|]; [|discriminate].
    destruct (read_field tok_pattern s6) as [[pat s7]|]; [|discriminate].
    destruct (read_close s7); [|discriminate]. inversion H; subst. reflexivity.
Qed.

Theorem shacl_line_raw_never_roundtrips p u pat u' pat' :
  forallb turtle_safe p = true -> In backslash p ->
  shacl_parse_line (shacl_line_raw p u pat) <> Some (p, u', pat').
Proof.
  intros Hp Hin H.
  apply shacl_parse_line_prefix in H as (s1 & s2 & E1 & E2). cbn [fst] in E2.
  unfold shacl_line_raw, shacl_line_with in E1. cbv beta in E1.
  match type of E1 with expect_tok _ (t_open ++ ?Y) = _ => set (X := Y) in E1 end.
  rewrite head_ok in E1. injection E1 as E1. subst s1.
  change (string_lit (dquote :: X) = Some (p, s2)) in E2. subst X.
  unfold string_lit in E2. change (N.eqb dquote dquote) with true in E2. cbv iota in E2.
  destruct (open_escape p) eqn:O.
  - rewrite scan_quote_open in E2 by assumption.
    match type of E2 with match (match ?x with _ => _ end) with _ => _ end = _ => destruct x as [[b r]|]; [|discriminate] end.
    destruct (turtle_unescape (p ++ dquote :: b)) as [v|] eqn:U; [|discriminate]. inversion E2; subst v.
    apply unescape_open_has_quote in U; [|exact O].
    rewrite forallb_forall in Hp. apply Hp in U. discriminate U.
  - rewrite scan_quote_closed in E2 by assumption.
    destruct (turtle_unescape p) as [v|] eqn:U; [|discriminate]. inversion E2; subst v.
    apply unescape_length in U as [_ U]. specialize (U Hin). lia.
Qed.

(* and with the doubling every such prefix does: the two theorems side by side on the printable alphabet *)
Corollary shacl_escaping_is_necessary_and_sufficient p u pat :
  printable_ok p = true -> printable_ok u = true -> match pat with Some x => printable_ok x = true | None => True end ->
  In backslash p ->
  (exists r, shacl_parse_line (shacl_line p u pat) = Some (p, u, r)) /\
  (forall u' r, shacl_parse_line (shacl_line_raw p u pat) <> Some (p, u', r)).
Proof.
  intros Hp Hu Hpat Hin. split.
  - eexists. apply shacl_line_roundtrip; assumption.
  - intros u' r. apply shacl_line_raw_never_roundtrips; [apply printable_turtle_safe; exact Hp|exact Hin].
Qed.

Print Assumptions shacl_line_roundtrip.
Print Assumptions shacl_line_roundtrip_fields.
Print Assumptions shacl_line_roundtrip_safe.
Print Assumptions shacl_line_unescaped_refuted.
Print Assumptions shacl_line_raw_never_roundtrips.
Print Assumptions shacl_escaping_is_necessary_and_sufficient.

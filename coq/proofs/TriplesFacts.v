(* MappingServiceGraph.triples: what it hands to the SPARQL engine for a triple pattern. *)
From Coq Require Import List Bool Arith NArith Lia.
From Curies.model Require Import Str PyData Trie Conv Query Val Answer Spec CheckQ Mapping.
From Curies.proofs Require Import StrFacts.
Import ListNotations.

Section T.
Variable eqv : str -> list str.

Lemma existsb_str_In p preds : existsb (str_eqb p) preds = true <-> In p preds.
Proof.
  rewrite existsb_exists. split.
  - intros [x [Hx E]]. apply str_eqb_eq in E. subst x. exact Hx.
  - intro H. exists p. split; [exact H | apply str_eqb_refl].
Qed.

(* every triple handed over is an instance of the pattern that was asked (in particular it carries the pattern's predicate) *)
Lemma triples_match preds pat t : In t (triples eqv preds pat) -> tmatch pat t = true.
Proof.
  destruct pat as [[s p] o]. unfold triples.
  destruct p as [p|]; [|intros []].
  destruct (existsb (str_eqb p) preds); [|intros []].
  destruct s as [sb|], o as [ob|]; try (intros []).
  - intro H. apply in_map_iff in H. destruct H as [x [E _]]. subst t.
    cbn [tmatch pos_match]. rewrite !str_eqb_refl. reflexivity.
  - intro H. apply in_map_iff in H. destruct H as [x [E _]]. subst t.
    cbn [tmatch pos_match]. rewrite !str_eqb_refl. reflexivity.
Qed.

(* which other predicates are configured does not matter *)
Lemma triples_configured_irrelevant preds s p o :
  In p preds -> triples eqv preds (s, Some p, o) = triples eqv [p] (s, Some p, o).
Proof.
  intro H. unfold triples. apply existsb_str_In in H. rewrite H.
  cbn [existsb]. rewrite str_eqb_refl. reflexivity.
Qed.

(* subject bound: exactly one triple per equivalent URI, in _expand_pair_all's order; symmetrically for a bound object *)
Lemma triples_objects preds s p :
  In p preds -> map snd (triples eqv preds (Some s, Some p, None)) = eqv s.
Proof.
  intro H. unfold triples. apply existsb_str_In in H. rewrite H.
  rewrite map_map. cbn [snd]. apply map_id.
Qed.
Lemma triples_subjects preds p o :
  In p preds -> map (fun t : triple => fst (fst t)) (triples eqv preds (None, Some p, Some o)) = eqv o.
Proof.
  intro H. unfold triples. apply existsb_str_In in H. rewrite H.
  rewrite map_map. cbn [fst]. apply map_id.
Qed.

(* a predicate that is not configured, a variable predicate, and patterns with both or neither side bound yield nothing *)
Lemma triples_other_predicate preds s p o : ~ In p preds -> triples eqv preds (s, Some p, o) = [].
Proof.
  intro H. unfold triples. destruct (existsb (str_eqb p) preds) eqn:E; [|reflexivity].
  apply existsb_str_In in E. contradiction.
Qed.
Lemma triples_variable_predicate preds s o : triples eqv preds (s, None, o) = [].
Proof. reflexivity. Qed.
Lemma triples_both_or_neither preds p (s o : option str) :
  (s = None <-> o = None) -> triples eqv preds (s, p, o) = [].
Proof.
  intro H. unfold triples. destruct p as [p|]; [|reflexivity].
  destruct (existsb (str_eqb p) preds); [|reflexivity].
  destruct s as [sb|], o as [ob|]; try reflexivity.
  - destruct H as [_ H]. discriminate (H eq_refl).
  - destruct H as [H _]. discriminate (H eq_refl).
Qed.

(* the two directions are mirror images: x is handed over as a subject for the object u exactly when it is as an object for the subject u *)
Lemma triples_symmetric preds p u x :
  In (x, p, u) (triples eqv preds (None, Some p, Some u)) <-> In (u, p, x) (triples eqv preds (Some u, Some p, None)).
Proof.
  unfold triples. destruct (existsb (str_eqb p) preds); [|cbn; tauto].
  rewrite !in_map_iff. split; intros [y [E Hy]]; exists y; (split; [|exact Hy]); inversion E; subst; reflexivity.
Qed.
End T.

(* The executable predicate P_C11 accepts the model's own observation on every valid CURIE-remapping case. *)
From Coq Require Import Lia Permutation.
From Curies.model Require Import Str PyData Trie Conv Query Val Answer Spec CheckQ Mutate Reconcile Loaders CheckL CheckM CheckR.
From Curies.proofs Require Import StrFacts TrieFacts DictFacts IndexFacts QueryFacts CheckFacts SortFacts C04Facts MutateFacts
  ReconcileFacts CurieFacts PModelFacts.

(* ---- decoding the observed records ---- *)
Lemma as_strs_vstrs l : as_strs (vstrs l) = Some l.
Proof.
  unfold as_strs, vstrs, as_list_of. rewrite map_map. induction l as [|a l IH]; [reflexivity|].
  cbn [map as_str all_some]. cbn [as_str] in IH. rewrite IH. reflexivity.
Qed.
Lemma as_record_vrecord r : as_record (vrecord r) = Some r.
Proof.
  destruct r as [p u ps us pat]. unfold vrecord, as_record. cbn [r_prefix r_uri r_psyn r_usyn r_pat].
  rewrite !as_strs_vstrs. destruct pat; reflexivity.
Qed.
Lemma as_records_vrecords rs : as_records (VList (map vrecord rs)) = Some rs.
Proof.
  unfold as_records, as_list_of. rewrite map_map. induction rs as [|a l IH]; [reflexivity|].
  cbn [map all_some]. rewrite as_record_vrecord, IH. reflexivity.
Qed.

(* ---- the inputs of a valid case are accepted by the strict constructor ---- *)
Lemma strict_ok_mk rs : strict_okb rs = true -> exists c, mk_conv true [58%N] rs = Val c.
Proof. unfold strict_okb. rewrite andb_true_iff, !nodup_str_spec. intros [Hp Hu]. apply nodup_mk_conv; auto. Qed.
Lemma inputs_ok l : forallb strict_okb l = true -> exists cs, sequence (map (mk_conv true [58%N]) l) = Val cs.
Proof.
  induction l as [|a l IH]; intro H; [exists []; reflexivity|].
  cbn [forallb] in H. apply andb_true_iff in H as [Ha Hl]. destruct (strict_ok_mk a Ha) as [c Hc]. destruct (IH Hl) as [cs Hcs].
  exists (c :: cs). cbn [map sequence]. rewrite Hc. cbn [bind]. rewrite Hcs. reflexivity.
Qed.
Lemma inputs_head a l : forallb strict_okb (a :: l) = true ->
  exists c cs, mk_conv true [58%N] a = Val c /\ sequence (map (mk_conv true [58%N]) (a :: l)) = Val (c :: cs).
Proof.
  intro H. cbn [forallb] in H. apply andb_true_iff in H as [Ha Hl]. destruct (strict_ok_mk a Ha) as [c Hc]. destruct (inputs_ok l Hl) as [cs Hcs].
  exists c, cs. split; auto. cbn [map sequence]. rewrite Hc. cbn [bind]. rewrite Hcs. reflexivity.
Qed.

(* ---- the QRecords answer is in every battery ---- *)
Definition is_qrecords (q : query) : bool := match q with QRecords => true | _ => false end.
Lemma result_records_model k R : result_records k (map (answer R) (rbattery k)) = Some (sort_records (recs R)).
Proof.
  unfold result_records. fold is_qrecords.
  change (combine (rbattery k) (map (answer R) (rbattery k))) with (zm R (rbattery k)).
  rewrite (find_obs_exact R (rbattery k) is_qrecords QRecords).
  - cbn [answer vres]. apply as_records_vrecords.
  - intros q Hq. destruct q; try discriminate. reflexivity.
  - unfold rbattery, battery. apply in_or_app. right. apply in_or_app. right. unfold battery_intro. in_list.
  - reflexivity.
Qed.

(* ---- tagged lists ---- *)
Section Tagged.
Variables (c : conv) (m : list (str * str)) (I : list str).
Notation step := (step_cur c m I).

Lemma step_other cur old new o x : std c old <> Some o -> (In (o, x) (step cur (old, new)) <-> In (o, x) cur).
Proof.
  intro Hne. unfold step_cur. destruct (std c old) as [orig|]; [|tauto].
  destruct (List.find _ cur) as [[o1 rc]|]; [|tauto].
  destruct (match cur_get_record cur new with Some (o2, _) => negb (str_eqb o2 orig) | None => false end); [tauto|].
  rewrite set_cur_In. split.
  - intros [(-> & _)|(_ & H)]; [congruence|exact H].
  - intro H. right. split; auto. intros ->. congruence.
Qed.
Lemma fold_other l o x : (forall on, In on l -> std c (fst on) <> Some o) -> forall cur,
  In (o, x) (fold_left step l cur) <-> In (o, x) cur.
Proof.
  induction l as [|[old new] l IH]; intros H cur; [reflexivity|]. cbn [fold_left]. rewrite IH.
  - apply step_other. apply (H (old, new)). left; auto.
  - intros on Hon. apply H. right; auto.
Qed.

(* nothing is invented *)
Lemma step_invent cur old new o x p : In (o, x) (step cur (old, new)) -> In p (all_prefixes x) ->
  p = new \/ exists x', In (o, x') cur /\ In p (all_prefixes x').
Proof.
  unfold step_cur. destruct (std c old) as [orig|]; [|eauto].
  destruct (List.find _ cur) as [[o1 rc]|] eqn:Ef; [|eauto]. apply find_tag in Ef as [-> Hrc].
  destruct (match cur_get_record cur new with Some (o2, _) => negb (str_eqb o2 orig) | None => false end); [eauto|].
  rewrite set_cur_In. intros [(-> & -> & _)|(_ & H)] Hp; [|eauto].
  apply renamed_prefixes in Hp as [->|(Hp & _)]; eauto.
Qed.
Lemma fold_invent l : forall cur o x p, In (o, x) (fold_left step l cur) -> In p (all_prefixes x) ->
  In p (map snd l) \/ exists x', In (o, x') cur /\ In p (all_prefixes x').
Proof.
  induction l as [|[old new] l IH]; intros cur o x p H Hp; [right; eauto|]. cbn [fold_left] in H.
  destruct (IH _ _ _ _ H Hp) as [Hl|(x' & Hx' & Hp')]; [left; right; exact Hl|].
  destruct (step_invent _ _ _ _ _ _ Hx' Hp') as [->|Hc]; [left; left; reflexivity|right; exact Hc].
Qed.
End Tagged.

Lemma zip2 {A B C D} (f : A -> B) (g : A -> C) (f' : D -> B) (g' : D -> C) (l0 : list A) : forall (cur : list D) d,
  map f' cur = map f l0 -> map g' cur = map g l0 -> In d cur -> exists a, In a l0 /\ f a = f' d /\ g a = g' d.
Proof.
  induction l0 as [|r l0 IH]; intros [|d1 cur] d F1 F2 Hin; try discriminate; [destruct Hin|].
  cbn [map] in F1, F2. injection F1 as F1a F1b. injection F2 as F2a F2b. destruct Hin as [E|Hin].
  - subst d1. exists r. split; [left; auto|]. split; auto.
  - destruct (IH cur d F1b F2b Hin) as (r0 & A0 & B0 & C0). exists r0. split; [right; auto|]. split; auto.
Qed.
Lemma frame_entry (l0 : list record) (cur : tagged) o x : Frame l0 cur -> In (o, x) cur ->
  exists r0, In r0 l0 /\ r_prefix r0 = o /\ frame_of r0 = frame_of x.
Proof. intros [F1 F2] Hin. apply (zip2 r_prefix frame_of fst (fun or => frame_of (snd or)) l0 cur (o, x) F1 F2 Hin). Qed.
Lemma frame_tag (l0 : list record) (cur : tagged) r : Frame l0 cur -> In r l0 -> exists x, In (r_prefix r, x) cur.
Proof.
  intros [F1 _] Hr. assert (H: In (r_prefix r) (map fst cur)) by (rewrite F1; apply in_map; auto).
  apply in_map_iff in H as ([o x] & E & Hin). cbn [fst] in E. subst o. eauto.
Qed.

(* ---- small facts ---- *)
Lemma set_eqb_refl a : set_eqb a a = true.
Proof. unfold set_eqb. assert (H: forallb (fun x => mem x a) a = true) by (apply forallb_forall; intros x Hx; apply mem_In; auto). rewrite H. reflexivity. Qed.
Lemma known_owner rs p : known_prefix rs p = true -> exists r, owner_by_prefix rs p = Some r.
Proof.
  unfold known_prefix, owner_by_prefix. intro H. apply existsb_exists in H as (r & Hr & Hp).
  destruct (List.find _ rs) as [r'|] eqn:E; [eauto|]. pose proof (find_none _ _ E r Hr) as Hn. cbv beta in Hn. congruence.
Qed.
Lemma known_false rs p : known_prefix rs p = false -> forall r, In r rs -> ~ In p (all_prefixes r).
Proof. unfold known_prefix. intros H r Hr Hp. pose proof (existsb_false _ _ H r Hr) as Hn. cbv beta in Hn. apply mem_In in Hp. congruence. Qed.
Lemma perm_filter_length {A} (f : A -> bool) l l' : Permutation l l' -> length (filter f l) = length (filter f l').
Proof.
  induction 1 as [|x l l' P IH|x y l|l l' l'' P1 IH1 P2 IH2]; cbn [filter]; auto.
  - destruct (f x); cbn [length]; auto.
  - destruct (f x), (f y); reflexivity.
  - congruence.
Qed.
Lemma in_combine_map {A B} (f : A -> B) l a b : In (a, b) (combine l (map f l)) -> b = f a.
Proof. induction l as [|x l IH]; cbn [map combine]; [intros []|intros [E|H]; [inversion E; auto|auto]]. Qed.
Lemma all_conv_conv q : all_conv_queries q = true -> conv_query q = true.
Proof. destruct q; auto. Qed.

Section Remap.
Variables (rs0 : list record) (c : conv) (m : list (str * str)) (R : conv).
Hypothesis Hc : mk_conv true [58%N] rs0 = Val c.
Hypothesis Nm : NoDup (map fst m).
Hypothesis HR : remap_curie_prefixes c m = Val R.
Let I := inter (map fst m) (map snd m).
Let S : swf c := mk_conv_swf _ _ _ Hc.
Let W0 : wf c rs0 [58%N] := mk_conv_wf _ _ _ Hc.

Lemma in0 r : In r rs0 <-> In r (recs c).
Proof. apply (wf_recs _ _ _ W0). Qed.
Lemma std0 p : std c p = option_map r_prefix (owner_by_prefix rs0 p).
Proof. apply (wf_syn _ _ _ W0). Qed.
Lemma own_rs0 r1 r2 p : In r1 rs0 -> In r2 rs0 -> In p (all_prefixes r1) -> In p (all_prefixes r2) -> r1 = r2.
Proof. intros A B C D. apply (wf_own_p _ _ _ W0 r1 r2 p); auto. Qed.

Lemma remap_full : exists ordering rs,
  order_curie_remapping c m = Val ordering /\
  Permutation rs (map snd (fold_left (step_cur c m I) ordering (cur0 c))) /\
  mk_conv true [58%N] rs = Val R /\ length rs = length (recs c).
Proof.
  destruct (order_curie_remapping c m) as [ordering|e] eqn:Ho.
  - destruct (init_inv c S) as (F0 & S0 & B0).
    destruct (fold_never_raises c m I (recs c) ordering S eq_refl (st0 c) F0 S0 B0
               (order_keys_nodup c m ordering Ho) (fun o H => match H with end)) as [st Hst].
    destruct (remap_struct c m ordering st S Ho Hst) as (rs & R' & E1 & P & E2 & E3 & SR & L & T & Fr & Ecur).
    exists ordering, rs. split; [reflexivity|]. split; [unfold I; rewrite <- Ecur; exact P|]. split; [|exact L].
    unfold remap_curie_prefixes in HR. rewrite E1 in HR. exact HR.
  - unfold remap_curie_prefixes, remap_curie_records in HR. rewrite Ho in HR. discriminate.
Qed.

Variables (ordering : list (str * str)) (rs : list record).
Hypothesis Ho : order_curie_remapping c m = Val ordering.
Let curF := fold_left (step_cur c m I) ordering (cur0 c).
Hypothesis HP : Permutation rs (map snd curF).
Hypothesis HmkR : mk_conv true [58%N] rs = Val R.
Hypothesis HL : length rs = length (recs c).

Let SR : swf R := mk_conv_swf _ _ _ HmkR.
Lemma ER : recs R = sort_records rs.
Proof. apply (c_recs _ _ _ HmkR). Qed.
Lemma delimR : delim R = [58%N].
Proof. apply (mk_conv_inv _ _ _ HmkR). Qed.
Lemma sortedR : sort_records (recs R) = recs R.
Proof. rewrite ER. apply sort_records_idem. Qed.
Lemma permO x : In x ordering <-> In x m.
Proof. split; apply Permutation_in; [|symmetry]; apply (order_perm c m ordering Ho). Qed.

Lemma inR x : In x (recs R) <-> exists o, In (o, x) curF.
Proof.
  rewrite ER, sort_records_In. split.
  - intro H. apply (Permutation_in _ HP) in H. apply in_map_iff in H as ([o y] & E & Hin). cbn [snd] in E. subst y. eauto.
  - intros [o H]. apply (Permutation_in _ (Permutation_sym HP)). apply in_map_iff. exists (o, x). auto.
Qed.
Lemma invF : Frame (recs c) curF /\ Strict curF /\ forall p, knownc (cur0 c) p -> knownc curF p.
Proof.
  destruct (none_lost_fold c m ordering S Nm Ho ordering [] (eq_sym (app_nil_r _))) as (A & B & J).
  split; [exact A|]. split; [exact B|]. intros p Hp. destruct (J p Hp) as [H|(k & [] & _)]. exact H.
Qed.
Lemma ownR p x : In x (recs R) -> In p (all_prefixes x) -> owner_by_prefix (recs R) p = Some x.
Proof.
  intros Hx Hp. rewrite owner_by_prefix_owner. apply owner_reg; auto. apply pairwise_one_owner. apply SR.
Qed.
Lemma cur0_in o x : In (o, x) (cur0 c) <-> o = r_prefix x /\ In x (recs c).
Proof.
  unfold cur0. rewrite in_map_iff. split.
  - intros (r & E & Hr). inversion E; subst. auto.
  - intros [-> Hx]. exists x. auto.
Qed.

(* result_consistent *)
Lemma consistent_model k : result_consistent k (recs R) (map (answer R) (rbattery k)) = true.
Proof.
  unfold result_consistent. rewrite (swf_strict R SR). cbn [andb]. apply forallb_forall. intros [q v] Hin. cbn [fst snd].
  destruct (all_conv_queries q) eqn:Eq; auto. apply in_combine_map in Hin. subst v.
  assert (W: wf R (recs R) [58%N]) by (rewrite <- delimR; apply SR).
  rewrite (WF.answer_spec _ _ _ W q (all_conv_conv q Eq)). apply val_eqb_refl.
Qed.

Lemma len_model : Nat.eqb (length (recs R)) (length rs0) = true.
Proof.
  apply Nat.eqb_eq. rewrite ER. unfold sort_records, sort_by_key. rewrite (Permutation_length (sort_perm _ rs)), HL.
  rewrite (c_recs _ _ _ Hc). unfold sort_records, sort_by_key. apply (Permutation_length (sort_perm _ rs0)).
Qed.

(* every record keeps its URI side *)
Lemma uris_model : forallb (fun r => match owner_u (recs R) (r_uri r) with
                               | Some r' => str_eqb (r_uri r') (r_uri r) && set_eqb (r_usyn r') (r_usyn r)
                               | None => false end) rs0 = true.
Proof.
  apply forallb_forall. intros r Hr. destruct invF as (F & St & _).
  destruct (frame_tag (recs c) curF r F (proj1 (in0 r) Hr)) as [x Hx].
  destruct (frame_entry (recs c) curF _ _ F Hx) as (r0 & H0 & Ep & Ef).
  assert (r0 = r).
  { apply (own_rs0 r0 r (r_prefix r)); auto; [apply in0; auto|rewrite <- Ep; left; auto|left; auto]. }
  subst r0. unfold frame_of in Ef. injection Ef as Eu Es _.
  assert (HxR: In x (recs R)) by (apply inR; eauto).
  change (owner_u (recs R) (r_uri r)) with (owner all_uris (recs R) (r_uri r)).
  rewrite (owner_reg all_uris (recs R) (r_uri r) x).
  - rewrite <- Eu, <- Es, str_eqb_refl, set_eqb_refl. reflexivity.
  - apply pairwise_one_owner. apply SR.
  - exact HxR.
  - rewrite Eu. left; auto.
Qed.

(* nothing lost *)
Lemma kept_model : subset (all_p rs0) (all_p (recs R)) = true.
Proof.
  unfold subset, all_p. apply forallb_forall. intros p Hp. apply in_flat_map in Hp as (r & Hr & Hp).
  destruct invF as (_ & _ & J). destruct (J p) as (o & x & Hin & Hx).
  - exists (r_prefix r), r. split; auto. apply cur0_in. split; auto. apply in0; auto.
  - apply mem_In. apply in_flat_map. exists x. split; auto. apply inR; eauto.
Qed.
(* nothing invented *)
Lemma invent_model : subset (all_p (recs R)) (all_p rs0 ++ map snd m) = true.
Proof.
  unfold subset, all_p. apply forallb_forall. intros p Hp. apply in_flat_map in Hp as (x & Hx & Hp).
  apply inR in Hx as [o Hx]. apply mem_In. apply in_or_app.
  destruct (fold_invent c m I ordering (cur0 c) o x p Hx Hp) as [Hv|(x' & Hx' & Hp')].
  - right. apply in_map_iff in Hv as (on & E & Hon). apply in_map_iff. exists on. split; auto. apply permO; auto.
  - left. apply cur0_in in Hx' as [_ Hx']. apply in_flat_map. exists x'. split; auto. apply in0; auto.
Qed.

(* an applied pair *)
Lemma applied_model old new : In (old, new) m -> known_prefix rs0 old = true -> known_prefix rs0 new = false ->
  length (filter (str_eqb new) (map snd m)) = 1 ->
  exists r r', owner_by_prefix rs0 old = Some r /\ owner_by_prefix (recs R) new = Some r' /\ r_uri r = r_uri r' /\ r_prefix r' = new.
Proof.
  intros Hin Hk Hnk Hcnt. destruct (known_owner _ _ Hk) as [r Hor]. exists r.
  destruct (owner_in _ _ _ Hor) as [Hr Hpr].
  assert (Hs: std c old = Some (r_prefix r)) by (rewrite std0, Hor; reflexivity).
  set (orig := r_prefix r) in *.
  assert (Hino: In (old, new) ordering) by (apply permO; auto).
  apply in_split in Hino as (pre & post & E).
  destruct (none_lost_fold c m ordering S Nm Ho pre ((old, new) :: post) E) as (F1 & S1 & _).
  fold I in F1, S1. set (cur1 := fold_left (step_cur c m I) pre (cur0 c)) in *.
  assert (Hpre: ~ In new (map snd pre)).
  { intro Hv. rewrite <- (perm_filter_length (str_eqb new) _ _ (Permutation_map snd (order_perm c m ordering Ho))) in Hcnt.
    rewrite E, map_app, filter_app, app_length in Hcnt. cbn [map snd filter] in Hcnt. rewrite str_eqb_refl in Hcnt. cbn [length] in Hcnt.
    assert (Hf: In new (filter (str_eqb new) (map snd pre))) by (apply filter_In; split; auto; apply str_eqb_refl).
    destruct (filter (str_eqb new) (map snd pre)); [destruct Hf|cbn [length] in Hcnt; lia]. }
  assert (G: cur_get_record cur1 new = None).
  { destruct (cur_get_record cur1 new) as [[o2 x2]|] eqn:G; auto. exfalso. apply cur_get_some in G as [Hin2 Hp2].
    destruct (fold_invent c m I pre (cur0 c) o2 x2 new Hin2 Hp2) as [Hv|(x' & Hx' & Hp')]; [contradiction|].
    apply cur0_in in Hx' as [_ Hx']. apply (known_false _ _ Hnk x'); auto. apply in0; auto. }
  destruct (frame_tag (recs c) cur1 r F1 (proj1 (in0 r) Hr)) as [rc Hrc]. fold orig in Hrc.
  assert (Ef: List.find (fun or : str * record => str_eqb (fst or) orig) cur1 = Some (orig, rc)).
  { destruct (List.find (fun or : str * record => str_eqb (fst or) orig) cur1) as [[o1 x1]|] eqn:Ef.
    - apply find_tag in Ef as [-> Hx1]. rewrite (tag_functional cur1 orig x1 rc (proj1 S1) Hx1 Hrc). reflexivity.
    - pose proof (find_none _ _ Ef (orig, rc) Hrc) as Hn. cbn [fst] in Hn. rewrite str_eqb_refl in Hn. discriminate. }
  destruct (pair_applied c m I cur1 old new orig rc Hs Ef G) as [Estep Epre].
  set (r' := renamed rc old new (handover_cond c m I old)) in *.
  assert (H2: In (orig, r') (step_cur c m I cur1 (old, new))).
  { rewrite Estep. apply set_cur_In. left. repeat split; auto. apply in_map_iff. exists (orig, rc). auto. }
  assert (HF: In (orig, r') curF).
  { unfold curF. rewrite E, fold_left_app. cbn [fold_left]. fold cur1. apply fold_other; auto.
    intros on Hon Hs2. pose proof (order_keys_nodup c m ordering Ho) as Nk. rewrite E in Nk. unfold stds in Nk.
    rewrite flat_map_app in Nk. cbn [flat_map fst] in Nk. rewrite Hs in Nk. apply NoDup_app_inv in Nk as (_ & Nk & _).
    cbn [app] in Nk. apply NoDup_cons_iff in Nk as [Hn _]. apply Hn. apply in_flat_map. exists on. split; auto. rewrite Hs2. left; auto. }
  exists r'. split; [exact Hor|]. split; [|split; [|exact Epre]].
  - apply ownR; [apply inR; eauto|]. apply renamed_prefixes. left; auto.
  - destruct (frame_entry (recs c) cur1 _ _ F1 Hrc) as (r0 & H0 & Ep & Efr).
    assert (r0 = r).
    { apply (own_rs0 r0 r orig); auto; [apply in0; auto|rewrite <- Ep; left; auto|left; auto]. }
    subst r0. unfold frame_of in Efr. injection Efr as Eu _ _. exact Eu.
Qed.

(* a pair whose new prefix belongs to a record that no pair touches *)
Lemma clash_model new r2 : owner_by_prefix rs0 new = Some r2 ->
  existsb (fun k' => mem k' (all_prefixes r2)) (map fst m) = false ->
  exists x, owner_by_prefix (recs R) new = Some x /\ r_uri x = r_uri r2.
Proof.
  intros Hor Hnk. destruct (owner_in _ _ _ Hor) as [Hr Hp]. exists r2. split; auto.
  apply ownR; auto. apply inR. exists (r_prefix r2). unfold curF. apply fold_other.
  - intros on Hon Hs. rewrite std0 in Hs. destruct (owner_by_prefix rs0 (fst on)) as [r3|] eqn:E3; [|discriminate].
    cbn [option_map] in Hs. injection Hs as Hs. destruct (owner_in _ _ _ E3) as [Hr3 Hp3].
    assert (r3 = r2).
    { apply (own_rs0 r3 r2 (r_prefix r2)); auto; [rewrite <- Hs; left; auto|left; auto]. }
    subst r3. pose proof (existsb_false _ _ Hnk (fst on)) as Hn. cbv beta in Hn.
    rewrite (proj2 (mem_In _ _) Hp3) in Hn. discriminate Hn. apply in_map. apply permO; auto.
  - apply cur0_in. split; auto. apply in0; auto.
Qed.
End Remap.

Theorem P_C11_model : forall k : rcase, valid_r k = true ->
  (match rc_op k with DRemapCurie _ => True | _ => False end) -> P_C11 k (model_robs k) = true.
Proof.
  intros k V Hop. destruct (rc_op k) as [| |m| |] eqn:Eop; try contradiction. clear Hop.
  unfold valid_r in V. rewrite Eop in V. rewrite !andb_true_iff in V. destruct V as (Vs & Vn & Vm).
  destruct (rc_inputs k) as [|rs0 rest] eqn:Ein; [discriminate|]. clear Vn.
  destruct (inputs_head rs0 rest Vs) as (c & cs & Hc & Hseq).
  apply nodup_str_spec in Vm.
  unfold model_robs, input_convs. rewrite Ein, Hseq. unfold derive. rewrite Eop.
  destruct (remap_curie_prefixes c m) as [R|e] eqn:HR.
  - unfold P_C11. rewrite Eop, Ein.
    change (existsb (Z.eqb 0) [11; 12; 13; 14]%Z) with false. change (negb (0 =? 0)%Z) with false. cbv iota.
    destruct (remap_full rs0 c m R Hc HR) as (ordering & rs & Ho & HP & HmkR & HL).
    rewrite result_records_model, (sortedR R rs HmkR).
    rewrite (consistent_model R rs HmkR k), (len_model rs0 c R Hc rs HmkR HL), (uris_model rs0 c m R Hc Vm ordering rs Ho HP HmkR),
            (kept_model rs0 c m R Hc Vm ordering rs Ho HP HmkR), (invent_model rs0 c m R Hc ordering rs Ho HP HmkR).
    cbn [andb]. apply andb_true_iff. split; apply forallb_forall; intros [old new] Hin.
    + destruct (known_prefix rs0 old && negb (known_prefix rs0 new) && (length (filter (str_eqb new) (map snd m)) =? 1)) eqn:Econd; auto.
      rewrite !andb_true_iff in Econd. destruct Econd as [[Hk Hnk] Hcnt]. apply negb_true_iff in Hnk. apply Nat.eqb_eq in Hcnt.
      destruct (applied_model rs0 c m R Hc Vm ordering rs Ho HP HmkR HL old new Hin Hk Hnk Hcnt) as (r & r' & E1 & E2 & E3 & E4).
      rewrite E1, E2, E3, E4, !str_eqb_refl. reflexivity.
    + destruct (owner_by_prefix rs0 old) as [r|]; auto. destruct (owner_by_prefix rs0 new) as [r2|] eqn:E2; auto.
      destruct (negb (str_eqb (r_prefix r) (r_prefix r2)) && negb (existsb (fun k' => mem k' (all_prefixes r2)) (map fst m))) eqn:Econd; auto.
      apply andb_true_iff in Econd as [_ Hnk]. apply negb_true_iff in Hnk.
      destruct (clash_model rs0 c m R Hc ordering rs Ho HP HmkR new r2 E2 Hnk) as (x & Ex & Eu).
      rewrite Ex, Eu. apply str_eqb_refl.
  - unfold P_C11. rewrite Eop, Ein.
    assert (D: documented e).
    { destruct (remap_curie_main c m (mk_conv_swf _ _ _ Hc) Vm) as [(e' & He' & D)|(R & rs & HR' & _)]; congruence. }
    destruct D as [-> | [-> | [-> | ->]]]; reflexivity.
Qed.
Print Assumptions P_C11_model.

(* The executable predicate P_C11 accepts the model's own observation on every valid CURIE-remapping case. *)
From Coq Require Import Lia Permutation.
From Curies.model Require Import Str PyData Trie Conv Query Val Answer Spec CheckQ Mutate Reconcile Loaders CheckL CheckM CheckR.
From Curies.proofs Require Import StrFacts TrieFacts DictFacts IndexFacts QueryFacts CheckFacts SortFacts C04Facts MutateFacts
  ReconcileFacts CurieFacts PModelFacts.

(* ---- decoding the observed records ---- *)
Lemma as_strs_vstrs l : as_strs (vstrs l) = Some l.
Proof.
  unfold as_strs, vstrs, as_list_of. rewrite map_map. induction l as [|a l IH]; [reflexivity|].
  cbn [map as_str all_some]. cbn [as_str] in IH. rewrite IH. reflexivity.
Qed.
Lemma as_record_vrecord r : as_record (vrecord r) = Some r.
Proof.
  destruct r as [p u ps us pat]. unfold vrecord, as_record. cbn [r_prefix r_uri r_psyn r_usyn r_pat].
  rewrite !as_strs_vstrs. destruct pat; reflexivity.
Qed.
Lemma as_records_vrecords rs : as_records (VList (map vrecord rs)) = Some rs.
Proof.
  unfold as_records, as_list_of. rewrite map_map. induction rs as [|a l IH]; [reflexivity|].
  cbn [map all_some]. rewrite as_record_vrecord, IH. reflexivity.
Qed.

(* ---- the inputs of a valid case are accepted by the strict constructor ---- *)
Lemma strict_ok_mk rs : strict_okb rs = true -> exists c, mk_conv true [58%N] rs = Val c.
Proof. unfold strict_okb. rewrite andb_true_iff, !nodup_str_spec. intros [Hp Hu]. apply nodup_mk_conv; auto. Qed.
Lemma inputs_ok l : forallb strict_okb l = true -> exists cs, sequence (map (mk_conv true [58%N]) l) = Val cs.
Proof.
  induction l as [|a l IH]; intro H; [exists []; reflexivity|].
  cbn [forallb] in H. apply andb_true_iff in H as [Ha Hl]. destruct (strict_ok_mk a Ha) as [c Hc]. destruct (IH Hl) as [cs Hcs].
  exists (c :: cs). cbn [map sequence]. rewrite Hc. cbn [bind]. rewrite Hcs. reflexivity.
Qed.
Lemma inputs_head a l : forallb strict_okb (a :: l) = true ->
  exists c cs, mk_conv true [58%N] a = Val c /\ sequence (map (mk_conv true [58%N]) (a :: l)) = Val (c :: cs).
Proof.
  intro H. cbn [forallb] in H. apply andb_true_iff in H as [Ha Hl]. destruct (strict_ok_mk a Ha) as [c Hc]. destruct (inputs_ok l Hl) as [cs Hcs].
  exists c, cs. split; auto. cbn [map sequence]. rewrite Hc. cbn [bind]. rewrite Hcs. reflexivity.
Qed.

(* ---- the QRecords answer is in every battery ---- *)
Definition is_qrecords (q : query) : bool := match q with QRecords => true | _ => false end.
Lemma result_records_model k R : result_records k (map (answer R) (rbattery k)) = Some (sort_records (recs R)).
Proof.
  unfold result_records. fold is_qrecords.
  change (combine (rbattery k) (map (answer R) (rbattery k))) with (zm R (rbattery k)).
  rewrite (find_obs_exact R (rbattery k) is_qrecords QRecords).
  - cbn [answer vres]. apply as_records_vrecords.
  - intros q Hq. destruct q; try discriminate. reflexivity.
  - unfold rbattery, battery. apply in_or_app. right. apply in_or_app. right. unfold battery_intro. in_list.
  - reflexivity.
Qed.

(* ---- tagged lists ---- *)
Section Tagged.
Variables (c : conv) (m : list (str * str)) (I : list str).
Notation step := (step_cur c m I).

Lemma step_other cur old new o x : std c old <> Some o -> (In (o, x) (step cur (old, new)) <-> In (o, x) cur).
Proof.
  intro Hne. unfold step_cur. destruct (std c old) as [orig|]; [|tauto].
  destruct (List.find _ cur) as [[o1 rc]|]; [|tauto].
  destruct (match cur_get_record cur new with Some (o2, _) => negb (str_eqb o2 orig) | None => false end); [tauto|].
  rewrite set_cur_In. split.
  - intros [(-> & _)|(_ & H)]; [congruence|exact H].
  - intro H. right. split; auto. intros ->. congruence.
Qed.
Lemma fold_other l o x : (forall on, In on l -> std c (fst on) <> Some o) -> forall cur,
  In (o, x) (fold_left step l cur) <-> In (o, x) cur.
Proof.
  induction l as [|[old new] l IH]; intros H cur; [reflexivity|]. cbn [fold_left]. rewrite IH.
  - apply step_other. apply (H (old, new)). left; auto.
  - intros on Hon. apply H. right; auto.
Qed.

(* nothing is invented *)
Lemma step_invent cur old new o x p : In (o, x) (step cur (old, new)) -> In p (all_prefixes x) ->
  p = new \/ exists x', In (o, x') cur /\ In p (all_prefixes x').
Proof.
  unfold step_cur. destruct (std c old) as [orig|]; [|eauto].
  destruct (List.find _ cur) as [[o1 rc]|] eqn:Ef; [|eauto]. apply find_tag in Ef as [-> Hrc].
  destruct (match cur_get_record cur new with Some (o2, _) => negb (str_eqb o2 orig) | None => false end); [eauto|].
  rewrite set_cur_In. intros [(-> & -> & _)|(_ & H)] Hp; [|eauto].
  apply renamed_prefixes in Hp as [->|(Hp & _)]; eauto.
Qed.
Lemma fold_invent l : forall cur o x p, In (o, x) (fold_left step l cur) -> In p (all_prefixes x) ->
  In p (map snd l) \/ exists x', In (o, x') cur /\ In p (all_prefixes x').
Proof.
  induction l as [|[old new] l IH]; intros cur o x p H Hp; [right; eauto|]. cbn [fold_left] in H.
  destruct (IH _ _ _ _ H Hp) as [Hl|(x' & Hx' & Hp')]; [left; right; exact Hl|].
  destruct (step_invent _ _ _ _ _ _ Hx' Hp') as [->|Hc]; [left; left; reflexivity|right; exact Hc].
Qed.
End Tagged.

Lemma zip2 {A B C D} (f : A -> B) (g : A -> C) (f' : D -> B) (g' : D -> C) (l0 : list A) : forall (cur : list D) d,
  map f' cur = map f l0 -> map g' cur = map g l0 -> In d cur -> exists a, In a l0 /\ f a = f' d /\ g a = g' d.
Proof.
  induction l0 as [|r l0 IH]; intros [|d1 cur] d F1 F2 Hin; try discriminate; [destruct Hin|].
  cbn [map] in F1, F2. injection F1 as F1a F1b. injection F2 as F2a F2b. destruct Hin as [E|Hin].
  - subst d1. exists r. split; [left; auto|]. split; auto.
  - destruct (IH cur d F1b F2b Hin) as (r0 & A0 & B0 & C0). exists r0. split; [right; auto|]. split; auto.
Qed.
Lemma frame_entry (l0 : list record) (cur : tagged) o x : Frame l0 cur -> In (o, x) cur ->
  exists r0, In r0 l0 /\ r_prefix r0 = o /\ frame_of r0 = frame_of x.
Proof. intros [F1 F2] Hin. apply (zip2 r_prefix frame_of fst (fun or => frame_of (snd or)) l0 cur (o, x) F1 F2 Hin). Qed.
Lemma frame_tag (l0 : list record) (cur : tagged) r : Frame l0 cur -> In r l0 -> exists x, In (r_prefix r, x) cur.
Proof.
  intros [F1 _] Hr. assert (H: In (r_prefix r) (map fst cur)) by (rewrite F1; apply in_map; auto).
  apply in_map_iff in H as ([o x] & E & Hin). cbn [fst] in E. subst o. eauto.
Qed.

(* ---- small facts ---- *)
Lemma set_eqb_refl a : set_eqb a a = true.
Proof. unfold set_eqb. assert (H: forallb (fun x => mem x a) a = true) by (apply forallb_forall; intros x Hx; apply mem_In; auto). rewrite H. reflexivity. Qed.
Lemma known_owner rs p : known_prefix rs p = true -> exists r, owner_by_prefix rs p = Some r.
Proof.
  unfold known_prefix, owner_by_prefix. intro H. apply existsb_exists in H as (r & Hr & Hp).
  destruct (List.find _ rs) as [r'|] eqn:E; [eauto|]. pose proof (find_none _ _ E r Hr) as Hn. cbv beta in Hn. congruence.
Qed.
Lemma known_false rs p : known_prefix rs p = false -> forall r, In r rs -> ~ In p (all_prefixes r).
Proof. unfold known_prefix. intros H r Hr Hp. pose proof (existsb_false _ _ H r Hr) as Hn. cbv beta in Hn. apply mem_In in Hp. congruence. Qed.
Lemma perm_filter_length {A} (f : A -> bool) l l' : Permutation l l' -> length (filter f l) = length (filter f l').
Proof.
  induction 1 as [|x l l' P IH|x y l|l l' l'' P1 IH1 P2 IH2]; cbn [filter]; auto.
  - destruct (f x); cbn [length]; auto.
  - destruct (f x), (f y); reflexivity.
  - congruence.
Qed.
Lemma in_combine_map {A B} (f : A -> B) l a b : In (a, b) (combine l (map f l)) -> b = f a.
Proof. induction l as [|x l IH]; cbn [map combine]; [intros []|intros [E|H]; [inversion E; auto|auto]]. Qed.
Lemma all_conv_conv q : all_conv_queries q = true -> conv_query q = true.
Proof. destruct q; auto. Qed.

Section Remap.
Variables (rs0 : list record) (c : conv) (m : list (str * str)) (R : conv).
Hypothesis Hc : mk_conv true [58%N] rs0 = Val c.
Hypothesis Nm : NoDup (map fst m).
Hypothesis HR : remap_curie_prefixes c m = Val R.
Let I := inter (map fst m) (map snd m).
Let S : swf c := mk_conv_swf _ _ _ Hc.
Let W0 : wf c rs0 [58%N] := mk_conv_wf _ _ _ Hc.

Lemma in0 r : In r rs0 <-> In r (recs c).
Proof. apply (wf_recs _ _ _ W0). Qed.
Lemma std0 p : std c p = option_map r_prefix (owner_by_prefix rs0 p).
Proof. apply (wf_syn _ _ _ W0). Qed.
Lemma own_rs0 r1 r2 p : In r1 rs0 -> In r2 rs0 -> In p (all_prefixes r1) -> In p (all_prefixes r2) -> r1 = r2.
Proof. intros A B C D. apply (wf_own_p _ _ _ W0 r1 r2 p); auto. Qed.

Lemma remap_full : exists ordering rs,
  order_curie_remapping c m = Val ordering /\
  Permutation rs (map snd (fold_left (step_cur c m I) ordering (cur0 c))) /\
  mk_conv true [58%N] rs = Val R /\ length rs = length (recs c).
Proof.
  destruct (order_curie_remapping c m) as [ordering|e] eqn:Ho.
  - destruct (init_inv c S) as (F0 & S0 & B0).
    destruct (fold_never_raises c m I (recs c) ordering S eq_refl (st0 c) F0 S0 B0
               (order_keys_nodup c m ordering Ho) (fun o H => match H with end)) as [st Hst].
    destruct (remap_struct c m ordering st S Ho Hst) as (rs & R' & E1 & P & E2 & E3 & SR & L & T & Fr & Ecur).
    exists ordering, rs. split; [reflexivity|]. split; [unfold I; rewrite <- Ecur; exact P|]. split; [|exact L].
    unfold remap_curie_prefixes in HR. rewrite E1 in HR. exact HR.
  - unfold remap_curie_prefixes, remap_curie_records in HR. rewrite Ho in HR. discriminate.
Qed.

Variables (ordering : list (str * str)) (rs : list record).
Hypothesis Ho : order_curie_remapping c m = Val ordering.
Let curF := fold_left (step_cur c m I) ordering (cur0 c).
Hypothesis HP : Permutation rs (map snd curF).
Hypothesis HmkR : mk_conv true [58%N] rs = Val R.
Hypothesis HL : length rs = length (recs c).

Let SR : swf R := mk_conv_swf _ _ _ HmkR.
Lemma ER : recs R = sort_records rs.
Proof. apply (c_recs _ _ _ HmkR). Qed.
Lemma delimR : delim R = [58%N].
Proof. apply (mk_conv_inv _ _ _ HmkR). Qed.
Lemma sortedR : sort_records (recs R) = recs R.
Proof. rewrite ER. apply sort_records_idem. Qed.
Lemma permO x : In x ordering <-> In x m.
Proof. split; apply Permutation_in; [|symmetry]; apply (order_perm c m ordering Ho). Qed.

Lemma inR x : In x (recs R) <-> exists o, In (o, x) curF.
Proof.
  rewrite ER, sort_records_In. split.
  - intro H. apply (Permutation_in _ HP) in H. apply in_map_iff in H as ([o y] & E & Hin). cbn [snd] in E. subst y. eauto.
  - intros [o H]. apply (Permutation_in _ (Permutation_sym HP)). apply in_map_iff. exists (o, x). auto.
Qed.
Lemma invF : Frame (recs c) curF /\ Strict curF /\ forall p, knownc (cur0 c) p -> knownc curF p.
Proof.
  destruct (none_lost_fold c m ordering S Nm Ho ordering [] (eq_sym (app_nil_r _))) as (A & B & J).
  split; [exact A|]. split; [exact B|]. intros p Hp. destruct (J p Hp) as [H|(k & [] & _)]. exact H.
Qed.
Lemma ownR p x : In x (recs R) -> In p (all_prefixes x) -> owner_by_prefix (recs R) p = Some x.
Proof.
  intros Hx Hp. rewrite owner_by_prefix_owner. apply owner_reg; auto. apply pairwise_one_owner. apply SR.
Qed.
Lemma cur0_in o x : In (o, x) (cur0 c) <-> o = r_prefix x /\ In x (recs c).
Proof.
  unfold cur0. rewrite in_map_iff. split.
  - intros (r & E & Hr). inversion E; subst. auto.
  - intros [-> Hx]. exists x. auto.
Qed.

(* result_consistent *)
Lemma consistent_model k : result_consistent k (recs R) (map (answer R) (rbattery k)) = true.
Proof.
  unfold result_consistent. rewrite (swf_strict R SR). cbn [andb]. apply forallb_forall. intros [q v] Hin. cbn [fst snd].
  destruct (all_conv_queries q) eqn:Eq; auto. apply in_combine_map in Hin. subst v.
  assert (W: wf R (recs R) [58%N]) by (rewrite <- delimR; apply SR).
  rewrite (WF.answer_spec _ _ _ W q (all_conv_conv q Eq)). apply val_eqb_refl.
Qed.

Lemma len_model : Nat.eqb (length (recs R)) (length rs0) = true.
Proof.
  apply Nat.eqb_eq. rewrite ER. unfold sort_records, sort_by_key. rewrite (Permutation_length (sort_perm _ rs)), HL.
  rewrite (c_recs _ _ _ Hc). unfold sort_records, sort_by_key. apply (Permutation_length (sort_perm _ rs0)).
Qed.

(* every record keeps its URI side *)
Lemma uris_model : forallb (fun r => match owner_u (recs R) (r_uri r) with
                               | Some r' => str_eqb (r_uri r') (r_uri r) && set_eqb (r_usyn r') (r_usyn r)
                               | None => false end) rs0 = true.
Proof.
  apply forallb_forall. intros r Hr. destruct invF as (F & St & _).
  destruct (frame_tag (recs c) curF r F (proj1 (in0 r) Hr)) as [x Hx].
  destruct (frame_entry (recs c) curF _ _ F Hx) as (r0 & H0 & Ep & Ef).
  assert (r0 = r).
  { apply (own_rs0 r0 r (r_prefix r)); auto; [apply in0; auto|rewrite <- Ep; left; auto|left; auto]. }
  subst r0. unfold frame_of in Ef. injection Ef as Eu Es _.
  assert (HxR: In x (recs R)) by (apply inR; eauto).
  change (owner_u (recs R) (r_uri r)) with (owner all_uris (recs R) (r_uri r)).
  rewrite (owner_reg all_uris (recs R) (r_uri r) x).
  - rewrite <- Eu, <- Es, str_eqb_refl, set_eqb_refl. reflexivity.
  - apply pairwise_one_owner. apply SR.
  - exact HxR.
  - rewrite Eu. left; auto.
Qed.

(* nothing lost *)
Lemma kept_model : subset (all_p rs0) (all_p (recs R)) = true.
Proof.
  unfold subset, all_p. apply forallb_forall. intros p Hp. apply in_flat_map in Hp as (r & Hr & Hp).
  destruct invF as (_ & _ & J). destruct (J p) as (o & x & Hin & Hx).
  - exists (r_prefix r), r. split; auto. apply cur0_in. split; auto. apply in0; auto.
  - apply mem_In. apply in_flat_map. exists x. split; auto. apply inR; eauto.
Qed.
(* nothing invented *)
Lemma invent_model : subset (all_p (recs R)) (all_p rs0 ++ map snd m) = true.
Proof.
  unfold subset, all_p. apply forallb_forall. intros p Hp. apply in_flat_map in Hp as (x & Hx & Hp).
  apply inR in Hx as [o Hx]. apply mem_In. apply in_or_app.
  destruct (fold_invent c m I ordering (cur0 c) o x p Hx Hp) as [Hv|(x' & Hx' & Hp')].
  - right. apply in_map_iff in Hv as (on & E & Hon). apply in_map_iff. exists on. split; auto. apply permO; auto.
  - left. apply cur0_in in Hx' as [_ Hx']. apply in_flat_map. exists x'. split; auto. apply in0; auto.
Qed.

(* an applied pair *)
Lemma applied_model old new : In (old, new) m -> known_prefix rs0 old = true -> known_prefix rs0 new = false ->
  length (filter (str_eqb new) (map snd m)) = 1 ->
  exists r r', owner_by_prefix rs0 old = Some r /\ owner_by_prefix (recs R) new = Some r' /\ r_uri r = r_uri r' /\ r_prefix r' = new.
Proof.
  intros Hin Hk Hnk Hcnt. destruct (known_owner _ _ Hk) as [r Hor]. exists r.
  destruct (owner_in _ _ _ Hor) as [Hr Hpr].
  assert (Hs: std c old = Some (r_prefix r)) by (rewrite std0, Hor; reflexivity).
  set (orig := r_prefix r) in *.
  assert (Hino: In (old, new) ordering) by (apply permO; auto).
  apply in_split in Hino as (pre & post & E).
  destruct (none_lost_fold c m ordering S Nm Ho pre ((old, new) :: post) E) as (F1 & S1 & _).
  fold I in F1, S1. set (cur1 := fold_left (step_cur c m I) pre (cur0 c)) in *.
  assert (Hpre: ~ In new (map snd pre)).
  { intro Hv. rewrite <- (perm_filter_length (str_eqb new) _ _ (Permutation_map snd (order_perm c m ordering Ho))) in Hcnt.
    rewrite E, map_app, filter_app, app_length in Hcnt. cbn [map snd filter] in Hcnt. rewrite str_eqb_refl in Hcnt. cbn [length] in Hcnt.
    assert (Hf: In new (filter (str_eqb new) (map snd pre))) by (apply filter_In; split; auto; apply str_eqb_refl).
    destruct (filter (str_eqb new) (map snd pre)); [destruct Hf|cbn [length] in Hcnt; lia]. }
  assert (G: cur_get_record cur1 new = None).
  { destruct (cur_get_record cur1 new) as [[o2 x2]|] eqn:G; auto. exfalso. apply cur_get_some in G as [Hin2 Hp2].
    destruct (fold_invent c m I pre (cur0 c) o2 x2 new Hin2 Hp2) as [Hv|(x' & Hx' & Hp')]; [contradiction|].
    apply cur0_in in Hx' as [_ Hx']. apply (known_false _ _ Hnk x'); auto. apply in0; auto. }
  destruct (frame_tag (recs c) cur1 r F1 (proj1 (in0 r) Hr)) as [rc Hrc]. fold orig in Hrc.
  assert (Ef: List.find (fun or : str * record => str_eqb (fst or) orig) cur1 = Some (orig, rc)).
  { destruct (List.find (fun or : str * record => str_eqb (fst or) orig) cur1) as [[o1 x1]|] eqn:Ef.
    - apply find_tag in Ef as [-> Hx1]. rewrite (tag_functional cur1 orig x1 rc (proj1 S1) Hx1 Hrc). reflexivity.
    - pose proof (find_none _ _ Ef (orig, rc) Hrc) as Hn. cbn [fst] in Hn. rewrite str_eqb_refl in Hn. discriminate. }
  destruct (pair_applied c m I cur1 old new orig rc Hs Ef G) as [Estep Epre].
  set (r' := renamed rc old new (handover_cond c m I old)) in *.
  assert (H2: In (orig, r') (step_cur c m I cur1 (old, new))).
  { rewrite Estep. apply set_cur_In. left. repeat split; auto. apply in_map_iff. exists (orig, rc). auto. }
  assert (HF: In (orig, r') curF).
  { unfold curF. rewrite E, fold_left_app. cbn [fold_left]. fold cur1. apply fold_other; auto.
    intros on Hon Hs2. pose proof (order_keys_nodup c m ordering Ho) as Nk. rewrite E in Nk. unfold stds in Nk.
    rewrite flat_map_app in Nk. cbn [flat_map fst] in Nk. rewrite Hs in Nk. apply NoDup_app_inv in Nk as (_ & Nk & _).
    cbn [app] in Nk. apply NoDup_cons_iff in Nk as [Hn _]. apply Hn. apply in_flat_map. exists on. split; auto. rewrite Hs2. left; auto. }
  exists r'. split; [exact Hor|]. split; [|split; [|exact Epre]].
  - apply ownR; [apply inR; eauto|]. apply renamed_prefixes. left; auto.
  - destruct (frame_entry (recs c) cur1 _ _ F1 Hrc) as (r0 & H0 & Ep & Efr).
    assert (r0 = r).
    { apply (own_rs0 r0 r orig); auto; [apply in0; auto|rewrite <- Ep; left; auto|left; auto]. }
    subst r0. unfold frame_of in Efr. injection Efr as Eu _ _. exact Eu.
Qed.

(* a pair whose new prefix belongs to a record that no pair touches *)
Lemma clash_model new r2 : owner_by_prefix rs0 new = Some r2 ->
  existsb (fun k' => mem k' (all_prefixes r2)) (map fst m) = false ->
  exists x, owner_by_prefix (recs R) new = Some x /\ r_uri x = r_uri r2.
Proof.
  intros Hor Hnk. destruct (owner_in _ _ _ Hor) as [Hr Hp]. exists r2. split; auto.
  apply ownR; auto. apply inR. exists (r_prefix r2). unfold curF. apply fold_other.
  - intros on Hon Hs. rewrite std0 in Hs. destruct (owner_by_prefix rs0 (fst on)) as [r3|] eqn:E3; [|discriminate].
    cbn [option_map] in Hs. injection Hs as Hs. destruct (owner_in _ _ _ E3) as [Hr3 Hp3].
    assert (r3 = r2).
    { apply (own_rs0 r3 r2 (r_prefix r2)); auto; [rewrite <- Hs; left; auto|left; auto]. }
    subst r3. pose proof (existsb_false _ _ Hnk (fst on)) as Hn. cbv beta in Hn.
    rewrite (proj2 (mem_In _ _) Hp3) in Hn. discriminate Hn. apply in_map. apply permO; auto.
  - apply cur0_in. split; auto. apply in0; auto.
Qed.
End Remap.

(* ================= the error code is exactly the specified one ================= *)
(* ---- small list facts ---- *)
Lemma two_distinct_length {A} (l : list A) x y : In x l -> In y l -> x <> y -> 1 < length l.
Proof.
  destruct l as [|a [|b t]]; cbn [length In]; intros Hx Hy Hne; [destruct Hx| |lia].
  destruct Hx as [<-|[]], Hy as [<-|[]]. congruence.
Qed.
Lemma length_two_distinct {A} (l : list A) : NoDup l -> 1 < length l -> exists x y, In x l /\ In y l /\ x <> y.
Proof.
  destruct l as [|a [|b t]]; cbn [length]; intros N H; try lia.
  exists a, b. split; [left; auto|]. split; [right; left; auto|]. intros ->. inversion N as [|? ? Hn _]; subst. apply Hn. left; auto.
Qed.
Lemma filter_two {A} (p : A -> bool) l x y : In x l -> In y l -> x <> y -> p x = true -> p y = true -> 1 < length (filter p l).
Proof. intros Hx Hy Hne Px Py. apply (two_distinct_length _ x y); auto; apply filter_In; auto. Qed.
Lemma two_filter {A} (p : A -> bool) l : NoDup l -> 1 < length (filter p l) ->
  exists x y, In x l /\ In y l /\ x <> y /\ p x = true /\ p y = true.
Proof.
  intros N H. destruct (length_two_distinct (filter p l) (NoDup_filter p N) H) as (x & y & Hx & Hy & Hne).
  apply filter_In in Hx as [Hx Px]. apply filter_In in Hy as [Hy Py]. exists x, y. auto.
Qed.
Lemma dedup_two l : 1 < length (dedup l) <-> exists a b, In a l /\ In b l /\ a <> b.
Proof.
  split.
  - intro H. destruct (length_two_distinct (dedup l) (dedup_NoDup l) H) as (a & b & Ha & Hb & Hne).
    exists a, b. rewrite <- !(dedup_In l). auto.
  - intros (a & b & Ha & Hb & Hne). apply (two_distinct_length _ a b); auto; apply dedup_In; auto.
Qed.
Lemma filter_map_comm {A B} (h : A -> B) (p : B -> bool) l : filter p (map h l) = map h (filter (fun x => p (h x)) l).
Proof. induction l as [|a l IH]; cbn [map filter]; [reflexivity|]. destruct (p (h a)); cbn [map]; rewrite IH; reflexivity. Qed.
Lemma in_dget {V} (d : list (str * V)) k v : NoDup (map fst d) -> In (k, v) d -> dget k d = Some v.
Proof.
  induction d as [|[a b] d IH]; cbn [map fst dget In]; intros N H; [destruct H|]. inversion N as [|? ? Hn Hd]; subst.
  destruct H as [E|H].
  - inversion E; subst. rewrite str_eqb_refl. reflexivity.
  - destruct (str_eqb_spec k a) as [->|Hne]; [|auto]. exfalso. apply Hn. apply in_map_iff. exists (a, v). auto.
Qed.
Lemma seq_dup {B} (dec : forall x y : B, {x = y} + {x <> y}) (f : nat -> B) len : forall a, ~ NoDup (map f (seq a len)) ->
  exists i j, a <= i /\ i < j /\ j < a + len /\ f i = f j.
Proof.
  induction len as [|len IH]; intros a H; cbn [seq map] in H; [exfalso; apply H; constructor|].
  destruct (in_dec dec (f a) (map f (seq (S a) len))) as [Hin|Hn].
  - apply in_map_iff in Hin as (j & E & Hj). apply in_seq in Hj. exists a, j. repeat split; auto; lia.
  - destruct (IH (S a)) as (i & j & H1 & H2 & H3 & H4); [intro N; apply H; constructor; auto|].
    exists i, j. repeat split; auto; lia.
Qed.

(* ---- the groups of the three duplicate checks ---- *)
Definition gmem (K : option str) (g : list (option str * list str)) : list str :=
  match List.find (fun e => okey_eqb K (fst e)) g with Some e => snd e | None => [] end.
Lemma gmem_group_add K k v g : gmem K (group_add k v g) = if okey_eqb K k then gmem K g ++ [v] else gmem K g.
Proof.
  unfold gmem. induction g as [|[k' vs] g IH]; cbn [group_add List.find fst snd].
  - destruct (okey_eqb K k); reflexivity.
  - destruct (okey_eqb k k') eqn:E; cbn [List.find fst snd].
    + apply okey_eqb_eq in E. subst k'. destruct (okey_eqb K k); reflexivity.
    + destruct (okey_eqb K k') eqn:E2.
      * apply okey_eqb_eq in E2. subst k'. destruct (okey_eqb K k) eqn:E3; auto.
        apply okey_eqb_eq in E3. subst. rewrite okey_eqb_refl in E. discriminate.
      * exact IH.
Qed.
Lemma group_add_keys_in k v g x : In x (map fst (group_add k v g)) -> x = k \/ In x (map fst g).
Proof.
  induction g as [|[k' vs] g IH]; cbn [group_add map fst In].
  - intros [<-|[]]; auto.
  - destruct (okey_eqb k k'); cbn [map fst In]; [auto|]. intros [<-|H]; auto. destruct (IH H); auto.
Qed.
Lemma group_add_nodup k v g : NoDup (map fst g) -> NoDup (map fst (group_add k v g)).
Proof.
  induction g as [|[k' vs] g IH]; cbn [group_add map fst]; intro N.
  - constructor; [intros []|constructor].
  - inversion N as [|? ? Hn Hd]; subst. destruct (okey_eqb k k') eqn:E; cbn [map fst]; [constructor; auto|].
    constructor; [|auto]. intro Hin. apply group_add_keys_in in Hin as [->|Hin]; [|auto].
    rewrite okey_eqb_refl in E. discriminate.
Qed.
Definition gfold (items : list (option str * str)) (g : list (option str * list str)) :=
  fold_left (fun g x => group_add (fst x) (snd x) g) items g.
Lemma gmem_gfold K items : forall g, gmem K (gfold items g) = gmem K g ++ map snd (filter (fun x => okey_eqb K (fst x)) items).
Proof.
  induction items as [|x items IH]; intro g; cbn [gfold fold_left filter map]; [rewrite app_nil_r; reflexivity|].
  fold (gfold items (group_add (fst x) (snd x) g)). rewrite IH, gmem_group_add.
  destruct (okey_eqb K (fst x)); cbn [map]; [rewrite <- app_assoc|]; reflexivity.
Qed.
Lemma gfold_nodup items : forall g, NoDup (map fst g) -> NoDup (map fst (gfold items g)).
Proof. induction items as [|x items IH]; intros g N; cbn [gfold fold_left]; auto. apply IH. apply group_add_nodup; auto. Qed.
Lemma fold_as_gfold {A} (F : list (option str * list str) -> A -> list (option str * list str)) h :
  (forall g x, F g x = gfold (h x) g) -> forall l g, fold_left F l g = gfold (flat_map h l) g.
Proof.
  intros H l. induction l as [|a l IH]; intro g; cbn [fold_left flat_map]; [reflexivity|].
  unfold gfold. rewrite fold_left_app. fold (gfold (h a) g). rewrite <- H. apply IH.
Qed.
Lemma gmem_in g K vs : NoDup (map fst g) -> In (K, vs) g -> gmem K g = vs.
Proof.
  unfold gmem. induction g as [|[K' vs'] g IH]; cbn [map fst In List.find]; intros N H; [destruct H|].
  inversion N as [|? ? Hn Hd]; subst. destruct H as [E|H].
  - inversion E; subst. rewrite okey_eqb_refl. reflexivity.
  - destruct (okey_eqb K K') eqn:E; [|auto]. apply okey_eqb_eq in E. subst K'. exfalso. apply Hn.
    apply in_map_iff. exists (K, vs). auto.
Qed.
Lemma has_dup_iff g b : NoDup (map fst g) ->
  (has_dup_group g b = true <-> exists o, 1 < length (if b then dedup (gmem (Some o) g) else gmem (Some o) g)).
Proof.
  intro N. unfold has_dup_group. rewrite existsb_exists. split.
  - intros ([K vs] & Hin & H). cbn [fst snd] in H. destruct K as [o|]; [|discriminate]. exists o.
    rewrite (gmem_in g (Some o) vs N Hin). apply Nat.ltb_lt. exact H.
  - intros [o H]. unfold gmem in H. destruct (List.find _ g) as [[K vs]|] eqn:F.
    + apply find_some in F as [Hin E]. cbn [fst] in E. apply okey_eqb_eq in E. subst K. exists (Some o, vs). split; auto.
      cbn [fst snd]. apply Nat.ltb_lt. exact H.
    + destruct b; cbn in H; lia.
Qed.

(* ---- the three duplicate checks against the naive specification ---- *)
Section Checks.
Variables (rs0 : list record) (c : conv) (m : list (str * str)).
Hypothesis Hc : mk_conv true [58%N] rs0 = Val c.
Hypothesis Nm : NoDup (map fst m).
Let W0 : wf c rs0 [58%N] := mk_conv_wf _ _ _ Hc.

Lemma std_owner p : std c p = option_map r_prefix (owner_by_prefix rs0 p).
Proof. apply (wf_syn _ _ _ W0). Qed.
Lemma names_same_std a b : names_same rs0 a b = true <-> exists o, std c a = Some o /\ std c b = Some o.
Proof.
  unfold names_same. rewrite !std_owner. destruct (owner_by_prefix rs0 a) as [x|], (owner_by_prefix rs0 b) as [y|]; cbn [option_map].
  - rewrite str_eqb_eq. split; [intro E; exists (r_prefix x); rewrite E; auto|intros (o & E1 & E2); congruence].
  - split; [discriminate|intros (o & _ & E); discriminate].
  - split; [discriminate|intros (o & E & _); discriminate].
  - split; [discriminate|intros (o & E & _); discriminate].
Qed.
Lemma Nm_pairs : NoDup m.
Proof. apply (NoDup_map_inv fst). exact Nm. Qed.
Lemma keys_differ x y : In x m -> In y m -> (x <> y <-> fst x <> fst y).
Proof.
  intros Hx Hy. split; [|intros H E; subst; auto]. intros Hne E. apply Hne. destruct x as [k v], y as [k' v']. cbn [fst] in E. subst k'.
  rewrite (dict_functional' m k v v' Nm Hx Hy). reflexivity.
Qed.

(* checks 1 and 2: sel = fst (keys) / snd (values) *)
Lemma check_pairs (sel : str * str -> str) :
  has_dup_group (fold_left (fun g kv => group_add (std c (sel kv)) (sel kv) g) m []) false = true <-> two_pairs_same rs0 sel m = true.
Proof.
  rewrite (fold_as_gfold (fun g kv => group_add (std c (sel kv)) (sel kv) g) (fun kv => [(std c (sel kv), sel kv)]) (fun g x => eq_refl) m []).
  rewrite has_dup_iff by (apply gfold_nodup; constructor).
  assert (L: forall o, length (gmem (Some o) (gfold (flat_map (fun kv => [(std c (sel kv), sel kv)]) m) [])) =
                       length (filter (fun kv => okey_eqb (Some o) (std c (sel kv))) m)).
  { intro o. rewrite gmem_gfold. cbn [gmem List.find app]. rewrite map_length. clear. induction m as [|a l IH]; [reflexivity|].
    cbn [flat_map app filter fst]. destruct (okey_eqb (Some o) (std c (sel a))); cbn [length]; rewrite IH; reflexivity. }
  unfold two_pairs_same. split.
  - intros [o H]. rewrite L in H. destruct (two_filter _ m Nm_pairs H) as (x & y & Hx & Hy & Hne & Px & Py).
    apply okey_eqb_eq in Px, Py. apply existsb_exists. exists x. split; auto. apply existsb_exists. exists y. split; auto.
    apply andb_true_iff. split.
    + apply negb_true_iff, str_eqb_neq. apply keys_differ; auto.
    + apply names_same_std. exists o. auto.
  - intro H. apply existsb_exists in H as (x & Hx & H). apply existsb_exists in H as (y & Hy & H).
    apply andb_true_iff in H as [Hne H]. apply negb_true_iff, str_eqb_neq in Hne. apply names_same_std in H as (o & E1 & E2).
    exists o. rewrite L. apply (filter_two _ m x y); auto.
    + apply keys_differ; auto.
    + rewrite E1. apply okey_eqb_refl.
    + rewrite E2. apply okey_eqb_refl.
Qed.

(* check 3 *)
Definition items3 (kv : str * str) : list (option str * str) :=
  (std c (fst kv), fst kv) :: if okey_eqb (std c (fst kv)) (std c (snd kv)) then [] else [(std c (snd kv), snd kv)].
Lemma names3 o s : In s (gmem (Some o) (gfold (flat_map items3 m) [])) <-> In s (remap_names rs0 m) /\ std c s = Some o.
Proof.
  rewrite gmem_gfold. cbn [gmem List.find app]. rewrite in_map_iff. unfold remap_names. rewrite in_app_iff. split.
  - intros ([K s'] & E & H). cbn [snd] in E. subst s'. apply filter_In in H as [H EK]. cbn [fst] in EK. apply okey_eqb_eq in EK. subst K.
    apply in_flat_map in H as ([k v] & Hkv & H). unfold items3 in H. cbn [fst snd] in H. destruct H as [E|H].
    + inversion E; subst. split; auto. left. apply in_map_iff. exists (s, v). auto.
    + destruct (okey_eqb (std c k) (std c v)) eqn:EO; [destruct H|]. destruct H as [E|[]]. inversion E; subst. split; auto.
      right. apply in_map_iff. exists (k, s). split; auto. apply filter_In. split; auto. cbn [fst snd].
      apply negb_true_iff. destruct (names_same rs0 k s) eqn:NS; auto. apply names_same_std in NS as (o' & E1 & E2).
      rewrite E1, E2, okey_eqb_refl in EO. discriminate.
  - intros [[H|H] Es].
    + apply in_map_iff in H as ([k v] & E & Hkv). cbn [fst] in E. subst k. exists (Some o, s). split; auto.
      apply filter_In. split; [|apply okey_eqb_refl]. apply in_flat_map. exists (s, v). split; auto. unfold items3. cbn [fst snd].
      rewrite Es. left; auto.
    + apply in_map_iff in H as ([k v] & E & H). cbn [snd] in E. subst v. apply filter_In in H as [Hkv NS]. cbn [fst snd] in NS.
      apply negb_true_iff in NS. exists (Some o, s). split; auto. apply filter_In. split; [|apply okey_eqb_refl].
      apply in_flat_map. exists (k, s). split; auto. unfold items3. cbn [fst snd].
      destruct (okey_eqb (std c k) (std c s)) eqn:EO.
      * exfalso. apply okey_eqb_eq in EO. assert (X: names_same rs0 k s = true) by (apply names_same_std; exists o; rewrite EO; auto).
        congruence.
      * right. left. rewrite Es. reflexivity.
Qed.
Lemma check_names :
  has_dup_group (fold_left (fun g kv =>
              let nk := std c (fst kv) in let nv := std c (snd kv) in
              let g1 := group_add nk (fst kv) g in
              if okey_eqb nk nv then g1 else group_add nv (snd kv) g1) m []) true = true
  <-> two_names_same rs0 (remap_names rs0 m) = true.
Proof.
  rewrite (fold_as_gfold _ items3) by (intros g x; unfold items3; cbv zeta; destruct (okey_eqb _ _); reflexivity).
  rewrite has_dup_iff by (apply gfold_nodup; constructor). unfold two_names_same. split.
  - intros [o H]. apply dedup_two in H as (a & b & Ha & Hb & Hne). apply names3 in Ha as [Ha Ea]. apply names3 in Hb as [Hb Eb].
    apply existsb_exists. exists a. split; auto. apply existsb_exists. exists b. split; auto. apply andb_true_iff. split.
    + apply negb_true_iff, str_eqb_neq. exact Hne.
    + apply names_same_std. eauto.
  - intro H. apply existsb_exists in H as (a & Ha & H). apply existsb_exists in H as (b & Hb & H).
    apply andb_true_iff in H as [Hne H]. apply negb_true_iff, str_eqb_neq in Hne. apply names_same_std in H as (o & E1 & E2).
    exists o. apply dedup_two. exists a, b. split; [apply names3; auto|]. split; [apply names3; auto|exact Hne].
Qed.
End Checks.

(* ---- check 4: the layered loop raises CycleDetected exactly when following key -> value comes back to a key ---- *)
Lemma follow_add m a : forall b s, follow m (a + b) s = match follow m a s with Some t => follow m b t | None => None end.
Proof.
  induction a as [|a IH]; intros b s; cbn [follow plus]; [reflexivity|]. destruct (dget s m) as [v|]; auto.
Qed.
Lemma follow_S_r m a s : follow m (S a) s = match follow m a s with Some t => dget t m | None => None end.
Proof.
  rewrite <- (Nat.add_1_r a), follow_add. destruct (follow m a s) as [t|]; auto. cbn [follow]. destruct (dget t m); reflexivity.
Qed.
Lemma remap_cycle_iff m : remap_cycle m = true <-> exists k n, In k (map fst m) /\ n < length m /\ follow m (S n) k = Some k.
Proof.
  unfold remap_cycle. rewrite existsb_exists. split.
  - intros (k & Hk & H). apply existsb_exists in H as (n & Hn & H). apply in_seq in Hn. exists k, n. split; auto. split; [lia|].
    destruct (follow m (S n) k) as [s|]; [|discriminate]. apply str_eqb_eq in H. subst s. reflexivity.
  - intros (k & n & Hk & Hn & H). exists k. split; auto. apply existsb_exists. exists n. split; [apply in_seq; lia|].
    rewrite H. apply str_eqb_refl.
Qed.
Lemma layers_S f p0 d0 :
  layers (S f) (p0 :: d0) =
    let d := p0 :: d0 in
    let no_out := filter (fun v => negb (mem v (map fst d))) (map snd d) in
    match no_out with
    | [] => Raise ECycleDetected
    | _ :: _ => bind (layers f (filter (fun kv => negb (mem (snd kv) no_out)) d))
                     (fun rest => Val (sort_pairs (filter (fun kv => mem (snd kv) no_out) d) ++ rest))
    end.
Proof. reflexivity. Qed.

(* a non-empty set of pairs closed under "the value is the key of another pair of the set" is never consumed *)
Lemma layers_closed_raise (C : str * str -> Prop) : (exists p, C p) -> (forall a b, C (a, b) -> exists b', C (b, b')) ->
  forall fuel d, (forall p, C p -> In p d) -> exists e, layers fuel d = Raise e.
Proof.
  intros [p1 Hp1] Hcl. induction fuel as [|f IH]; intros d Hd.
  - destruct d as [|p0 d0]; [destruct (Hd p1 Hp1)|]. cbn [layers]. eauto.
  - destruct d as [|p0 d0]; [destruct (Hd p1 Hp1)|]. rewrite layers_S. cbv zeta.
    set (d := p0 :: d0) in *. set (no_out := filter _ (map snd d)).
    destruct no_out as [|v vs] eqn:En; [eauto|]. rewrite <- En.
    destruct (IH (filter (fun kv => negb (mem (snd kv) no_out)) d)) as [e He].
    + intros [a b] Hab. apply filter_In. split; [apply Hd; auto|]. cbn [snd]. apply negb_true_iff, mem_false.
      unfold no_out. intro Hin. apply filter_In in Hin as [_ Hn]. apply negb_true_iff, mem_false in Hn. apply Hn.
      destruct (Hcl a b Hab) as [b' Hb']. apply in_map_iff. exists (b, b'). split; auto.
    + rewrite He. cbn [bind]. eauto.
Qed.

Section Cycle.
Variable m : list (str * str).
Hypothesis Nm : NoDup (map fst m).

Lemma cycle_closed k j : follow m (S j) k = Some k ->
  let C := fun p : str * str => exists i, follow m i k = Some (fst p) /\ dget (fst p) m = Some (snd p) in
  (exists p, C p) /\ (forall a b, C (a, b) -> exists b', C (b, b')) /\ (forall p, C p -> In p m).
Proof.
  intros Hj C.
  assert (Hq: forall q, follow m (q * S j) k = Some k).
  { induction q as [|q IHq]; [reflexivity|]. cbn [Nat.mul]. rewrite follow_add, Hj. exact IHq. }
  assert (Hall: forall i, exists s, follow m i k = Some s).
  { intro i. pose proof (Hq i) as H. rewrite Nat.mul_succ_r, Nat.add_comm, follow_add in H.
    destruct (follow m i k) as [s|]; [eauto|discriminate]. }
  split; [|split].
  - cbn [follow] in Hj. destruct (dget k m) as [v|] eqn:E; [|discriminate]. exists (k, v). exists 0. cbn [fst snd follow]. auto.
  - intros a b (i & Hi & Hab). cbn [fst snd] in Hi, Hab. destruct (Hall (S (S i))) as [s Hs].
    assert (Hb: follow m (S i) k = Some b) by (rewrite follow_S_r, Hi; exact Hab).
    rewrite follow_S_r, Hb in Hs. exists s, (S i). cbn [fst snd]. auto.
  - intros [a b] (i & _ & Hab). cbn [fst snd] in Hab. apply dget_In. exact Hab.
Qed.
Lemma cycle_raises : remap_cycle m = true -> layers (length m) m = Raise ECycleDetected.
Proof.
  intro H. apply remap_cycle_iff in H as (k & n & _ & _ & H). destruct (cycle_closed k n H) as (A & B & D).
  destruct (layers_closed_raise _ A B (length m) m D) as [e He]. rewrite He. f_equal.
  apply (proj1 (layers_spec (length m) m (le_n _)) e He).
Qed.
Lemma cycle_inter : remap_cycle m = true -> inter (map fst m) (map snd m) <> [].
Proof.
  intro H. apply remap_cycle_iff in H as (k & n & Hk & _ & H). cbn [follow] in H. destruct (dget k m) as [v|] eqn:E; [|discriminate].
  assert (Hv: In v (inter (map fst m) (map snd m))).
  { apply inter_In. split.
    - destruct n as [|n]; cbn [follow] in H; [inversion H; subst; exact Hk|].
      destruct (dget v m) as [w|] eqn:E2; [|discriminate]. apply (dget_in_keys v m w E2).
    - apply in_map_iff. exists (k, v). split; auto. apply dget_In. exact E. }
  intro E0. rewrite E0 in Hv. destruct Hv.
Qed.

(* a non-empty part of the remapping in which every value is again a key contains a cycle (pigeonhole) *)
Lemma closed_cycle d : d <> [] -> incl d m -> length d <= length m -> (forall v, In v (map snd d) -> In v (map fst d)) ->
  remap_cycle m = true.
Proof.
  intros Hne Hincl Hlen Hcl. destruct d as [|[k0 v0] d0]; [congruence|]. set (d := (k0, v0) :: d0) in *. clear Hne.
  assert (Hstep: forall s, In s (map fst d) -> exists b, dget s m = Some b /\ In b (map fst d)).
  { intros s Hs. apply in_map_iff in Hs as ([a b] & E & Hab). cbn [fst] in E. subst a. exists b. split.
    - apply in_dget; auto.
    - apply Hcl. apply in_map_iff. exists (s, b). auto. }
  assert (Hwalk: forall i, exists s, follow m i k0 = Some s /\ In s (map fst d)).
  { induction i as [|i IHi]; [exists k0; split; [reflexivity|left; reflexivity]|].
    destruct IHi as (s & Hs & Hin). destruct (Hstep s Hin) as (b & Hb & Hbin). exists b. rewrite follow_S_r, Hs. auto. }
  set (n := length d) in *. set (f := fun i => follow m i k0).
  assert (ND: ~ NoDup (map f (seq 0 (S n)))).
  { intro N. assert (Hi: incl (map f (seq 0 (S n))) (map Some (map fst d))).
    { intros x Hx. apply in_map_iff in Hx as (i & E & _). destruct (Hwalk i) as (s & Hs & Hin). unfold f in E. rewrite Hs in E.
      subst x. apply in_map. exact Hin. }
    pose proof (NoDup_incl_length N Hi) as L. rewrite !map_length, seq_length in L. unfold n in L. lia. }
  assert (dec: forall x y : option str, {x = y} + {x <> y}) by (decide equality; apply str_eq_dec).
  destruct (seq_dup dec f (S n) 0 ND) as (i & j & _ & Hij & Hj & E). unfold f in E.
  destruct (Hwalk i) as (s & Hs & Hin). rewrite Hs in E.
  replace j with (i + (j - i)) in E by lia. rewrite follow_add, Hs in E.
  apply remap_cycle_iff. exists s, (j - i - 1). split; [|split].
  - apply in_map_iff in Hin as (p & Ep & Hp). apply in_map_iff. exists p. split; auto.
  - unfold n in *. lia.
  - replace (S (j - i - 1)) with (j - i) by lia. symmetry. exact E.
Qed.
Lemma acyclic_layers : remap_cycle m = false ->
  forall fuel d, length d <= fuel -> fuel <= length m -> incl d m -> exists out, layers fuel d = Val out.
Proof.
  intro Hno. induction fuel as [|f IH]; intros d Hl Hf Hincl.
  - destruct d; [cbn [layers]; eauto|cbn [length] in Hl; lia].
  - destruct d as [|p0 d0]; [cbn [layers]; eauto|]. rewrite layers_S. cbv zeta.
    set (d := p0 :: d0) in *. set (no_out := filter _ (map snd d)).
    destruct no_out as [|v vs] eqn:En.
    + exfalso. assert (X: remap_cycle m = true); [|congruence].
      apply (closed_cycle d); auto; [discriminate|lia|].
      intros v Hv. destruct (mem v (map fst d)) eqn:M; [apply mem_In; exact M|]. exfalso.
      assert (Hin: In v no_out) by (unfold no_out; apply filter_In; split; auto; rewrite M; reflexivity).
      rewrite En in Hin. destruct Hin.
    + rewrite <- En.
      destruct (IH (filter (fun kv => negb (mem (snd kv) no_out)) d)) as [rest Hr].
      * assert (Hv: In v no_out) by (rewrite En; left; auto).
        assert (Hv': In v (map snd d)) by (unfold no_out in Hv; apply filter_In in Hv; apply Hv).
        apply in_map_iff in Hv' as (kv & Ekv & Hkv).
        assert (length (filter (fun kv => negb (mem (snd kv) no_out)) d) < length d).
        { apply (filter_length_lt _ d kv); auto. rewrite Ekv. apply negb_false_iff. apply mem_In; auto. }
        lia.
      * lia.
      * intros x Hx. apply filter_In in Hx as [Hx _]. apply Hincl. exact Hx.
      * rewrite Hr. cbn [bind]. eauto.
Qed.
End Cycle.

(* ---- the outcome of the validation is exactly the specified one ---- *)
Theorem order_code rs0 c m : mk_conv true [58%N] rs0 = Val c -> NoDup (map fst m) ->
  match spec_remap_error rs0 m with
  | Some e => exists err, order_curie_remapping c m = Raise err /\ derive_code (@Raise conv err) = e
  | None => exists ordering, order_curie_remapping c m = Val ordering
  end.
Proof.
  intros Hc Nm. unfold order_curie_remapping, spec_remap_error.
  pose proof (check_pairs rs0 c m Hc Nm fst) as C1. pose proof (check_pairs rs0 c m Hc Nm snd) as C2.
  pose proof (check_names rs0 c m Hc) as C3. cbv zeta in C3.
  destruct (has_dup_group _ false) eqn:D1.
  - rewrite (proj1 C1 eq_refl). exists EDuplicateKeys. split; reflexivity.
  - destruct (two_pairs_same rs0 fst m); [destruct C1 as [_ C1]; discriminate (C1 eq_refl)|]. clear C1 D1.
    destruct (has_dup_group _ false) eqn:D2.
    + rewrite (proj1 C2 eq_refl). exists EDuplicateValues. split; reflexivity.
    + destruct (two_pairs_same rs0 snd m); [destruct C2 as [_ C2]; discriminate (C2 eq_refl)|]. clear C2 D2.
      destruct (has_dup_group _ true) eqn:D3.
      * rewrite (proj1 C3 eq_refl). exists EInconsistentMapping. split; reflexivity.
      * destruct (two_names_same rs0 (remap_names rs0 m)); [destruct C3 as [_ C3]; discriminate (C3 eq_refl)|]. clear C3 D3.
        destruct (remap_cycle m) eqn:Cy.
        -- pose proof (cycle_inter m Cy) as NI. destruct (inter (map fst m) (map snd m)); [congruence|].
           exists ECycleDetected. split; [apply cycle_raises; auto|reflexivity].
        -- destruct (inter (map fst m) (map snd m)); [eauto|].
           apply (acyclic_layers m Nm Cy (length m) m); auto. apply incl_refl.
Qed.

Theorem P_C11_model : forall k : rcase, valid_r k = true ->
  (match rc_op k with DRemapCurie _ => True | _ => False end) -> P_C11 k (model_robs k) = true.
Proof.
  intros k V Hop. destruct (rc_op k) as [| |m| |] eqn:Eop; try contradiction. clear Hop.
  unfold valid_r in V. rewrite Eop in V. rewrite !andb_true_iff in V. destruct V as (Vs & Vn & Vm).
  destruct (rc_inputs k) as [|rs0 rest] eqn:Ein; [discriminate|]. clear Vn.
  destruct (inputs_head rs0 rest Vs) as (c & cs & Hc & Hseq).
  apply nodup_str_spec in Vm.
  pose proof (order_code rs0 c m Hc Vm) as OC.
  unfold model_robs, input_convs. rewrite Ein, Hseq. unfold derive. rewrite Eop.
  destruct (remap_curie_prefixes c m) as [R|e] eqn:HR.
  - unfold P_C11. rewrite Eop, Ein.
    destruct (remap_full rs0 c m R Hc HR) as (ordering & rs & Ho & HP & HmkR & HL).
    destruct (spec_remap_error rs0 m) as [e|]; [destruct OC as (err & E & _); congruence|]. clear OC.
    change (negb (0 =? 0)%Z) with false. cbv iota.
    rewrite result_records_model, (sortedR R rs HmkR).
    rewrite (consistent_model R rs HmkR k), (len_model rs0 c R Hc rs HmkR HL), (uris_model rs0 c m R Hc Vm ordering rs Ho HP HmkR),
            (kept_model rs0 c m R Hc Vm ordering rs Ho HP HmkR), (invent_model rs0 c m R Hc ordering rs Ho HP HmkR).
    cbn [andb]. apply andb_true_iff. split; apply forallb_forall; intros [old new] Hin.
    + destruct (known_prefix rs0 old && negb (known_prefix rs0 new) && (length (filter (str_eqb new) (map snd m)) =? 1)) eqn:Econd; auto.
      rewrite !andb_true_iff in Econd. destruct Econd as [[Hk Hnk] Hcnt]. apply negb_true_iff in Hnk. apply Nat.eqb_eq in Hcnt.
      destruct (applied_model rs0 c m R Hc Vm ordering rs Ho HP HmkR HL old new Hin Hk Hnk Hcnt) as (r & r' & E1 & E2 & E3 & E4).
      rewrite E1, E2, E3, E4, !str_eqb_refl. reflexivity.
    + destruct (owner_by_prefix rs0 old) as [r|]; auto. destruct (owner_by_prefix rs0 new) as [r2|] eqn:E2; auto.
      destruct (negb (str_eqb (r_prefix r) (r_prefix r2)) && negb (existsb (fun k' => mem k' (all_prefixes r2)) (map fst m))) eqn:Econd; auto.
      apply andb_true_iff in Econd as [_ Hnk]. apply negb_true_iff in Hnk.
      destruct (clash_model rs0 c m R Hc ordering rs Ho HP HmkR new r2 E2 Hnk) as (x & Ex & Eu).
      rewrite Ex, Eu. apply str_eqb_refl.
  - unfold P_C11. rewrite Eop, Ein.
    (* the error comes from the validation: the main loop never raises *)
    destruct (order_curie_remapping c m) as [ordering|e'] eqn:Ho.
    + exfalso. pose proof (mk_conv_swf _ _ _ Hc) as S. destruct (init_inv c S) as (F0 & S0 & B0).
      destruct (fold_never_raises c m (inter (map fst m) (map snd m)) (recs c) ordering S eq_refl (st0 c) F0 S0 B0
                 (order_keys_nodup c m ordering Ho) (fun o H => match H with end)) as [st Hst].
      destruct (remap_struct c m ordering st S Ho Hst) as (rs & R' & _ & _ & E2 & _). congruence.
    + assert (Ee: e = e').
      { unfold remap_curie_prefixes, remap_curie_records in HR. rewrite Ho in HR. cbn [bind] in HR. congruence. }
      subst e'. destruct (spec_remap_error rs0 m) as [z|].
      * destruct OC as (err & E & Ecode). assert (err = e) by congruence. subst err. rewrite Ecode. apply Z.eqb_refl.
      * destruct OC as (o & E). discriminate.
Qed.
Print Assumptions order_code.
Print Assumptions P_C11_model.

(* The converter's dictionary indexes as functions of the record collection. *)
From Coq Require Import Lia Permutation.
From Curies.model Require Import Str PyData Trie Conv.
From Curies.proofs Require Import StrFacts TrieFacts DictFacts.

Definition one_owner (keysf : record -> list str) (rs : list record) : Prop :=
  forall r1 r2 k, In r1 rs -> In r2 rs -> In k (keysf r1) -> In k (keysf r2) -> r1 = r2.

Lemma one_owner_perm keysf rs rs' : (forall r, In r rs <-> In r rs') -> one_owner keysf rs -> one_owner keysf rs'.
Proof. intros E H r1 r2 k A B. apply H; apply E; auto. Qed.

Section Idx.
Variable keysf : record -> list str.
Variable valf : record -> str.

Definition last_owner (rs : list record) (k : str) (acc : option str) : option str :=
  fold_left (fun acc r => if mem k (keysf r) then Some (valf r) else acc) rs acc.
Lemma last_owner_cons r rs k acc :
  last_owner (r :: rs) k acc = last_owner rs k (if mem k (keysf r) then Some (valf r) else acc).
Proof. reflexivity. Qed.
Lemma dget_idx_rec d r k : dget k (idx_rec keysf valf d r) = if mem k (keysf r) then Some (valf r) else dget k d.
Proof.
  unfold idx_rec. generalize (keysf r) as l. intro l. revert d. induction l as [|x l IH]; intro d; simpl; auto.
  rewrite IH, dget_dset, mem_cons. destruct (str_eqb k x), (mem k l); auto.
Qed.
Lemma dget_idx rs : forall d k, dget k (fold_left (idx_rec keysf valf) rs d) = last_owner rs k (dget k d).
Proof. induction rs as [|r rs IH]; intros d k; simpl; auto. rewrite IH, dget_idx_rec. reflexivity. Qed.
Lemma dget_idx_of rs k : dget k (idx_of keysf valf rs) = last_owner rs k None.
Proof. unfold idx_of. rewrite dget_idx. reflexivity. Qed.

Lemma last_owner_some rs k : forall acc v, last_owner rs k acc = Some v ->
  acc = Some v \/ exists r, In r rs /\ In k (keysf r) /\ valf r = v.
Proof.
  induction rs as [|r rs IH]; intros acc v H; [left; exact H|]. rewrite last_owner_cons in H.
  apply IH in H as [H|(r' & H1 & H2 & H3)].
  - destruct (mem k (keysf r)) eqn:E; [|left; exact H].
    inversion H; subst. right. exists r. apply mem_In in E. repeat split; auto. left; reflexivity.
  - right. exists r'. repeat split; auto. right; exact H1.
Qed.
Lemma last_owner_acc rs k : forall v, exists w, last_owner rs k (Some v) = Some w.
Proof. induction rs as [|r rs IH]; intros v; [simpl; eauto|]. rewrite last_owner_cons. destruct (mem k (keysf r)); apply IH. Qed.
Lemma last_owner_reg rs k : forall acc r, In r rs -> In k (keysf r) -> exists v, last_owner rs k acc = Some v.
Proof.
  induction rs as [|r0 rs IH]; intros acc r Hr Hk; [destruct Hr|]. rewrite last_owner_cons.
  destruct Hr as [<-|Hr]; [apply mem_In in Hk; rewrite Hk; apply last_owner_acc | eapply IH; eauto].
Qed.

Lemma idx_owner rs k r : one_owner keysf rs -> In r rs -> In k (keysf r) -> dget k (idx_of keysf valf rs) = Some (valf r).
Proof.
  intros Hu Hr Hk. rewrite dget_idx_of. destruct (last_owner_reg rs k None r Hr Hk) as [v Hv]. rewrite Hv.
  apply last_owner_some in Hv as [Hv|(r' & H1 & H2 & H3)]; [discriminate|]. rewrite <- H3. f_equal. f_equal. eapply Hu; eauto.
Qed.
Lemma idx_none rs k : (forall r, In r rs -> ~ In k (keysf r)) -> dget k (idx_of keysf valf rs) = None.
Proof.
  intro H. rewrite dget_idx_of. destruct (last_owner rs k None) eqn:E; auto.
  apply last_owner_some in E as [E|(r & H1 & H2 & _)]; [discriminate|]. exfalso. eapply H; eauto.
Qed.

(* the index answers "the value of the record that lists k", whatever the order of the records *)
Definition owner (rs : list record) (k : str) : option record := List.find (fun r => mem k (keysf r)) rs.
Lemma idx_lookup rs rs' k : (forall r, In r rs <-> In r rs') -> one_owner keysf rs ->
  dget k (idx_of keysf valf rs') = option_map valf (owner rs k).
Proof.
  intros E Hu. unfold owner. destruct (List.find _ rs) as [r|] eqn:Ef; simpl.
  - apply find_some in Ef as [Hr Hm]. apply mem_In in Hm.
    apply idx_owner; [eapply one_owner_perm; eauto | apply E; auto | auto].
  - apply idx_none. intros r Hr Hin. apply E in Hr. pose proof (find_none _ _ Ef r Hr) as Hn. simpl in Hn.
    apply mem_In in Hin. congruence.
Qed.

Lemma idx_keys_nodup rs : forall d, NoDup (dkeys d) -> NoDup (dkeys (fold_left (idx_rec keysf valf) rs d)).
Proof.
  induction rs as [|r rs IH]; intros d H; simpl; auto. apply IH. unfold idx_rec.
  generalize (keysf r). intro l. revert d H. induction l as [|x l IHl]; intros d H; simpl; auto.
  apply IHl. apply dkeys_dset_nodup; auto.
Qed.
End Idx.

(* owner is independent of the order under one_owner *)
Lemma owner_perm keysf rs rs' k : (forall r, In r rs <-> In r rs') -> one_owner keysf rs ->
  owner keysf rs' k = owner keysf rs k.
Proof.
  intros E Hu. unfold owner.
  destruct (List.find _ rs) as [r|] eqn:Ef.
  - apply find_some in Ef as [Hr Hm].
    destruct (List.find _ rs') as [r'|] eqn:Ef'.
    + apply find_some in Ef' as [Hr' Hm']. f_equal. apply mem_In in Hm, Hm'. apply (Hu r' r k); auto. apply E; auto.
    + apply E in Hr. pose proof (find_none _ _ Ef' r Hr) as Hn. simpl in Hn. congruence.
  - destruct (List.find _ rs') as [r'|] eqn:Ef'; auto.
    apply find_some in Ef' as [Hr' Hm']. apply E in Hr'. pose proof (find_none _ _ Ef r' Hr') as Hn. simpl in Hn. congruence.
Qed.

(* ---- duplicate detection ---- *)
Definition disjoint_keys (keysf : record -> list str) (a b : record) : Prop :=
  forall k, In k (keysf a) -> In k (keysf b) -> False.

Lemma dups_pair_nil keysf a b :
  flat_map (fun '(x, y) => if str_eqb x y then [(a, b, x)] else []) (product (keysf a) (keysf b)) = []
  <-> disjoint_keys keysf a b.
Proof.
  unfold disjoint_keys, product. split.
  - intros H k Ha Hb.
    assert (Hin: In (a, b, k) (flat_map (fun '(x, y) => if str_eqb x y then [(a, b, x)] else [])
              (flat_map (fun x => map (fun y => (x, y)) (keysf b)) (keysf a)))).
    { apply in_flat_map. exists (k, k). split.
      - apply in_flat_map. exists k. split; auto. apply in_map_iff. eauto.
      - rewrite str_eqb_refl. left; auto. }
    rewrite H in Hin. destruct Hin.
  - intros H. destruct (flat_map _ _) as [|t l] eqn:E; auto. exfalso.
    assert (Hin: In t (t :: l)) by (left; auto). rewrite <- E in Hin.
    apply in_flat_map in Hin as ([x y] & Hxy & Ht). apply in_flat_map in Hxy as (x' & Hx & Hy).
    apply in_map_iff in Hy as (y' & Ey & Hy). inversion Ey; subst.
    destruct (str_eqb_spec x y); [|destruct Ht]. subst. eapply H; eauto.
Qed.

Lemma flat_map_nil {A B} (f : A -> list B) l : flat_map f l = [] <-> forall x, In x l -> f x = [].
Proof.
  induction l as [|a l IH]; simpl; [tauto|]. split.
  - intros H x [<-|Hx]; apply app_eq_nil in H as [H1 H2]; auto. apply IH; auto.
  - intro H. rewrite (H a), (proj2 IH); auto.
Qed.

(* pairwise at distinct positions *)
Inductive pairwise {A} (R : A -> A -> Prop) : list A -> Prop :=
| pw_nil : pairwise R []
| pw_cons a l : (forall b, In b l -> R a b) -> pairwise R l -> pairwise R (a :: l).

Lemma dups_nil_iff keysf rs : dups keysf rs = [] <-> pairwise (disjoint_keys keysf) rs.
Proof.
  unfold dups. induction rs as [|a rs IH]; simpl.
  - split; [constructor|auto].
  - rewrite flat_map_app. split.
    + intro H. apply app_eq_nil in H as [H1 H2]. constructor; [|apply IH; auto].
      intros b Hb. rewrite flat_map_nil in H1. specialize (H1 (a, b)). simpl in H1.
      apply dups_pair_nil. apply H1. apply in_map_iff. eauto.
    + intro H. inversion H as [|? ? Ha Hrs]; subst. rewrite (proj2 IH Hrs), app_nil_r.
      apply flat_map_nil. intros [x y] Hxy. apply in_map_iff in Hxy as (b & E & Hb). inversion E; subst.
      apply dups_pair_nil. auto.
Qed.

Lemma pairwise_one_owner keysf rs : pairwise (disjoint_keys keysf) rs -> one_owner keysf rs.
Proof.
  induction 1 as [|a l Ha Hl IH]; intros r1 r2 k H1 H2 K1 K2; [destruct H1|].
  destruct H1 as [<-|H1], H2 as [<-|H2]; auto.
  - exfalso. eapply (Ha r2); eauto.
  - exfalso. eapply (Ha r1); eauto.
  - eapply IH; eauto.
Qed.

(* ---- Converter.__init__ ---- *)
Lemma sort_records_In rs r : In r (sort_records rs) <-> In r rs.
Proof. apply sort_In. Qed.

Lemma mk_conv_inv d rs c : mk_conv true d rs = Val c ->
  one_owner all_prefixes rs /\ one_owner all_uris rs /\
  pairwise (disjoint_keys all_uris) (sort_records rs) /\ pairwise (disjoint_keys all_prefixes) (sort_records rs) /\
  delim c = d /\ recs c = sort_records rs /\
  pmap c = idx_of all_prefixes r_uri (sort_records rs) /\
  synmap c = idx_of all_prefixes r_prefix (sort_records rs) /\
  rpmap c = idx_of all_uris r_prefix (sort_records rs) /\
  ctrie c = trie_of (rpmap c) /\ patmap c = patmap_of (sort_records rs).
Proof.
  unfold mk_conv. simpl.
  destruct (dups all_uris (sort_records rs)) eqn:Du; simpl; [|discriminate].
  destruct (dups all_prefixes (sort_records rs)) eqn:Dp; simpl; [|discriminate].
  intro H. inversion H; subst; simpl. clear H.
  apply dups_nil_iff in Du, Dp.
  split; [|split]; [| |repeat split; auto].
  - eapply one_owner_perm; [apply sort_records_In|]. apply pairwise_one_owner; auto.
  - eapply one_owner_perm; [apply sort_records_In|]. apply pairwise_one_owner; auto.
Qed.

Lemma mk_conv_ok d rs : pairwise (disjoint_keys all_uris) (sort_records rs) ->
  pairwise (disjoint_keys all_prefixes) (sort_records rs) -> exists c, mk_conv true d rs = Val c.
Proof.
  intros Hu Hp. unfold mk_conv. simpl.
  apply dups_nil_iff in Hu, Hp. rewrite Hu, Hp. simpl. eauto.
Qed.

Lemma find_trie_of d k : NoDup (dkeys d) -> find k (trie_of d) = dget k d.
Proof.
  intro H. unfold trie_of. pose proof (find_fold_insert d empty k H) as E. unfold trie_of_acc in E.
  rewrite E. destruct (dget k d); auto. apply find_empty.
Qed.

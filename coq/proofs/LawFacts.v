(* Laws between queries (C03, C06, C07, C08), proved on the naive specification and transported to every
   strict converter through answer_spec's component lemmas. *)
From Coq Require Import Lia Permutation.
From Curies.model Require Import Str PyData Trie Conv Query Val Answer Spec CheckQ.
From Curies.proofs Require Import StrFacts TrieFacts DictFacts IndexFacts QueryFacts.

Lemma prefixb_app_long d x i : length d <= length x -> prefixb d (x ++ i) = prefixb d x.
Proof.
  revert x; induction d as [|c d IH]; intros x H; simpl; auto.
  destruct x as [|y x]; [simpl in H; lia|]. simpl. rewrite IH; auto. simpl in H. lia.
Qed.
Lemma skipn_app_le {A} j (x i : list A) : j <= length x -> skipn j (x ++ i) = skipn j x ++ i.
Proof. revert x; induction j; intros x H; simpl; auto. destruct x; simpl in *; [lia|]. apply IHj. lia. Qed.

(* "the prefix does not contain the delimiter", for multi-character delimiters:
   the first occurrence of d in p ++ d is at |p|; then p ++ d ++ i splits back into (p, i) *)
Lemma delim_safe_partition d p i : delim_safe d p = true -> partition d (p ++ d ++ i) = Some (p, i).
Proof.
  intros H. unfold delim_safe in H. destruct (partition d (p ++ d)) as [[a b]|] eqn:E; [|discriminate].
  apply Nat.eqb_eq in H. apply partition_some in E as [Es Hno].
  assert (a = p).
  { assert (Hf: firstn (length a) (p ++ d) = a) by (rewrite Es; apply firstn_app_exact).
    rewrite H, firstn_app_exact in Hf. auto. }
  subst a. apply partition_first. intros j Hj. specialize (Hno j Hj).
  unfold occurs_at in *. rewrite app_assoc, skipn_app_le by (rewrite app_length; lia).
  rewrite prefixb_app_long; auto. rewrite skipn_length, app_length. lia.
Qed.
Lemma delim_safe_single c p : delim_safe [c] p = true <-> ~ In c p.
Proof.
  unfold delim_safe. split.
  - intros H Hin. destruct (partition [c] (p ++ [c])) as [[a b]|] eqn:E; [|discriminate].
    apply Nat.eqb_eq in H. apply partition_some in E as [Es Hno].
    apply in_split in Hin as (l1 & l2 & ->).
    specialize (Hno (length l1)). rewrite H, app_length in Hno. simpl in Hno. specialize (Hno ltac:(lia)).
    unfold occurs_at in Hno. rewrite <- app_assoc, skipn_app_exact in Hno. simpl in Hno. rewrite N.eqb_refl in Hno. discriminate.
  - intro H. replace (p ++ [c]) with (p ++ [c] ++ []) by reflexivity. rewrite partition_single; auto. apply Nat.eqb_refl.
Qed.

Definition prefix_free (rs : list record) : Prop :=
  forall r1 r2 a b, In r1 rs -> In r2 rs -> In a (all_uris r1) -> In b (all_uris r2) -> prefixb a b = true -> a = b.
Lemma prefix_freeb_spec rs : prefix_freeb rs = true <-> prefix_free rs.
Proof.
  unfold prefix_freeb, prefix_free. rewrite forallb_forall. split.
  - intros H r1 r2 a b H1 H2 Ha Hb Hp.
    assert (In a (flat_map all_uris rs)) by (apply in_flat_map; eauto).
    assert (In b (flat_map all_uris rs)) by (apply in_flat_map; eauto).
    specialize (H a H0). rewrite forallb_forall in H. specialize (H b H3).
    rewrite Hp in H. simpl in H. rewrite orb_false_r in H. apply str_eqb_eq; auto.
  - intros H a Ha. apply forallb_forall. intros b Hb.
    apply in_flat_map in Ha as (r1 & H1 & Ha). apply in_flat_map in Hb as (r2 & H2 & Hb).
    destruct (prefixb a b) eqn:E; [|apply orb_true_r]. rewrite (H r1 r2 a b); auto. rewrite str_eqb_refl. reflexivity.
Qed.

Section Laws.
Variables (d : str) (rs : list record) (c : conv).
Hypothesis Hc : mk_conv true d rs = Val c.
Let OP := own_p d rs c Hc.
Let OU := own_u d rs c Hc.

(* the longest match of (a registered URI prefix ++ i) on a prefix-free map is that prefix itself *)
Lemma longest_match_own r up i : prefix_free rs -> In r rs -> In up (all_uris r) ->
  longest_match rs (up ++ i) = Some (up, r).
Proof.
  intros PF Hr Hup.
  destruct (longest_match rs (up ++ i)) as [[p' r']|] eqn:E.
  - apply longest_match_some in E as (A & B & C & M).
    pose proof (M up r Hr Hup (prefixb_app up i)) as Hle.
    assert (prefixb up p' = true) by (eapply prefixb_comparable; eauto; apply prefixb_app).
    assert (up = p') by (apply (PF r r' up p'); auto). subst p'.
    f_equal. f_equal. apply (OU r' r up); auto.
  - pose proof (longest_match_none _ _ E up r Hr Hup) as Hn. rewrite prefixb_app in Hn. discriminate.
Qed.

(* ---- C03 ---- *)
Lemma sp_compress_shape u x : sp_compress rs d u = Some x ->
  exists p r, longest_match rs u = Some (p, r) /\ x = r_prefix r ++ d ++ skipn (length p) u /\ u = p ++ skipn (length p) u
              /\ In r rs /\ In p (all_uris r).
Proof.
  unfold sp_compress, sp_parse_uri. destruct (longest_match rs u) as [[p r]|] eqn:E; [|discriminate].
  simpl. intro H; inversion H; subst. exists p, r. apply longest_match_some in E as (A & B & C & _).
  repeat split; auto. apply prefixb_split; auto.
Qed.

Lemma C03_lossless_sp u x : (forall r, In r rs -> delim_safe d (r_prefix r) = true) ->
  sp_compress rs d u = Some x ->
  (exists l, sp_expand_all rs d x = Some l /\ In u l) /\ sp_expand rs d x = sp_std_uri rs u /\ sp_expand rs d x <> None.
Proof.
  intros Hd Hx. apply sp_compress_shape in Hx as (p & r & E & -> & Eu & Hr & Hp).
  unfold sp_expand_all, sp_expand, sp_std_uri, sp_expand_pair_all.
  rewrite delim_safe_partition by auto. rewrite (owner_canonical d rs c Hc r Hr), E.
  split; [|split; [reflexivity|discriminate]].
  eexists. split; [reflexivity|]. apply in_map_iff. exists p. split; auto.
Qed.

Lemma C03_std_id_sp u r i : In r rs -> u = r_uri r ++ i -> longest_match rs u = Some (r_uri r, r) -> sp_std_uri rs u = Some u.
Proof. intros Hr -> E. unfold sp_std_uri. rewrite E, skipn_app_exact. reflexivity. Qed.

Lemma C03_expand_compressible_sp s u : sp_expand rs d s = Some u -> sp_is_uri rs u = true.
Proof.
  unfold sp_expand, sp_is_uri. destruct (partition d s) as [[p i]|]; [|discriminate].
  destruct (owner_by_prefix rs p) as [r|] eqn:E; [|discriminate]. intro H; inversion H; subst.
  apply owner_in in E as [Hr _].
  destruct (longest_match rs (r_uri r ++ i)) as [[p' r']|] eqn:E2; auto.
  pose proof (longest_match_none _ _ E2 (r_uri r) r Hr ltac:(left; auto)) as Hn. rewrite prefixb_app in Hn. discriminate.
Qed.

Lemma C03_inverse1_sp s u : prefix_free rs -> sp_expand rs d s = Some u ->
  sp_compress rs d u = sp_std_curie rs d s /\ sp_compress rs d u <> None.
Proof.
  intros PF. unfold sp_expand, sp_std_curie, sp_parse_curie, sp_compress, sp_parse_uri.
  destruct (partition d s) as [[p i]|]; [|discriminate].
  destruct (owner_by_prefix rs p) as [r|] eqn:E; [|discriminate]. intro H; inversion H; subst.
  apply owner_in in E as [Hr _].
  rewrite (longest_match_own r (r_uri r) i PF Hr ltac:(left; auto)). simpl. rewrite skipn_app_exact.
  split; [reflexivity|discriminate].
Qed.

(* ---- C06 ---- *)
Lemma C06_idem_prefix_sp p y : sp_std_prefix rs p = Some y -> sp_std_prefix rs y = Some y.
Proof.
  unfold sp_std_prefix. destruct (owner_by_prefix rs p) as [r|] eqn:E; [|discriminate]. simpl. intro H; inversion H; subst.
  apply owner_in in E as [Hr _]. rewrite (owner_canonical d rs c Hc r Hr). reflexivity.
Qed.
Lemma sp_std_curie_shape s y : sp_std_curie rs d s = Some y ->
  exists p i r, partition d s = Some (p, i) /\ owner_by_prefix rs p = Some r /\ In r rs /\ y = r_prefix r ++ d ++ i.
Proof.
  unfold sp_std_curie, sp_parse_curie. destruct (partition d s) as [[p i]|]; [|discriminate].
  destruct (owner_by_prefix rs p) as [r|] eqn:E; [|discriminate]. simpl. intro H; inversion H; subst.
  exists p, i, r. repeat split; auto. apply owner_in in E as [Hr _]. auto.
Qed.
Lemma C06_idem_curie_sp s y : (forall r, In r rs -> delim_safe d (r_prefix r) = true) ->
  sp_std_curie rs d s = Some y -> sp_std_curie rs d y = Some y /\ sp_expand rs d y = sp_expand rs d s.
Proof.
  intros Hd H. apply sp_std_curie_shape in H as (p & i & r & Ep & Eo & Hr & ->).
  unfold sp_std_curie, sp_parse_curie, sp_expand. rewrite delim_safe_partition by auto.
  rewrite (owner_canonical d rs c Hc r Hr), Ep, Eo. auto.
Qed.
Lemma C06_curie_meaning_always s y : sp_std_curie rs d s = Some y -> (forall r, In r rs -> delim_safe d (r_prefix r) = true) ->
  sp_expand rs d y = sp_expand rs d s.
Proof. intros H Hd. apply (C06_idem_curie_sp s y Hd H). Qed.
Lemma C06_idem_uri_sp u y : prefix_free rs -> sp_std_uri rs u = Some y ->
  sp_std_uri rs y = Some y /\ sp_compress rs d y = sp_compress rs d u.
Proof.
  intros PF. unfold sp_std_uri, sp_compress, sp_parse_uri.
  destruct (longest_match rs u) as [[p r]|] eqn:E; [|discriminate]. intro H; inversion H; subst.
  apply longest_match_some in E as (Hr & _).
  rewrite (longest_match_own r (r_uri r) _ PF Hr ltac:(left; auto)). rewrite skipn_app_exact. auto.
Qed.

(* ---- C07 ---- *)
Lemma C07_is_uri u : is_uri c u = true <-> compress c u false false <> Val None.
Proof.
  rewrite (A_is_uri d rs c Hc), (A_compress d rs c Hc), sp_parse_uri_is. unfold sp_compress. simpl.
  destruct (sp_parse_uri rs u); simpl; split; intro H; try reflexivity; try discriminate; try congruence.
Qed.
Lemma C07_is_uri_parse u : is_uri c u = true <-> parse_uri c u false <> Val None.
Proof.
  rewrite (A_is_uri d rs c Hc), (A_parse_uri d rs c Hc), sp_parse_uri_is. simpl.
  destruct (sp_parse_uri rs u); simpl; split; intro H; try reflexivity; try discriminate; try congruence.
Qed.
Lemma C07_is_curie s : is_curie c s = true <->
  exists p i, partition d s = Some (p, i) /\ exists r, In r rs /\ In p (all_prefixes r).
Proof.
  rewrite (A_is_curie d rs c Hc). unfold sp_is_curie, sp_expand. split.
  - destruct (partition d s) as [[p i]|]; [|discriminate].
    destruct (owner_by_prefix rs p) as [r|] eqn:E; [|discriminate]. intros _. exists p, i. split; auto.
    apply owner_in in E. eauto.
  - intros (p & i & -> & r & Hr & Hp). destruct (owner_by_prefix rs p) eqn:E; auto.
    pose proof (find_none _ _ E r Hr) as Hn. simpl in Hn. apply mem_In in Hp. congruence.
Qed.
Lemma C07_is_curie_expand s : is_curie c s = true <-> expand c s false false <> Val None.
Proof.
  unfold is_curie. rewrite (A_expand d rs c Hc). simpl. destruct (sp_expand rs d s); simpl; split; intro H; try reflexivity; try discriminate; try congruence.
Qed.
Lemma C07_parse s st : parse c s st =
  if is_uri c s then parse_uri c s st else if is_curie c s then parse_curie c s st
  else if st then Raise ECompression else Val None.
Proof. reflexivity. Qed.
Lemma C07_uri_precedence s r : sp_parse_uri rs s = Some r -> parse c s false = Val (Some r).
Proof. intro H. rewrite (A_parse_false d rs c Hc). unfold sp_parse. rewrite H. reflexivity. Qed.
Lemma C07_cos s st pa : compress_or_standardize c s st pa =
  wrap st pa ECompression s (option_map (fun r => fst r ++ d ++ snd r) (sp_parse rs d s)).
Proof.
  unfold compress_or_standardize, format_curie. rewrite (A_parse_false d rs c Hc), (c_delim d rs c Hc).
  destruct (sp_parse rs d s) as [[p i]|]; reflexivity.
Qed.
Lemma C07_eos s st pa : expand_or_standardize c s st pa =
  wrap st pa EExpansion s (match sp_parse rs d s with Some (p, i) => sp_expand_pair rs p i | None => None end).
Proof.
  unfold expand_or_standardize. rewrite (A_parse_false d rs c Hc).
  destruct (sp_parse rs d s) as [[p i]|] eqn:E; [|reflexivity].
  apply sp_parse_in in E as (r & Hr & ->). rewrite (A_expand_ref_known d rs c Hc); auto.
  unfold sp_expand_pair. rewrite (owner_canonical d rs c Hc); auto.
Qed.
End Laws.

(* ---- C08: the shape "wrap" is exactly the three-mode contract ---- *)
Lemma wrap_default {A} e (x : A) o : wrap false false e x o = Val o.
Proof. destruct o; reflexivity. Qed.
Lemma wrap_passthrough {A} e (x : A) o : wrap false true e x o = Val (Some (match o with Some y => y | None => x end)).
Proof. destruct o; reflexivity. Qed.
Lemma wrap_strict {A} e (x : A) o pa : wrap true pa e x o = match o with Some y => Val (Some y) | None => Raise e end.
Proof. destruct o; reflexivity. Qed.
Lemma wrap1_default {A} e (o : option A) : wrap1 false e o = Val o.
Proof. destruct o; reflexivity. Qed.
Lemma wrap1_strict {A} e (o : option A) : wrap1 true e o = match o with Some y => Val (Some y) | None => Raise e end.
Proof. destruct o; reflexivity. Qed.

(* observation-level statement for every one of the 14 functions: outcome codes 0 = value, 1 = library ValueError *)
Definition mode_ok (x : val) (q : bool -> bool -> query) (ans : query -> val) : Prop :=
  (exists o, ans (q false false) = VList [VInt 0; o] /\
     match o with
     | VNone => ans (q false true) = VList [VInt 0; VSome x] /\ ans (q true false) = VList [VInt 1] /\ ans (q true true) = VList [VInt 1]
     | _ => ans (q false true) = ans (q false false) /\ ans (q true false) = ans (q false false) /\ ans (q true true) = ans (q false false)
     end).

Lemma mode_ok_wrap {A} (f : A -> val) e (xa : A) (x : val) (o : option A) (q : bool -> bool -> query) (ans : query -> val) :
  lib_value_error e = true -> x = f xa ->
  (forall st pa, ans (q st pa) = vres (vopt f) (wrap st pa e xa o)) -> mode_ok x q ans.
Proof.
  intros He Hx H. unfold mode_ok. rewrite !H. destruct o as [y|]; simpl.
  - eexists; split; [reflexivity|]. simpl. auto.
  - rewrite He. eexists; split; [reflexivity|]. simpl. subst. auto.
Qed.

Theorem C08_modes_str d rs c s : mk_conv true d rs = Val c ->
  mode_ok (VStr s) (QCompress s) (answer c) /\ mode_ok (VStr s) (QExpand s) (answer c) /\
  mode_ok (VStr s) (QCompressOrStd s) (answer c) /\ mode_ok (VStr s) (QExpandOrStd s) (answer c) /\
  mode_ok (VStr s) (QStdPrefix s) (answer c) /\ mode_ok (VStr s) (QStdCurie s) (answer c) /\
  mode_ok (VStr s) (QStdUri s) (answer c).
Proof.
  intro Hc.
  repeat split; (eapply (mode_ok_wrap VStr);
    [ | | intros st pa; rewrite (answer_spec d rs c Hc) by reflexivity; simpl; reflexivity ]; reflexivity).
Qed.
Theorem C08_modes_pair d rs c p i : mk_conv true d rs = Val c ->
  mode_ok (VStr (p ++ d ++ i)) (QExpandPair p i) (answer c) /\ mode_ok (VStr (p ++ d ++ i)) (QExpandRef p i) (answer c).
Proof.
  intro Hc.
  repeat split; (eapply (mode_ok_wrap VStr);
    [ | | intros st pa; rewrite (answer_spec d rs c Hc) by reflexivity; simpl; reflexivity ]; reflexivity).
Qed.

Definition mode1_ok (q : bool -> query) (ans : query -> val) : Prop :=
  exists o, ans (q false) = VList [VInt 0; o] /\
    match o with VNone => ans (q true) = VList [VInt 1] | _ => ans (q true) = ans (q false) end.
Lemma mode1_ok_wrap {A} (f : A -> val) e (o : option A) (q : bool -> query) (ans : query -> val) :
  lib_value_error e = true -> (forall st, ans (q st) = vres (vopt f) (wrap1 st e o)) -> mode1_ok q ans.
Proof.
  intros He H. unfold mode1_ok. rewrite !H. destruct o as [y|]; simpl.
  - eexists; split; [reflexivity|]. simpl. auto.
  - rewrite He. eexists; split; [reflexivity|]. simpl. auto.
Qed.
Theorem C08_modes1 d rs c s p i : mk_conv true d rs = Val c ->
  mode1_ok (QParseUri s) (answer c) /\ mode1_ok (QParseCurie s) (answer c) /\ mode1_ok (QParse s) (answer c) /\
  mode1_ok (QExpandAll s) (answer c) /\ mode1_ok (QExpandPairAll p i) (answer c).
Proof.
  intro Hc.
  repeat split; (eapply mode1_ok_wrap;
    [ | intros st; rewrite (answer_spec d rs c Hc) by reflexivity; simpl; reflexivity ]; reflexivity).
Qed.

(* no exception outside the library's ValueError family escapes from any of the query methods *)
Theorem C08_no_other d rs c q : mk_conv true d rs = Val c -> conv_query q = true -> answer c q <> VList [VInt 2].
Proof.
  intros Hc Hq. rewrite (answer_spec d rs c Hc q Hq).
  destruct q; simpl in *; try discriminate;
  repeat match goal with
  | |- context [wrap ?a ?b ?e ?x ?o] => destruct o; destruct a; destruct b; simpl
  | |- context [wrap1 ?a ?e ?o] => destruct o; destruct a; simpl
  end; discriminate.
Qed.

(* ---- the laws stated on the converter's own methods ---- *)
Section ModelLevel.
Variables (d : str) (rs : list record) (c : conv).
Hypothesis Hc : mk_conv true d rs = Val c.
Definition H_d := forall r, In r rs -> delim_safe d (r_prefix r) = true.

Lemma compress_val u x : compress c u false false = Val (Some x) <-> sp_compress rs d u = Some x.
Proof. rewrite (A_compress d rs c Hc). simpl. destruct (sp_compress rs d u); simpl; split; congruence. Qed.
Lemma expand_val s u : expand c s false false = Val (Some u) <-> sp_expand rs d s = Some u.
Proof. rewrite (A_expand d rs c Hc). simpl. destruct (sp_expand rs d s); simpl; split; congruence. Qed.
Lemma std_uri_val u y : standardize_uri c u false false = Val (Some y) <-> sp_std_uri rs u = Some y.
Proof. rewrite (A_std_uri d rs c Hc). simpl. destruct (sp_std_uri rs u); simpl; split; congruence. Qed.
Lemma std_curie_eq s : standardize_curie c s false false = Val (sp_std_curie rs d s).
Proof.
  unfold standardize_curie, sp_std_curie, format_curie. rewrite (A_parse_curie_false d rs c Hc), (c_delim d rs c Hc).
  destruct (sp_parse_curie rs d s) as [[p i]|]; reflexivity.
Qed.
Lemma std_prefix_eq p : standardize_prefix c p false false = Val (sp_std_prefix rs p).
Proof. unfold standardize_prefix, sp_std_prefix. rewrite (L_synmap d rs c Hc). destruct (owner_by_prefix rs p); reflexivity. Qed.

Theorem C03_lossless u x : H_d -> compress c u false false = Val (Some x) ->
  (exists l, expand_all c x false = Val (Some l) /\ In u l) /\
  expand c x false false = standardize_uri c u false false /\ expand c x false false <> Val None.
Proof.
  intros Hd Hx. apply compress_val in Hx. destruct (C03_lossless_sp d rs c Hc u x Hd Hx) as ((l & El & Hl) & E2 & E3).
  rewrite (A_expand_all d rs c Hc), (A_expand d rs c Hc), (A_std_uri d rs c Hc), El, E2. simpl.
  split; [eauto|]. rewrite E2 in E3. destruct (sp_std_uri rs u); [split; [reflexivity|discriminate]|congruence].
Qed.
Theorem C03_std_uri_id r i : In r rs -> longest_match rs (r_uri r ++ i) = Some (r_uri r, r) ->
  standardize_uri c (r_uri r ++ i) false false = Val (Some (r_uri r ++ i)).
Proof. intros Hr E. apply std_uri_val. eapply C03_std_id_sp; eauto. Qed.
Theorem C03_expand_compressible s u : expand c s false false = Val (Some u) -> is_uri c u = true.
Proof. intro H. apply expand_val in H. rewrite (A_is_uri d rs c Hc). eapply C03_expand_compressible_sp; eauto. Qed.
Theorem C03_inverse_1 s u : prefix_free rs -> expand c s false false = Val (Some u) ->
  compress c u false false = standardize_curie c s false false /\ compress c u false false <> Val None.
Proof.
  intros PF H. apply expand_val in H. destruct (C03_inverse1_sp d rs c Hc s u PF H) as [E1 E2].
  rewrite (A_compress d rs c Hc), std_curie_eq, <- E1. simpl.
  destruct (sp_compress rs d u); [split; [reflexivity|discriminate]|congruence].
Qed.
Theorem C03_inverse_2 u x : H_d -> compress c u false false = Val (Some x) ->
  expand c x false false = standardize_uri c u false false.
Proof. intros Hd Hx. apply (C03_lossless u x Hd Hx). Qed.
(* on standard forms the two maps are mutually inverse *)
Theorem C03_bijection_curie s y u : prefix_free rs -> H_d -> standardize_curie c s false false = Val (Some y) ->
  expand c y false false = Val (Some u) -> compress c u false false = Val (Some y).
Proof.
  intros PF Hd Hy Hu. destruct (C03_inverse_1 y u PF Hu) as [E _]. rewrite E.
  rewrite std_curie_eq in Hy. injection Hy as Hy'. rewrite std_curie_eq.
  destruct (C06_idem_curie_sp d rs c Hc s y Hd Hy') as [E2 _]. rewrite E2. reflexivity.
Qed.
Theorem C03_bijection_uri u y x : prefix_free rs -> H_d -> standardize_uri c u false false = Val (Some y) ->
  compress c y false false = Val (Some x) -> expand c x false false = Val (Some y).
Proof.
  intros PF Hd Hy Hx. rewrite (C03_inverse_2 y x Hd Hx). apply std_uri_val in Hy. apply std_uri_val.
  apply (C06_idem_uri_sp d rs c Hc u y PF Hy).
Qed.

Theorem C06_prefix_idem p y : standardize_prefix c p false false = Val (Some y) -> standardize_prefix c y false false = Val (Some y).
Proof. rewrite !std_prefix_eq. intro H; injection H as H'. rewrite (C06_idem_prefix_sp d rs c Hc p y H'). reflexivity. Qed.
Theorem C06_curie_idem s y : H_d -> standardize_curie c s false false = Val (Some y) ->
  standardize_curie c y false false = Val (Some y) /\ expand c y false false = expand c s false false.
Proof.
  intros Hd. rewrite !std_curie_eq. intro H; injection H as H'.
  destruct (C06_idem_curie_sp d rs c Hc s y Hd H') as [E1 E2]. rewrite E1, !(A_expand d rs c Hc), E2. auto.
Qed.
Theorem C06_uri_idem u y : prefix_free rs -> standardize_uri c u false false = Val (Some y) ->
  standardize_uri c y false false = Val (Some y) /\ compress c y false false = compress c u false false.
Proof.
  intros PF H. apply std_uri_val in H. destruct (C06_idem_uri_sp d rs c Hc u y PF H) as [E1 E2].
  split; [apply std_uri_val; auto|]. rewrite !(A_compress d rs c Hc), E2. reflexivity.
Qed.
End ModelLevel.

(* Facts about the string primitives. *)
From Coq Require Import Lia Permutation.
From Curies.model Require Import Str PyData.

Lemma str_eqb_spec a b : reflect (a = b) (str_eqb a b).
Proof.
  revert b; induction a as [|x a IH]; intros [|y b]; simpl; try (constructor; congruence).
  destruct (N.eqb_spec x y); simpl; [|constructor; congruence].
  destruct (IH b); constructor; congruence.
Qed.
Lemma str_eqb_refl a : str_eqb a a = true.
Proof. destruct (str_eqb_spec a a); congruence. Qed.
Lemma str_eqb_sym a b : str_eqb a b = str_eqb b a.
Proof. destruct (str_eqb_spec a b), (str_eqb_spec b a); congruence. Qed.
Lemma str_eqb_eq a b : str_eqb a b = true <-> a = b.
Proof. destruct (str_eqb_spec a b); split; congruence. Qed.
Lemma str_eqb_neq a b : str_eqb a b = false <-> a <> b.
Proof. destruct (str_eqb_spec a b); split; congruence. Qed.
Lemma str_eq_dec : forall a b : str, {a = b} + {a <> b}.
Proof. intros a b. destruct (str_eqb_spec a b); auto. Qed.

Lemma mem_cons x y l : mem x (y :: l) = str_eqb x y || mem x l.
Proof. reflexivity. Qed.
Lemma mem_In x l : mem x l = true <-> In x l.
Proof.
  unfold mem. rewrite existsb_exists. split.
  - intros (y & Hy & E). apply str_eqb_eq in E. congruence.
  - intro H. exists x. split; auto. apply str_eqb_refl.
Qed.
Lemma mem_false x l : mem x l = false <-> ~ In x l.
Proof. rewrite <- mem_In. destruct (mem x l); split; congruence. Qed.
Lemma mem_app x l1 l2 : mem x (l1 ++ l2) = mem x l1 || mem x l2.
Proof. unfold mem. apply existsb_app. Qed.
Global Opaque mem.

Lemma prefixb_firstn p s : prefixb p s = true <-> firstn (length p) s = p /\ length p <= length s.
Proof.
  revert s; induction p as [|x p IH]; intros s; simpl.
  - split; auto. intros _. split; auto. lia.
  - destruct s as [|y s]; simpl.
    + split; [discriminate|intros [H _]; discriminate].
    + rewrite andb_true_iff, IH. destruct (N.eqb_spec x y).
      * subst. split; [intros [_ [H1 H2]]; split; [congruence|lia] | intros [H1 H2]; inversion H1 as [H3]; rewrite H3; repeat split; auto; lia].
      * split; [intros [H _]; discriminate | intros [H1 _]; congruence].
Qed.
Lemma prefixb_app p b : prefixb p (p ++ b) = true.
Proof. induction p; simpl; auto. rewrite N.eqb_refl; auto. Qed.
Lemma prefixb_split p s : prefixb p s = true -> s = p ++ skipn (length p) s.
Proof.
  revert s; induction p as [|x p IH]; intros s H; simpl in *; auto.
  destruct s as [|y s]; [discriminate|]. apply andb_true_iff in H as [H1 H2].
  apply N.eqb_eq in H1. subst. f_equal. auto.
Qed.
Lemma prefixb_iff p s : prefixb p s = true <-> exists t, s = p ++ t.
Proof. split; [intro H; eexists; apply prefixb_split; auto | intros [t ->]; apply prefixb_app]. Qed.
Lemma prefixb_refl p : prefixb p p = true.
Proof. rewrite <- (app_nil_r p) at 2. apply prefixb_app. Qed.
Lemma skipn_app_exact {A} (p t : list A) : skipn (length p) (p ++ t) = t.
Proof. induction p; simpl; auto. Qed.
Lemma firstn_app_exact {A} (p t : list A) : firstn (length p) (p ++ t) = p.
Proof. induction p; simpl; auto. f_equal; auto. Qed.
(* two prefixes of one string of equal length are equal *)
Lemma prefixb_same_len p q s : prefixb p s = true -> prefixb q s = true -> length p = length q -> p = q.
Proof. rewrite !prefixb_firstn. intros [H1 _] [H2 _] E. rewrite <- H1, <- H2, E. reflexivity. Qed.
(* two prefixes of one string are comparable *)
Lemma prefixb_comparable p q s : prefixb p s = true -> prefixb q s = true -> length p <= length q -> prefixb p q = true.
Proof.
  revert q s; induction p as [|x p IH]; intros q s Hp Hq Hl; simpl; auto.
  destruct q as [|y q]; [simpl in Hl; lia|]. destruct s as [|z s]; [discriminate|].
  simpl in *. apply andb_true_iff in Hp as [A B]. apply andb_true_iff in Hq as [C D].
  apply N.eqb_eq in A, C. subst. rewrite N.eqb_refl. simpl. eapply IH; eauto. lia.
Qed.

(* ---- partition at the first occurrence ---- *)
Definition occurs_at (sep s : str) (i : nat) : bool := prefixb sep (skipn i s).

Lemma partition_some sep s a b : partition sep s = Some (a, b) ->
  s = a ++ sep ++ b /\ forall i, i < length a -> occurs_at sep s i = false.
Proof.
  revert a b; induction s as [|c t IH]; intros a b H; simpl in H.
  - destruct (prefixb sep []) eqn:E; [|discriminate]. inversion H; subst. split; [|simpl; lia].
    simpl. apply prefixb_split in E. destruct sep; simpl in *; auto; discriminate.
  - destruct (prefixb sep (c :: t)) eqn:E.
    + inversion H; subst. split; [|simpl; lia]. simpl. apply prefixb_split in E. exact E.
    + destruct (partition sep t) as [[a' b']|] eqn:Ep; [|discriminate]. inversion H; subst.
      destruct (IH _ _ eq_refl) as [Hs Hno]. split; [simpl; congruence|].
      intros [|i] Hi; unfold occurs_at; simpl; auto. apply Hno. simpl in Hi. lia.
Qed.
Lemma partition_none sep s : partition sep s = None -> forall i, occurs_at sep s i = false.
Proof.
  induction s as [|c t IH]; intros H i; simpl in H.
  - destruct (prefixb sep []) eqn:E; [discriminate|]. unfold occurs_at. destruct i; simpl; auto.
  - destruct (prefixb sep (c :: t)) eqn:E; [discriminate|].
    destruct (partition sep t) as [[a' b']|] eqn:Ep; [discriminate|].
    destruct i; unfold occurs_at; simpl; auto. apply IH; auto.
Qed.
Lemma partition_first sep a b : (forall i, i < length a -> occurs_at sep (a ++ sep ++ b) i = false) ->
  partition sep (a ++ sep ++ b) = Some (a, b).
Proof.
  induction a as [|c a IH]; intro Hno.
  - simpl app. destruct (sep ++ b) eqn:E; simpl.
    + destruct sep; [|discriminate]. simpl in *. subst. reflexivity.
    + rewrite <- E. rewrite prefixb_app. rewrite E. f_equal. f_equal. rewrite <- E.
      clear. induction sep; simpl; auto.
  - simpl app. simpl. assert (H0 := Hno 0 ltac:(simpl; lia)). unfold occurs_at in H0. simpl in H0. rewrite H0.
    rewrite IH; auto. intros i Hi. specialize (Hno (S i) ltac:(simpl; lia)). exact Hno.
Qed.
Lemma no_occ_single d a b : ~ In d a -> forall i, i < length a -> occurs_at [d] (a ++ [d] ++ b) i = false.
Proof.
  revert b; induction a as [|c a IH]; intros b Hn i Hi; [simpl in Hi; lia|].
  destruct i; unfold occurs_at; simpl.
  - destruct (N.eqb_spec d c); auto. subst. exfalso. apply Hn. left; auto.
  - apply IH; [intro; apply Hn; right; auto|simpl in Hi; lia].
Qed.
Lemma partition_single d a b : ~ In d a -> partition [d] (a ++ [d] ++ b) = Some (a, b).
Proof. intro H. apply partition_first. apply no_occ_single; auto. Qed.

(* the first occurrence of sep in (p ++ sep) is at |p|: then p ++ sep ++ i splits back into (p, i) *)
Lemma occurs_at_app_lt sep p t i : i + length sep <= length p -> occurs_at sep (p ++ t) i = occurs_at sep p i.
Proof.
  unfold occurs_at. revert i; induction p as [|c p IH]; intros i H.
  - simpl in H. assert (i = 0) by lia. assert (sep = []) by (destruct sep; simpl in *; auto; lia). subst. reflexivity.
  - destruct i; simpl.
    + clear IH. revert c p H. induction sep as [|x sep IHs]; intros c p H; simpl; auto.
      destruct (N.eqb x c); simpl; auto. destruct p as [|c' p]; [simpl in H; destruct sep; simpl in *; auto; lia|].
      apply IHs. simpl in *. lia.
    + apply IH. simpl in H. lia.
Qed.

(* The executable predicate P_C09 accepts the model's own observation on every valid chain / get_subconverter case. *)
From Coq Require Import Lia Permutation Sorted.
From Curies.model Require Import Str PyData Trie Conv Query Val Answer Spec CheckQ Mutate CheckM Loaders CheckL Reconcile CheckR.
From Curies.proofs Require Import StrFacts TrieFacts DictFacts IndexFacts QueryFacts CheckFacts C04Facts MutateFacts
  SortFacts ChainFacts PModelFacts PModelM.

(* ---------- decoding the observed records ---------- *)
Lemma as_strs_vstrs l : as_strs (vstrs l) = Some l.
Proof.
  unfold as_strs, vstrs, as_list_of. induction l as [|a l IH]; [reflexivity|].
  cbn [map all_some as_str]. rewrite IH. reflexivity.
Qed.
Lemma as_record_vrecord r : as_record (vrecord r) = Some r.
Proof.
  destruct r as [p u ps us pat]. unfold vrecord, as_record. cbn [r_prefix r_uri r_psyn r_usyn r_pat].
  rewrite !as_strs_vstrs. destruct pat as [x|]; reflexivity.
Qed.
Lemma as_records_vrecords rs : as_records (VList (map vrecord rs)) = Some rs.
Proof.
  unfold as_records, as_list_of. induction rs as [|a l IH]; [reflexivity|].
  cbn [map all_some]. rewrite as_record_vrecord, IH. reflexivity.
Qed.

Lemma in_battery_records ss ps : In QRecords (battery ss ps).
Proof. unfold battery. apply in_or_app. right. apply in_or_app. right. unfold battery_intro. in_list. Qed.

Lemma result_records_model k R :
  result_records k (map (answer R) (rbattery k)) = Some (sort_records (recs R)).
Proof.
  unfold result_records. fold (zm R (rbattery k)).
  rewrite (find_obs_exact R (rbattery k) _ QRecords).
  - cbn [answer vres]. apply as_records_vrecords.
  - intros q H. destruct q; try discriminate. reflexivity.
  - apply in_battery_records.
  - reflexivity.
Qed.

Lemma forallb_combine_map' {A B} (f : A -> B) (P : A * B -> bool) l :
  (forall x, In x l -> P (x, f x) = true) -> forallb P (combine l (map f l)) = true.
Proof. induction l as [|a l IH]; simpl; intro H; auto. rewrite H by auto. simpl. apply IH. intros; apply H; auto. Qed.

(* ---------- a consistent converter answers by its sorted records ---------- *)
Lemma wf_perm c rs rs' d : (forall r, In r rs <-> In r rs') -> wf c rs d -> wf c rs' d.
Proof.
  intros P [op ou dl rc sy pm tr rp]. constructor.
  - eapply one_owner_perm; eauto.
  - eapply one_owner_perm; eauto.
  - exact dl.
  - intro r. rewrite <- rc. symmetry. apply P.
  - intro p. rewrite sy. f_equal. symmetry. apply owner_perm; auto.
  - intro p. rewrite pm. f_equal. symmetry. apply owner_perm; auto.
  - intro u. rewrite tr. f_equal. symmetry. apply owner_perm; auto.
  - intro u. rewrite rp. f_equal. symmetry. apply owner_perm; auto.
Qed.

Lemma swf_sorted_pairwise c : swf c ->
  pairwise (disjoint_keys all_prefixes) (sort_records (recs c)) /\ pairwise (disjoint_keys all_uris) (sort_records (recs c)).
Proof.
  intros (_ & Pp & Pu). split.
  - eapply pairwise_perm; [apply disjoint_keys_sym|symmetry; apply sort_perm|exact Pp].
  - eapply pairwise_perm; [apply disjoint_keys_sym|symmetry; apply sort_perm|exact Pu].
Qed.

Lemma result_consistent_model k R : swf R -> delim R = [58%N] ->
  result_consistent k (sort_records (recs R)) (map (answer R) (rbattery k)) = true.
Proof.
  intros S D. unfold result_consistent. apply andb_true_intro. split.
  - destruct (swf_sorted_pairwise R S) as [Pp Pu]. unfold strictb.
    apply clash_spec in Pp, Pu. rewrite Pp, Pu. reflexivity.
  - apply forallb_combine_map'. intros q _. cbn [fst snd].
    destruct (all_conv_queries q) eqn:E; auto.
    assert (W: wf R (sort_records (recs R)) [58%N]).
    { apply (wf_perm R (recs R)); [intro r; symmetry; apply sort_records_In|]. rewrite <- D. apply S. }
    rewrite (WF.answer_spec _ _ _ W q); [apply val_eqb_refl|]. destruct q; try discriminate; reflexivity.
Qed.

(* ---------- sorting by a key without repeated keys is insensitive to the input order ---------- *)
Section SortKey.
Variable A : Type.
Variable key : A -> str.
Definition klt (a b : A) : Prop := slt (key a) (key b).
Lemma ksorted_unique (l1 l2 : list A) : StronglySorted klt l1 -> StronglySorted klt l2 ->
  (forall x, In x l1 <-> In x l2) -> l1 = l2.
Proof.
  revert l2; induction l1 as [|a l1 IH]; intros l2 S1 S2 E.
  - destruct l2 as [|b l2]; auto. exfalso. apply (E b). left; auto.
  - destruct l2 as [|b l2]; [exfalso; apply (E a); left; auto|].
    inversion S1 as [|? ? S1' F1]; subst. inversion S2 as [|? ? S2' F2]; subst.
    rewrite Forall_forall in F1, F2.
    assert (a = b).
    { destruct (proj1 (E a) (or_introl eq_refl)) as [->|Ha]; auto.
      destruct (proj2 (E b) (or_introl eq_refl)) as [->|Hb]; auto.
      exfalso. apply (slt_irrefl (key a)). eapply slt_trans; [apply F1; eauto|apply F2; auto]. }
    subst b. f_equal. apply IH; auto. intro x. split; intro Hx.
    + destruct (proj1 (E x) (or_intror Hx)) as [<-|H]; auto. exfalso. apply (slt_irrefl (key a)). apply F1; auto.
    + destruct (proj2 (E x) (or_intror Hx)) as [<-|H]; auto. exfalso. apply (slt_irrefl (key a)). apply F2; auto.
Qed.
Definition kle (a b : A) : Prop := str_leb (key a) (key b) = true.
Lemma ksorted_nodup_strict (l : list A) : Sorted kle l -> NoDup (map key l) -> StronglySorted klt l.
Proof.
  intros S0 N.
  assert (S := Sorted_StronglySorted (R:=kle) (fun a b c => str_leb_trans (key a) (key b) (key c)) S0). clear S0.
  induction S as [|a l S IH F]; constructor.
  - apply IH. inversion N; auto.
  - inversion N as [|? ? Hn Hd]; subst. rewrite Forall_forall in *. intros x Hx.
    apply str_leb_lt; [apply F; auto|]. intro E. apply Hn. rewrite E. apply in_map; auto.
Qed.
Lemma sort_by_key_sorted l : Sorted kle (sort_by_key key l).
Proof. unfold sort_by_key. apply (sort_sorted A (fun a b => str_leb (key a) (key b))). intros a b. apply str_leb_total. Qed.
Lemma sort_by_key_perm l l' : Permutation l l' -> NoDup (map key l) -> sort_by_key key l = sort_by_key key l'.
Proof.
  intros P N.
  assert (P1: Permutation (sort_by_key key l) l) by apply sort_perm.
  assert (P2: Permutation (sort_by_key key l') l') by apply sort_perm.
  apply ksorted_unique.
  - apply ksorted_nodup_strict; [apply sort_by_key_sorted|].
    eapply Permutation_NoDup; [apply Permutation_map; symmetry; exact P1|exact N].
  - apply ksorted_nodup_strict; [apply sort_by_key_sorted|].
    eapply Permutation_NoDup; [apply Permutation_map; symmetry; etransitivity; [exact P2|symmetry; exact P]|exact N].
  - intro x. split; intro H.
    + eapply Permutation_in; [symmetry; exact P2|]. eapply Permutation_in; [exact P|]. eapply Permutation_in; [exact P1|exact H].
    + eapply Permutation_in; [symmetry; exact P1|]. eapply Permutation_in; [symmetry; exact P|]. eapply Permutation_in; [exact P2|exact H].
Qed.
End SortKey.

Lemma map_prefix_norm l : map r_prefix (map norm_record l) = map r_prefix l.
Proof. rewrite map_map. apply map_ext. intro a. reflexivity. Qed.

Lemma norm_records_perm l l' : Permutation l l' -> NoDup (map r_prefix l) -> norm_records l = norm_records l'.
Proof.
  intros P N. unfold norm_records, sort_records. f_equal. f_equal.
  apply sort_by_key_perm; [apply Permutation_map; exact P|]. rewrite map_prefix_norm. exact N.
Qed.

Lemma pairwise_nodup_prefix rs : pairwise (disjoint_keys all_prefixes) rs -> NoDup (map r_prefix rs).
Proof.
  induction 1 as [|a l Ha Hl IH]; simpl; constructor; auto.
  intro Hin. apply in_map_iff in Hin as (b & E & Hb). apply (Ha b Hb (r_prefix a)); [left; reflexivity|rewrite <- E; left; reflexivity].
Qed.

(* ---------- the input converters ---------- *)
Definition link (rs : list record) (c : conv) : Prop := mk_conv true [58%N] rs = Val c.

Lemma strict_okb_mk_conv rs : strict_okb rs = true -> exists c, mk_conv true [58%N] rs = Val c.
Proof.
  unfold strict_okb. rewrite andb_true_iff, !nodup_str_spec. intros [Hp Hu]. apply nodup_mk_conv; auto.
Qed.

Lemma input_convs_ok ins : forallb strict_okb ins = true ->
  exists cs, sequence (map (mk_conv true [58%N]) ins) = Val cs /\ Forall2 link ins cs.
Proof.
  induction ins as [|rs ins IH]; intro H.
  - exists []. split; [reflexivity|constructor].
  - cbn [forallb] in H. apply andb_true_iff in H as [H1 H2].
    destruct (strict_okb_mk_conv rs H1) as [c Hc]. destruct (IH H2) as (cs & E & F).
    exists (c :: cs). split; [|constructor; auto].
    cbn [map sequence]. rewrite Hc. cbn [bind]. rewrite E. reflexivity.
Qed.

Lemma link_recs rs c : link rs c -> recs c = sort_records rs.
Proof. intro H. apply (c_recs _ _ _ H). Qed.
Lemma link_swf rs c : link rs c -> swf c.
Proof. intro H. eapply mk_conv_swf; eauto. Qed.
Lemma link_in rs c r : link rs c -> (In r (recs c) <-> In r rs).
Proof. intro H. rewrite (link_recs _ _ H). apply sort_records_In. Qed.

Lemma Forall2_in_l {A B} (R : A -> B -> Prop) l l' a : Forall2 R l l' -> In a l -> exists b, In b l' /\ R a b.
Proof.
  induction 1 as [|x y l l' Hxy F IH]; intros []; subst.
  - exists y. split; [left|]; auto.
  - destruct (IH H) as (b & Hb & Rb). exists b. split; [right|]; auto.
Qed.
Lemma Forall2_in_r {A B} (R : A -> B -> Prop) l l' b : Forall2 R l l' -> In b l' -> exists a, In a l /\ R a b.
Proof.
  induction 1 as [|x y l l' Hxy F IH]; intros []; subst.
  - exists x. split; [left|]; auto.
  - destruct (IH H) as (a & Ha & Ra). exists a. split; [right|]; auto.
Qed.

(* keys of the inputs, seen from the records or from the converters *)
Lemma keys_ins_cs (keysf : record -> list str) ins cs x : Forall2 link ins cs ->
  ((exists c r, In c cs /\ In r (recs c) /\ In x (keysf r)) <-> (exists rs r, In rs ins /\ In r rs /\ In x (keysf r))).
Proof.
  intro F. split.
  - intros (c & r & Hc & Hr & Hx). destruct (Forall2_in_r _ _ _ _ F Hc) as (rs & Hrs & L).
    exists rs, r. repeat split; auto. apply (link_in _ _ r L); auto.
  - intros (rs & r & Hrs & Hr & Hx). destruct (Forall2_in_l _ _ _ _ F Hrs) as (c & Hc & L).
    exists c, r. repeat split; auto. apply (link_in _ _ r L); auto.
Qed.

(* ---------- the delimiter of a chain result ---------- *)
Section Delim.
Variable fold_c : chr -> str.
Lemma add_record_delim c r cs mg c' : add_record fold_c c r cs mg = Val c' -> delim c' = delim c.
Proof.
  unfold add_record. destruct (match_record fold_c c r cs) as [|k0 [|k1 l]].
  - intro H. inversion H; subst. reflexivity.
  - destruct mg; [|discriminate]. destruct (List.find _ (recs c)); [|discriminate].
    intro H. inversion H; subst. reflexivity.
  - discriminate.
Qed.
Lemma absorb_delim rs sens : forall c R, absorb fold_c (Val c) rs sens = Val R -> delim R = delim c.
Proof.
  induction rs as [|r rs IH]; intros c R H; [simpl in H; inversion H; subst; reflexivity|].
  rewrite absorb_cons in H. destruct (add_record fold_c c r sens true) as [c1|e] eqn:E; [|rewrite absorb_raise in H; discriminate].
  rewrite (IH c1 R H). eapply add_record_delim; eauto.
Qed.
Lemma chain_delim cs sens R : chain fold_c cs sens = Val R -> delim R = [58%N].
Proof.
  intro H. destruct cs as [|c0 cs']; [discriminate|]. rewrite chain_absorb in H by discriminate.
  apply absorb_delim in H. exact H.
Qed.
Lemma chain_swf cs sens R : chain fold_c cs sens = Val R -> swf R.
Proof.
  intro H. destruct (chain_outcome fold_c cs sens) as [E|(R' & E & S)]; [congruence|]. rewrite H in E. inversion E; subst. exact S.
Qed.
End Delim.

(* ---------- boolean helpers ---------- *)
Lemma subset_intro a b : (forall x, In x a -> In x b) -> subset a b = true.
Proof. intro H. unfold subset. apply forallb_forall. intros x Hx. apply mem_In. auto. Qed.
Lemma in_all_p rs x : In x (all_p rs) <-> exists r, In r rs /\ In x (all_prefixes r).
Proof. unfold all_p. apply in_flat_map. Qed.
Lemma in_all_u rs x : In x (all_u rs) <-> exists r, In r rs /\ In x (all_uris r).
Proof. unfold all_u. apply in_flat_map. Qed.
Lemma in_flat_all_p ins x : In x (flat_map all_p ins) <-> exists rs r, In rs ins /\ In r rs /\ In x (all_prefixes r).
Proof.
  rewrite in_flat_map. split.
  - intros (rs & Hrs & Hx). apply in_all_p in Hx as (r & Hr & Hx). eauto.
  - intros (rs & r & Hrs & Hr & Hx). exists rs. split; auto. apply in_all_p. eauto.
Qed.
Lemma in_flat_all_u ins x : In x (flat_map all_u ins) <-> exists rs r, In rs ins /\ In r rs /\ In x (all_uris r).
Proof.
  rewrite in_flat_map. split.
  - intros (rs & Hrs & Hx). apply in_all_u in Hx as (r & Hr & Hx). eauto.
  - intros (rs & r & Hrs & Hr & Hx). exists rs. split; auto. apply in_all_u. eauto.
Qed.
Lemma same_record_p_intro rs a b y : In y rs -> In a (all_prefixes y) -> In b (all_prefixes y) -> same_record_p rs a b = true.
Proof.
  intros Hy Ha Hb. unfold same_record_p. apply existsb_exists. exists y. split; auto.
  apply andb_true_intro. split; apply mem_In; auto.
Qed.
Lemma same_record_u_intro rs a b y : In y rs -> In a (all_uris y) -> In b (all_uris y) -> same_record_u rs a b = true.
Proof.
  intros Hy Ha Hb. unfold same_record_u. apply existsb_exists. exists y. split; auto.
  apply andb_true_intro. split; apply mem_In; auto.
Qed.
Lemma owner_u_owner rs u : owner_u rs u = owner all_uris rs u.
Proof. reflexivity. Qed.

(* ---------- chain ---------- *)
Section Chain.
Variables (ins : list (list record)) (cs : list conv) (fc : chr -> str) (sens : bool) (R : conv).
Hypothesis F : Forall2 link ins cs.
Hypothesis H : chain fc cs sens = Val R.
Let Rs := sort_records (recs R).

Lemma SR : swf R. Proof. exact (chain_swf fc cs sens R H). Qed.
Lemma InRs r : In r Rs <-> In r (recs R). Proof. apply sort_records_In. Qed.
Lemma Op : one_owner all_prefixes Rs.
Proof. apply pairwise_one_owner. apply (swf_sorted_pairwise R SR). Qed.
Lemma Ou : one_owner all_uris Rs.
Proof. apply pairwise_one_owner. apply (swf_sorted_pairwise R SR). Qed.

Lemma known_p_Rs x : In x (all_p Rs) <-> known_p R x.
Proof.
  rewrite in_all_p. unfold known_p. split; intros (y & Hy & Hx); exists y; split; auto; apply InRs; auto.
Qed.
Lemma known_u_Rs x : In x (all_u Rs) <-> known_u R x.
Proof.
  rewrite in_all_u. unfold known_u. split; intros (y & Hy & Hx); exists y; split; auto; apply InRs; auto.
Qed.

Lemma union_p1 : subset (flat_map all_p ins) (all_p Rs) = true.
Proof.
  apply subset_intro. intros x Hx. apply known_p_Rs. destruct (chain_union fc cs sens R H) as (U & _ & _).
  apply U. apply (keys_ins_cs all_prefixes ins cs x F). apply in_flat_all_p. exact Hx.
Qed.
Lemma union_p2 : subset (all_p Rs) (flat_map all_p ins) = true.
Proof.
  apply subset_intro. intros x Hx. apply known_p_Rs in Hx. destruct (chain_union fc cs sens R H) as (U & _ & _).
  apply U in Hx. apply (keys_ins_cs all_prefixes ins cs x F) in Hx. apply in_flat_all_p. exact Hx.
Qed.
Lemma union_u1 : subset (flat_map all_u ins) (all_u Rs) = true.
Proof.
  apply subset_intro. intros x Hx. apply known_u_Rs. destruct (chain_union fc cs sens R H) as (_ & U & _).
  apply U. apply (keys_ins_cs all_uris ins cs x F). apply in_flat_all_u. exact Hx.
Qed.
Lemma union_u2 : subset (all_u Rs) (flat_map all_u ins) = true.
Proof.
  apply subset_intro. intros x Hx. apply known_u_Rs in Hx. destruct (chain_union fc cs sens R H) as (_ & U & _).
  apply U in Hx. apply (keys_ins_cs all_uris ins cs x F) in Hx. apply in_flat_all_u. exact Hx.
Qed.

Lemma grouping :
  forallb (fun rs => forallb (fun r => forallb (fun a => same_record_p Rs (r_prefix r) a) (all_prefixes r)
                                       && forallb (fun a => same_record_u Rs (r_uri r) a) (all_uris r)
                                       && match owner_by_prefix Rs (r_prefix r), owner_u Rs (r_uri r) with
                                          | Some x, Some y => str_eqb (r_prefix x) (r_prefix y)
                                          | _, _ => false end) rs) ins = true.
Proof.
  apply forallb_forall. intros rs Hrs. apply forallb_forall. intros r Hr.
  destruct (Forall2_in_l _ _ _ _ F Hrs) as (c & Hc & L).
  destruct (chain_union fc cs sens R H) as (_ & _ & G).
  destruct (G c r Hc (proj2 (link_in _ _ r L) Hr)) as (y & Hy & Kp & Ku).
  apply InRs in Hy.
  assert (Pr: In (r_prefix r) (all_prefixes y)) by (apply Kp; left; reflexivity).
  assert (Ur: In (r_uri r) (all_uris y)) by (apply Ku; left; reflexivity).
  apply andb_true_intro. split; [apply andb_true_intro; split|].
  - apply forallb_forall. intros a Ha. apply (same_record_p_intro Rs _ _ y); auto.
  - apply forallb_forall. intros a Ha. apply (same_record_u_intro Rs _ _ y); auto.
  - rewrite owner_by_prefix_owner, owner_u_owner.
    rewrite (owner_reg all_prefixes Rs (r_prefix r) y Op Hy Pr), (owner_reg all_uris Rs (r_uri r) y Ou Hy Ur).
    apply str_eqb_refl.
Qed.

Lemma priority : sens = true ->
  match ins with
  | c1 :: _ => forallb (fun r => forallb (fun p => match owner_by_prefix Rs p with
                                                   | Some x => str_eqb (r_uri x) (r_uri r) && str_eqb (r_prefix x) (r_prefix r)
                                                   | None => false end) (all_prefixes r)) c1
  | [] => true end = true.
Proof.
  intro Es. inversion F as [Ei Ec|i1 c1 irest crest L F' Ei Ec]; [reflexivity|].
  pose proof H as H'. rewrite <- Ec, Es in H'.
  apply forallb_forall. intros r Hr. apply forallb_forall. intros p Hp.
  destruct (chain_priority fc c1 crest R (link_swf _ _ L) H' r (proj2 (link_in _ _ r L) Hr)) as (y & Hy & E1 & E2 & _ & Kp & _).
  apply InRs in Hy. rewrite owner_by_prefix_owner, (owner_reg all_prefixes Rs p y Op Hy (Kp p Hp)).
  rewrite E1, E2, !str_eqb_refl. reflexivity.
Qed.

Lemma singleton : sens = true ->
  match ins with
  | [c] => val_eqb (norm_records Rs) (norm_records c)
  | _ => true end = true.
Proof.
  intro Es. inversion F as [Ei Ec|i1 c1 irest crest L F' Ei Ec]; [reflexivity|].
  inversion F' as [Ei' Ec'|? ? ? ? ? ? Ei' Ec']; [|reflexivity].
  pose proof H as H'. rewrite <- Ec, <- Ec', Es in H'.
  destruct (chain_singleton fc c1 (link_swf _ _ L)) as (R' & E & Er & _). rewrite H' in E. inversion E; subst R'.
  rewrite (norm_records_perm Rs i1); [apply val_eqb_refl| |].
  - unfold Rs. rewrite Er, (link_recs _ _ L). etransitivity; apply sort_perm.
  - apply pairwise_nodup_prefix. apply (swf_sorted_pairwise R SR).
Qed.

Lemma fold_distinct : sens = false ->
  forallb (fun r1 => forallb (fun r2 => str_eqb (r_prefix r1) (r_prefix r2) ||
     negb (existsb (fun a => existsb (fun b => str_eqb (casefold fc a) (casefold fc b)) (all_prefixes r2)) (all_prefixes r1))) Rs) Rs = true.
Proof.
  intro Es. subst sens. pose proof (chain_fold_distinct fc cs R H) as P.
  apply forallb_forall. intros r1 H1. apply forallb_forall. intros r2 H2.
  apply InRs in H1. apply InRs in H2.
  destruct (record_eq_dec r1 r2) as [->|Hne]; [rewrite str_eqb_refl; reflexivity|].
  destruct (pairwise_in_neq _ (ci_disjoint_sym fc) _ r1 r2 P H1 H2 Hne) as [D _].
  apply orb_true_iff. right. apply negb_true_iff.
  destruct (existsb _ (all_prefixes r1)) eqn:E; auto. exfalso.
  apply existsb_exists in E as (a & Ha & E). apply existsb_exists in E as (b & Hb & E).
  apply str_eqb_eq in E. exact (D a b Ha Hb E).
Qed.
End Chain.


(* ---------- the outcome code of chain follows the naive specification spec_chain_code ---------- *)
(* The model's add_record follows CheckM.spec_step on the SORTED records of a consistent converter, and the result is only
   known up to the order of the records and of the synonyms (norm_records).  The specification folds spec_step over its
   own, unsorted and unnormalised, record list.  So: spec_step respects the equivalence "same records up to the order of the
   records and the order of the synonyms inside each record". *)
Lemma existsb_ext' {A} (f g : A -> bool) l : (forall x, f x = g x) -> existsb f l = existsb g l.
Proof. intro E. induction l as [|a l IH]; simpl; [reflexivity|]. rewrite E, IH. reflexivity. Qed.
Lemma existsb_perm {A} (f : A -> bool) l l' : Permutation l l' -> existsb f l = existsb f l'.
Proof.
  induction 1 as [|x l l' P IH|x y l|l l' l'' P1 IH1 P2 IH2]; simpl; auto.
  - rewrite IH. reflexivity.
  - destruct (f x), (f y); reflexivity.
  - congruence.
Qed.
Lemma filter_map_norm {A B} (f : A -> B) (p : B -> bool) (q : A -> bool) l : (forall x, p (f x) = q x) ->
  filter p (map f l) = map f (filter q l).
Proof.
  intro E. induction l as [|a l IH]; simpl; [reflexivity|]. rewrite E. destruct (q a); simpl; rewrite IH; reflexivity.
Qed.

(* sorted(xs) depends only on the multiset *)
Lemma sle_sorted_perm_eq (l1 : list str) : forall l2,
  StronglySorted (fun a b => str_leb a b = true) l1 -> StronglySorted (fun a b => str_leb a b = true) l2 ->
  Permutation l1 l2 -> l1 = l2.
Proof.
  induction l1 as [|a l1 IH]; intros l2 S1 S2 P.
  - apply Permutation_nil in P. auto.
  - destruct l2 as [|b l2]; [apply Permutation_sym, Permutation_nil in P; discriminate|].
    inversion S1 as [|? ? S1' F1]; subst. inversion S2 as [|? ? S2' F2]; subst.
    rewrite Forall_forall in F1, F2.
    assert (E: a = b).
    { assert (Ha: In a (b :: l2)) by (eapply Permutation_in; [exact P|left; auto]).
      assert (Hb: In b (a :: l1)) by (eapply Permutation_in; [apply Permutation_sym; exact P|left; auto]).
      destruct Ha as [Ha|Ha]; auto. destruct Hb as [Hb|Hb]; auto.
      apply str_leb_antisym; [apply F1; auto|apply F2; auto]. }
    subst b. f_equal. apply IH; auto. eapply Permutation_cons_inv; eauto.
Qed.
Lemma sort_str_perm l l' : Permutation l l' -> sort_str l = sort_str l'.
Proof.
  intro P. apply sle_sorted_perm_eq.
  - apply Sorted_StronglySorted; [intros a b c; apply str_leb_trans|apply sort_str_sorted].
  - apply Sorted_StronglySorted; [intros a b c; apply str_leb_trans|apply sort_str_sorted].
  - unfold sort_str. eapply perm_trans; [apply sort_perm|]. eapply perm_trans; [exact P|]. apply Permutation_sym, sort_perm.
Qed.
Lemma sort_str_eq_perm l l' : sort_str l = sort_str l' -> Permutation l l'.
Proof.
  intro E. eapply perm_trans; [apply Permutation_sym; apply (sort_perm str_leb)|].
  fold (sort_str l). rewrite E. apply (sort_perm str_leb).
Qed.
Lemma mem_perm x l l' : Permutation l l' -> mem x l = mem x l'.
Proof.
  intro P. destruct (mem x l') eqn:E.
  - apply mem_In. apply mem_In in E. eapply Permutation_in; [apply Permutation_sym; exact P|exact E].
  - apply mem_false. apply mem_false in E. intro Hx. apply E. eapply Permutation_in; [exact P|exact Hx].
Qed.

Definition Nrm (rs : list record) : list record := map norm_record rs.
(* the same records, up to the order of the records and of the synonyms *)
Definition req (rs rs' : list record) : Prop := Permutation (Nrm rs) (Nrm rs').
Lemma req_refl rs : req rs rs. Proof. apply Permutation_refl. Qed.
Lemma req_sym a b : req a b -> req b a. Proof. apply Permutation_sym. Qed.
Lemma req_trans a b c : req a b -> req b c -> req a c. Proof. apply perm_trans. Qed.
Lemma req_perm a b : Permutation a b -> req a b. Proof. intro P. apply Permutation_map. exact P. Qed.
Lemma req_sort rs : req (sort_records rs) rs.
Proof. apply req_perm. unfold sort_records, sort_by_key. apply sort_perm. Qed.
Lemma norm_records_req X Y : norm_records X = norm_records Y -> req X Y.
Proof.
  unfold norm_records. intro E. apply (f_equal as_records) in E. rewrite !as_records_vrecords in E. inversion E as [E'].
  unfold req, Nrm. eapply perm_trans; [apply Permutation_sym; apply sort_perm|].
  unfold sort_records, sort_by_key in E'. rewrite E'. apply sort_perm.
Qed.

Lemma norm_record_inv m m' : norm_record m = norm_record m' ->
  r_prefix m = r_prefix m' /\ r_uri m = r_uri m' /\ Permutation (r_psyn m) (r_psyn m') /\ Permutation (r_usyn m) (r_usyn m') /\
  r_pat m = r_pat m'.
Proof.
  destruct m as [p u ps us pat], m' as [p' u' ps' us' pat']. unfold norm_record. cbn [r_prefix r_uri r_psyn r_usyn r_pat].
  intro E. inversion E as [[E1 E2 E3 E4 E5]]. repeat split; auto; apply sort_str_eq_perm; auto.
Qed.

Section ChainCode.
Variable K : mcase.
Notation fc := (fold_of (mc_fold K)).

Lemma in_cs_perm cs a l l' : Permutation l l' -> in_cs fc cs a l = in_cs fc cs a l'.
Proof. intro P. unfold in_cs. apply existsb_perm. exact P. Qed.
Lemma in_cs_sort cs a l : in_cs fc cs a (sort_str l) = in_cs fc cs a l.
Proof. apply in_cs_perm. unfold sort_str. apply sort_perm. Qed.

Lemma matches_norm cs ext r : matches_record fc cs ext (norm_record r) = matches_record fc cs ext r.
Proof.
  unfold matches_record, norm_record. cbn [r_prefix r_uri r_psyn r_usyn r_pat]. f_equal.
  - apply existsb_ext'. intro p. rewrite in_cs_sort. reflexivity.
  - apply existsb_ext'. intro p. rewrite in_cs_sort. reflexivity.
Qed.

Lemma merged_syn_perm canon syn syn' news : Permutation syn syn' ->
  sort_str (syn ++ dedup (filter (fun x => negb (mem x (canon :: syn))) news))
  = sort_str (syn' ++ dedup (filter (fun x => negb (mem x (canon :: syn'))) news)).
Proof.
  intro P. apply sort_str_perm.
  assert (E: filter (fun x => negb (mem x (canon :: syn))) news = filter (fun x => negb (mem x (canon :: syn'))) news).
  { apply filter_ext. intro x. f_equal. apply mem_perm. apply perm_skip. exact P. }
  rewrite E. apply Permutation_app_tail. exact P.
Qed.

Lemma norm_spec_merge ext m m' : norm_record m = norm_record m' ->
  norm_record (spec_merge ext m) = norm_record (spec_merge ext m').
Proof.
  intro E. apply norm_record_inv in E as (Ep & Eu & Pp & Pu & Et).
  unfold norm_record, spec_merge, all_prefixes, all_uris. cbn [r_prefix r_uri r_psyn r_usyn r_pat].
  rewrite Ep, Eu, Et.
  rewrite (merged_syn_perm (r_prefix m') (r_psyn m) (r_psyn m') _ Pp).
  rewrite (merged_syn_perm (r_uri m') (r_usyn m) (r_usyn m') _ Pu). reflexivity.
Qed.

(* one step of the specification respects the equivalence *)
Lemma spec_add_req rs rs' ext cs : req rs rs' ->
  fst (spec_add K rs ext cs true) = fst (spec_add K rs' ext cs true) /\
  req (snd (spec_add K rs ext cs true)) (snd (spec_add K rs' ext cs true)).
Proof.
  intro Q. unfold spec_add. cbv zeta.
  assert (PF: Permutation (Nrm (filter (matches_record fc cs ext) rs)) (Nrm (filter (matches_record fc cs ext) rs'))).
  { unfold Nrm. rewrite <- !(filter_map_norm norm_record (matches_record fc cs ext) (matches_record fc cs ext))
      by (intro x; apply matches_norm).
    apply Permutation_filter'. exact Q. }
  pose proof (Permutation_length PF) as L. unfold Nrm in L. rewrite !map_length in L.
  destruct (filter (matches_record fc cs ext) rs) as [|m [|m2 rest]];
    destruct (filter (matches_record fc cs ext) rs') as [|m' [|m2' rest']]; try discriminate L; cbn [fst snd].
  - split; [reflexivity|]. unfold req, Nrm. rewrite !map_app. apply Permutation_app_tail. exact Q.
  - split; [reflexivity|]. unfold Nrm in PF. cbn [map] in PF. apply Permutation_length_1 in PF.
    pose proof (norm_spec_merge ext m m' PF) as EM. apply norm_record_inv in PF as (Ep & _).
    unfold req, Nrm. rewrite !map_map.
    assert (G: forall m0 l,
               map (fun x => norm_record (if str_eqb (r_prefix x) (r_prefix m0) then spec_merge ext m0 else x)) l
               = map (fun nr => if str_eqb (r_prefix nr) (r_prefix m0) then norm_record (spec_merge ext m0) else nr)
                     (map norm_record l)).
    { intros m0 l. rewrite map_map. apply map_ext. intro x. cbn [norm_record r_prefix].
      destruct (str_eqb (r_prefix x) (r_prefix m0)); reflexivity. }
    rewrite (G m rs), (G m' rs'). rewrite Ep, EM. apply Permutation_map. exact Q.
  - split; [reflexivity|exact Q].
Qed.

(* absorbing a list of records: the model (on a consistent converter) and the specification (on any equivalent record list) agree
   on the outcome *)
Lemma absorb_code sens todo : forall c rs, swf c -> req (recs c) rs ->
  match absorb fc (Val c) todo sens with
  | Val _ => spec_absorb_code fc sens rs todo = 0%Z
  | Raise _ => spec_absorb_code fc sens rs todo = 1%Z
  end.
Proof.
  induction todo as [|r todo IH]; intros c rs S Q; [reflexivity|].
  rewrite absorb_cons. cbn [spec_absorb_code].
  change (spec_step fc rs (chain_op sens r)) with (spec_add K rs r sens true).
  pose proof (add_record_spec K c r sens true S) as A.
  destruct (spec_add_req (sort_records (recs c)) rs r sens (req_trans _ _ _ (req_sort (recs c)) Q)) as [E1 E2].
  destruct (add_record fc c r sens true) as [c'|e].
  - destruct A as (S' & _ & Hc & Hn).
    destruct (spec_add K rs r sens true) as [code acc'] eqn:SA. cbn [fst snd] in E1, E2.
    rewrite Hc in E1. subst code. change (Z.eqb 0 0) with true. cbv iota.
    apply IH; [exact S'|].
    eapply req_trans; [apply req_sym; apply req_sort|]. eapply req_trans; [apply norm_records_req; exact Hn|exact E2].
  - destruct A as (_ & Hs). rewrite absorb_raise. rewrite Hs in E1. cbn [fst] in E1.
    destruct (spec_add K rs r sens true) as [code acc']. cbn [fst] in E1. subst code. reflexivity.
Qed.

Lemma flat_recs_sorted ins cs : Forall2 link ins cs -> flat_map recs cs = flat_map sort_records ins.
Proof.
  induction 1 as [|rs c ins cs L F IH]; [reflexivity|]. cbn [flat_map]. rewrite IH, (link_recs _ _ L). reflexivity.
Qed.

Lemma chain_code ins cs sens : Forall2 link ins cs ->
  match chain fc cs sens with
  | Val _ => spec_chain_code fc ins sens = 0%Z
  | Raise _ => spec_chain_code fc ins sens = 1%Z
  end.
Proof.
  intro F. pose proof (flat_recs_sorted ins cs F) as FL.
  destruct F as [|rs c ins cs L F]; [reflexivity|].
  rewrite chain_absorb by discriminate. rewrite FL. unfold spec_chain_code.
  apply (absorb_code sens _ empty_conv []); [apply empty_swf|apply req_refl].
Qed.
End ChainCode.

(* for the casefold table of a derivation case *)
Definition mcase_of_fold (tbl : list (chr * str)) : mcase :=
  {| mc_recs := []; mc_delim := []; mc_ops := []; mc_strs := []; mc_pairs := []; mc_fold := tbl |}.
Theorem chain_code_spec tbl ins cs sens : Forall2 link ins cs ->
  match chain (fold_of tbl) cs sens with
  | Val _ => spec_chain_code (fold_of tbl) ins sens = 0%Z
  | Raise _ => spec_chain_code (fold_of tbl) ins sens = 1%Z
  end.
Proof. exact (chain_code (mcase_of_fold tbl) ins cs sens). Qed.

Lemma P_chain_val k sens cs R : Forall2 link (rc_inputs k) cs -> chain (fold_of (rc_fold k)) cs sens = Val R ->
  P_chain k sens 0 (map (answer R) (rbattery k)) = true.
Proof.
  intros F H. unfold P_chain. cbv zeta.
  change (Z.eqb 0 1) with false. change (Z.eqb 0 0) with true. cbn [negb].
  rewrite result_records_model.
  pose proof (chain_swf _ _ _ _ H) as S. pose proof (chain_delim _ _ _ _ H) as D.
  apply andb_true_intro; split; [apply andb_true_intro; split; [apply andb_true_intro; split; [apply andb_true_intro; split;
    [apply andb_true_intro; split; [apply andb_true_intro; split; [apply andb_true_intro; split|]|]|]|]|]|].
  - pose proof (chain_code_spec (rc_fold k) _ _ sens F) as C. rewrite H in C. rewrite C. reflexivity.
  - apply result_consistent_model; auto.
  - apply (union_p1 _ _ _ _ _ F H).
  - apply (union_p2 _ _ _ _ _ F H).
  - apply (union_u1 _ _ _ _ _ F H).
  - apply (union_u2 _ _ _ _ _ F H).
  - apply (grouping _ _ _ _ _ F H).
  - destruct sens.
    + apply andb_true_intro. split.
      * apply (priority _ _ _ _ _ F H); reflexivity.
      * apply (singleton _ _ _ _ _ F H); reflexivity.
    + apply (fold_distinct _ _ _ _ H); reflexivity.
Qed.

(* ---------- get_subconverter ---------- *)
Lemma P_sub_val k P i1 irest c1 : rc_inputs k = i1 :: irest -> link i1 c1 ->
  exists S, get_subconverter c1 P = Val S /\ P_sub k P 0 (map (answer S) (rbattery k)) = true.
Proof.
  intros Ei L. destruct (sub_ok c1 P (link_swf _ _ L)) as (S & E & Er & SS & _). exists S. split; auto.
  unfold P_sub. rewrite Ei, result_records_model. change (Z.eqb 0 0) with true. cbn [andb].
  assert (D: delim S = [58%N]).
  { unfold get_subconverter in E. apply (c_delim _ _ _ E). }
  rewrite (result_consistent_model k S SS D). cbn [andb].
  fold (keep P).
  rewrite (norm_records_perm (sort_records (recs S)) (filter (keep P) i1)); [apply val_eqb_refl| |].
  - rewrite Er, (link_recs _ _ L). etransitivity; [apply sort_perm|]. etransitivity; [apply sort_perm|].
    (* filter commutes with permutations *)
    assert (PF: forall (l l' : list record), Permutation l l' -> Permutation (filter (keep P) l) (filter (keep P) l')).
    { induction 1 as [|x l l' Pm IH|x y l|l l' l'' P1 IH1 P2 IH2]; simpl; auto.
      - destruct (keep P x); auto.
      - destruct (keep P x), (keep P y); auto. apply perm_swap.
      - etransitivity; eauto. }
    apply PF. apply sort_perm.
  - apply pairwise_nodup_prefix. apply (swf_sorted_pairwise S SS).
Qed.

(* ---------- the theorem ---------- *)
Theorem P_C09_model : forall k : rcase, valid_r k = true ->
  (match rc_op k with DChain _ | DSub _ => True | _ => False end) -> P_C09 k (model_robs k) = true.
Proof.
  intros k V Hop. unfold valid_r in V. apply andb_true_iff in V as [Vi Vo].
  destruct (input_convs_ok _ Vi) as (cs & Ecs & F).
  unfold model_robs, P_C09, input_convs, derive. rewrite Ecs.
  destruct (rc_op k) as [sens|P|m|m|m] eqn:Eop; try contradiction.
  - (* chain *)
    destruct (chain (fold_of (rc_fold k)) cs sens) as [R|e] eqn:E.
    + apply (P_chain_val k sens cs R F E).
    + destruct (chain_outcome (fold_of (rc_fold k)) cs sens) as [E'|(R' & E' & _)]; [|congruence].
      rewrite E in E'. inversion E'; subst e. cbn [derive_code]. unfold P_chain. cbv zeta.
      change (Z.eqb 1 1) with true. cbv iota.
      pose proof (chain_code_spec (rc_fold k) _ _ sens F) as C. rewrite E in C. rewrite C. reflexivity.
  - (* get_subconverter *)
    destruct (rc_inputs k) as [|i1 irest] eqn:Ei; [discriminate|].
    inversion F as [|? c1 ? crest L F' E1 E2]; subst.
    destruct (P_sub_val k P i1 irest c1 Ei L) as (S & E & HP). rewrite E. exact HP.
Qed.
Print Assumptions P_C09_model.
Print Assumptions chain_code_spec.

(* ---------- the specification of the outcome code is not vacuous, and the order inside an input matters ---------- *)
Definition rr (p u : str) ps us := {| r_prefix := p; r_uri := u; r_psyn := ps; r_usyn := us; r_pat := None |}.
Definition ascii_tbl : list (chr * str) := map (fun c => (c, [c + 32]%N)) [65; 66; 67]%N.   (* A->a, B->b, C->c *)
Definition mkcase (ins : list (list record)) (sens : bool) : rcase :=
  {| rc_inputs := ins; rc_op := DChain sens; rc_strs := []; rc_pairs := []; rc_fold := ascii_tbl |}.
(* a:x/ and b:y/ are separate records; the third converter's record c:x/ with URI prefix synonym y/ bridges them: ValueError,
   in the model and in the specification *)
Example chain_code_bridge :
  let ins := [[rr [97] [120;47] [] []]; [rr [98] [121;47] [] []]; [rr [99] [120;47] [] [[121;47]]]]%N in
  valid_r (mkcase ins true) = true /\ model_robs (mkcase ins true) = VList [VInt 1; VList []; VList []] /\
  spec_chain_code (fold_of ascii_tbl) ins true = 1%Z /\
  spec_chain_code (fold_of ascii_tbl) (firstn 2 ins) true = 0%Z.
Proof. vm_compute. repeat split; reflexivity. Qed.
(* no converter at all: ValueError *)
Example chain_code_no_input : forall fc sens, spec_chain_code fc [] sens = 1%Z.
Proof. reflexivity. Qed.
(* one converter without records: accepted *)
Example chain_code_empty_input : forall fc sens, spec_chain_code fc [[]] sens = 0%Z.
Proof. reflexivity. Qed.
(* The records of an input reach chain sorted by canonical prefix, and the order decides (case-insensitive mode): the second input
   is given as [b:y/ ; B:w/ (URI prefix synonym x/)].  Sorted, B comes first, is merged into a:x/ (shared x/), and then b matches only
   that merged record: accepted.  In the given order b would be appended first and B would then match two records: a
   specification folding over the unsorted input would wrongly demand ValueError. *)
Example chain_code_order_matters :
  let ins := [[rr [97] [120;47] [] []]; [rr [98] [121;47] [] []; rr [66] [119;47] [] [[120;47]]]]%N in
  valid_r (mkcase ins false) = true /\
  (exists answers, model_robs (mkcase ins false) = VList [VInt 0; VList answers; VList []]) /\
  spec_chain_code (fold_of ascii_tbl) ins false = 0%Z /\
  spec_absorb_code (fold_of ascii_tbl) false [] (concat ins) = 1%Z.
Proof. vm_compute. repeat split; try reflexivity. eexists. reflexivity. Qed.

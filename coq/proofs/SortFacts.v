(* The code-point order on strings is a strict total order; sorted duplicate-free lists are canonical. *)
From Coq Require Import Lia Permutation Sorted.
From Curies.model Require Import Str PyData.
From Curies.proofs Require Import StrFacts DictFacts.

Lemma str_cmp_eq a b : str_cmp a b = Eq <-> a = b.
Proof.
  revert b; induction a as [|x a IH]; intros [|y b]; simpl; split; intro H; try discriminate; auto.
  - destruct (N.compare_spec x y); try discriminate. subst. f_equal. apply IH; auto.
  - inversion H; subst. rewrite N.compare_refl. apply IH; auto.
Qed.
Lemma str_cmp_antisym a b : str_cmp b a = CompOpp (str_cmp a b).
Proof.
  revert b; induction a as [|x a IH]; intros [|y b]; simpl; auto.
  rewrite (N.compare_antisym x y). destruct (N.compare x y); simpl; auto.
Qed.
Lemma str_cmp_lt_trans a b c : str_cmp a b = Lt -> str_cmp b c = Lt -> str_cmp a c = Lt.
Proof.
  revert b c; induction a as [|x a IH]; intros [|y b] [|z c]; simpl; auto; try discriminate.
  destruct (N.compare_spec x y), (N.compare_spec y z); try discriminate; intros H1 H2; subst.
  - rewrite N.compare_refl. eapply IH; eauto.
  - rewrite (proj2 (N.compare_lt_iff _ _)); auto.
  - rewrite (proj2 (N.compare_lt_iff _ _)); auto.
  - rewrite (proj2 (N.compare_lt_iff _ _)); auto. lia.
Qed.
Definition slt (a b : str) : Prop := str_cmp a b = Lt.
Lemma slt_irrefl a : ~ slt a a.
Proof. unfold slt. rewrite (proj2 (str_cmp_eq a a) eq_refl). discriminate. Qed.
Lemma slt_trans a b c : slt a b -> slt b c -> slt a c.
Proof. apply str_cmp_lt_trans. Qed.
Lemma slt_total a b : slt a b \/ a = b \/ slt b a.
Proof.
  unfold slt. destruct (str_cmp a b) eqn:E; auto.
  - right; left. apply str_cmp_eq; auto.
  - right; right. rewrite str_cmp_antisym, E. reflexivity.
Qed.
Lemma str_leb_total a b : str_leb a b = true \/ str_leb b a = true.
Proof. unfold str_leb. rewrite (str_cmp_antisym a b). destruct (str_cmp a b); simpl; auto. Qed.
Lemma str_leb_trans a b c : str_leb a b = true -> str_leb b c = true -> str_leb a c = true.
Proof.
  unfold str_leb. destruct (str_cmp a b) eqn:E1; try discriminate; destruct (str_cmp b c) eqn:E2; try discriminate; intros _ _.
  - apply str_cmp_eq in E1, E2. subst. rewrite (proj2 (str_cmp_eq c c) eq_refl). auto.
  - apply str_cmp_eq in E1. subst. rewrite E2. auto.
  - apply str_cmp_eq in E2. subst. rewrite E1. auto.
  - rewrite (str_cmp_lt_trans _ _ _ E1 E2). auto.
Qed.
Lemma str_leb_lt a b : str_leb a b = true -> a <> b -> slt a b.
Proof.
  unfold str_leb, slt. destruct (str_cmp a b) eqn:E; try discriminate; auto.
  intros _ H. apply str_cmp_eq in E. contradiction.
Qed.

(* strictly sorted lists with the same elements are equal *)
Lemma ssorted_unique (l1 l2 : list str) : StronglySorted slt l1 -> StronglySorted slt l2 ->
  (forall x, In x l1 <-> In x l2) -> l1 = l2.
Proof.
  revert l2; induction l1 as [|a l1 IH]; intros l2 S1 S2 E.
  - destruct l2 as [|b l2]; auto. exfalso. apply (E b). left; auto.
  - destruct l2 as [|b l2]; [exfalso; apply (E a); left; auto|].
    inversion S1 as [|? ? S1' F1]; subst. inversion S2 as [|? ? S2' F2]; subst.
    rewrite Forall_forall in F1, F2.
    assert (a = b).
    { destruct (proj1 (E a) (or_introl eq_refl)) as [->|Ha]; auto.
      destruct (proj2 (E b) (or_introl eq_refl)) as [->|Hb]; auto.
      exfalso. apply (slt_irrefl a). eapply slt_trans; [apply F1; eauto|apply F2; auto]. }
    subst b. f_equal. apply IH; auto. intro x. split; intro Hx.
    + destruct (proj1 (E x) (or_intror Hx)) as [<-|H]; auto. exfalso. apply (slt_irrefl a). apply F1; auto.
    + destruct (proj2 (E x) (or_intror Hx)) as [<-|H]; auto. exfalso. apply (slt_irrefl a). apply F2; auto.
Qed.

(* a list sorted by <= without duplicates is strictly sorted *)
Lemma sorted_nodup_strict (l : list str) : Sorted (fun a b => str_leb a b = true) l -> NoDup l -> StronglySorted slt l.
Proof.
  intros S0 N. assert (S := Sorted_StronglySorted (R:=fun a b => str_leb a b = true) (fun a b c => str_leb_trans a b c) S0). clear S0.
  induction S as [|a l S IH F]; constructor.
  - apply IH. inversion N; auto.
  - inversion N as [|? ? Hn Hd]; subst. rewrite Forall_forall in *. intros x Hx.
    apply str_leb_lt; auto. intros ->. contradiction.
Qed.

Lemma sort_str_sorted l : Sorted (fun a b => str_leb a b = true) (sort_str l).
Proof. apply sort_sorted. apply str_leb_total. Qed.

(* dedup *)
Lemma dedup_In l x : In x (dedup l) <-> In x l.
Proof.
  induction l as [|a l IH]; simpl; [tauto|]. rewrite filter_In, IH. split.
  - intros [<-|[H _]]; auto.
  - intros [<-|H]; auto. destruct (str_eqb_spec a x) as [e|n]; auto.
Qed.
Lemma dedup_NoDup l : NoDup (dedup l).
Proof.
  induction l as [|a l IH]; simpl; [constructor|]. constructor.
  - rewrite filter_In. intros [_ H]. rewrite str_eqb_refl in H. discriminate.
  - apply NoDup_filter. auto.
Qed.
Lemma sort_uniq_In l x : In x (sort_uniq l) <-> In x l.
Proof. unfold sort_uniq, sort_str. rewrite sort_In. apply dedup_In. Qed.
Lemma sort_uniq_ssorted l : StronglySorted slt (sort_uniq l).
Proof.
  apply sorted_nodup_strict; [apply sort_str_sorted|].
  unfold sort_uniq, sort_str. eapply Permutation_NoDup; [symmetry; apply sort_perm|apply dedup_NoDup].
Qed.
(* sorted(set(xs)) depends only on the set *)
Lemma sort_uniq_set l1 l2 : (forall x, In x l1 <-> In x l2) -> sort_uniq l1 = sort_uniq l2.
Proof. intro E. apply ssorted_unique; try apply sort_uniq_ssorted. intro x. rewrite !sort_uniq_In. apply E. Qed.
(* the number of distinct elements depends only on the set *)
Lemma nodup_same_length (l1 l2 : list str) : NoDup l1 -> NoDup l2 -> (forall x, In x l1 <-> In x l2) -> length l1 = length l2.
Proof. intros N1 N2 E. apply Permutation_length. apply NoDup_Permutation; auto. Qed.
Lemma dedup_length_set l1 l2 : (forall x, In x l1 <-> In x l2) -> length (dedup l1) = length (dedup l2).
Proof. intro E. apply nodup_same_length; try apply dedup_NoDup. intro x. rewrite !dedup_In. apply E. Qed.

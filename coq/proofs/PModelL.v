(* The executable predicates P_C04 and P_C13 accept the model's own observation on every valid case. *)
From Coq Require Import Lia Permutation Sorted.
From Curies.model Require Import Str PyData Trie Conv Query Val Answer Spec CheckQ Loaders CheckL.
From Curies.proofs Require Import StrFacts TrieFacts DictFacts IndexFacts QueryFacts CheckFacts SortFacts C04Facts
  MutateFacts DiscoveryFacts LoaderFacts ReconcileFacts PModelFacts PModelD.

(* ---------------------------------------------------------------- generic helpers *)
Lemma sequence_raise {A B} (f : A -> res B) l e : sequence (map f l) = Raise e -> exists x, In x l /\ f x = Raise e.
Proof.
  induction l as [|a l IH]; simpl; [discriminate|].
  destruct (f a) as [y|e'] eqn:Fa; simpl.
  - destruct (sequence (map f l)) as [ys|e''] eqn:S; simpl; [discriminate|].
    intro H. inversion H; subst. destruct (IH eq_refl) as (x & Hx & Ex). exists x. split; auto.
  - intro H. inversion H; subst. exists a. split; auto.
Qed.

Lemma mk_record_raise p u ps us pat e : mk_record p u ps us pat = Raise e -> e = ERecordValidation.
Proof. unfold mk_record. destruct (mem p ps); [|destruct (mem u us)]; intro H; inversion H; reflexivity. Qed.

Lemma sort_nil {A} (leb : A -> A -> bool) l : sort leb l = [] -> l = [].
Proof. intro H. pose proof (sort_perm leb l) as P. rewrite H in P. apply Permutation_nil in P. exact P. Qed.

Lemma sort_length {A} (leb : A -> A -> bool) l : length (sort leb l) = length l.
Proof. apply Permutation_length. apply sort_perm. Qed.

Lemma dict_keys_unique_spec {V} (d : list (str * V)) : dict_keys_unique d = true -> NoDup (map fst d).
Proof. unfold dict_keys_unique. apply nodup_str_spec. Qed.

(* ---------------------------------------------------------------- the loaders only reject with a record validation error *)
Lemma records_of_raise k e : valid_l k = true -> records_of (lc_in k) = Raise e -> e = ERecordValidation.
Proof.
  destruct k as [i d ss ps]. unfold valid_l. cbn [lc_in lc_delim]. intros V H.
  apply andb_true_iff in V as [_ V].
  destruct i as [rs|rs|pm|pm|rpm|ctx|pm]; cbn [records_of] in H.
  - discriminate.
  - unfold records_of_epm in H. apply sequence_raise in H as (x & _ & Ex). eapply mk_record_raise; eauto.
  - rewrite prefix_map_records in H. discriminate.
  - unfold records_of_priority_map in H. apply sequence_raise in H as ([p us] & Hx & Ex). cbn [fst snd] in Ex.
    apply andb_true_iff in V as [_ V]. rewrite forallb_forall in V. specialize (V _ Hx). cbn [snd] in V.
    destruct us as [|u us]; [discriminate|]. eapply mk_record_raise; eauto.
  - unfold records_of_reverse_map, group_by_value in H.
    change (fold_left (fun d up => dappend (snd up) (fst up) d) rpm []) with (grouped _ (@snd str str) (@fst str str) rpm []) in H.
    apply sequence_raise in H as ([p us] & Hx & Ex). cbn [fst snd] in Ex.
    apply (grouped_in _ (@snd str str) (@fst str str)) in Hx as [_ Hne].
    destruct (sort_by_len (@length chr) us) as [|u rest] eqn:S.
    + unfold sort_by_len in S. apply sort_nil in S. contradiction.
    + eapply mk_record_raise; eauto.
  - rewrite jsonld_records in H. discriminate.
  - rewrite upgrade_canonical in H by (apply dict_keys_unique_spec; exact V). discriminate.
Qed.

(* ---------------------------------------------------------------- the strict constructor's two rejections *)
Lemma mk_conv_raise d rs e : mk_conv true d rs = Raise e ->
  (e = EDuplicateURIPrefixes /\ dups all_uris (sort_records rs) <> []) \/
  (e = EDuplicatePrefixes /\ dups all_prefixes (sort_records rs) <> []).
Proof.
  unfold mk_conv. cbn [andb].
  destruct (dups all_uris (sort_records rs)) as [|t l] eqn:Du; cbn [negb].
  - destruct (dups all_prefixes (sort_records rs)) as [|t l] eqn:Dp; cbn [negb].
    + discriminate.
    + intro H. inversion H; subst. right. split; auto. discriminate.
  - intro H. inversion H; subst. left. split; auto. discriminate.
Qed.

Lemma listing_nonempty keysf rs : dups keysf (sort_records rs) <> [] -> val_eqb (listing keysf rs) (VList []) = false.
Proof.
  intro H. unfold listing.
  destruct (sort_by_key triple_key (dups keysf (sort_records rs))) as [|t l] eqn:S.
  - unfold sort_by_key in S. apply sort_nil in S. contradiction.
  - reflexivity.
Qed.

(* ---------------------------------------------------------------- the battery *)
Lemma in_lbattery_intro k q : In q battery_intro -> In q (lbattery k).
Proof. intro H. unfold lbattery, battery. apply in_or_app. right. apply in_or_app. right. exact H. Qed.

Definition is_bimap q := match q with QBimap => true | _ => false end.
Definition is_rbimap q := match q with QReverseBimap => true | _ => false end.
Definition is_records q := match q with QRecords => true | _ => false end.

Lemma f_bimap k c : find_obs is_bimap (combine (lbattery k) (map (answer c) (lbattery k))) = Some (answer c QBimap).
Proof.
  apply (find_obs_exact c (lbattery k) is_bimap QBimap).
  - intros q; destruct q; simpl; intro H; try discriminate; reflexivity.
  - apply in_lbattery_intro. in_list.
  - reflexivity.
Qed.
Lemma f_rbimap k c : find_obs is_rbimap (combine (lbattery k) (map (answer c) (lbattery k))) = Some (answer c QReverseBimap).
Proof.
  apply (find_obs_exact c (lbattery k) is_rbimap QReverseBimap).
  - intros q; destruct q; simpl; intro H; try discriminate; reflexivity.
  - apply in_lbattery_intro. in_list.
  - reflexivity.
Qed.
Lemma f_records k c : find_obs is_records (combine (lbattery k) (map (answer c) (lbattery k))) = Some (answer c QRecords).
Proof.
  apply (find_obs_exact c (lbattery k) is_records QRecords).
  - intros q; destruct q; simpl; intro H; try discriminate; reflexivity.
  - apply in_lbattery_intro. in_list.
  - reflexivity.
Qed.

(* ---------------------------------------------------------------- dict(items) on distinct keys *)
Lemma dset_fresh {V} k (v : V) d : ~ In k (dkeys d) -> dset k v d = d ++ [(k, v)].
Proof.
  induction d as [|[a b] d IH]; simpl; intro H; auto.
  destruct (str_eqb_spec k a) as [->|Hne]; [exfalso; apply H; left; reflexivity|].
  rewrite IH; auto.
Qed.
Lemma fold_dset_fresh {V} (items : list (str * V)) : forall d, NoDup (map fst items) ->
  (forall x, In x (map fst items) -> ~ In x (dkeys d)) ->
  fold_left (fun d kv => dset (fst kv) (snd kv) d) items d = d ++ items.
Proof.
  induction items as [|[a b] items IH]; intros d N D; simpl.
  - rewrite app_nil_r. reflexivity.
  - inversion N as [|? ? Hn Hd]; subst. rewrite dset_fresh by (apply D; left; reflexivity).
    rewrite IH; auto.
    + rewrite <- app_assoc. reflexivity.
    + intros x Hx Hin. unfold dkeys in Hin. rewrite map_app in Hin. apply in_app_or in Hin as [Hin|Hin].
      * apply (D x); [right; exact Hx|exact Hin].
      * simpl in Hin. destruct Hin as [<-|[]]. contradiction.
Qed.
Lemma dict_of_nodup {V} (items : list (str * V)) : NoDup (map fst items) -> dict_of items = items.
Proof. intro N. unfold dict_of. rewrite fold_dset_fresh; auto. Qed.

Lemma bimap_items d rs c : mk_conv true d rs = Val c ->
  bimap c = map (fun r => (r_prefix r, r_uri r)) (sort_records rs) /\
  reverse_bimap c = map (fun r => (r_uri r, r_prefix r)) (sort_records rs).
Proof.
  intro Hc. pose proof (mk_conv_inv d rs c Hc) as (_ & _ & Hu & Hp & _ & Er & _).
  unfold bimap, reverse_bimap. rewrite Er. split; apply dict_of_nodup; rewrite map_map; cbn [fst].
  - apply (pairwise_nodup_map all_prefixes); auto. intro r. left; reflexivity.
  - apply (pairwise_nodup_map all_uris); auto. intro r. left; reflexivity.
Qed.

(* ---------------------------------------------------------------- C04 *)
Lemma P_C04_ok k rs c : records_of (lc_in k) = Val rs -> mk_conv true (lc_delim k) rs = Val c ->
  P_C04 k (VList [VInt 0; VList []; VList (map (answer c) (lbattery k))]) = true.
Proof.
  intros Hr Hc. unfold P_C04. rewrite Hr.
  rewrite <- (load_code_spec (lc_delim k) rs), Hc. cbn [load_code].
  change (Z.eqb 0 0) with true. change (Z.eqb 0 1) with false. change (Z.eqb 0 2) with false. cbv iota. cbn [andb].
  rewrite map_length, Nat.eqb_refl. cbn [andb].
  fold is_bimap is_rbimap. rewrite f_bimap, f_rbimap. cbn [answer vres vdict].
  destruct (bimap_items _ _ _ Hc) as [Eb Erb]. rewrite Eb, Erb.
  unfold sort_by_key. rewrite !map_length, !sort_length, !map_length. unfold sort_records, sort_by_key.
  rewrite sort_length, Nat.eqb_refl. cbn [andb].
  apply andb_true_iff. split.
  - apply forallb_forall. intros x Hx. apply in_map_iff in Hx as ([p u] & <- & Hpu). cbn [fst snd vpair].
    apply sort_In in Hpu. apply in_map_iff in Hpu as (r & E & Hr0). inversion E; subst.
    apply existsb_exists. exists (vpair (VStr (r_uri r)) (VStr (r_prefix r))). split; [|apply val_eqb_refl].
    apply in_map_iff. exists (r_uri r, r_prefix r). split; auto. apply sort_In. apply in_map_iff. exists r. auto.
  - apply forallb_combine_map. intros q _. cbn [fst snd].
    assert (A: conv_query q = true -> val_eqb (answer c q) (spec_answer rs (lc_delim k) q) = true).
    { intro Q. rewrite (answer_spec _ _ _ Hc q Q). apply val_eqb_refl. }
    destruct q; auto.
Qed.

Theorem P_C04_model : forall k : lcase, valid_l k = true -> P_C04 k (model_lobs k) = true.
Proof.
  intros k V. unfold model_lobs.
  destruct (records_of (lc_in k)) as [rs|e] eqn:Hr.
  - destruct (mk_conv true (lc_delim k) rs) as [c|e] eqn:Hc.
    + apply (P_C04_ok k rs c Hr Hc).
    + pose proof (load_code_spec (lc_delim k) rs) as L. rewrite Hc in L.
      destruct (mk_conv_raise _ _ _ Hc) as [[-> Hn]|[-> Hn]]; cbn [load_code] in L; unfold P_C04; rewrite Hr, <- L.
      * change (Z.eqb 1 1) with true. cbv iota. cbn [andb]. rewrite val_eqb_refl, listing_nonempty by exact Hn. reflexivity.
      * change (Z.eqb 2 2) with true. change (Z.eqb 2 1) with false. cbv iota. cbn [andb].
        rewrite val_eqb_refl, listing_nonempty by exact Hn. reflexivity.
  - pose proof (records_of_raise k e V Hr) as ->. unfold P_C04. rewrite Hr. reflexivity.
Qed.
Print Assumptions P_C04_model.

(* ---------------------------------------------------------------- decoding the records answer *)
Lemma as_strs_vstrs l : as_strs (vstrs l) = Some l.
Proof.
  unfold as_strs, as_list_of, vstrs. rewrite map_map.
  induction l as [|a l IH]; simpl in *; [reflexivity|]. rewrite IH. reflexivity.
Qed.
Lemma as_record_vrecord r : as_record (vrecord r) = Some r.
Proof.
  destruct r as [p u ps us pat]. unfold vrecord, as_record. cbn [r_prefix r_uri r_psyn r_usyn r_pat].
  rewrite !as_strs_vstrs. destruct pat; reflexivity.
Qed.
Lemma as_records_vrecords rs : as_records (VList (map vrecord rs)) = Some rs.
Proof.
  unfold as_records, as_list_of. rewrite map_map.
  induction rs as [|a l IH]; cbn [map all_some]; [reflexivity|]. cbv beta. rewrite as_record_vrecord, IH. reflexivity.
Qed.

Lemma obs_records_model k d rs c : mk_conv true d rs = Val c ->
  obs_records_l k (map (answer c) (lbattery k)) = Some (sort_records rs).
Proof.
  intro Hc. unfold obs_records_l. fold is_records. rewrite f_records. cbn [answer vres].
  rewrite (c_recs _ _ _ Hc), sort_records_idem. apply as_records_vrecords.
Qed.

Lemma mk_conv_sorted d rs : mk_conv true d (sort_records rs) = mk_conv true d rs.
Proof. unfold mk_conv. rewrite sort_records_idem. reflexivity. Qed.

Lemma P_C13_ok k rs c : mk_conv true (lc_delim k) rs = Val c -> denotes (lc_in k) (sort_records rs) = true ->
  P_C13 k (VList [VInt 0; VList []; VList (map (answer c) (lbattery k))]) = true.
Proof.
  intros Hc Hd. unfold P_C13. cbv iota.
  rewrite map_length, Nat.eqb_refl. cbn [andb].
  rewrite (obs_records_model k _ _ _ Hc), Hd. cbn [andb].
  assert (Hc': mk_conv true (lc_delim k) (sort_records rs) = Val c) by (rewrite mk_conv_sorted; exact Hc).
  assert (S: strictb (sort_records rs) = true) by (apply (mk_conv_iff (lc_delim k)); eauto).
  rewrite S. cbn [andb].
  apply forallb_combine_map. intros q _. cbn [fst snd].
  destruct (all_conv_queries_l q) eqn:E; auto.
  rewrite (answer_spec _ _ _ Hc' q E). apply val_eqb_refl.
Qed.

(* ---------------------------------------------------------------- denotes *)
Lemma set_eqb_refl a : set_eqb a a = true.
Proof.
  unfold set_eqb. assert (forallb (fun x => mem x a) a = true) as ->; [|reflexivity].
  apply forallb_forall. intros x Hx. apply mem_In. exact Hx.
Qed.

Lemma min_fold_const l n : (forall s : str, In s l -> n <= length s) -> fold_right (fun s m => Nat.min (length s) m) n l = n.
Proof.
  induction l as [|a l IH]; intro H; cbn [fold_right]; auto.
  rewrite IH by (intros s Hs; apply H; right; exact Hs).
  apply Nat.min_r. apply H. left; reflexivity.
Qed.
Lemma min_len_canon x l : (forall s, In s (x :: l) -> length x <= length s) -> min_len (x :: l) = length x.
Proof.
  intro H. unfold min_len. cbn [fold_right]. rewrite min_fold_const by (intros s Hs; apply H; right; exact Hs).
  apply Nat.min_id.
Qed.

Lemma dget_some_in {V} k (d : dict V) v : dget k d = Some v -> In (k, v) d.
Proof.
  induction d as [|[a b] d IH]; simpl; [discriminate|]. destruct (str_eqb_spec k a) as [->|Hne]; intro H.
  - inversion H; subst. left; reflexivity.
  - right; auto.
Qed.
Lemma find_key_nodup {V} (ctx : list (str * V)) k v : NoDup (map fst ctx) -> In (k, v) ctx ->
  List.find (fun kt => str_eqb k (fst kt)) ctx = Some (k, v).
Proof.
  induction ctx as [|[a b] ctx IH]; simpl; intros N H; [destruct H|].
  inversion N as [|? ? Hn Hd]; subst. destruct H as [E|H].
  - inversion E; subst. rewrite str_eqb_refl. reflexivity.
  - destruct (str_eqb_spec k a) as [->|Hne]; [|auto].
    exfalso. apply Hn. apply in_map_iff. exists (a, v). auto.
Qed.
Lemma jpm_nodup ctx : NoDup (dkeys (jsonld_prefix_map ctx)).
Proof.
  unfold jsonld_prefix_map. assert (G: forall pm : dict str, NoDup (dkeys pm) ->
    NoDup (dkeys (fold_left (fun pm kt => if jsonld_key_ok (fst kt)
      then match snd kt with TStr s => dset (fst kt) s pm | TPrefix id => dset (fst kt) id pm | TOther => pm end else pm) ctx pm))).
  { induction ctx as [|[a t] ctx IH]; intros pm N; cbn [fold_left]; auto. apply IH. cbn [fst snd].
    destruct (jsonld_key_ok a); auto. destruct t; auto; apply dkeys_dset_nodup; auto. }
  apply G. constructor.
Qed.

Definition keep0 (kt : str * term) : bool :=
  match fst kt with [] => false | 64%N :: _ => false | _ => match snd kt with TOther => false | _ => true end end.
Lemma keep0_spec kt : keep0 kt = jsonld_key_ok (fst kt) && match snd kt with TOther => false | _ => true end.
Proof.
  unfold keep0, jsonld_key_ok. destruct (fst kt) as [|ch k0]; [reflexivity|].
  destruct ch as [|p]; [reflexivity|].
  repeat (destruct p as [p|p|]; try reflexivity).
Qed.
Lemma denotes_jsonld_unfold ctx rs : denotes (LJsonld ctx) rs =
  forallb (fun kt => match rec_for rs (fst kt), snd kt with
                     | Some r, TStr s => str_eqb (r_uri r) s
                     | Some r, TPrefix s => str_eqb (r_uri r) s
                     | _, _ => false end) (filter keep0 ctx)
  && forallb (fun r => existsb (fun kt => keep0 kt && str_eqb (fst kt) (r_prefix r)) ctx && is_nil (r_psyn r) && is_nil (r_usyn r)) rs.
Proof. reflexivity. Qed.

Section Den.
Variables (d : str) (rs : list record) (c : conv).
Hypothesis Hc : mk_conv true d rs = Val c.
Let rs' := sort_records rs.

Lemma in_rs' r : In r rs' <-> In r rs.
Proof. apply sort_records_In. Qed.
Lemma own_p' : one_owner all_prefixes rs'.
Proof. eapply one_owner_perm; [intro r; symmetry; apply in_rs'|]. apply (mk_conv_inv d rs c Hc). Qed.
Lemma own_u' : one_owner all_uris rs'.
Proof. eapply one_owner_perm; [intro r; symmetry; apply in_rs'|]. apply (mk_conv_inv d rs c Hc). Qed.
Lemma len_rs' : length rs' = length rs.
Proof. unfold rs', sort_records, sort_by_key. apply sort_length. Qed.

Lemma rec_for_in r0 : In r0 rs -> rec_for rs' (r_prefix r0) = Some r0.
Proof.
  intro H. apply in_rs' in H. unfold rec_for. destruct (List.find _ rs') as [r|] eqn:E.
  - apply find_some in E as [Hr Hm]. apply str_eqb_eq in Hm. f_equal.
    apply (own_p' r r0 (r_prefix r0)); auto; [rewrite <- Hm|]; left; reflexivity.
  - pose proof (find_none _ _ E r0 H) as Hn. cbv beta in Hn. rewrite str_eqb_refl in Hn. discriminate.
Qed.
Lemma find_uri_in r0 : In r0 rs -> List.find (fun r => str_eqb (r_uri r) (r_uri r0)) rs' = Some r0.
Proof.
  intro H. apply in_rs' in H. destruct (List.find _ rs') as [r|] eqn:E.
  - apply find_some in E as [Hr Hm]. apply str_eqb_eq in Hm. f_equal.
    apply (own_u' r r0 (r_uri r0)); auto; [rewrite <- Hm|]; left; reflexivity.
  - pose proof (find_none _ _ E r0 H) as Hn. cbv beta in Hn. rewrite str_eqb_refl in Hn. discriminate.
Qed.

Lemma denotes_records : denotes (LRecords rs) rs' = true.
Proof.
  cbn [denotes]. rewrite len_rs', Nat.eqb_refl. cbn [andb].
  apply forallb_forall. intros r0 Hr0. rewrite (rec_for_in r0 Hr0).
  rewrite str_eqb_refl, !set_eqb_refl, val_eqb_refl. reflexivity.
Qed.

Lemma denotes_prefix_map pm : rs = map (fun pu => rec0 (fst pu) (snd pu) [] [] None) pm -> denotes (LPrefixMap pm) rs' = true.
Proof.
  intro E. cbn [denotes]. rewrite len_rs'. rewrite E at 1. rewrite map_length, Nat.eqb_refl. cbn [andb].
  apply forallb_forall. intros pu Hpu.
  assert (Hin: In (rec0 (fst pu) (snd pu) [] [] None) rs) by (rewrite E; apply in_map_iff; exists pu; auto).
  pose proof (rec_for_in _ Hin) as F. cbn [r_prefix rec0] in F. rewrite F. cbn [r_uri r_psyn r_usyn rec0 is_nil].
  rewrite str_eqb_refl. reflexivity.
Qed.

Lemma denotes_priority pm : records_of_priority_map pm = Val rs -> denotes (LPriority pm) rs' = true.
Proof.
  intro E. apply priority_map_records in E as [L N]. cbn [denotes]. rewrite len_rs', L, Nat.eqb_refl. cbn [andb].
  apply forallb_forall. intros [p us] Hpu. apply In_nth_error in Hpu as [n Hn].
  destruct (N n p us Hn) as (u & rest & -> & _ & Hr). apply nth_error_In in Hr.
  pose proof (rec_for_in _ Hr) as F. cbn [r_prefix rec0] in F. cbn [fst snd]. rewrite F. cbn [r_uri r_psyn r_usyn rec0 is_nil].
  rewrite str_eqb_refl, set_eqb_refl. reflexivity.
Qed.

Lemma denotes_reverse rpm : records_of_reverse_map rpm = Val rs -> denotes (LReverse rpm) rs' = true.
Proof.
  intro E. apply reverse_map_records in E as [A B]. cbn [denotes]. apply andb_true_iff. split.
  - apply forallb_forall. intros [u p] Hup. destruct (A u p Hup) as (r & Hr & Ep & Hu & Hmin & Es). cbn [fst snd].
    rewrite <- Ep, (rec_for_in r Hr). rewrite (proj2 (mem_In u (all_uris r)) Hu). cbn [andb].
    unfold all_uris at 1. rewrite min_len_canon by exact Hmin. rewrite Nat.eqb_refl, Es. reflexivity.
  - apply forallb_forall. intros r Hr. apply in_rs' in Hr. apply forallb_forall. intros u Hu.
    apply existsb_exists. exists (u, r_prefix r). split; [apply B; auto|]. cbn [fst snd]. rewrite !str_eqb_refl. reflexivity.
Qed.

Lemma denotes_jsonld ctx : NoDup (map fst ctx) -> rs = map (fun pu => rec0 (fst pu) (snd pu) [] [] None) (jsonld_prefix_map ctx) ->
  denotes (LJsonld ctx) rs' = true.
Proof.
  intros N E. rewrite denotes_jsonld_unfold. apply andb_true_iff. split.
  - apply forallb_forall. intros [k0 t] Hkt. apply filter_In in Hkt as [Hin Hk]. rewrite keep0_spec in Hk. cbn [fst snd] in *.
    apply andb_true_iff in Hk as [Hok Ht].
    pose proof (jsonld_terms ctx k0 N) as T. rewrite (find_key_nodup ctx k0 t N Hin), Hok in T.
    assert (R: forall s, dget k0 (jsonld_prefix_map ctx) = Some s -> rec_for rs' k0 = Some (rec0 k0 s [] [] None)).
    { intros s Hs. apply dget_some_in in Hs.
      assert (Hr: In (rec0 k0 s [] [] None) rs) by (rewrite E; apply in_map_iff; exists (k0, s); auto).
      apply (rec_for_in _ Hr). }
    destruct t as [s|s|]; [| |discriminate]; rewrite (R s T); cbn [r_uri rec0]; apply str_eqb_refl.
  - apply forallb_forall. intros r Hr. apply in_rs' in Hr. rewrite E in Hr. apply in_map_iff in Hr as ([k0 s] & <- & Hks).
    cbn [fst snd r_prefix r_psyn r_usyn rec0 is_nil]. rewrite !andb_true_r.
    pose proof (in_dict_dget _ _ _ (jpm_nodup ctx) Hks) as G. rewrite (jsonld_terms ctx k0 N) in G.
    destruct (List.find (fun kt => str_eqb k0 (fst kt)) ctx) as [[k1 t]|] eqn:F; [|discriminate].
    apply find_some in F as [Hin Hk]. cbn [fst] in Hk. apply str_eqb_eq in Hk. subst k1.
    apply existsb_exists. exists (k0, t). split; auto. rewrite keep0_spec. cbn [fst snd]. rewrite str_eqb_refl, andb_true_r.
    destruct t as [s'|s'|]; [| |discriminate]; destruct (jsonld_key_ok k0); try discriminate; reflexivity.
Qed.

Lemma denotes_upgrade pm : NoDup (map fst pm) -> rs = map (group_rec pm) (sort_uniq (map snd pm)) -> denotes (LUpgrade pm) rs' = true.
Proof.
  intros N E. cbn [denotes]. apply andb_true_iff. split.
  - apply forallb_forall. intros [p u] Hpu. cbn [fst snd].
    destruct (upgrade_members pm p u N Hpu) as (Hr & Eu & Es & Hp & _ & Hle). rewrite <- E in Hr.
    pose proof (find_uri_in _ Hr) as F. rewrite Eu in F. rewrite F.
    rewrite (proj2 (mem_In _ _) Hp), Es. cbn [is_nil andb]. rewrite andb_true_r.
    apply forallb_forall. exact Hle.
  - apply forallb_forall. intros r Hr. apply in_rs' in Hr. rewrite E in Hr. apply in_map_iff in Hr as (u & <- & Hu).
    apply (proj1 (sort_uniq_In _ _)) in Hu. apply in_map_iff in Hu as ([p0 u0] & Eu0 & Hin). cbn [snd] in Eu0. subst u0.
    destruct (upgrade_members pm p0 u N Hin) as (_ & Eu & _ & _ & Q & _).
    apply forallb_forall. intros p Hp. apply Q in Hp. apply existsb_exists. exists (p, u). split; auto.
    cbn [fst snd]. rewrite Eu, !str_eqb_refl. reflexivity.
Qed.
End Den.

Lemma denotes_ok k rs c : valid_l k = true -> records_of (lc_in k) = Val rs -> mk_conv true (lc_delim k) rs = Val c ->
  denotes (lc_in k) (sort_records rs) = true.
Proof.
  destruct k as [i d ss ps]. unfold valid_l. cbn [lc_in lc_delim]. intros V Hr Hc.
  apply andb_true_iff in V as [_ V].
  destruct i as [rs0|rs0|pm|pm|rpm|ctx|pm]; cbn [records_of] in Hr.
  - inversion Hr; subst. apply (denotes_records d rs c Hc).
  - apply epm_records in Hr as [-> _]. apply (denotes_records d rs0 c Hc).
  - rewrite prefix_map_records in Hr. inversion Hr as [E]. rewrite E. apply (denotes_prefix_map d rs c Hc). auto.
  - apply (denotes_priority d rs c Hc). exact Hr.
  - apply (denotes_reverse d rs c Hc). exact Hr.
  - rewrite jsonld_records in Hr. inversion Hr as [E]. rewrite E.
    apply (denotes_jsonld d rs c Hc); auto. apply dict_keys_unique_spec; exact V.
  - pose proof (dict_keys_unique_spec _ V) as N. rewrite upgrade_canonical in Hr by exact N. inversion Hr as [E]. rewrite E.
    apply (denotes_upgrade d rs c Hc); auto.
Qed.

Theorem P_C13_model : forall k : lcase, valid_l k = true -> P_C13 k (model_lobs k) = true.
Proof.
  intros k V. pose proof (P_C04_model k V) as P4. unfold model_lobs in *.
  destruct (records_of (lc_in k)) as [rs|e] eqn:Hr.
  - destruct (mk_conv true (lc_delim k) rs) as [c|e] eqn:Hc.
    + apply (P_C13_ok k rs c Hc). apply (denotes_ok k rs c V Hr Hc).
    + assert (NU: forall pm, lc_in k = LUpgrade pm -> False).
      { intros pm Ei. rewrite Ei in Hr. cbn [records_of] in Hr.
        assert (N: NoDup (map fst pm)).
        { unfold valid_l in V. rewrite Ei in V. apply andb_true_iff in V as [_ V]. apply dict_keys_unique_spec; exact V. }
        destruct (upgrade_strict (lc_delim k) pm N) as (rs0 & c0 & E1 & E2). rewrite Hr in E1. inversion E1; subst. congruence. }
      destruct (mk_conv_raise _ _ _ Hc) as [[-> Hn]|[-> Hn]]; unfold P_C13; cbv iota;
        destruct (lc_in k) eqn:Ei; try exact P4; exfalso; eapply NU; reflexivity.
  - pose proof (records_of_raise k e V Hr) as ->. cbn [load_code] in *. unfold P_C13. cbv iota.
    destruct (lc_in k) eqn:Ei; try exact P4. exfalso. cbn [records_of] in Hr.
    assert (N: NoDup (map fst pm)).
    { unfold valid_l in V. rewrite Ei in V. apply andb_true_iff in V as [_ V]. apply dict_keys_unique_spec; exact V. }
    rewrite upgrade_canonical in Hr by exact N. discriminate.
Qed.
Print Assumptions P_C13_model.

(* Correctness of the derivative matcher against the declarative semantics. *)
From Coq Require Import Lia.
From Curies.model Require Import Str Regex.

Section R.
Variable isspace_c : chr -> bool.
Notation cs_mem := (cs_mem isspace_c).
Notation deriv := (deriv isspace_c).

Inductive matches : re -> str -> Prop :=
| MEps : matches Eps []
| MChr cs c : cs_mem c cs = true -> matches (Chr cs) [c]
| MCat a b s t : matches a s -> matches b t -> matches (Cat a b) (s ++ t)
| MAltL a b s : matches a s -> matches (Alt a b) s
| MAltR a b s : matches b s -> matches (Alt a b) s
| MStar0 a : matches (Star a) []
| MStarS a s t : matches a s -> matches (Star a) t -> matches (Star a) (s ++ t).

Lemma matches_cat_nil a b : matches (Cat a b) [] -> matches a [] /\ matches b [].
Proof.
  intro H. inversion H as [| |a' b' s t Ha Hb Heq| | | |]; subst.
  match goal with E : _ ++ _ = [] |- _ => apply app_eq_nil in E as [-> ->] end. auto.
Qed.
Lemma nullable_ok r : nullable r = true <-> matches r [].
Proof.
  induction r as [| |cs|a IHa b IHb|a IHa b IHb|a IHa]; simpl; split; intro H.
  - discriminate.
  - inversion H.
  - constructor.
  - reflexivity.
  - discriminate.
  - inversion H.
  - apply andb_true_iff in H as [H1 H2]. change (@nil chr) with (@nil chr ++ []). constructor; [apply IHa|apply IHb]; auto.
  - apply matches_cat_nil in H as [Ha Hb]. apply andb_true_iff; split; [apply IHa|apply IHb]; auto.
  - apply orb_true_iff in H as [H|H]; [apply MAltL, IHa|apply MAltR, IHb]; auto.
  - inversion H; subst; apply orb_true_iff; [left; apply IHa|right; apply IHb]; auto.
  - constructor.
  - reflexivity.
Qed.

Lemma star_cons a c s : matches (Star a) (c :: s) -> exists s1 s2, s = s1 ++ s2 /\ matches a (c :: s1) /\ matches (Star a) s2.
Proof.
  intro H. remember (Star a) as r eqn:Er. remember (c :: s) as w eqn:Ew. revert c s Ew.
  induction H; intros c0 s0 Ew; try discriminate.
  inversion Er; subst a0. destruct s as [|x s'].
  - simpl in Ew. apply IHmatches2; auto.
  - simpl in Ew. inversion Ew; subst. exists s', t. auto.
Qed.

Lemma cat_inv a b w : matches (Cat a b) w -> exists s t, w = s ++ t /\ matches a s /\ matches b t.
Proof. intro H. inversion H as [| |a' b' s t Ha Hb| | | |]; subst. eauto. Qed.
Lemma alt_inv a b w : matches (Alt a b) w -> matches a w \/ matches b w.
Proof. intro H. inversion H; subst; auto. Qed.
Lemma chr_inv cs w : matches (Chr cs) w -> exists c, w = [c] /\ cs_mem c cs = true.
Proof. intro H. inversion H; subst. eauto. Qed.
Lemma eps_inv w : matches Eps w -> w = [].
Proof. intro H. inversion H; auto. Qed.
Lemma empty_inv w : ~ matches Empty w.
Proof. intro H. inversion H. Qed.

Lemma deriv_ok r : forall c s, matches (deriv c r) s <-> matches r (c :: s).
Proof.
  induction r as [| |cs|a IHa b IHb|a IHa b IHb|a IHa]; intros c s; simpl.
  - split; intro H; exfalso; eapply empty_inv; eauto.
  - split; intro H; [exfalso; eapply empty_inv; eauto|apply eps_inv in H; discriminate].
  - destruct (cs_mem c cs) eqn:E; split; intro H.
    + apply eps_inv in H. subst. constructor; auto.
    + apply chr_inv in H as (c' & Hw & Hm). inversion Hw; subst. constructor.
    + exfalso; eapply empty_inv; eauto.
    + apply chr_inv in H as (c' & Hw & Hm). inversion Hw; subst. congruence.
  - destruct (nullable a) eqn:N1.
    + split; intro H.
      * apply alt_inv in H as [H|H].
        -- apply cat_inv in H as (s1 & t & -> & Ha & Hb). change (c :: s1 ++ t) with ((c :: s1) ++ t).
           constructor; auto. apply IHa; auto.
        -- change (c :: s) with ([] ++ c :: s). constructor; [apply nullable_ok; auto|apply IHb; auto].
      * apply cat_inv in H as (s1 & t & Hw & Ha & Hb). destruct s1 as [|x s1']; simpl in Hw.
        -- subst t. apply MAltR, IHb; auto.
        -- inversion Hw; subst. apply MAltL. constructor; auto. apply IHa; auto.
    + split; intro H.
      * apply cat_inv in H as (s1 & t & -> & Ha & Hb). change (c :: s1 ++ t) with ((c :: s1) ++ t).
        constructor; auto. apply IHa; auto.
      * apply cat_inv in H as (s1 & t & Hw & Ha & Hb). destruct s1 as [|x s1']; simpl in Hw.
        -- apply nullable_ok in Ha. congruence.
        -- inversion Hw; subst. constructor; auto. apply IHa; auto.
  - split; intro H; apply alt_inv in H as [H|H]; [apply MAltL, IHa|apply MAltR, IHb|apply MAltL, IHa|apply MAltR, IHb]; auto.
  - split; intro H.
    + apply cat_inv in H as (s1 & t & -> & Ha & Hb). change (c :: s1 ++ t) with ((c :: s1) ++ t).
      apply MStarS; auto. apply IHa; auto.
    + apply star_cons in H as (s1 & s2 & -> & H1 & H2). constructor; auto. apply IHa; auto.
Qed.

Lemma fullmatchb_ok : forall s r, fullmatchb isspace_c r s = true <-> matches r s.
Proof. induction s; intros r; simpl; [apply nullable_ok| rewrite IHs; apply deriv_ok]. Qed.

Lemma matchb_ok dollar : forall s r, matchb isspace_c dollar r s = true <->
  exists p q, s = p ++ q /\ matches r p /\ rest_ok dollar q = true.
Proof.
  induction s as [|c t IH]; intros r; simpl.
  - rewrite orb_false_r, andb_true_iff. split.
    + intros [H1 H2]. exists [], []. repeat split; auto. apply nullable_ok; auto.
    + intros (p & q & E & H1 & H2). symmetry in E. apply app_eq_nil in E as [-> ->]. split; auto. apply nullable_ok; auto.
  - rewrite orb_true_iff, andb_true_iff, IH. split.
    + intros [[H1 H2]|(p & q & E & H1 & H2)].
      * exists [], (c :: t). repeat split; auto. apply nullable_ok; auto.
      * exists (c :: p), q. subst. repeat split; auto. apply deriv_ok; auto.
    + intros (p & q & E & H1 & H2). destruct p as [|x p'].
      * left. simpl in E. subst. split; auto. apply nullable_ok; auto.
      * right. simpl in E. inversion E; subst. exists p', q. repeat split; auto. apply deriv_ok; auto.
Qed.

Lemma star_chr_forall cs p : matches (Star (Chr cs)) p <-> forallb (fun c => cs_mem c cs) p = true.
Proof.
  split.
  - intro H. remember (Star (Chr cs)) as r eqn:Er. induction H; try discriminate; auto.
    inversion Er; subst. apply chr_inv in H as (c & -> & Hm). simpl. rewrite Hm. simpl. apply IHmatches2; auto.
  - induction p as [|c p IH]; simpl; intro H.
    + constructor.
    + apply andb_true_iff in H as [H1 H2]. change (c :: p) with ([c] ++ p). apply MStarS; [constructor; auto|auto].
Qed.
End R.

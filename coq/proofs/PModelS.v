(* The executable predicate P_C18 accepts the model's own observation on every valid case: the link between the C18
   theorems (negotiate_spec) and what the run evaluates on the implementation. *)
From Coq Require Import List Bool Arith NArith ZArith Lia.
From Curies.model Require Import Str PyData Trie Conv Query Val Answer Spec CheckQ Mapping.
From Curies.proofs Require Import CheckFacts MappingFacts.
Import ListNotations.

Lemma forallb_combine_map_S {A B} (f : A -> B) (P : A * B -> bool) l :
  (forall x, In x l -> P (x, f x) = true) -> forallb P (combine l (map f l)) = true.
Proof.
  induction l as [|a l IH]; cbn [map combine forallb]; intro H; auto.
  rewrite H by (left; reflexivity). cbn [andb]. apply IH. intros x Hx; apply H; right; exact Hx.
Qed.

Theorem P_C18_model : forall k : scase, valid_s k = true -> P_C18 k (model_sobs k) = true.
Proof.
  intros k Hv. unfold valid_s in Hv. apply andb_true_iff in Hv. destruct Hv as [_ Hlen].
  apply Nat.eqb_eq in Hlen.
  unfold model_sobs, P_C18.
  rewrite !map_length, combine_length, Hlen, Nat.min_id, !Nat.eqb_refl. cbn [andb].
  repeat (apply andb_true_iff; split).
  - apply forallb_combine_map_S. intros [[u b] r] _. cbn [fst snd]. apply val_eqb_refl.
  - apply forallb_combine_map_S. intros h _. rewrite negotiate_spec.
    pose proof (negotiate_acceptable_spec h) as A. destruct (spec_negotiate h) as [x|]; cbn [vopt]; exact A.
Qed.
Print Assumptions P_C18_model.
